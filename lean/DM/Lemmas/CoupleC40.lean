import DM.Lemmas.Couple
/-!
# Planner / encoder coupling for C40 and Text

`SwitchSeg .c40/.text` and `EndSeg .c40/.text` of `Couple.lean` are false as stated (`switchSeg_c40_false`,
`endSeg_c40_false` at the end of this file).  Proved here, generically in the flag `text`:

* `switchSegC40'` : `SwitchSegC40' text` -- `SwitchSeg` with the two extra hypotheses `digitSplit = false`,
  `digitTail = false` (the encoder's two-digit special cases), exact conclusions, plus `w + 2 ≤ ctx'.written`;
* `switchSegC40Tail` : the `digitTail` case with `m' = .ascii`, `rest = [(0, .ascii)]` (e.g. "AAA12" = C40 then
  ASCII for the two final digits): the planned state is reached with `cw.length ∈ {written - 1, written}`;
* `endSegC40'` : `EndSegC40' text` -- `EndSeg` with the count inequality replaced by "fits the symbol the
  planner predicts" and `w ≤ s'.cw.length`.

Shared quantities: `NV text body p j` = number of C40 values of the `j` characters from `p`; the planner
invariant `PInv` (`written = w + 2 * (N / 3) + 2 * ((values + unbeatableReads) / 3)`, `cost = 24 * (N / 3)`,
`values = N % 3`) and the encoder loop lemma `loop_run` (`cw.length = w + 2 * (N / 3)`, buffer `N % 3`).
-/
namespace DM.Lemmas.CoupleC40
open DM.Model DM.Model.Plan DM.Model.Enc DM.Lemmas.AsciiRT DM.Lemmas.PlanInv DM.Lemmas.Couple

/-! ### the number of values per character -/

/-- `to_vals` on an empty buffer succeeds and appends exactly `val_size` values -/
def valsOK (text : Bool) (b : Nat) : Bool :=
  match toVals text [] b with
  | .ok v => v.length == c40ValSize text b
  | .error _ => false

theorem vals_ok_all : (List.range 256).all (fun b => valsOK false b && valsOK true b) = true := by
  decide +kernel

theorem toVals_len (text : Bool) (buf : List Nat) (b : Nat) (hb : b < 256) (hl : buf.length ≤ 2) :
    ∃ buf1, toVals text buf b = .ok buf1 ∧ buf1.length = buf.length + c40ValSize text b := by
  have h := vals_ok_all
  rw [List.all_eq_true] at h
  have hb' := h b (List.mem_range.mpr hb)
  simp only [Bool.and_eq_true] at hb'
  have hp : valsOK text b = true := by cases text; exact hb'.1; exact hb'.2
  have hle := c40ValSize_le text b
  unfold valsOK at hp
  unfold toVals at hp ⊢
  simp only [] at hp ⊢
  generalize (if b ≤ 127 then (if text = true then textLow else c40Low) b
    else match (if text = true then textLow else c40Low) (b - 128) with
      | .ok v => .ok ([1, 30] ++ v)
      | .error e => .error e) = r at hp ⊢
  cases r with
  | error e => simp at hp
  | ok v =>
    simp only [List.nil_append] at hp
    split at hp
    · rename_i v2 heq
      simp only [beq_iff_eq] at hp
      have hv2 : v = v2 := by
        split at heq
        · cases heq
        · simpa using heq
      subst hv2
      simp only []
      rw [if_neg (by simp only [List.length_append]; omega)]
      exact ⟨_, rfl, by simp only [List.length_append]; omega⟩
    · simp at hp

/-! ### encoder: one iteration of the loop, lengths only -/

theorem writeThree_len (s : St) (a b c : Nat) :
    writeThree s a b c = { s with cw := (writeThree s a b c).cw } ∧ (writeThree s a b c).cw.length = s.cw.length + 2 := by
  simp [writeThree, St.push]

theorem flush_len : ∀ (f : Nat) (s : St) (buf : List Nat), buf.length < 3 * f + 3 →
    (flushTriples f s buf).1 = { s with cw := (flushTriples f s buf).1.cw } ∧
    (flushTriples f s buf).1.cw.length = s.cw.length + 2 * (buf.length / 3) ∧
    (flushTriples f s buf).2.length = buf.length % 3 := by
  intro f
  induction f with
  | zero =>
    intro s buf hl
    exact ⟨rfl, by simp only [flushTriples]; omega, by simp only [flushTriples]; omega⟩
  | succ f ih =>
    intro s buf hl
    match buf, hl with
    | a :: b :: c :: t, hl =>
      simp only [flushTriples]
      obtain ⟨w1, w2⟩ := writeThree_len s a b c
      obtain ⟨i1, i2, i3⟩ := ih (writeThree s a b c) t (by simp only [List.length_cons] at hl; omega)
      refine ⟨?_, ?_, ?_⟩
      · rw [i1, w1]
      · rw [i2, w2]; simp only [List.length_cons]; omega
      · rw [i3]; simp only [List.length_cons]; omega
    | [], _ => simp [flushTriples]
    | [_], _ => simp [flushTriples]
    | [_, _], _ => simp [flushTriples]

theorem loop_step (text : Bool) (body : List Nat) (hb : ByteList body) (f pos : Nat) (m : EMode)
    (plan : List (Nat × EMode)) (nm : Option Nat) (cw : List Nat) (list : List Sym) (buf : List Nat) (lastCh : Nat)
    (hpos : pos < body.length) (hbuf : buf.length ≤ 2)
    (hnd : ¬ (buf = [] ∧ isDigit body[pos] = true ∧ pos + 2 = body.length ∧ isDigit (body.getD (pos + 1) 0) = true)) :
    ∃ cw2 buf2, cw2.length = cw.length + 2 * ((buf.length + c40ValSize text body[pos]) / 3) ∧
      buf2.length = (buf.length + c40ValSize text body[pos]) % 3 ∧
      c40Loop text (f + 1) ⟨body, pos, m, plan, nm, cw, list⟩ buf lastCh =
        match (⟨body, pos + 1, m, plan, nm, cw2, list⟩ : St).maybeSwitch with
        | .error e => .error e
        | .ok (true, s3) => c40HandleEnd s3 body[pos] buf2
        | .ok (false, s3) => c40Loop text f s3 buf2 body[pos] := by
  have hbyte : body[pos] < 256 := hb _ (List.getElem_mem hpos)
  obtain ⟨buf1, hv1, hv2⟩ := toVals_len text buf body[pos] hbyte hbuf
  have hvs := c40ValSize_le text body[pos]
  obtain ⟨f1, f2, f3⟩ := flush_len 3 ⟨body, pos + 1, m, plan, nm, cw, list⟩ buf1 (by omega)
  simp only [] at f1 f2
  refine ⟨(flushTriples 3 ⟨body, pos + 1, m, plan, nm, cw, list⟩ buf1).1.cw,
    (flushTriples 3 ⟨body, pos + 1, m, plan, nm, cw, list⟩ buf1).2, ?_, ?_, ?_⟩
  · rw [f2, hv2]
  · rw [f3, hv2]
  · rw [c40Loop]
    simp only [St.eat, List.getElem?_eq_getElem hpos]
    rw [if_neg]
    · simp only [hv1]
      generalize flushTriples 3 ⟨body, pos + 1, m, plan, nm, cw, list⟩ buf1 = r at f1
      obtain ⟨s2, b2⟩ := r
      simp only [] at f1 ⊢
      rw [f1]
      rfl
    · intro hc
      simp only [Bool.and_eq_true, List.isEmpty_iff] at hc
      obtain ⟨⟨h1, h2⟩, h3⟩ := hc
      apply hnd
      refine ⟨h1, h2, ?_⟩
      simp only [St.rest] at h3
      split at h3
      · rename_i d hd
        have hlen : (body.drop (pos + 1)).length = 1 := by rw [hd]; rfl
        simp only [List.length_drop] at hlen
        have hp1 : pos + 1 < body.length := by omega
        rw [List.drop_eq_getElem_cons hp1] at hd
        simp only [List.cons.injEq] at hd
        refine ⟨by omega, ?_⟩
        simp only [List.getD, List.getElem?_eq_getElem hp1, Option.getD_some, hd.1, h3]
      · cases h3

/-! ### `maybe_switch_mode` on explicit states -/

theorem ms_stay (body : List Nat) (pos : Nat) (m : EMode) (at_ : Nat) (mm : EMode) (rest : List (Nat × EMode))
    (nm : Option Nat) (cw : List Nat) (list : List Sym)
    (h : at_ = 0 ∨ at_ < body.length - pos) :
    (⟨body, pos, m, (at_, mm) :: rest, nm, cw, list⟩ : St).maybeSwitch =
      .ok (false, ⟨body, pos, m, (at_, mm) :: rest, nm, cw, list⟩) := by
  unfold St.maybeSwitch
  have h1 : ¬ body.length - pos < at_ := by omega
  have : ¬ (body.length - pos > 0 ∧ body.length - pos = at_) := by omega
  simp only [St.charsLeft, h1, this, ↓reduceIte, ne_eq, not_true_eq_false]

theorem ms_switch (body : List Nat) (pos : Nat) (m : EMode) (at_ : Nat) (mm : EMode) (rest : List (Nat × EMode))
    (cw : List Nat) (list : List Sym)
    (h : body.length - pos = at_) (h0 : 0 < at_) (hne : mm ≠ m) :
    (⟨body, pos, m, (at_, mm) :: rest, none, cw, list⟩ : St).maybeSwitch =
      .ok (true, ⟨body, pos, mm, rest, mm.latch, cw, list⟩) := by
  unfold St.maybeSwitch
  subst h
  simp only [St.charsLeft, Nat.lt_irrefl, gt_iff_lt, h0, and_self, ↓reduceIte, ne_eq, hne, not_false_eq_true]
  cases mm <;> rfl

/-! ### the number of values of a stretch of the message -/

/-- values of the `d` characters from position `a` -/
def NV (text : Bool) (body : List Nat) (a d : Nat) : Nat := (((body.drop a).take d).map (c40ValSize text)).sum

theorem NV_zero (text : Bool) (body : List Nat) (a : Nat) : NV text body a 0 = 0 := by simp [NV]

theorem NV_succ (text : Bool) (body : List Nat) (a d : Nat) (h : a + d < body.length) :
    NV text body a (d + 1) = NV text body a d + c40ValSize text body[a + d] := by
  unfold NV
  rw [List.take_add_one]
  have : (body.drop a)[d]? = some body[a + d] := by
    rw [List.getElem?_drop, List.getElem?_eq_getElem h]
  rw [this]
  simp

/-- the encoder leaves the loop early at `pos`: buffer empty, exactly two digits left -/
def DigitExit (text : Bool) (body : List Nat) (p j : Nat) : Prop :=
  p + j + 2 = body.length ∧ twoDigitsComing (body.drop (p + j)) = true ∧ NV text body p j % 3 = 0

/-- `d` iterations of the loop without a planned switch and without the two-digit exit -/
theorem loop_run (text : Bool) (body : List Nat) (hb : ByteList body) (m : EMode) (at_ : Nat) (mm : EMode)
    (rest : List (Nat × EMode)) (nm : Option Nat) (list : List Sym) (p : Nat) (cw : List Nat) (lastCh : Nat) :
    ∀ (d fuel : Nat), p + d ≤ body.length → (at_ = 0 ∨ at_ < body.length - (p + d)) →
      (∀ j, j < d → ¬ DigitExit text body p j) →
      ∃ cw' buf', cw'.length = cw.length + 2 * (NV text body p d / 3) ∧ buf'.length = NV text body p d % 3 ∧
        c40Loop text (fuel + d) ⟨body, p, m, (at_, mm) :: rest, nm, cw, list⟩ [] lastCh =
          c40Loop text fuel ⟨body, p + d, m, (at_, mm) :: rest, nm, cw', list⟩ buf'
            (if d = 0 then lastCh else body.getD (p + d - 1) 0) := by
  intro d
  induction d with
  | zero =>
    intro fuel _ _ _
    exact ⟨cw, [], by simp [NV_zero], by simp [NV_zero], rfl⟩
  | succ d ih =>
    intro fuel hle hat hnd
    obtain ⟨cw1, buf1, c1, b1, e1⟩ := ih (fuel + 1) (by omega) (by omega) (fun j hj => hnd j (by omega))
    have hpos : p + d < body.length := by omega
    have hnd1 : ¬ (buf1 = [] ∧ isDigit body[p + d] = true ∧ p + d + 2 = body.length ∧
        isDigit (body.getD (p + d + 1) 0) = true) := by
      intro ⟨h1, h2, h3, h4⟩
      apply hnd d (by omega)
      refine ⟨h3, ?_, ?_⟩
      · have hp1 : p + d + 1 < body.length := by omega
        rw [List.drop_eq_getElem_cons hpos, List.drop_eq_getElem_cons hp1]
        simp only [twoDigitsComing, h2, Bool.true_and]
        simpa [List.getD, List.getElem?_eq_getElem hp1] using h4
      · rw [h1] at b1; simp only [List.length_nil] at b1; omega
    obtain ⟨cw2, buf2, c2, b2, e2⟩ := loop_step text body hb fuel (p + d) m ((at_, mm) :: rest) nm cw1 list buf1
      (if d = 0 then lastCh else body.getD (p + d - 1) 0) hpos (by omega) hnd1
    have hnv := NV_succ text body p d hpos
    refine ⟨cw2, buf2, by omega, by omega, ?_⟩
    have hf : fuel + (d + 1) = fuel + 1 + d := by omega
    rw [hf, e1, e2, ms_stay body (p + d + 1) m at_ mm rest nm cw2 list (by omega)]
    simp only [Nat.add_eq_zero_iff, Nat.succ_ne_self, and_false, ↓reduceIte]
    have : p + (d + 1) - 1 = p + d := by omega
    rw [this]
    simp [List.getD, List.getElem?_eq_getElem hpos, Nat.add_assoc]

/-! ### `handle_end` at a planned switch -/

theorem writeThree_mk (body : List Nat) (pos : Nat) (m : EMode) (plan : List (Nat × EMode)) (nm : Option Nat)
    (cw : List Nat) (list : List Sym) (a b c : Nat) :
    writeThree ⟨body, pos, m, plan, nm, cw, list⟩ a b c =
      ⟨body, pos, m, plan, nm, cw ++ [(1600 * a + 40 * b + c + 1) % 65536 / 256, (1600 * a + 40 * b + c + 1) % 65536 % 256], list⟩ := by
  simp [writeThree, St.push]

theorem handleEnd_switch (body : List Nat) (pos : Nat) (m : EMode) (plan : List (Nat × EMode)) (nm : Option Nat)
    (cw : List Nat) (list : List Sym) (lastCh : Nat) (buf : List Nat) (hpos : pos < body.length) (hbuf : buf.length ≤ 2)
    (hnt : ¬ (body.length - pos = 2 ∧ twoDigitsComing (body.drop pos) = true)) :
    ∃ cw', cw'.length = cw.length + (if buf.length = 0 then 1 else 3) ∧
      c40HandleEnd ⟨body, pos, m, plan, nm, cw, list⟩ lastCh buf = .ok ⟨body, pos, m, plan, nm, cw', list⟩ := by
  unfold c40HandleEnd
  rw [if_neg (show ¬ buf.length > 2 by omega)]
  have hm : (⟨body, pos, m, plan, nm, cw, list⟩ : St).hasMore = true := by simp [St.hasMore, hpos]
  simp only [hm, Bool.not_true, Bool.false_eq_true, ↓reduceIte]
  cases buf with
  | nil =>
    simp only [List.isEmpty_nil, Bool.not_true, Bool.false_eq_true, ↓reduceIte, St.charsLeft, St.rest]
    rw [if_pos (show body.length - pos > 0 by omega), if_neg hnt]
    exact ⟨_, by simp, rfl⟩
  | cons a t =>
    simp only [List.isEmpty_cons, Bool.not_false, ↓reduceIte]
    simp only [writeThree_mk, St.charsLeft, St.rest]
    rw [if_pos (show body.length - pos > 0 by omega), if_neg hnt]
    exact ⟨_, by simp, rfl⟩

/-! ### planner: the look-ahead -/

theorem strike_go_le (nice : Nat → Bool) : ∀ (l : List Nat) (cd reads : Nat),
    unbeatableStrike.go nice l cd reads ≤ reads + (l.takeWhile nice).length := by
  intro l
  induction l with
  | nil => intro cd reads; simp [unbeatableStrike.go]
  | cons ch t ih =>
    intro cd reads
    unfold unbeatableStrike.go
    by_cases hn : nice ch = true
    · simp only [hn, Bool.not_true, Bool.false_eq_true, ↓reduceIte, List.takeWhile_cons, List.length_cons]
      split
      · split
        · omega
        · have := ih (cd + 1) (reads + 1); omega
      · have := ih 0 (reads + 1); omega
    · simp only [hn, Bool.not_false, ↓reduceIte]; omega

theorem strike_le (nice : Nat → Bool) (l : List Nat) : unbeatableStrike nice l ≤ (l.takeWhile nice).length := by
  unfold unbeatableStrike
  have := strike_go_le nice l 0 0
  omega

theorem strike_mod (nice : Nat → Bool) (l : List Nat) : unbeatableStrike nice l % 3 = 0 := by
  unfold unbeatableStrike
  omega

theorem valSize_base (text : Bool) (ch : Nat) (h : c40InBase text ch = true) : c40ValSize text ch = 1 := by
  have hlt : ch < 128 := by
    unfold c40InBase isDigit at h
    cases text <;> simp at h <;> omega
  unfold c40ValSize
  simp only [ge_iff_le, show ¬ 128 ≤ ch by omega, ↓reduceIte, h, Nat.zero_add]

/-- `symbol_size_left` as a function of the codewords accounted for -/
def szLeft (list : List Sym) (n : Nat) : Option Nat :=
  match firstBigEnough list n with
  | some s => some (dataCw s - n)
  | none => none

theorem ctx_sizeLeft (c : Ctx) (e : Nat) : c.sizeLeft e = szLeft c.list (c.written + e) := rfl
theorem st_sizeLeft (s : St) (e : Nat) : s.sizeLeft e = szLeft s.list (s.cw.length + e) := rfl

theorem planFlush (u : Bool) : ∀ (f : Nat) (q : C40P), q.values < 3 * f + 3 →
    c40Flush u f q = { q with values := q.values % 3, cost := q.cost + 24 * (q.values / 3),
                              ctx := if u then q.ctx else q.ctx.write (2 * (q.values / 3)) } := by
  intro f
  induction f with
  | zero =>
    intro q h
    obtain ⟨ctx, text, values, ur, ch, td, cost⟩ := q
    simp only [] at h
    have h1 : values % 3 = values := by omega
    have h2 : values / 3 = 0 := by omega
    cases u <;> simp [c40Flush, h1, h2, Ctx.write]
  | succ f ih =>
    intro q h
    unfold c40Flush
    by_cases h3 : q.values ≥ 3
    · rw [if_pos h3, ih _ (by simp only []; omega)]
      obtain ⟨ctx, text, values, ur, ch, td, cost⟩ := q
      simp only [] at h h3
      have h1 : (values - 3) % 3 = values % 3 := by omega
      have h2 : (values - 3) / 3 = values / 3 - 1 := by omega
      have h4 : cost + 24 + 24 * (values / 3 - 1) = cost + 24 * (values / 3) := by omega
      have h5 : 2 + 2 * (values / 3 - 1) = 2 * (values / 3) := by omega
      cases u <;> simp [h1, h2, h4, Ctx.write, Nat.add_assoc, h5]
    · rw [if_neg h3]
      obtain ⟨ctx, text, values, ur, ch, td, cost⟩ := q
      simp only [] at h h3
      have h1 : values % 3 = values := by omega
      have h2 : values / 3 = 0 := by omega
      cases u <;> simp [h1, h2, Ctx.write]

/-! ### planner: the invariant of a C40 / Text plan created at `p` with `w` codewords accounted for -/

section Planner
variable (text : Bool) (body : List Nat) (list : List Sym) (p w : Nat)

/-- normal operation after `j` characters: `N = NV text body p j` values were produced, `N / 3` triples are
paid for, and the triples of the current strike are pre-accounted in `written` -/
structure PInv (j : Nat) (q : C40P) : Prop where
  ctx : CtxAt body list (p + j) q.ctx
  txt : q.text = text
  td : q.twoDigitAsciiEnd = false
  vals : q.values = NV text body p j % 3
  cost : q.cost = 24 * (NV text body p j / 3)
  written : q.ctx.written = w + 2 * (NV text body p j / 3) + 2 * ((q.values + q.unbeatableReads) / 3)
  strike : q.unbeatableReads = 0 ∨ (q.values + q.unbeatableReads) % 3 = 0
  nice : q.unbeatableReads ≤ ((body.drop (p + j)).takeWhile (c40InBase text)).length
  ch : 0 < j → q.ch = body.getD (p + j - 1) 0

/-- the two-digit ASCII end was chosen at `j0` (two digits left, at a triple boundary, at most one
codeword of room after the UNLATCH) -/
structure TDInv (j : Nat) (q : C40P) : Prop where
  ctx : CtxAt body list (p + j) q.ctx
  txt : q.text = text
  td : q.twoDigitAsciiEnd = true
  vals : q.values = 1
  ex : ∃ j0 sp, p + j0 + 2 = body.length ∧
        ((j = j0 + 1 ∧ q.unbeatableReads = 1) ∨ (j = j0 + 2 ∧ q.unbeatableReads = 0)) ∧
        twoDigitsComing (body.drop (p + j0)) = true ∧ NV text body p j0 % 3 = 0 ∧
        q.cost = 24 * (NV text body p j0 / 3) ∧
        szLeft list (w + 2 * (NV text body p j0 / 3) + 1) = some sp ∧ sp ≤ 1 ∧
        q.ctx.written = w + 2 * (NV text body p j0 / 3) + 1 + sp
  ch : q.ch = body.getD (p + j - 1) 0

theorem init_u0 (q q1 : C40P) (h : c40Init q = some q1) (h0 : q1.unbeatableReads = 0) : q.unbeatableReads = 0 := by
  unfold c40Init at h
  split at h
  · rename_i hc; exact hc.2
  · cases h; exact h0

theorem init_u0' {q q1 : C40P} (h : c40Init q = some q1) (h2 : q1.unbeatableReads = 2)
    (h3 : q1.twoDigitAsciiEnd = true) (h4 : q.twoDigitAsciiEnd = false) : q.unbeatableReads = 0 := by
  unfold c40Init at h
  split at h
  · rename_i hc; exact hc.2
  · cases h; rw [h3] at h4; cases h4

theorem init_none (q : C40P) (h : c40Init q = none) : q.values = 0 ∧ q.unbeatableReads = 0 := by
  unfold c40Init at h
  split at h
  · assumption
  · cases h

variable {text body list p w}

theorem strike_spec {j : Nat} {q : C40P} (h : PInv text body list p w j q) (hv : q.values = 0)
    (hu : q.unbeatableReads = 0) : PInv text body list p w j (c40Strike q) := by
  obtain ⟨h1, h2, h3, h4, h5, h6, h7, h8, h9⟩ := h
  unfold c40Strike
  simp only [h3, Bool.not_false, ↓reduceIte]
  have hr := rest_eq h1
  have hm := strike_mod (c40InBase q.text) q.ctx.rest
  have hl := strike_le (c40InBase q.text) q.ctx.rest
  rw [h2, hr] at hm hl
  rw [h2, hr]
  refine ⟨ctxAt_write h1 _, rfl, rfl, h4, h5, ?_, Or.inr ?_, hl, h9⟩
  · simp only [Ctx.write, h6, hv, hu]; omega
  · simp only [hv]; omega

theorem init_spec {j : Nat} {q q1 : C40P} (h : PInv text body list p w j q) (hi : c40Init q = some q1) :
    PInv text body list p w j q1 ∨
    ∃ sp, p + j + 2 = body.length ∧ twoDigitsComing (body.drop (p + j)) = true ∧ NV text body p j % 3 = 0 ∧
      szLeft list (w + 2 * (NV text body p j / 3) + 1) = some sp ∧ sp ≤ 1 ∧
      q1 = { q with twoDigitAsciiEnd := true, unbeatableReads := 2, ctx := q.ctx.write (1 + sp) } := by
  unfold c40Init at hi
  split at hi
  · rename_i hc
    obtain ⟨hv, hu⟩ := hc
    cases h2 : c40TwoDigit q with
    | none => rw [h2] at hi; cases hi
    | some q2 =>
      rw [h2] at hi
      simp only [Option.map_some, Option.some.injEq] at hi
      subst hi
      unfold c40TwoDigit at h2
      split at h2
      · rename_i a b hab
        split at h2
        · rename_i hd
          have hr := rest_eq h.ctx
          rw [hr] at hab
          have hlen : (body.drop (p + j)).length = 2 := by rw [hab]; rfl
          simp only [List.length_drop] at hlen
          have hsz : q.ctx.sizeLeft 1 = szLeft list (w + 2 * (NV text body p j / 3) + 1) := by
            rw [ctx_sizeLeft, h.ctx.2.1, h.written, hv, hu]
          have hn0 : NV text body p j % 3 = 0 := by rw [← h.vals]; exact hv
          rw [hsz] at h2
          split at h2
          · cases h2
          · rename_i sl hsl
            split at h2
            · rename_i h1
              subst h1
              simp only [Option.some.injEq] at h2
              subst h2
              right
              refine ⟨1, by omega, by rw [hab]; exact hd, hn0, hsl, by omega, ?_⟩
              simp [c40Strike]
            · split at h2
              · rename_i _ h0
                subst h0
                simp only [Option.some.injEq] at h2
                subst h2
                right
                refine ⟨0, by omega, by rw [hab]; exact hd, hn0, hsl, by omega, ?_⟩
                simp [c40Strike]
              · rename_i hne1 hne0
                simp only [Option.some.injEq] at h2
                have : q2 = q := by
                  rw [← h2]
                  have htd := h.td
                  obtain ⟨ctx, text, values, ur, ch, td, cost⟩ := q
                  simp only [] at htd
                  subst htd
                  simp only [C40P.mk.injEq, true_and, and_true, decide_eq_false_iff_not]
                  omega
                rw [this]
                left
                exact strike_spec h hv hu
        · simp only [Option.some.injEq] at h2
          subst h2
          left
          exact strike_spec h hv hu
      · simp only [Option.some.injEq] at h2
        subst h2
        left
        exact strike_spec h hv hu
  · simp only [Option.some.injEq] at hi
    subst hi
    left
    exact h

theorem step_normal {j : Nat} {q1 q' : C40P} {r : StepResult} (h1 : PInv text body list p w j q1)
    (hlt : p + j < body.length)
    (hs : (let unbeatable := decide (q1.unbeatableReads > 0)
      let end_ := !q1.ctx.hasMore
      if end_ = true then some (q1, ({ «end» := end_, unbeatable } : StepResult))
      else
        let ch := q1.ctx.peek
        let p := { q1 with ch := ch, ctx := q1.ctx.eat }
        let p :=
          if p.unbeatableReads > 0 then
            let p := if !p.twoDigitAsciiEnd ∨ p.values = 0 then { p with values := p.values + 1 } else p
            { p with unbeatableReads := p.unbeatableReads - 1 }
          else { p with values := p.values + c40ValSize p.text ch }
        some (c40Flush unbeatable 3 p, { «end» := end_, unbeatable })) = some (q', r)) :
    PInv text body list p w (j + 1) q' := by
  obtain ⟨c1, c2, c3, c4, c5, c6, c7, c8, c9⟩ := h1
  have hm : q1.ctx.hasMore = true := by rw [hasMore_iff c1]; simpa using hlt
  have hpk : q1.ctx.peek = body[p + j] := by
    rw [peek_eq c1]; simp [List.getD, List.getElem?_eq_getElem hlt]
  have hnv := NV_succ text body p j hlt
  have hdrop := List.drop_eq_getElem_cons hlt
  simp only [hm, Bool.not_true, Bool.false_eq_true, ↓reduceIte, hpk, c3, Bool.not_false, true_or,
    Option.some.injEq, Prod.mk.injEq] at hs
  obtain ⟨hs, _⟩ := hs
  subst hs
  have hgd : body.getD (p + (j + 1) - 1) 0 = body[p + j] := by
    have : p + (j + 1) - 1 = p + j := by omega
    rw [this]; simp [List.getD, List.getElem?_eq_getElem hlt]
  by_cases hu : q1.unbeatableReads > 0
  · -- inside a strike
    rw [hdrop, List.takeWhile_cons] at c8
    have hnice : c40InBase text body[p + j] = true := by
      by_cases hn : c40InBase text body[p + j] = true
      · exact hn
      · rw [if_neg hn] at c8; simp only [List.length_nil] at c8; omega
    rw [if_pos hnice, List.length_cons] at c8
    have hvs := valSize_base text _ hnice
    simp only [hu, decide_true, ↓reduceIte]
    rw [planFlush true 3 _ (by simp only []; omega)]
    simp only [↓reduceIte]
    refine ⟨ctxAt_eat c1, c2, rfl, ?_, ?_, ?_, ?_, ?_, fun _ => hgd.symm⟩
    · simp only []; omega
    · simp only []; omega
    · simp only [Ctx.eat]; omega
    · simp only []; omega
    · simp only []; rw [← Nat.add_assoc]; omega
  · have hu0 : q1.unbeatableReads = 0 := by omega
    have hvs := c40ValSize_le text body[p + j]
    simp only [hu, decide_false, ↓reduceIte, c2]
    rw [planFlush false 3 _ (by simp only []; omega)]
    simp only [Bool.false_eq_true, ↓reduceIte]
    refine ⟨ctxAt_write (ctxAt_eat c1) _, rfl, rfl, ?_, ?_, ?_, Or.inl hu0, ?_, fun _ => hgd.symm⟩
    · simp only []; omega
    · simp only []; omega
    · simp only [Ctx.eat, Ctx.write, hu0]; omega
    · simp only [hu0]; omega

variable (text body list p w) in
def Inv (j : Nat) (q : C40P) : Prop := PInv text body list p w j q ∨ TDInv text body list p w j q

theorem step_inv {j : Nat} {q q' : C40P} {r : StepResult} (h : Inv text body list p w j q)
    (hs : c40Step q = some (q', r)) (he : r.end = false) : Inv text body list p w (j + 1) q' := by
  unfold c40Step at hs
  cases hi : c40Init q with
  | none => rw [hi] at hs; cases hs
  | some q1 =>
    rw [hi] at hs
    simp only [] at hs
    rcases h with h | h
    · rcases init_spec h hi with h1 | ⟨sp, e1, e2, e3, e4, e5, e6⟩
      · by_cases hlt : p + j < body.length
        · exact Or.inl (step_normal h1 hlt hs)
        · have hm : q1.ctx.hasMore = false := by rw [hasMore_iff h1.ctx]; simpa using hlt
          simp only [hm, Bool.not_false, ↓reduceIte, Option.some.injEq, Prod.mk.injEq] at hs
          rw [← hs.2] at he
          cases he
      · -- the two-digit ASCII end is chosen here
        subst e6
        have hlt : p + j < body.length := by omega
        have hc1 : CtxAt body list (p + j) (q.ctx.write (1 + sp)) := ctxAt_write h.ctx _
        have hm : (q.ctx.write (1 + sp)).hasMore = true := by rw [hasMore_iff hc1]; simpa using hlt
        have hpk : (q.ctx.write (1 + sp)).peek = body[p + j] := by
          rw [peek_eq hc1]; simp [List.getD, List.getElem?_eq_getElem hlt]
        have hv0 : q.values = 0 := by rw [h.vals]; exact e3
        simp only [hm, Bool.not_true, Bool.false_eq_true, ↓reduceIte, hpk, gt_iff_lt, Nat.zero_lt_succ,
          Nat.lt_add_one, decide_true, hv0, or_true, Nat.zero_add, Nat.add_one_sub_one, Option.some.injEq,
          Prod.mk.injEq] at hs
        obtain ⟨hs, _⟩ := hs
        subst hs
        rw [planFlush true 3 _ (by simp only []; omega)]
        right
        refine ⟨ctxAt_eat hc1, h.txt, rfl, rfl, ⟨j, sp, e1, Or.inl ⟨rfl, rfl⟩, e2, e3, ?_, e4, e5, ?_⟩, ?_⟩
        · simp only [h.cost]; omega
        · simp only [↓reduceIte, Ctx.eat, Ctx.write, h.written, hv0, h.strike]
          have hu0 : q.unbeatableReads = 0 := init_u0' hi rfl rfl h.td
          rw [hu0]; omega
        · have : p + (j + 1) - 1 = p + j := by omega
          simp only [this, List.getD, List.getElem?_eq_getElem hlt, Option.getD_some]
    · obtain ⟨t1, t2, t3, t4, ⟨j0, sp, e1, e2, e3, e4, e5, e6, e7, e8⟩, t5⟩ := h
      have hq1 : q1 = q := by
        unfold c40Init at hi
        rw [if_neg (by omega)] at hi
        cases hi; rfl
      subst hq1
      rcases e2 with ⟨ej, eu⟩ | ⟨ej, eu⟩
      · have hlt : p + j < body.length := by omega
        have hm : q1.ctx.hasMore = true := by rw [hasMore_iff t1]; simpa using hlt
        have hpk : q1.ctx.peek = body[p + j] := by
          rw [peek_eq t1]; simp [List.getD, List.getElem?_eq_getElem hlt]
        simp only [hm, Bool.not_true, Bool.false_eq_true, ↓reduceIte, hpk, eu, gt_iff_lt, Nat.lt_add_one,
          decide_true, t3, t4, Nat.succ_ne_self, or_self, Nat.sub_self, Option.some.injEq, Prod.mk.injEq] at hs
        obtain ⟨hs, _⟩ := hs
        subst hs
        rw [planFlush true 3 _ (by simp only []; omega)]
        right
        refine ⟨ctxAt_eat t1, t2, rfl, rfl, ⟨j0, sp, e1, Or.inr ⟨by omega, rfl⟩, e3, e4, ?_, e6, e7, ?_⟩, ?_⟩
        · simp only [e5]; omega
        · simp only [↓reduceIte, Ctx.eat, e8]
        · have : p + (j + 1) - 1 = p + j := by omega
          simp only [this, List.getD, List.getElem?_eq_getElem hlt, Option.getD_some]
      · have hm : q1.ctx.hasMore = false := by rw [hasMore_iff t1]; simp; omega
        simp only [hm, Bool.not_false, ↓reduceIte, Option.some.injEq, Prod.mk.injEq] at hs
        rw [← hs.2] at he
        cases he

theorem gstep_c40 {g g1 : GPlan} {q : C40P} {r : StepResult} (hp : g.plan = .c40 q)
    (hs : g.step = .ok (some (g1, r))) :
    ∃ q1, c40Step q = some (q1, r) ∧ g1.plan = .c40 q1 ∧ g1.extra = g.extra := by
  unfold GPlan.step at hs
  rw [hp] at hs
  simp only [] at hs
  cases hc : c40Step q with
  | none => rw [hc] at hs; cases hs
  | some pr =>
    obtain ⟨q1, r1⟩ := pr
    rw [hc] at hs
    simp only [Except.ok.injEq, Option.some.injEq, Prod.mk.injEq] at hs
    obtain ⟨h1, h2⟩ := hs
    subst h1 h2
    exact ⟨q1, rfl, rfl, rfl⟩

theorem steps_inv : ∀ (k j : Nat) (g0 gk : GPlan) (q0 : C40P), g0.plan = .c40 q0 → Inv text body list p w j q0 →
    StepsTo k g0 gk → ∃ qk, gk.plan = .c40 qk ∧ gk.extra = g0.extra ∧ Inv text body list p w (j + k) qk := by
  intro k
  induction k with
  | zero =>
    intro j g0 gk q0 hp hi hs
    simp only [StepsTo] at hs
    subst hs
    exact ⟨q0, hp, rfl, hi⟩
  | succ k ih =>
    intro j g0 gk q0 hp hi hs
    obtain ⟨g1, r, h1, h2, h3⟩ := hs
    obtain ⟨q1, c1, c2, c3⟩ := gstep_c40 hp h1
    obtain ⟨qk, d1, d2, d3⟩ := ih (j + 1) g1 gk q1 c2 (step_inv hi c1 h2) h3
    exact ⟨qk, d1, by rw [d2, c3], by rw [show j + (k + 1) = j + 1 + k by omega]; exact d3⟩

end Planner

def cmode (text : Bool) : EMode := if text then .text else .c40

theorem newPlan_c40 (text : Bool) (ctx : Ctx) :
    newPlan (cmode text) ctx = .c40 { ctx, text := text, values := 0, unbeatableReads := 0, ch := 0,
                                      twoDigitAsciiEnd := false, cost := 0 } := by
  cases text <;> rfl

theorem inv_init (text : Bool) (body : List Nat) (list : List Sym) (p w : Nat) :
    Inv text body list p w 0 { ctx := ctxAt body list p w, text := text, values := 0, unbeatableReads := 0, ch := 0,
                               twoDigitAsciiEnd := false, cost := 0 } := by
  left
  refine ⟨⟨rfl, rfl, rfl⟩, rfl, rfl, ?_, ?_, ?_, Or.inl rfl, ?_, ?_⟩ <;> simp [NV_zero, ctxAt]

/-! ### the planner side of a switch -/

theorem switchPoint_u0 {g : GPlan} {q : C40P} (hp : g.plan = .c40 q) (h : SwitchPoint g) : q.unbeatableReads = 0 := by
  rcases h with h | ⟨g', r, h, hu, _⟩
  · unfold GPlan.step at h
    rw [hp] at h
    simp only [] at h
    cases hc : c40Step q with
    | some pr => rw [hc] at h; cases h
    | none =>
      unfold c40Step at hc
      cases hi : c40Init q with
      | none => exact (init_none q hi).2
      | some q1 =>
        rw [hi] at hc
        simp only [] at hc
        split at hc <;> cases hc
  · obtain ⟨q1, hc, _, _⟩ := gstep_c40 hp h
    unfold c40Step at hc
    cases hi : c40Init q with
    | none => rw [hi] at hc; cases hc
    | some q2 =>
      rw [hi] at hc
      simp only [] at hc
      apply init_u0 q q2 hi
      split at hc
      · simp only [Option.some.injEq, Prod.mk.injEq] at hc
        rw [← hc.2] at hu
        simp only [decide_eq_false_iff_not] at hu
        omega
      · simp only [Option.some.injEq, Prod.mk.injEq] at hc
        rw [← hc.2] at hu
        simp only [decide_eq_false_iff_not] at hu
        omega

theorem valSize_pos (text : Bool) (ch : Nat) : 1 ≤ c40ValSize text ch := by
  unfold c40ValSize
  simp only []
  split <;> split <;> omega

theorem NV_pos (text : Bool) (body : List Nat) (p k : Nat) (hk : 1 ≤ k) (h : p + k ≤ body.length) :
    1 ≤ NV text body p k := by
  obtain ⟨d, rfl⟩ : ∃ d, k = d + 1 := ⟨k - 1, by omega⟩
  rw [NV_succ text body p d (by omega)]
  have := valSize_pos text body[p + d]
  omega

/-- planner side of a segment that ends with a planned switch: with `N` values in the segment, `N / 3`
triples, the padded rest and the UNLATCH are accounted for, and priced exactly -/
theorem plan_switch (text : Bool) (body : List Nat) (list : List Sym) (p w k : Nat) (g0 gk : GPlan) (ac : Nat)
    (ctx' : Ctx) (hlt : p + k < body.length) (hk : 1 ≤ k)
    (h0 : g0.plan = newPlan (cmode text) (ctxAt body list p w))
    (hst : StepsTo k g0 gk) (hsp : SwitchPoint gk) (hsc : gk.switchCost = some ac) (hun : gk.unlatch = .ok ctx') :
    ctx'.written = w + 2 * (NV text body p k / 3) + (if NV text body p k % 3 = 0 then 1 else 3) ∧
    ac = g0.extra + 12 * (ctx'.written - w) ∧ 1 ≤ NV text body p k := by
  rw [newPlan_c40] at h0
  obtain ⟨qk, d1, d2, d3⟩ := steps_inv k 0 g0 gk _ h0 (inv_init text body list p w) hst
  have hu0 := switchPoint_u0 d1 hsp
  have hN := NV_pos text body p k hk (by omega)
  simp only [Nat.zero_add] at d3
  rcases d3 with d3 | d3
  · obtain ⟨c1, c2, c3, c4, c5, c6, c7, c8, c9⟩ := d3
    unfold GPlan.switchCost at hsc
    unfold GPlan.unlatch at hun
    rw [d1] at hsc hun
    simp only [c40SwitchCost, Option.some.injEq] at hsc
    simp only [c40Unlatch] at hun
    rw [hu0] at c6
    by_cases hv : NV text body p k % 3 = 0
    · have hv0 : qk.values = 0 := by omega
      rw [hv0] at hsc hun
      simp only [gt_iff_lt, Nat.lt_irrefl, ↓reduceIte, Except.ok.injEq] at hsc hun
      subst hun
      simp only [Ctx.write, hv, ↓reduceIte]
      omega
    · have hv0 : ¬ qk.values = 0 := by omega
      have hv1 : qk.values > 0 := by omega
      have hv2 : ¬ qk.values > 2 := by omega
      simp only [hv0, hv1, hv2, ↓reduceIte, Except.ok.injEq] at hsc hun
      subst hun
      simp only [Ctx.write, hv, ↓reduceIte]
      omega
  · obtain ⟨t1, t2, t3, t4, ⟨j0, sp, e1, e2, _⟩, t5⟩ := d3
    omega

/-! ### the encoder side of a switch -/

instance (text : Bool) (body : List Nat) (p j : Nat) : Decidable (DigitExit text body p j) := by
  unfold DigitExit; infer_instance

/-- (a) the switch is planned between the two final digits, which start at a triple boundary -/
def digitSplit (text : Bool) (body : List Nat) (p k : Nat) : Bool := decide (1 ≤ k ∧ DigitExit text body p (k - 1))

/-- (b) the switch is planned right before the two final characters, which are digits -/
def digitTail (body : List Nat) (p k : Nat) : Bool :=
  decide (p + k + 2 = body.length ∧ twoDigitsComing (body.drop (p + k)) = true)

theorem encodeMode_c40 (text : Bool) (s : St) (hm : s.mode = cmode text) :
    encodeMode s = c40Loop text (s.charsLeft + 2) s [] 0 := by
  unfold encodeMode
  rw [hm]
  cases text <;> rfl

/-- the encoder reaches `handle_end` at the planned switch with the switch taken -/
theorem enc_to_switch (text : Bool) (body : List Nat) (hb : ByteList body) (list : List Sym) (p k : Nat) (m' : EMode)
    (rest : List (Nat × EMode)) (cw : List Nat) (hk : 1 ≤ k) (hlt : p + k < body.length) (hne : m' ≠ cmode text)
    (hns : digitSplit text body p k = false) :
    ∃ cw' buf, cw'.length = cw.length + 2 * (NV text body p k / 3) ∧ buf.length = NV text body p k % 3 ∧
      encodeMode ⟨body, p, cmode text, (body.length - (p + k), m') :: rest, none, cw, list⟩ =
        c40HandleEnd ⟨body, p + k, m', rest, m'.latch, cw', list⟩ (body.getD (p + k - 1) 0) buf := by
  obtain ⟨d, rfl⟩ : ∃ d, k = d + 1 := ⟨k - 1, by omega⟩
  rw [encodeMode_c40 text _ rfl]
  simp only [St.charsLeft]
  have hf : body.length - p + 2 = (body.length - (p + d) + 1 + 1) + d := by omega
  rw [hf]
  obtain ⟨cw1, buf1, c1, b1, e1⟩ := loop_run text body hb (cmode text) (body.length - (p + (d + 1))) m' rest none list p cw 0
    d (body.length - (p + d) + 1 + 1) (by omega) (by omega) (by intro j hj hde; have := hde.1; omega)
  rw [e1]
  have hpos : p + d < body.length := by omega
  have hnd1 : ¬ (buf1 = [] ∧ isDigit body[p + d] = true ∧ p + d + 2 = body.length ∧
      isDigit (body.getD (p + d + 1) 0) = true) := by
    intro ⟨h1, h2, h3, h4⟩
    have : digitSplit text body p (d + 1) = true := by
      unfold digitSplit
      simp only [decide_eq_true_eq, Nat.add_one_sub_one]
      refine ⟨by omega, h3, ?_, ?_⟩
      · have hp1 : p + d + 1 < body.length := by omega
        rw [List.drop_eq_getElem_cons hpos, List.drop_eq_getElem_cons hp1]
        simp only [twoDigitsComing, h2, Bool.true_and]
        simpa [List.getD, List.getElem?_eq_getElem hp1] using h4
      · rw [h1] at b1; simp only [List.length_nil] at b1; omega
    rw [this] at hns; cases hns
  obtain ⟨cw2, buf2, c2, b2, e2⟩ := loop_step text body hb (body.length - (p + d) + 1) (p + d) (cmode text)
    ((body.length - (p + (d + 1)), m') :: rest) none cw1 list buf1
    (if d = 0 then 0 else body.getD (p + d - 1) 0) hpos (by omega) hnd1
  have hnv := NV_succ text body p d hpos
  rw [e2, ms_switch body (p + d + 1) (cmode text) _ m' rest cw2 list (by omega) (by omega) hne]
  refine ⟨cw2, buf2, by omega, by omega, ?_⟩
  have : p + (d + 1) - 1 = p + d := by omega
  simp only [this, List.getD, List.getElem?_eq_getElem hpos, Option.getD_some, Nat.add_assoc]

/-! ### segment that ends with a planned switch -/

/-- `SwitchSeg` for C40 (`text = false`) / Text (`text = true`) with the two situations excluded in which the
encoder's two-digit special cases override the plan (`digitSplit`, `digitTail`); in addition the
progress fact `w + 2 ≤ ctx'.written` -/
def SwitchSegC40' (text : Bool) : Prop :=
  ∀ (body : List Nat) (list : List Sym) (p w k : Nat) (g0 gk : GPlan) (ac : Nat) (ctx' : Ctx) (m' : EMode)
    (rest : List (Nat × EMode)) (s : St),
    ByteList body → p + k < body.length → 1 ≤ k →
    g0.plan = newPlan (cmode text) (ctxAt body list p w) →
    StepsTo k g0 gk → SwitchPoint gk → gk.switchCost = some ac → gk.unlatch = .ok ctx' → m' ≠ cmode text →
    EncAt body list s p w (cmode text) ((body.length - (p + k), m') :: rest) →
    digitSplit text body p k = false → digitTail body p k = false →
    ac = g0.extra + 12 * (ctx'.written - w) ∧ w ≤ ctx'.written ∧ w + 2 ≤ ctx'.written ∧
    ((∃ s', encodeMode s = .ok s' ∧ s'.input = body ∧ s'.list = list ∧ s'.pos = p + k ∧
        s'.cw.length = ctx'.written ∧ s'.mode = m' ∧ s'.plan = rest ∧ s'.newMode = m'.latch) ∨
     (encodeMode s = .error .tooMuch ∧ firstBigEnough list ctx'.written = none))

theorem switchSegC40' (text : Bool) : SwitchSegC40' text := by
  intro body list p w k g0 gk ac ctx' m' rest s hb hlt hk h0 hst hsp hsc hun hne henc hns hnt
  obtain ⟨hw, hac, hN⟩ := plan_switch text body list p w k g0 gk ac ctx' hlt hk h0 hst hsp hsc hun
  have hprog : w + 2 ≤ ctx'.written := by
    rw [hw]; split <;> omega
  refine ⟨hac, by omega, hprog, Or.inl ?_⟩
  obtain ⟨input, pos, mode, plan, newMode, cw, slist⟩ := s
  obtain ⟨e1, e2, e3, e4, e5, e6, e7⟩ := henc
  simp only [] at e1 e2 e3 e4 e5 e6 e7
  subst e1 e2 e3 e5 e6 e7
  obtain ⟨cw1, buf, c1, b1, r1⟩ := enc_to_switch text input hb slist pos k m' rest cw hk hlt hne hns
  have hnt' : ¬ (input.length - (pos + k) = 2 ∧ twoDigitsComing (input.drop (pos + k)) = true) := by
    intro ⟨h1, h2⟩
    have : digitTail input pos k = true := by
      unfold digitTail
      simp only [decide_eq_true_eq]
      exact ⟨by omega, h2⟩
    rw [this] at hnt; cases hnt
  obtain ⟨cw2, c2, r2⟩ := handleEnd_switch input (pos + k) m' rest m'.latch cw1 slist (input.getD (pos + k - 1) 0) buf
    hlt (by omega) hnt'
  refine ⟨_, r1.trans r2, rfl, rfl, rfl, ?_, rfl, rfl, rfl⟩
  simp only [c2, c1, b1, hw, e4]

theorem switchSeg_c40' : SwitchSegC40' false := switchSegC40' false
theorem switchSeg_text' : SwitchSegC40' true := switchSegC40' true

/-! ### (b): the switch is planned right before two final digits -/

theorem szLeft_none {list : List Sym} {n : Nat} (h : szLeft list n = none) : firstBigEnough list n = none := by
  unfold szLeft at h
  cases hf : firstBigEnough list n with
  | none => rfl
  | some s => rw [hf] at h; cases h

theorem sizeLeftE_mk (body : List Nat) (pos : Nat) (m : EMode) (plan : List (Nat × EMode)) (nm : Option Nat)
    (cw : List Nat) (list : List Sym) (e : Nat) :
    (⟨body, pos, m, plan, nm, cw, list⟩ : St).sizeLeftE e =
      match szLeft list (cw.length + e) with
      | some n => .ok n
      | none => .error .tooMuch := rfl

theorem handleEnd_tail (body : List Nat) (pos : Nat) (m : EMode) (plan : List (Nat × EMode)) (nm : Option Nat)
    (cw : List Nat) (list : List Sym) (lastCh : Nat) (buf : List Nat) (hpos : pos < body.length) (hbuf : buf.length ≤ 2)
    (ht : body.length - pos = 2 ∧ twoDigitsComing (body.drop pos) = true) :
    (szLeft list (cw.length + (if buf.length = 0 then 0 else 2) + 1) = none ∧
      c40HandleEnd ⟨body, pos, m, plan, nm, cw, list⟩ lastCh buf = .error .tooMuch) ∨
    (∃ sp cw', szLeft list (cw.length + (if buf.length = 0 then 0 else 2) + 1) = some sp ∧
      cw'.length = cw.length + (if buf.length = 0 then 0 else 2) + (if sp ≥ 1 then 1 else 0) ∧
      c40HandleEnd ⟨body, pos, m, plan, nm, cw, list⟩ lastCh buf = .ok ⟨body, pos, .ascii, [(0, .ascii)], nm, cw', list⟩) := by
  unfold c40HandleEnd
  rw [if_neg (show ¬ buf.length > 2 by omega)]
  have hm : (⟨body, pos, m, plan, nm, cw, list⟩ : St).hasMore = true := by simp [St.hasMore, hpos]
  simp only [hm, Bool.not_true, Bool.false_eq_true, ↓reduceIte]
  cases buf with
  | nil =>
    simp only [List.isEmpty_nil, Bool.not_true, Bool.false_eq_true, ↓reduceIte, St.charsLeft, St.rest]
    rw [if_pos (show body.length - pos > 0 by omega), if_pos ht, sizeLeftE_mk]
    simp only [List.length_nil, ↓reduceIte, Nat.add_zero]
    cases hsz : szLeft list (cw.length + 1) with
    | none => left; exact ⟨rfl, rfl⟩
    | some sp =>
      right
      simp only []
      by_cases h1 : sp ≥ 1
      · simp only [h1, ↓reduceIte, St.push, St.setAscii]
        exact ⟨sp, _, rfl, by (try simp only [List.length_append, List.length_cons, List.length_nil]); split <;> omega, rfl⟩
      · simp only [h1, ↓reduceIte, St.push, St.setAscii]
        exact ⟨sp, _, rfl, by (try simp only [List.length_append, List.length_cons, List.length_nil]); split <;> omega, rfl⟩
  | cons a t =>
    simp only [List.isEmpty_cons, Bool.not_false, ↓reduceIte]
    simp only [writeThree_mk, St.charsLeft, St.rest]
    rw [if_pos (show body.length - pos > 0 by omega), if_pos ht, sizeLeftE_mk]
    simp only [List.length_cons, Nat.add_eq_zero_iff, Nat.succ_ne_self, and_false, ↓reduceIte, List.length_append,
      List.length_nil, Nat.zero_add, Nat.reduceAdd]
    cases hsz : szLeft list (cw.length + 2 + 1) with
    | none => left; exact ⟨rfl, rfl⟩
    | some sp =>
      right
      simp only []
      by_cases h1 : sp ≥ 1
      · simp only [h1, ↓reduceIte, St.push, St.setAscii]
        exact ⟨sp, _, rfl, by (try simp only [List.length_append, List.length_cons, List.length_nil]); split <;> omega, rfl⟩
      · simp only [h1, ↓reduceIte, St.push, St.setAscii]
        exact ⟨sp, _, rfl, by (try simp only [List.length_append, List.length_cons, List.length_nil]); split <;> omega, rfl⟩

/-- case (b) with the natural plan "ASCII for the two final digits": the encoder reaches the planned state,
possibly one codeword cheaper (it omits the UNLATCH when the symbol has exactly one codeword left) -/
def SwitchSegC40Tail (text : Bool) : Prop :=
  ∀ (body : List Nat) (list : List Sym) (p w k : Nat) (g0 gk : GPlan) (ac : Nat) (ctx' : Ctx) (s : St),
    ByteList body → p + k < body.length → 1 ≤ k →
    g0.plan = newPlan (cmode text) (ctxAt body list p w) →
    StepsTo k g0 gk → SwitchPoint gk → gk.switchCost = some ac → gk.unlatch = .ok ctx' →
    EncAt body list s p w (cmode text) [(body.length - (p + k), .ascii), (0, .ascii)] →
    digitTail body p k = true →
    ac = g0.extra + 12 * (ctx'.written - w) ∧ w ≤ ctx'.written ∧ w + 2 ≤ ctx'.written ∧
    ((∃ s', encodeMode s = .ok s' ∧ s'.input = body ∧ s'.list = list ∧ s'.pos = p + k ∧
        s'.cw.length ≤ ctx'.written ∧ ctx'.written ≤ s'.cw.length + 1 ∧ w + 2 ≤ s'.cw.length ∧
        s'.mode = .ascii ∧ s'.plan = [(0, .ascii)] ∧ s'.newMode = none) ∨
     (encodeMode s = .error .tooMuch ∧ firstBigEnough list ctx'.written = none))

theorem switchSegC40Tail (text : Bool) : SwitchSegC40Tail text := by
  intro body list p w k g0 gk ac ctx' s hb hlt hk h0 hst hsp hsc hun henc ht
  obtain ⟨hw, hac, hN⟩ := plan_switch text body list p w k g0 gk ac ctx' hlt hk h0 hst hsp hsc hun
  have hprog : w + 2 ≤ ctx'.written := by
    rw [hw]; split <;> omega
  refine ⟨hac, by omega, hprog, ?_⟩
  obtain ⟨input, pos, mode, plan, newMode, cw, slist⟩ := s
  obtain ⟨e1, e2, e3, e4, e5, e6, e7⟩ := henc
  simp only [] at e1 e2 e3 e4 e5 e6 e7
  subst e1 e2 e3 e5 e6 e7
  have ht' : input.length - (pos + k) = 2 ∧ twoDigitsComing (input.drop (pos + k)) = true := by
    unfold digitTail at ht
    simp only [decide_eq_true_eq] at ht
    exact ⟨by omega, ht.2⟩
  have hns : digitSplit text input pos k = false := by
    unfold digitSplit DigitExit
    simp only [decide_eq_false_iff_not]
    intro h; omega
  have hne : EMode.ascii ≠ cmode text := by cases text <;> simp [cmode]
  obtain ⟨cw1, buf, c1, b1, r1⟩ := enc_to_switch text input hb slist pos k .ascii [(0, .ascii)] cw hk hlt hne hns
  rcases handleEnd_tail input (pos + k) .ascii [(0, .ascii)] EMode.ascii.latch cw1 slist (input.getD (pos + k - 1) 0) buf
    hlt (by omega) ht' with ⟨z1, z2⟩ | ⟨sp, cw2, z1, z2, z3⟩
  · right
    refine ⟨r1.trans z2, ?_⟩
    have := szLeft_none z1
    rw [hw]
    rw [c1, b1, e4] at this
    by_cases hz : NV text input pos k % 3 = 0
    · simpa [hz] using this
    · simpa [hz] using this
  · left
    refine ⟨_, r1.trans z3, rfl, rfl, rfl, ?_, ?_, ?_, rfl, rfl, rfl⟩
    · simp only [z2, c1, b1, hw, e4]
      by_cases hz : NV text input pos k % 3 = 0 <;> simp only [hz, ↓reduceIte] <;> split <;> omega
    · simp only [z2, c1, b1, hw, e4]
      by_cases hz : NV text input pos k % 3 = 0 <;> simp only [hz, ↓reduceIte] <;> split <;> omega
    · simp only [z2, c1, b1, e4]
      by_cases hz : NV text input pos k % 3 = 0 <;> simp only [hz, ↓reduceIte] <;> split <;> omega

theorem switchSeg_c40_tail : SwitchSegC40Tail false := switchSegC40Tail false
theorem switchSeg_text_tail : SwitchSegC40Tail true := switchSegC40Tail true

/-! ### `first_symbol_big_enough_for` -/

theorem fbe_le {l : List Sym} {n : Nat} {s : Sym} (h : firstBigEnough l n = some s) : n ≤ dataCw s := by
  unfold firstBigEnough at h
  have := List.find?_some h
  simpa using this

theorem fbe_same : ∀ {l : List Sym} {n n' : Nat} {s : Sym}, firstBigEnough l n = some s → n ≤ n' → n' ≤ dataCw s →
    firstBigEnough l n' = some s := by
  intro l
  induction l with
  | nil => intro n n' s h; simp [firstBigEnough] at h
  | cons a t ih =>
    intro n n' s h h1 h2
    unfold firstBigEnough at h ⊢
    rw [List.find?_cons] at h ⊢
    by_cases ha : dataCw a ≥ n
    · simp only [ha, decide_true, Option.some.injEq] at h
      subst h
      simp [h2]
    · simp only [ha, decide_false] at h
      have : ¬ dataCw a ≥ n' := by omega
      simp only [this, decide_false]
      exact ih h h1 h2

theorem fbe_none_mono {l : List Sym} {n n' : Nat} (h : firstBigEnough l n = none) (h1 : n ≤ n') :
    firstBigEnough l n' = none := by
  unfold firstBigEnough at h ⊢
  rw [List.find?_eq_none] at h ⊢
  intro x hx
  have := h x hx
  simp only [ge_iff_le, decide_eq_true_eq] at this ⊢
  omega

theorem szLeft_some {list : List Sym} {n sl : Nat} (h : szLeft list n = some sl) :
    ∃ sym, firstBigEnough list n = some sym ∧ sl = dataCw sym - n ∧ n ≤ dataCw sym := by
  unfold szLeft at h
  cases hf : firstBigEnough list n with
  | none => rw [hf] at h; cases h
  | some s =>
    rw [hf] at h
    simp only [Option.some.injEq] at h
    exact ⟨s, rfl, h.symm, fbe_le hf⟩

/-! ### end of the data: `handle_end` against the end branches of `cost()` -/

/-- the codewords `C40LikePlan::cost` adds at the end of the data: `L` codewords accounted for, `v` values
buffered, `lastCh` the last character read -/
def endExtra (list : List Sym) (L v lastCh : Nat) : Nat :=
  if v = 2 then (if (szLeft list (L + 2)).getD 0 = 0 then 2 else 3)
  else if v = 1 then
    (if (szLeft list (L + 1)).getD 0 = 0 then (if asciiSize [lastCh] = 1 then 1 else 1 + asciiSize [lastCh])
     else 1 + asciiSize [lastCh])
  else 0

/-- what `EndSeg` needs of the state the encoder leaves -/
def EndOK (body : List Nat) (list : List Sym) (L pred : Nat) (r : Enc.R St) : Prop :=
  (∃ s', r = .ok s' ∧ s'.input = body ∧ s'.list = list ∧ s'.pos ≤ body.length ∧ s'.newMode = none ∧
      (s'.hasMore = true → s'.mode = .ascii ∧ s'.plan = [(0, .ascii)]) ∧ L ≤ s'.cw.length ∧
      ∀ sym, firstBigEnough list pred = some sym → s'.cw.length + asciiSize s'.rest ≤ dataCw sym) ∨
  (r = .error .tooMuch ∧ firstBigEnough list pred = none)

theorem asciiSize_one (x : Nat) : asciiSize [x] = 1 ∨ asciiSize [x] = 2 := by
  unfold asciiSize; split <;> simp

theorem handleEnd_end (body : List Nat) (m : EMode) (cw : List Nat) (list : List Sym) (lastCh : Nat) (buf : List Nat)
    (hbuf : buf.length ≤ 2) (hlen : 1 ≤ body.length) (hlast : lastCh = body.getD (body.length - 1) 0) :
    EndOK body list cw.length (cw.length + endExtra list cw.length buf.length lastCh)
      (c40HandleEnd ⟨body, body.length, m, [(0, m)], none, cw, list⟩ lastCh buf) := by
  have hlt1 : body.length - 1 < body.length := by omega
  have hrest1 : ∀ c : List Nat,
      (⟨body, body.length - 1, EMode.ascii, [(0, EMode.ascii)], none, c, list⟩ : St).rest = [lastCh] := by
    intro c
    simp only [St.rest]
    rw [List.drop_eq_getElem_cons hlt1, hlast]
    have : body.length - 1 + 1 = body.length := by omega
    simp [this, List.getD, List.getElem?_eq_getElem hlt1]
  have hrest0 : ∀ (mm : EMode) (pl : List (Nat × EMode)) (c : List Nat),
      (⟨body, body.length, mm, pl, none, c, list⟩ : St).rest = [] := by
    intro mm pl c; simp [St.rest]
  have hnm : ∀ (mm : EMode) (pl : List (Nat × EMode)) (c : List Nat),
      (⟨body, body.length, mm, pl, none, c, list⟩ : St).hasMore = false := by
    intro mm pl c; simp [St.hasMore]
  unfold c40HandleEnd
  rw [if_neg (show ¬ buf.length > 2 by omega)]
  simp only [hnm, Bool.not_false, ↓reduceIte, sizeLeftE_mk, St.charsLeft, Nat.sub_self, Nat.lt_irrefl, gt_iff_lt]
  match buf, hbuf with
  | [], _ =>
    simp only [List.length_nil, Nat.add_zero, List.isEmpty_nil, Bool.not_true, Bool.false_eq_true, ↓reduceIte,
      endExtra, Nat.zero_ne_one]
    cases hsz : szLeft list cw.length with
    | none => right; exact ⟨by simp, szLeft_none hsz⟩
    | some sl =>
      obtain ⟨sym0, f1, f2, f3⟩ := szLeft_some hsz
      left
      simp only [Nat.add_zero, and_false, false_and, ↓reduceIte, hsz, Nat.sub_self, Nat.lt_irrefl, sizeLeftE_mk,
        (by decide : ¬ (0 : Nat) = 2)]
      by_cases hl : 0 < sl
      · simp only [hl, ↓reduceIte, St.push, St.setAscii]
        refine ⟨_, rfl, rfl, rfl, Nat.le_refl _, rfl, fun _ => ⟨rfl, rfl⟩, by simp, ?_⟩
        intro sym hs
        rw [f1] at hs; cases hs
        simp only [hrest0, asciiSize, List.length_append, List.length_cons, List.length_nil]
        omega
      · simp only [hl, ↓reduceIte]
        refine ⟨_, rfl, rfl, rfl, Nat.le_refl _, rfl, ?_, by simp, ?_⟩
        · intro h; rw [hnm] at h; cases h
        · intro sym hs
          simp only [hrest0, asciiSize]
          have := fbe_le hs
          omega
  | [a], _ =>
    have hasz := asciiSize_one lastCh
    simp only [List.length_cons, List.length_nil, Nat.zero_add, endExtra, (by decide : ¬ (1 : Nat) = 2), ↓reduceIte]
    cases hsz : szLeft list (cw.length + 1) with
    | none =>
      right
      refine ⟨by simp, fbe_none_mono (szLeft_none hsz) ?_⟩
      simp only [Option.getD_none, ↓reduceIte]
      split <;> omega
    | some sl =>
      obtain ⟨sym0, f1, f2, f3⟩ := szLeft_some hsz
      simp only [Option.getD_some, and_false, and_true, false_and, ↓reduceIte]
      by_cases h1 : sl = 1
      · subst h1
        left
        simp only [Nat.reduceAdd, ↓reduceIte, St.push, St.setAscii, St.backup, hlen, (by decide : ¬ (1 : Nat) = 0)]
        refine ⟨_, rfl, rfl, rfl, by simp, rfl, fun _ => ⟨rfl, rfl⟩, by simp, ?_⟩
        intro sym hs
        simp only [hrest1, List.length_append, List.length_cons, List.length_nil]
        have := fbe_le hs
        omega
      · by_cases h0 : sl = 0 ∧ asciiSize [lastCh] = 1
        · obtain ⟨h0, ha⟩ := h0
          subst h0
          left
          simp only [Nat.zero_add, (by decide : ¬ (1 : Nat) = 2), ha, and_self, ↓reduceIte, St.setAscii, St.backup, hlen]
          refine ⟨_, rfl, rfl, rfl, by simp, rfl, fun _ => ⟨rfl, rfl⟩, by simp, ?_⟩
          intro sym hs
          simp only [hrest1]
          have := fbe_le hs
          omega
        · have c1 : ¬ (sl + 1 = 2) := by omega
          have c2 : ¬ (sl + 1 = 1 ∧ True ∧ asciiSize [lastCh] = 1) := by
            intro ⟨x, _, y⟩; exact h0 ⟨by omega, y⟩
          simp only [c1, c2, ↓reduceIte, List.isEmpty_cons, Bool.not_false, List.cons_append, List.nil_append,
            List.length_cons, List.length_nil, Nat.zero_add, Nat.reduceAdd, writeThree_mk, St.setAscii, St.charsLeft,
            Nat.sub_self, Nat.lt_irrefl, sizeLeftE_mk, List.length_append, Nat.add_zero]
          cases hs2 : szLeft list (cw.length + 2) with
          | none =>
            right
            refine ⟨rfl, ?_⟩
            have hn2 := szLeft_none hs2
            by_cases hz : sl = 0
            · apply fbe_none_mono hn2
              have : asciiSize [lastCh] = 2 := by
                rcases hasz with h | h
                · exact absurd ⟨hz, h⟩ h0
                · exact h
              simp only [hz, ↓reduceIte, this, (by decide : ¬ (2 : Nat) = 1)]
              omega
            · have := fbe_same f1 (show cw.length + 1 ≤ cw.length + 2 by omega) (by omega)
              rw [this] at hn2; cases hn2
          | some left =>
            obtain ⟨sym2, g1, g2, g3⟩ := szLeft_some hs2
            left
            by_cases hz : sl = 0
            · have ha2 : asciiSize [lastCh] = 2 := by
                rcases hasz with h | h
                · exact absurd ⟨hz, h⟩ h0
                · exact h
              simp only [hz, ↓reduceIte, ha2, Nat.reduceAdd, (by decide : ¬ (2 : Nat) = 1)]
              by_cases hl : 0 < left
              · simp only [hl, ↓reduceIte, St.push]
                refine ⟨_, rfl, rfl, rfl, Nat.le_refl _, rfl, fun _ => ⟨rfl, rfl⟩, by simp, ?_⟩
                intro sym hs
                simp only [hrest0, asciiSize, List.length_append, List.length_cons, List.length_nil]
                have := fbe_le hs
                omega
              · simp only [hl, ↓reduceIte]
                refine ⟨_, rfl, rfl, rfl, Nat.le_refl _, rfl, fun _ => ⟨rfl, rfl⟩, by simp, ?_⟩
                intro sym hs
                simp only [hrest0, asciiSize, List.length_append, List.length_cons, List.length_nil]
                have := fbe_le hs
                omega
            · have hsame := fbe_same f1 (show cw.length + 1 ≤ cw.length + 2 by omega) (by omega)
              rw [hsame] at g1
              cases g1
              have hl : 0 < left := by omega
              simp only [hz, ↓reduceIte, hl, St.push]
              refine ⟨_, rfl, rfl, rfl, Nat.le_refl _, rfl, fun _ => ⟨rfl, rfl⟩, by simp, ?_⟩
              intro sym hs
              simp only [hrest0, asciiSize, List.length_append, List.length_cons, List.length_nil]
              rcases hasz with h | h
              · rw [h] at hs
                rw [hsame] at hs
                cases hs
                omega
              · rw [h] at hs
                have := fbe_le hs
                omega
  | [a, b], _ =>
    simp only [List.length_cons, List.length_nil, Nat.zero_add, Nat.reduceAdd, endExtra, ↓reduceIte]
    cases hsz : szLeft list (cw.length + 2) with
    | none => right; exact ⟨by simp, by simpa using szLeft_none hsz⟩
    | some sl =>
      obtain ⟨sym0, f1, f2, f3⟩ := szLeft_some hsz
      left
      by_cases h0 : sl = 0
      · subst h0
        simp only [Nat.zero_add, and_self, ↓reduceIte, writeThree_mk, Option.getD_some]
        refine ⟨_, rfl, rfl, rfl, Nat.le_refl _, rfl, ?_, by simp, ?_⟩
        · intro h; rw [hnm] at h; cases h
        · intro sym hs
          simp only [hrest0, asciiSize, List.length_append, List.length_cons, List.length_nil]
          have := fbe_le hs
          omega
      · have h1 : ¬ (sl + 2 = 2) := by omega
        have h2 : 0 < sl := by omega
        simp only [h1, false_and, ↓reduceIte, (by decide : ¬ (2 : Nat) = 1), and_false, List.isEmpty_cons,
          Bool.not_false, List.cons_append, List.nil_append, List.length_cons, List.length_nil, Nat.zero_add,
          Nat.reduceAdd, Nat.reduceEqDiff, writeThree_mk, St.setAscii, St.charsLeft, Nat.sub_self, Nat.lt_irrefl,
          sizeLeftE_mk, List.length_append, Nat.add_zero, hsz, h2, St.push, Option.getD_some, h0]
        refine ⟨_, rfl, rfl, rfl, Nat.le_refl _, rfl, fun _ => ⟨rfl, rfl⟩, by simp, ?_⟩
        intro sym hs
        simp only [hrest0, asciiSize, List.length_append, List.length_cons, List.length_nil]
        have := fbe_le hs
        omega

/-! ### the planner side of the end of the data -/

theorem cost_end (q : C40P) (h : q.ctx.hasMore = false) :
    c40Cost q = q.cost + endExtra q.ctx.list q.ctx.written q.values q.ch * 12 := by
  unfold c40Cost endExtra
  simp only [h, Bool.false_eq_true, ↓reduceIte, ctx_sizeLeft]
  rfl

theorem two_digits_last {body : List Nat} {a : Nat} (h1 : a + 2 = body.length)
    (h2 : twoDigitsComing (body.drop a) = true) :
    isDigit (body.getD a 0) = true ∧ isDigit (body.getD (a + 1) 0) = true := by
  have ha : a < body.length := by omega
  have ha1 : a + 1 < body.length := by omega
  rw [List.drop_eq_getElem_cons ha, List.drop_eq_getElem_cons ha1] at h2
  simp only [twoDigitsComing, Bool.and_eq_true] at h2
  simpa [List.getD, List.getElem?_eq_getElem ha, List.getElem?_eq_getElem ha1] using h2

theorem plan_end (text : Bool) (body : List Nat) (list : List Sym) (p w k : Nat) (g0 gk gE : GPlan) (r : StepResult)
    (hpk : p + k = body.length) (hk : 1 ≤ k)
    (h0 : g0.plan = newPlan (cmode text) (ctxAt body list p w))
    (hst : StepsTo k g0 gk) (hstep : gk.step = .ok (some (gE, r))) :
    (gE.cost = g0.extra + 12 * (2 * (NV text body p k / 3) +
        endExtra list (w + 2 * (NV text body p k / 3)) (NV text body p k % 3) (body.getD (body.length - 1) 0))) ∨
    (∃ j0 sp X, k = j0 + 2 ∧ DigitExit text body p j0 ∧
      szLeft list (w + 2 * (NV text body p j0 / 3) + 1) = some sp ∧ sp ≤ 1 ∧ (X = 1 ∨ X = 2) ∧
      gE.cost = g0.extra + 12 * (2 * (NV text body p j0 / 3) + X)) := by
  rw [newPlan_c40] at h0
  obtain ⟨qk, d1, d2, d3⟩ := steps_inv k 0 g0 gk _ h0 (inv_init text body list p w) hst
  obtain ⟨qE, e1, e2, e3⟩ := gstep_c40 d1 hstep
  simp only [Nat.zero_add] at d3
  have hcost : gE.cost = g0.extra + c40Cost qE := by
    unfold GPlan.cost
    rw [e2, e3, d2]
  unfold c40Step at e1
  cases hi : c40Init qk with
  | none => rw [hi] at e1; cases e1
  | some q1 =>
    rw [hi] at e1
    simp only [] at e1
    rcases d3 with d3 | d3
    · left
      rcases init_spec d3 hi with h1 | ⟨sp, x1, _⟩
      · have hm : q1.ctx.hasMore = false := by rw [hasMore_iff h1.ctx]; simp; omega
        simp only [hm, Bool.not_false, ↓reduceIte, Option.some.injEq, Prod.mk.injEq] at e1
        obtain ⟨e1, _⟩ := e1
        subst e1
        rw [hcost, cost_end q1 hm]
        obtain ⟨c1, c2, c3, c4, c5, c6, c7, c8, c9⟩ := h1
        have hu : q1.unbeatableReads = 0 := by
          rw [hpk, List.drop_eq_nil_of_le (Nat.le_refl _)] at c8
          simpa using c8
        rw [hu] at c6
        have hw : q1.ctx.written = w + 2 * (NV text body p k / 3) := by omega
        rw [c1.2.1, hw, c4, c5, c9 (by omega)]
        have : p + k - 1 = body.length - 1 := by omega
        rw [this]
        omega
      · omega
    · right
      obtain ⟨t1, t2, t3, t4, ⟨j0, sp, x1, x2, x3, x4, x5, x6, x7, x8⟩, t5⟩ := d3
      have hq1 : q1 = qk := by
        unfold c40Init at hi
        rw [if_neg (by omega)] at hi
        cases hi; rfl
      subst hq1
      have hm : q1.ctx.hasMore = false := by rw [hasMore_iff t1]; simp; omega
      simp only [hm, Bool.not_false, ↓reduceIte, Option.some.injEq, Prod.mk.injEq] at e1
      obtain ⟨e1, _⟩ := e1
      subst e1
      have hj : k = j0 + 2 := by omega
      have hdig := (two_digits_last (by omega) x3).2
      have hch : asciiSize [q1.ch] = 1 := by
        rw [t5]
        have : p + k - 1 = p + j0 + 1 := by omega
        rw [this]
        unfold isDigit at hdig
        simp only [Bool.and_eq_true, decide_eq_true_eq] at hdig
        unfold asciiSize
        rw [if_pos (by omega)]
      refine ⟨j0, sp, if (szLeft q1.ctx.list (q1.ctx.written + 1)).getD 0 = 0 then 1 else 2, hj, ⟨x1, x3, x4⟩, x6, x7,
        by split <;> simp, ?_⟩
      rw [hcost, cost_end q1 hm, x5]
      unfold endExtra
      simp only [t4, (by decide : ¬ (1 : Nat) = 2), ↓reduceIte, hch]
      split <;> omega

/-! ### segment that runs to the end of the data -/

theorem loop_at_end (text : Bool) (body : List Nat) (f : Nat) (m : EMode) (plan : List (Nat × EMode)) (nm : Option Nat)
    (cw : List Nat) (list : List Sym) (buf : List Nat) (lc : Nat) :
    c40Loop text (f + 1) ⟨body, body.length, m, plan, nm, cw, list⟩ buf lc =
      c40HandleEnd ⟨body, body.length, m, plan, nm, cw, list⟩ lc buf := by
  rw [c40Loop]
  simp [St.eat]

theorem loop_digit_exit (text : Bool) (body : List Nat) (f pos : Nat) (m : EMode) (plan : List (Nat × EMode))
    (nm : Option Nat) (cw : List Nat) (list : List Sym) (lc : Nat) (h1 : pos + 2 = body.length)
    (h2 : twoDigitsComing (body.drop pos) = true) :
    c40Loop text (f + 1) ⟨body, pos, m, plan, nm, cw, list⟩ [] lc =
      c40HandleEnd ⟨body, pos, m, plan, nm, cw, list⟩ lc [] := by
  have ha : pos < body.length := by omega
  have ha1 : pos + 1 < body.length := by omega
  have hd := h2
  rw [List.drop_eq_getElem_cons ha, List.drop_eq_getElem_cons ha1] at hd
  simp only [twoDigitsComing, Bool.and_eq_true] at hd
  have hr : (⟨body, pos + 1, m, plan, nm, cw, list⟩ : St).rest = [body[pos + 1]] := by
    simp only [St.rest]
    rw [List.drop_eq_getElem_cons ha1, List.drop_eq_nil_of_le (by omega)]
  rw [c40Loop]
  simp only [St.eat, List.getElem?_eq_getElem ha, hr, List.isEmpty_nil, hd.1, hd.2, Bool.and_self, ↓reduceIte,
    St.backup, Nat.le_add_left, Nat.add_sub_cancel]

theorem ceil12_mul (x : Nat) : ceil12 (12 * x) = 12 * x := by
  unfold ceil12
  rw [if_pos (by omega)]

theorem EndOK_weaken {body : List Nat} {list : List Sym} {L L' pred : Nat} {r : Enc.R St}
    (h : EndOK body list L pred r) (hl : L' ≤ L) : EndOK body list L' pred r := by
  rcases h with ⟨s', a, b, c, d, e, f, g, i⟩ | h
  · exact Or.inl ⟨s', a, b, c, d, e, f, by omega, i⟩
  · exact Or.inr h

/-- `EndSeg` for C40 / Text with the count inequality replaced by "fits the symbol the planner predicts"
(the count inequality is false: see the counterexamples at the end of the file) and `w ≤ s'.cw.length` added -/
def EndSegC40' (text : Bool) : Prop :=
  ∀ (body : List Nat) (list : List Sym) (p w k : Nat) (g0 gk gE : GPlan) (r : StepResult) (s : St),
    ByteList body → p + k = body.length → 1 ≤ k →
    g0.plan = newPlan (cmode text) (ctxAt body list p w) →
    StepsTo k g0 gk → gk.step = .ok (some (gE, r)) → r.end = true →
    EncAt body list s p w (cmode text) [(0, cmode text)] →
    g0.extra ≤ gE.cost ∧
    ((∃ s', encodeMode s = .ok s' ∧ s'.input = body ∧ s'.list = list ∧ s'.pos ≤ body.length ∧ s'.newMode = none ∧
        (s'.hasMore = true → s'.mode = .ascii ∧ s'.plan = [(0, .ascii)]) ∧ w ≤ s'.cw.length ∧
        ∀ sym, firstBigEnough list (w + ceil12 (gE.cost - g0.extra) / 12) = some sym →
          s'.cw.length + asciiSize s'.rest ≤ dataCw sym) ∨
     (encodeMode s = .error .tooMuch ∧ firstBigEnough list (w + ceil12 (gE.cost - g0.extra) / 12) = none))

theorem endSegC40' (text : Bool) : EndSegC40' text := by
  intro body list p w k g0 gk gE r s hb hpk hk h0 hst hstep _ henc
  obtain ⟨input, pos, mode, plan, newMode, cw, slist⟩ := s
  obtain ⟨e1, e2, e3, e4, e5, e6, e7⟩ := henc
  simp only [] at e1 e2 e3 e4 e5 e6 e7
  subst e1 e2 e3 e5 e6 e7
  have hpl := plan_end text input slist pos w k g0 gk gE r hpk hk h0 hst hstep
  suffices hmain : ∃ X, gE.cost = g0.extra + 12 * X ∧
      EndOK input slist w (w + X) (encodeMode ⟨input, pos, cmode text, [(0, cmode text)], none, cw, slist⟩) by
    obtain ⟨X, hX, hok⟩ := hmain
    have hc : ceil12 (gE.cost - g0.extra) / 12 = X := by
      have : gE.cost - g0.extra = 12 * X := by omega
      rw [this, ceil12_mul]; omega
    rw [hc]
    exact ⟨by omega, hok⟩
  rw [encodeMode_c40 text _ rfl]
  simp only [St.charsLeft]
  by_cases hde : 2 ≤ k ∧ DigitExit text input pos (k - 2)
  · -- the encoder leaves at the two final digits
    obtain ⟨hk2, hde⟩ := hde
    obtain ⟨j0, rfl⟩ : ∃ j0, k = j0 + 2 := ⟨k - 2, by omega⟩
    simp only [Nat.add_sub_cancel] at hde
    obtain ⟨x1, x2, x3⟩ := hde
    have hf : input.length - pos + 2 = 3 + 1 + j0 := by omega
    obtain ⟨cw1, buf1, c1, b1, r1⟩ := loop_run text input hb (cmode text) 0 (cmode text) [] none slist pos cw 0
      j0 (3 + 1) (by omega) (Or.inl rfl) (by intro j hj hx; have := hx.1; omega)
    have hb0 : buf1 = [] := List.length_eq_zero_iff.mp (by omega)
    subst hb0
    rw [hf, r1, loop_digit_exit text input 3 (pos + j0) _ _ _ cw1 slist _ x1 x2]
    have hpos : pos + j0 < input.length := by omega
    have hN2 : NV text input pos (j0 + 2) = NV text input pos j0 + 2 := by
      obtain ⟨dg1, dg2⟩ := two_digits_last x1 x2
      have a1 : pos + j0 + 1 < input.length := by omega
      rw [NV_succ text input pos (j0 + 1) (by omega), NV_succ text input pos j0 hpos]
      have v1 : c40ValSize text input[pos + j0] = 1 := by
        apply valSize_base
        simp only [List.getD, List.getElem?_eq_getElem hpos, Option.getD_some] at dg1
        simp [c40InBase, dg1]
      have v2 : c40ValSize text input[pos + (j0 + 1)] = 1 := by
        apply valSize_base
        simp only [List.getD, List.getElem?_eq_getElem a1, Option.getD_some] at dg2
        simp only [c40InBase, ← Nat.add_assoc, dg2, Bool.or_true, Bool.true_or]
      omega
    have hrest2 : ∀ (nm : Option Nat) (c : List Nat),
        asciiSize (⟨input, pos + j0, EMode.ascii, [(0, EMode.ascii)], nm, c, slist⟩ : St).rest = 1 := by
      intro nm c
      have a1 : pos + j0 + 1 < input.length := by omega
      have hd := x2
      simp only [St.rest]
      rw [List.drop_eq_getElem_cons hpos, List.drop_eq_getElem_cons a1] at hd ⊢
      rw [List.drop_eq_nil_of_le (by omega)]
      simp only [twoDigitsComing] at hd
      simp [asciiSize, hd]
    rcases handleEnd_tail input (pos + j0) (cmode text) [(0, cmode text)] none cw1 slist
      (if j0 = 0 then 0 else input.getD (pos + j0 - 1) 0) [] hpos (by simp) ⟨by omega, x2⟩ with
      ⟨z1, z2⟩ | ⟨sp, cw2, z1, z2, z3⟩
    · -- no symbol holds the UNLATCH
      simp only [List.length_nil, ↓reduceIte, Nat.add_zero] at z1
      have hn := szLeft_none z1
      rcases hpl with hp | ⟨j0', sp', X, y1, y2, y3, y4, y5, y6⟩
      · refine ⟨_, hp, Or.inr ⟨z2, fbe_none_mono hn ?_⟩⟩
        rw [hN2, c1, e4]
        have : (NV text input pos j0 + 2) / 3 = NV text input pos j0 / 3 := by omega
        rw [this]
        unfold endExtra
        have : (NV text input pos j0 + 2) % 3 = 2 := by omega
        simp only [this, ↓reduceIte]
        split <;> omega
      · have : j0' = j0 := by omega
        subst this
        rw [c1, e4] at z1
        rw [z1] at y3; cases y3
    · simp only [List.length_nil, ↓reduceIte, Nat.add_zero] at z1 z2
      rcases hpl with hp | ⟨j0', sp', X, y1, y2, y3, y4, y5, y6⟩
      · refine ⟨_, hp, Or.inl ⟨_, z3, rfl, rfl, by simp only []; omega, rfl, fun _ => ⟨rfl, rfl⟩, ?_, ?_⟩⟩
        · simp only [z2, c1, e4]; omega
        · intro sym hs
          have := fbe_le hs
          simp only [hrest2, z2, c1, e4]
          rw [hN2] at this
          have e : (NV text input pos j0 + 2) / 3 = NV text input pos j0 / 3 := by omega
          rw [e] at this
          have : 2 ≤ endExtra slist (w + 2 * (NV text input pos j0 / 3)) ((NV text input pos j0 + 2) % 3)
              (input.getD (input.length - 1) 0) := by
            unfold endExtra
            have : (NV text input pos j0 + 2) % 3 = 2 := by omega
            simp only [this, ↓reduceIte]
            split <;> omega
          split <;> omega
      · have : j0' = j0 := by omega
        subst this
        rw [c1, e4] at z1
        rw [z1] at y3
        cases y3
        obtain ⟨sym1, f1, f2, f3⟩ := szLeft_some z1
        refine ⟨_, y6, Or.inl ⟨_, z3, rfl, rfl, by simp only []; omega, rfl, fun _ => ⟨rfl, rfl⟩, ?_, ?_⟩⟩
        · simp only [z2, c1, e4]; omega
        · intro sym hs
          simp only [hrest2, z2, c1, e4]
          have hle := fbe_le hs
          by_cases hsp : sp ≥ 1
          · simp only [hsp, ↓reduceIte]
            rcases y5 with rfl | rfl
            · rw [← Nat.add_assoc, f1] at hs
              cases hs
              omega
            · omega
          · simp only [hsp, ↓reduceIte]
            rcases y5 with rfl | rfl <;> omega
  · -- the encoder reads all characters
    have hf : input.length - pos + 2 = 1 + 1 + k := by omega
    obtain ⟨cw1, buf1, c1, b1, r1⟩ := loop_run text input hb (cmode text) 0 (cmode text) [] none slist pos cw 0
      k (1 + 1) (by omega) (Or.inl rfl) (by
        intro j hj hx
        apply hde
        have := hx.1
        have hj2 : j = k - 2 := by omega
        subst hj2
        exact ⟨by omega, hx⟩)
    have hk0 : ¬ k = 0 := by omega
    rw [hf, r1, hpk, loop_at_end]
    simp only [hk0, ↓reduceIte]
    have hlast : input.getD (pos + k - 1) 0 = input.getD (input.length - 1) 0 := by rw [hpk]
    have hE := handleEnd_end input (cmode text) cw1 slist (input.getD (pos + k - 1) 0) buf1 (by omega) (by omega) hlast
    rcases hpl with hp | ⟨j0', sp', X, y1, y2, y3, y4, y5, y6⟩
    · refine ⟨_, hp, ?_⟩
      rw [c1, b1, e4, hlast] at hE
      rw [Nat.add_assoc] at hE
      exact EndOK_weaken hE (by omega)
    · exact absurd ⟨by omega, by rw [y1]; simpa using y2⟩ hde

theorem endSeg_c40' : EndSegC40' false := endSegC40' false
theorem endSeg_text' : EndSegC40' true := endSegC40' true

/-! ### the statements of `Couple.lean` are false for these modes -/

/-- evaluate one step (used only to name the stepped plans in the counterexamples) -/
def stepOf (g : GPlan) : GPlan × StepResult :=
  match g.step with
  | .ok (some x) => x
  | _ => (g, ⟨true, true⟩)

def cxS : St := ⟨[32], 0, .c40, [(0, .c40)], none, [], [0]⟩
def cxG0 : GPlan := { extra := 0, switches := [], plan := newPlan .c40 (ctxAt [32] [0] 0 0) }

/-- `EndSeg .c40` as stated in `Couple.lean` is false: for the one-character message `[32]` in C40 with the
10x10 symbol only (3 data codewords) the encoder writes the padded triple and UNLATCH (3 codewords, which
fit), while `cost()` prices 2 codewords (UNLATCH + the ASCII size of the character).  Other shapes of the
same defect: `[200, 65]` in Text (5 codewords against a cost of 48: the trailing UNLATCH is not priced);
`[48, 48]` with `w = 60` and the full list (sizes 62, 63 adjacent): 62 against 61. -/
theorem endSeg_c40_false : ¬ EndSeg .c40 := by
  intro h
  have h1 := h [32] [0] 0 0 1 cxG0 (stepOf cxG0).1 (stepOf (stepOf cxG0).1).1 (stepOf (stepOf cxG0).1).2 cxS
    (by intro b hb; simp at hb; omega) rfl (Or.inl (Nat.le_refl 1)) rfl ⟨_, _, rfl, rfl, rfl⟩ rfl rfl
    ⟨rfl, rfl, rfl, rfl, rfl, rfl, rfl⟩
  have he : encodeMode cxS = .ok ⟨[32], 1, .ascii, [(0, .ascii)], none, [19, 7, 254], [0]⟩ := by rfl
  obtain ⟨_, ⟨s', hs, _, _, _, _, _, hle⟩ | ⟨ht, _⟩⟩ := h1
  · rw [he] at hs
    cases hs
    revert hle
    decide
  · rw [he] at ht
    cases ht

def cxS2 : St := ⟨[48, 48], 0, .c40, [(1, .ascii), (0, .ascii)], none, [], [0]⟩
def cxH0 : GPlan := { extra := 0, switches := [], plan := newPlan .c40 (ctxAt [48, 48] [0] 0 0) }

/-- `SwitchSeg .c40` as stated is false (case (a), `digitSplit`): message `[48, 48]`, C40 from position 0, switch to
ASCII planned after the first digit.  The encoder's "one digit left" branch backs up, writes UNLATCH and
sets ASCII until the end at position 0 instead of 1.  (Case (b), `digitTail`: `[65, 48, 48]` in Text, `w = 0`,
`k = 1`, `m' = .ascii`, list `symbolList (List.range 30)`: 2 codewords written against 3 planned.) -/
theorem switchSeg_c40_false : ¬ SwitchSeg .c40 := by
  intro h
  have h1 := h [48, 48] [0] 0 0 1 cxH0 (stepOf cxH0).1 36 ⟨[48, 48], 1, 3, [0]⟩ .ascii [(0, .ascii)] cxS2
    (by intro b hb; simp at hb; omega) (by decide) (Or.inl (Nat.le_refl 1)) rfl ⟨_, _, rfl, rfl, rfl⟩
    (Or.inr ⟨_, _, rfl, rfl, rfl⟩) rfl rfl (by decide) ⟨rfl, rfl, rfl, rfl, rfl, rfl, rfl⟩
  have he : encodeMode cxS2 = .ok ⟨[48, 48], 0, .ascii, [(0, .ascii)], none, [254], [0]⟩ := by rfl
  obtain ⟨_, _, ⟨s', hs, _, _, hpos, _⟩ | ⟨ht, _⟩⟩ := h1
  · rw [he] at hs
    cases hs
    cases hpos
  · rw [he] at ht
    cases ht

end DM.Lemmas.CoupleC40
