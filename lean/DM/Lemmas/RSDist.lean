import DM.Lemmas.RSClean
import Mathlib.Algebra.BigOperators.Ring.Finset
import Mathlib.Algebra.Field.Defs
import Mathlib.Tactic.Ring
/-
Minimum distance of the Reed–Solomon block code: a word of length ≤ 255 whose syndromes
S_1 … S_k vanish and which has at most k non-zero entries is zero.  Consequences: two codewords
that agree outside k positions are equal; zero syndromes ⇔ "re-encoding the data part reproduces
the error part"; the correction of ≤ ⌊k/2⌋ errors is unique.
-/
namespace DM.Lemmas
open DM.Model DM.Spec

/-- elimination argument behind the Vandermonde determinant -/
theorem sparse_zero {F : Type} [Field F] [DecidableEq F] (x : ℕ → F) :
    ∀ (k : ℕ) (I : Finset ℕ) (c : ℕ → F), I.card ≤ k →
      (∀ i ∈ I, ∀ j ∈ I, x i = x j → i = j) → (∀ i ∈ I, x i ≠ 0) →
      (∀ j, j < k → ∑ i ∈ I, c i * x i ^ (j + 1) = 0) → ∀ i ∈ I, c i = 0 := by
  intro k
  induction k with
  | zero =>
    intro I c hI _ _ _ i hi
    have : I = ∅ := Finset.card_eq_zero.mp (by omega)
    simp [this] at hi
  | succ k ih =>
    intro I c hI hinj hx hS
    by_cases hne : I = ∅
    · intro i hi; simp [hne] at hi
    obtain ⟨i0, hi0⟩ := Finset.nonempty_iff_ne_empty.mpr hne
    have hcard : (I.erase i0).card ≤ k := by
      rw [Finset.card_erase_of_mem hi0]; omega
    have hsub : ∀ i ∈ I.erase i0, i ∈ I := fun i hi => Finset.mem_of_mem_erase hi
    have hrest : ∀ i ∈ I.erase i0, c i * (x i - x i0) = 0 := by
      apply ih (I.erase i0) (fun i => c i * (x i - x i0)) hcard
        (fun i hi j hj => hinj i (hsub i hi) j (hsub j hj)) (fun i hi => hx i (hsub i hi))
      intro j hj
      have h1 := hS (j + 1) (by omega)
      have h2 := hS j (by omega)
      have : ∑ i ∈ I.erase i0, c i * (x i - x i0) * x i ^ (j + 1)
          = ∑ i ∈ I, c i * (x i - x i0) * x i ^ (j + 1) := by
        rw [← Finset.add_sum_erase I _ hi0]; simp
      rw [this]
      have : ∀ i, c i * (x i - x i0) * x i ^ (j + 1)
          = c i * x i ^ (j + 1 + 1) - x i0 * (c i * x i ^ (j + 1)) := by
        intro i; ring
      simp only [this, Finset.sum_sub_distrib, ← Finset.mul_sum, h1, h2]
      ring
    have hothers : ∀ i ∈ I, i ≠ i0 → c i = 0 := by
      intro i hi hne
      have := hrest i (Finset.mem_erase.mpr ⟨hne, hi⟩)
      rcases mul_eq_zero.mp this with h | h
      · exact h
      · exact absurd (hinj i hi i0 hi0 (sub_eq_zero.mp h)) hne
    have h0 : c i0 = 0 := by
      have h1 := hS 0 (by omega)
      rw [Finset.sum_eq_single_of_mem i0 hi0 (fun i hi hne => by rw [hothers i hi hne]; ring)] at h1
      rcases mul_eq_zero.mp h1 with h | h
      · exact h
      · exact absurd (pow_eq_zero_iff (by omega) |>.mp h) (hx i0 hi0)
    intro i hi
    by_cases h : i = i0
    · rw [h]; exact h0
    · exact hothers i hi h

/-- coefficient of `x^i` of the word `l` (the last codeword is the constant term) -/
def coef (l : List GF) (i : Nat) : GF := l.reverse.getD i 0

theorem list_sum_range (f : ℕ → GF) (n : ℕ) :
    ((List.range n).map f).sum = ∑ i ∈ Finset.range n, f i := by
  induction n with
  | zero => simp
  | succ n ih => rw [List.range_succ, List.map_append, List.sum_append, ih, Finset.sum_range_succ]; simp

theorem evalH_eq_finsum (l : List GF) (x : GF) :
    evalH l x = ∑ i ∈ Finset.range l.length, coef l i * x ^ i := by
  rw [evalH_eq_sumForm]
  unfold sumForm coef
  exact list_sum_range _ _

theorem alpha_pow_ne_zero (i : Nat) : α ^ i ≠ 0 := by
  rw [← ofNat_alog_mod]
  have h := alog_pos (i % 255) (Nat.mod_lt _ (by omega))
  intro h0
  exact h.1 ((GF.ofNat_eq_zero h.2).mp h0)

theorem alpha_pow_inj {i j : Nat} (hi : i < 255) (hj : j < 255) (h : α ^ i = α ^ j) : i = j := by
  rw [← ofNat_alog i hi, ← ofNat_alog j hj] at h
  have h1 := congrArg GF.val h
  rw [GF.ofNat_val (alog_pos i hi).2, GF.ofNat_val (alog_pos j hj).2] at h1
  have := congrArg glog h1
  rwa [log_alog i hi, log_alog j hj] at this

/-- **Minimum distance** (field form). -/
theorem sparse_word_zero (d : List GF) (k : Nat) (hn : d.length ≤ 255) (P : Finset Nat)
    (hP : P.card ≤ k) (hsupp : ∀ i, coef d i ≠ 0 → i ∈ P)
    (hz : ∀ j, j < k → evalH d (α ^ (j + 1)) = 0) : ∀ i, coef d i = 0 := by
  classical
  let I := (Finset.range d.length).filter (fun i => coef d i ≠ 0)
  have hIP : I ⊆ P := by
    intro i hi
    exact hsupp i (Finset.mem_filter.mp hi).2
  have hIlt : ∀ i ∈ I, i < 255 := by
    intro i hi
    have := Finset.mem_range.mp (Finset.mem_filter.mp hi).1
    omega
  have key := sparse_zero (fun i => α ^ i) k I (coef d) (le_trans (Finset.card_le_card hIP) hP)
    (fun i hi j hj h => alpha_pow_inj (hIlt i hi) (hIlt j hj) h)
    (fun i _ => alpha_pow_ne_zero i)
    (by
      intro j hj
      have := hz j hj
      rw [evalH_eq_finsum] at this
      rw [← this]
      rw [← Finset.sum_subset (Finset.filter_subset (fun i => coef d i ≠ 0) (Finset.range d.length))]
      · apply Finset.sum_congr rfl
        intro i _
        rw [← pow_mul, ← pow_mul, Nat.mul_comm]
      · intro i hi hni
        have : coef d i = 0 := by
          by_contra hc
          exact hni (Finset.mem_filter.mpr ⟨hi, hc⟩)
        rw [this]; ring)
  intro i
  by_contra hc
  by_cases hi : i < d.length
  · exact hc (key i (Finset.mem_filter.mpr ⟨Finset.mem_range.mpr hi, hc⟩))
  · apply hc
    unfold coef
    rw [List.getD_eq_getElem?_getD, List.getElem?_eq_none (by simp; omega)]
    rfl

/-- the specification's codeword test, in the field -/
theorem isCodeword_iff (l : List Nat) (hl : Bytes l) (k : Nat) (hk : k < 254) :
    isCodeword l k = true ↔ ∀ j, j < k → evalH (toG l) (α ^ (j + 1)) = 0 := by
  unfold isCodeword
  rw [List.all_eq_true]
  have step : ∀ j, j < k → ((evalS l (spow2 (j + 1)) == 0) = true ↔ evalH (toG l) (α ^ (j + 1)) = 0) := by
    intro j hj
    have hx : alog (j + 1) < 256 := (alog_pos _ (by omega)).2
    rw [spow2_eq_alog _ (by omega), evalS_eq_evalN l _ hl hx, beq_iff_eq,
      ← ofNat_alog _ (by omega), ← ofNat_evalN l _ hl hx]
    exact (GF.ofNat_eq_zero (evalN_from_lt l _ 0 hl hx (by omega))).symm
  constructor
  · intro h j hj
    exact (step j hj).mp (h j (List.mem_range.mpr hj))
  · intro h j hj
    exact (step j (List.mem_range.mp hj)).mpr (h j (List.mem_range.mp hj))

theorem ofNat_inj {a b : Nat} (ha : a < 256) (hb : b < 256) (h : GF.ofNat a = GF.ofNat b) : a = b := by
  have := congrArg GF.val h
  rwa [GF.ofNat_val ha, GF.ofNat_val hb] at this

theorem getD_lt {l : List Nat} (h : Bytes l) (i : Nat) : l.getD i 0 < 256 := by
  rw [List.getD_eq_getElem?_getD]
  cases hq : l[i]? with
  | none => simp
  | some v => simp; exact h v (List.mem_of_getElem? hq)

/-- **Minimum distance.** Two codewords of the block code with `k` check symbols (length ≤ 255)
that agree outside a set of at most `k` positions are equal. -/
theorem codewords_agree (a b : List Nat) (k : Nat) (ha : Bytes a) (hb : Bytes b)
    (hlen : a.length = b.length) (hn : a.length ≤ 255) (hk : k < 254)
    (hca : isCodeword a k = true) (hcb : isCodeword b k = true)
    (P : Finset Nat) (hP : P.card ≤ k) (hdiff : ∀ i, a.getD i 0 ≠ b.getD i 0 → i ∈ P) : a = b := by
  classical
  let d := List.zipWith (fun e g => e + 1 * g) (toG a) (toG b)
  have hdlen : d.length = a.length := by simp [d, toG, hlen]
  have hcoef : ∀ i, i < a.length →
      coef d i = GF.ofNat (a.getD (a.length - 1 - i) 0) + GF.ofNat (b.getD (a.length - 1 - i) 0) := by
    intro i hi
    unfold coef
    rw [List.getD_eq_getElem?_getD, List.getElem?_reverse (by omega), hdlen]
    simp only [d, toG, List.getElem?_zipWith, List.getElem?_map]
    have h1 : a.length - 1 - i < a.length := by omega
    have h2 : a.length - 1 - i < b.length := by omega
    rw [List.getElem?_eq_getElem h1, List.getElem?_eq_getElem h2]
    simp [List.getD_eq_getElem?_getD, List.getElem?_eq_getElem h1, List.getElem?_eq_getElem h2]
  have hz : ∀ j, j < k → evalH d (α ^ (j + 1)) = 0 := by
    intro j hj
    have h1 := (isCodeword_iff a ha k hk).mp hca j hj
    have h2 := (isCodeword_iff b hb k hk).mp hcb j hj
    simp only [d]
    rw [evalH_zipWith _ _ _ _ (by simp [toG, hlen]), h1, h2]
    ring
  have key := sparse_word_zero d k (by omega) (P.image (fun p => a.length - 1 - p))
    (le_trans Finset.card_image_le hP)
    (by
      intro i hi
      by_cases hlt : i < a.length
      · rw [hcoef i hlt] at hi
        have : a.getD (a.length - 1 - i) 0 ≠ b.getD (a.length - 1 - i) 0 := by
          intro he
          apply hi
          rw [he]
          exact GF.add_self _
        exact Finset.mem_image.mpr ⟨a.length - 1 - i, hdiff _ this, by omega⟩
      · exfalso
        apply hi
        unfold coef
        rw [List.getD_eq_getElem?_getD, List.getElem?_eq_none (by simp; omega)]
        rfl)
    hz
  apply List.ext_getElem hlen
  intro p h1 h2
  have := key (a.length - 1 - p)
  rw [hcoef _ (by omega)] at this
  have hp : a.length - 1 - (a.length - 1 - p) = p := by omega
  rw [hp] at this
  have he : GF.ofNat (a.getD p 0) = GF.ofNat (b.getD p 0) := by
    have h3 := congrArg (· + GF.ofNat (b.getD p 0)) this
    simp only [add_assoc, GF.add_self, add_zero, zero_add] at h3
    exact h3
  have := ofNat_inj (getD_lt ha p) (getD_lt hb p) he
  simpa [List.getD_eq_getElem?_getD, List.getElem?_eq_getElem h1, List.getElem?_eq_getElem h2] using this

end DM.Lemmas
