import DM.Model.Path
/-
`bitsToEdgeGraphImp` (the literal transcription of the Rust loops of `bits_to_edge_graph`) is equal to
the closed form `bitsToEdgeGraph`, for every `bits`, `width`, `height` (no side condition).

Steps: the two nested `for` loops are a nested `List.foldl` of `stepCell` (`imp_eq_loop`); each of
the two arrays only ever gets `true` written, so entry `k` is in the end the disjunction over all
modules of "this module writes `k`" (`runLoop_l`, `runLoop_t`, order independent); for a given `k`
at most two modules can write it, which gives the closed form (`any_Pl`, `any_Pt`); the hint is the
first dark module of the row-major scan (`runLoop_hint`, `flat_findSome`).
-/
namespace DM.Lemmas.PathP.GraphImp
open DM.Model.Path

abbrev St := Array Bool × Array Bool × Option Nat

def stepCell (bits : Array Bool) (width height i j : Nat) (s : St) : St :=
  if bits.getD (i * width + j) false then
    let cell := i * (width + 1) + j
    let l1 := if (j == 0 || !bits.getD (i * width + j - 1) false) then s.1.setIfInBounds cell true else s.1
    let l2 := if (j == width - 1 || !bits.getD (i * width + j + 1) false) then l1.setIfInBounds (cell + 1) true else l1
    let t1 := if (i == 0 || !bits.getD (i * width + j - width) false) then s.2.1.setIfInBounds cell true else s.2.1
    let t2 := if (i == height - 1 || !bits.getD (i * width + j + width) false) then t1.setIfInBounds (cell + (width + 1)) true else t1
    (l2, t2, if s.2.2.isNone then some cell else s.2.2)
  else s

theorem foldl_proj_or {σ α : Type} (f : σ → α → σ) (proj : σ → Array Bool) (P : α → Nat → Bool)
    (hsize : ∀ s x, (proj (f s x)).size = (proj s).size)
    (hval : ∀ s x k, k < (proj s).size →
      (proj (f s x)).getD k false = ((proj s).getD k false || P x k)) :
    ∀ (L : List α) (s : σ), (proj (L.foldl f s)).size = (proj s).size ∧
      ∀ k, k < (proj s).size →
        (proj (L.foldl f s)).getD k false = ((proj s).getD k false || L.any (fun x => P x k)) := by
  intro L
  induction L with
  | nil => intro s; simp
  | cons x L ih =>
    intro s
    obtain ⟨h1, h2⟩ := ih (f s x)
    refine ⟨by rw [List.foldl_cons, h1, hsize], ?_⟩
    intro k hk
    rw [List.foldl_cons, h2 k (by rw [hsize]; exact hk), hval s x k hk, List.any_cons, Bool.or_assoc]

def Pl (bits : Array Bool) (width i j k : Nat) : Bool :=
  bits.getD (i * width + j) false &&
    ((k == i * (width + 1) + j && (j == 0 || !bits.getD (i * width + j - 1) false)) ||
     (k == i * (width + 1) + j + 1 && (j == width - 1 || !bits.getD (i * width + j + 1) false)))

def Pt (bits : Array Bool) (width height i j k : Nat) : Bool :=
  bits.getD (i * width + j) false &&
    ((k == i * (width + 1) + j && (i == 0 || !bits.getD (i * width + j - width) false)) ||
     (k == i * (width + 1) + j + (width + 1) && (i == height - 1 || !bits.getD (i * width + j + width) false)))


theorem condSet_size (a : Array Bool) (c : Bool) (cell : Nat) :
    (if c then a.setIfInBounds cell true else a).size = a.size := by
  split <;> simp

theorem condSet_getD (a : Array Bool) (c : Bool) (cell k : Nat) (hk : k < a.size) :
    (if c then a.setIfInBounds cell true else a).getD k false = (a.getD k false || (k == cell && c)) := by
  cases c
  · simp
  · simp only [if_true, Bool.and_true, Array.getD_eq_getD_getElem?, Array.getElem?_setIfInBounds]
    by_cases h : cell = k
    · subst h; simp [hk]
    · have : ¬ k = cell := fun e => h e.symm
      simp [h, this]

theorem stepCell_l_size (bits : Array Bool) (width height i j : Nat) (s : St) :
    (stepCell bits width height i j s).1.size = s.1.size := by
  unfold stepCell
  split
  · simp only [condSet_size]
  · rfl

theorem stepCell_t_size (bits : Array Bool) (width height i j : Nat) (s : St) :
    (stepCell bits width height i j s).2.1.size = s.2.1.size := by
  unfold stepCell
  split
  · simp only [condSet_size]
  · rfl

theorem stepCell_l_val (bits : Array Bool) (width height i j : Nat) (s : St) (k : Nat) (hk : k < s.1.size) :
    (stepCell bits width height i j s).1.getD k false = (s.1.getD k false || Pl bits width i j k) := by
  unfold stepCell Pl
  by_cases hd : bits.getD (i * width + j) false = true
  · simp only [hd, Bool.true_and, if_true]
    rw [condSet_getD _ _ _ _ (by rw [condSet_size]; exact hk), condSet_getD _ _ _ _ hk, Bool.or_assoc]
  · simp [hd]

theorem stepCell_t_val (bits : Array Bool) (width height i j : Nat) (s : St) (k : Nat) (hk : k < s.2.1.size) :
    (stepCell bits width height i j s).2.1.getD k false = (s.2.1.getD k false || Pt bits width height i j k) := by
  unfold stepCell Pt
  by_cases hd : bits.getD (i * width + j) false = true
  · simp only [hd, Bool.true_and, if_true]
    rw [condSet_getD _ _ _ _ (by rw [condSet_size]; exact hk), condSet_getD _ _ _ _ hk, Bool.or_assoc]
  · simp [hd]

def runLoop (bits : Array Bool) (width height : Nat) (s : St) : St :=
  (List.range' 0 height).foldl (fun s i => (List.range' 0 width).foldl (fun s j => stepCell bits width height i j s) s) s

theorem runLoop_l (bits : Array Bool) (width height : Nat) (s : St) :
    (runLoop bits width height s).1.size = s.1.size ∧ ∀ k, k < s.1.size →
      (runLoop bits width height s).1.getD k false =
        (s.1.getD k false || (List.range' 0 height).any fun i => (List.range' 0 width).any fun j => Pl bits width i j k) := by
  have inner := fun i => foldl_proj_or (fun s j => stepCell bits width height i j s) (fun s => s.1)
    (fun j k => Pl bits width i j k) (fun s j => stepCell_l_size bits width height i j s)
    (fun s j k hk => stepCell_l_val bits width height i j s k hk) (List.range' 0 width)
  exact foldl_proj_or (fun s i => (List.range' 0 width).foldl (fun s j => stepCell bits width height i j s) s)
    (fun s => s.1) (fun i k => (List.range' 0 width).any fun j => Pl bits width i j k)
    (fun s i => (inner i s).1) (fun s i k hk => (inner i s).2 k hk) (List.range' 0 height) s

theorem runLoop_t (bits : Array Bool) (width height : Nat) (s : St) :
    (runLoop bits width height s).2.1.size = s.2.1.size ∧ ∀ k, k < s.2.1.size →
      (runLoop bits width height s).2.1.getD k false =
        (s.2.1.getD k false || (List.range' 0 height).any fun i => (List.range' 0 width).any fun j => Pt bits width height i j k) := by
  have inner := fun i => foldl_proj_or (fun s j => stepCell bits width height i j s) (fun s => s.2.1)
    (fun j k => Pt bits width height i j k) (fun s j => stepCell_t_size bits width height i j s)
    (fun s j k hk => stepCell_t_val bits width height i j s k hk) (List.range' 0 width)
  exact foldl_proj_or (fun s i => (List.range' 0 width).foldl (fun s j => stepCell bits width height i j s) s)
    (fun s => s.2.1) (fun i k => (List.range' 0 width).any fun j => Pt bits width height i j k)
    (fun s i => (inner i s).1) (fun s i k hk => (inner i s).2 k hk) (List.range' 0 height) s

theorem cell_div_mod (w i j k : Nat) (hj : j < w + 1) (hk : k = i * (w + 1) + j) :
    i = k / (w + 1) ∧ j = k % (w + 1) := by
  subst hk
  rw [Nat.mul_comm, Nat.mul_add_div (by omega), Nat.mul_add_mod, Nat.div_eq_of_lt hj, Nat.mod_eq_of_lt hj]
  simp

theorem cell_inj (w i j a b : Nat) (hj : j < w + 1) (hb : b < w + 1)
    (h : a * (w + 1) + b = i * (w + 1) + j) : i = a ∧ j = b := by
  have h1 := cell_div_mod w i j _ hj rfl
  have h2 := cell_div_mod w a b _ hb h.symm
  omega

theorem any_Pl (bits : Array Bool) (w h k : Nat) (hk : k < (w + 1) * (h + 1)) :
    ((List.range' 0 h).any fun i => (List.range' 0 w).any fun j => Pl bits w i j k) =
      ((decide (0 < k % (w + 1)) && darkAt bits w h (k / (w + 1)) (k % (w + 1) - 1)) !=
        darkAt bits w h (k / (w + 1)) (k % (w + 1))) := by
  have hb : k % (w + 1) < w + 1 := Nat.mod_lt _ (by omega)
  have ha : k / (w + 1) < h + 1 := by rw [Nat.div_lt_iff_lt_mul (by omega), Nat.mul_comm]; exact hk
  have hkab : k = k / (w + 1) * (w + 1) + k % (w + 1) := by rw [Nat.mul_comm]; exact (Nat.div_add_mod k (w + 1)).symm
  generalize k / (w + 1) = a at *
  generalize k % (w + 1) = b at *
  rw [Bool.eq_iff_iff]
  simp only [List.any_eq_true, List.mem_range'_1, Pl, darkAt, Bool.and_eq_true, Bool.or_eq_true, beq_iff_eq,
    bne_iff_ne, ne_eq, Bool.not_eq_true', Nat.zero_le, true_and, Nat.zero_add]
  subst hkab
  obtain ⟨d, hdd⟩ : ∃ d : Nat → Bool, ∀ x, bits.getD x false = d x := ⟨_, fun _ => rfl⟩
  simp only [hdd]
  clear hdd
  constructor
  · rintro ⟨i, hi, j, hj, hd, hc⟩
    rcases hc with ⟨hc, hc2⟩ | ⟨hc, hc2⟩
    · obtain ⟨rfl, rfl⟩ := cell_inj w i j a b (by omega) hb hc
      cases j with
      | zero =>
        simp only [Nat.add_zero] at hd
        simp [hi, hj, hd]
      | succ j =>
        have e : i * w + (j + 1) - 1 = i * w + j := by omega
        rw [e] at hc2
        simp [hi, hj, hd] at hc2 ⊢
        simp [hc2]
    · obtain ⟨rfl, rfl⟩ := cell_inj w i (j+1) a b (by omega) hb hc
      have e : i * w + (j + 1) = i * w + j + 1 := by omega
      simp only [e, Nat.add_sub_cancel]
      simp [hi, hj, hd]
      intro hj'
      rcases hc2 with hc2 | hc2
      · omega
      · exact hc2
  · intro hne
    by_cases hdark : (decide (a < h) && decide (b < w) && d (a * w + b)) = true
    · rw [hdark] at hne
      simp only [Bool.and_eq_true, decide_eq_true_eq] at hdark
      refine ⟨a, hdark.1.1, b, hdark.1.2, hdark.2, Or.inl ⟨rfl, ?_⟩⟩
      cases b with
      | zero => simp
      | succ b =>
        right
        have e : a * w + (b + 1) - 1 = a * w + b := by omega
        rw [e]
        simp [hdark.1.1] at hne
        apply hne
        omega
    · simp only [Bool.not_eq_true] at hdark
      rw [hdark] at hne
      simp only [Bool.not_eq_false, Bool.and_eq_true, decide_eq_true_eq] at hne
      obtain ⟨hb0, ⟨hah, hbw⟩, hd⟩ := hne
      refine ⟨a, hah, b - 1, hbw, hd, Or.inr ⟨by omega, ?_⟩⟩
      have e : a * w + (b - 1) + 1 = a * w + b := by omega
      rw [e]
      simp [hah] at hdark
      by_cases hbw' : b < w
      · exact Or.inr (hdark hbw')
      · left; omega

theorem any_Pt (bits : Array Bool) (w h k : Nat) (hk : k < (w + 1) * (h + 1)) :
    ((List.range' 0 h).any fun i => (List.range' 0 w).any fun j => Pt bits w h i j k) =
      ((decide (0 < k / (w + 1)) && darkAt bits w h (k / (w + 1) - 1) (k % (w + 1))) !=
        darkAt bits w h (k / (w + 1)) (k % (w + 1))) := by
  have hb : k % (w + 1) < w + 1 := Nat.mod_lt _ (by omega)
  have ha : k / (w + 1) < h + 1 := by rw [Nat.div_lt_iff_lt_mul (by omega), Nat.mul_comm]; exact hk
  have hkab : k = k / (w + 1) * (w + 1) + k % (w + 1) := by rw [Nat.mul_comm]; exact (Nat.div_add_mod k (w + 1)).symm
  generalize k / (w + 1) = a at *
  generalize k % (w + 1) = b at *
  rw [Bool.eq_iff_iff]
  simp only [List.any_eq_true, List.mem_range'_1, Pt, darkAt, Bool.and_eq_true, Bool.or_eq_true, beq_iff_eq,
    bne_iff_ne, ne_eq, Bool.not_eq_true', Nat.zero_le, true_and, Nat.zero_add]
  subst hkab
  obtain ⟨d, hdd⟩ : ∃ d : Nat → Bool, ∀ x, bits.getD x false = d x := ⟨_, fun _ => rfl⟩
  simp only [hdd]
  clear hdd
  constructor
  · rintro ⟨i, hi, j, hj, hd, hc⟩
    rcases hc with ⟨hc, hc2⟩ | ⟨hc, hc2⟩
    · obtain ⟨rfl, rfl⟩ := cell_inj w i j a b (by omega) hb hc
      cases i with
      | zero =>
        simp only [Nat.zero_mul, Nat.zero_add] at hd
        simp [hi, hj, hd]
      | succ i =>
        have e : (i + 1) * w + j - w = i * w + j := by rw [Nat.succ_mul]; omega
        rw [e] at hc2
        simp [hi, hj, hd] at hc2 ⊢
        simp [hc2]
    · obtain ⟨rfl, rfl⟩ := cell_inj w (i+1) j a b (by omega) hb (by rw [hc, Nat.succ_mul]; omega)
      have e : (i + 1) * w + j = i * w + j + w := by rw [Nat.succ_mul]; omega
      simp only [e, Nat.add_sub_cancel]
      simp [hi, hj, hd]
      intro hi'
      rcases hc2 with hc2 | hc2
      · omega
      · exact hc2
  · intro hne
    by_cases hdark : (decide (a < h) && decide (b < w) && d (a * w + b)) = true
    · rw [hdark] at hne
      simp only [Bool.and_eq_true, decide_eq_true_eq] at hdark
      refine ⟨a, hdark.1.1, b, hdark.1.2, hdark.2, Or.inl ⟨rfl, ?_⟩⟩
      cases a with
      | zero => simp
      | succ a =>
        right
        have e : (a + 1) * w + b - w = a * w + b := by rw [Nat.succ_mul]; omega
        rw [e]
        simp [hdark.1.2] at hne
        apply hne
        omega
    · simp only [Bool.not_eq_true] at hdark
      rw [hdark] at hne
      simp only [Bool.not_eq_false, Bool.and_eq_true, decide_eq_true_eq] at hne
      obtain ⟨ha0, ⟨hah, hbw⟩, hd⟩ := hne
      obtain ⟨a, rfl⟩ : ∃ a', a = a' + 1 := ⟨a - 1, by omega⟩
      simp only [Nat.add_sub_cancel] at hah hd
      refine ⟨a, hah, b, hbw, hd, Or.inr ⟨by rw [Nat.succ_mul]; omega, ?_⟩⟩
      have e : a * w + b + w = (a + 1) * w + b := by rw [Nat.succ_mul]; omega
      rw [e]
      simp [hbw] at hdark
      by_cases hah' : a + 1 < h
      · exact Or.inr (hdark hah')
      · left; omega

theorem foldl_hint_findSome {σ α : Type} (f : σ → α → σ) (hint : σ → Option Nat) (R : α → Option Nat)
    (hstep : ∀ s x, hint (f s x) = (hint s).or (R x)) :
    ∀ (L : List α) (s : σ), hint (L.foldl f s) = (hint s).or (L.findSome? R) := by
  intro L
  induction L with
  | nil => intro s; simp
  | cons x L ih =>
    intro s
    rw [List.foldl_cons, ih, hstep, List.findSome?_cons]
    cases hint s <;> cases R x <;> simp

theorem stepCell_hint (bits : Array Bool) (width height i j : Nat) (s : St) :
    (stepCell bits width height i j s).2.2 =
      s.2.2.or (if bits.getD (i * width + j) false then some (i * (width + 1) + j) else none) := by
  unfold stepCell
  by_cases hd : bits.getD (i * width + j) false = true
  · simp only [hd, if_true]
    cases s.2.2 <;> simp
  · simp [hd]

theorem runLoop_hint (bits : Array Bool) (width height : Nat) (s : St) :
    (runLoop bits width height s).2.2 =
      s.2.2.or ((List.range' 0 height).findSome? fun i => (List.range' 0 width).findSome? fun j =>
        if bits.getD (i * width + j) false then some (i * (width + 1) + j) else none) := by
  have inner := fun i => foldl_hint_findSome (fun s j => stepCell bits width height i j s) (fun s => s.2.2)
    (fun j => if bits.getD (i * width + j) false then some (i * (width + 1) + j) else none)
    (fun s j => stepCell_hint bits width height i j s) (List.range' 0 width)
  exact foldl_hint_findSome (fun s i => (List.range' 0 width).foldl (fun s j => stepCell bits width height i j s) s)
    (fun s => s.2.2) _ (fun s i => inner i s) (List.range' 0 height) s

theorem row_findSome (d : Nat → Bool) (w h : Nat) (L : List Nat) (hL : ∀ x ∈ L, x < w) :
    (L.findSome? fun j => if d (h * w + j) then some (h * (w + 1) + j) else none) =
      ((L.map (fun x => w * h + x)).find? d).map (fun idx => idx / w * (w + 1) + idx % w) := by
  rw [Nat.mul_comm w h]
  induction L with
  | nil => simp
  | cons x L ih =>
    have hx : x < w := hL x (by simp)
    have ih' := ih (fun y hy => hL y (by simp [hy]))
    rw [List.findSome?_cons, List.map_cons, List.find?_cons]
    by_cases hd : d (h * w + x) = true
    · simp only [hd, if_true, Option.map_some]
      rw [Nat.mul_comm h w, Nat.mul_add_div (by omega), Nat.mul_add_mod, Nat.div_eq_of_lt hx, Nat.mod_eq_of_lt hx]
      simp
    · simp only [Bool.not_eq_true] at hd
      simp only [hd]
      exact ih'

theorem flat_findSome (d : Nat → Bool) (w h : Nat) :
    ((List.range' 0 h).findSome? fun i => (List.range' 0 w).findSome? fun j =>
        if d (i * w + j) then some (i * (w + 1) + j) else none) =
      ((List.range (w * h)).find? d).map (fun idx => idx / w * (w + 1) + idx % w) := by
  induction h with
  | zero => simp
  | succ h ih =>
    rw [List.range'_1_concat, List.findSome?_append, ih, Nat.mul_succ, List.range_add, List.find?_append,
      Option.map_or, Nat.zero_add]
    congr 1
    rw [List.findSome?_cons, List.findSome?_nil]
    rw [← row_findSome d w h (List.range w) (fun x hx => List.mem_range.mp hx), List.range_eq_range']
    cases (List.findSome? (fun j => if d (h * w + j) = true then some (h * (w + 1) + j) else none) (List.range' 0 w)) <;> rfl

theorem imp_eq_loop (bits : Array Bool) (width height : Nat) :
    bitsToEdgeGraphImp bits width height =
      let n := (width + 1) * (height + 1)
      let s := runLoop bits width height (Array.replicate n false, Array.replicate n false, none)
      { leftE := s.1, topE := s.2.1, width := width, height := height, hint := s.2.2.getD n } := by
  unfold bitsToEdgeGraphImp
  have inner : ∀ (i : Nat) (s : St),
      (forIn (m := Id) [:width] s fun j __s =>
                  have l := __s.fst;
                  have __s := __s.snd;
                  have t := __s.fst;
                  have hint := __s.snd;
                  have idx := i * width + j;
                  if bits.getD idx false = true then
                    have cell := i * (width + 1) + j;
                    have __do_jp := fun (__r : Unit) hint =>
                      have __do_jp := fun (__r : Unit) l =>
                        have __do_jp := fun (__r : Unit) t =>
                          have __do_jp := fun (__r : Unit) l =>
                            if (i == height - 1 || !bits.getD (idx + width) false) = true then
                              have t := t.setIfInBounds (cell + (width + 1)) true;
                              pure (ForInStep.yield (l, t, hint))
                            else pure (ForInStep.yield (l, t, hint));
                          if (j == width - 1 || !bits.getD (idx + 1) false) = true then
                            have l := l.setIfInBounds (cell + 1) true;
                            __do_jp () l
                          else __do_jp () l;
                        if (i == 0 || !bits.getD (idx - width) false) = true then
                          have t := t.setIfInBounds cell true;
                          __do_jp () t
                        else __do_jp () t;
                      if (j == 0 || !bits.getD (idx - 1) false) = true then
                        have l := l.setIfInBounds cell true;
                        __do_jp () l
                      else __do_jp () l;
                    if hint.isNone = true then
                      have hint := some cell;
                      __do_jp () hint
                    else __do_jp () hint
                  else pure (ForInStep.yield (l, t, hint))) =
        pure ((List.range' 0 width).foldl (fun s j => stepCell bits width height i j s) s) := by
    intro i s
    rw [Std.Legacy.Range.forIn_eq_forIn_range']
    rw [← List.forIn_pure_yield_eq_foldl]
    simp only [Std.Legacy.Range.size]
    congr 1
    · simp
    · funext j s
      obtain ⟨l, t, hint⟩ := s
      simp only [stepCell]
      split <;> (repeat' split) <;> rfl
  simp only [inner]
  rw [Std.Legacy.Range.forIn_eq_forIn_range']
  simp only [Std.Legacy.Range.size, Nat.sub_zero, Nat.add_sub_cancel, Nat.div_one, bind_pure_comp, map_pure]
  rw [List.forIn_pure_yield_eq_foldl]
  simp only [map_pure, Id.run_pure, runLoop]

end DM.Lemmas.PathP.GraphImp

namespace DM.Lemmas.PathP
open DM.Model.Path GraphImp

theorem bitsToEdgeGraphImp_eq (bits : Array Bool) (width height : Nat) :
    bitsToEdgeGraphImp bits width height = bitsToEdgeGraph bits width height := by
  rw [imp_eq_loop]
  unfold bitsToEdgeGraph
  simp only
  obtain ⟨hl1, hl2⟩ := runLoop_l bits width height
    (Array.replicate ((width + 1) * (height + 1)) false, Array.replicate ((width + 1) * (height + 1)) false, none)
  obtain ⟨ht1, ht2⟩ := runLoop_t bits width height
    (Array.replicate ((width + 1) * (height + 1)) false, Array.replicate ((width + 1) * (height + 1)) false, none)
  have hh := runLoop_hint bits width height
    (Array.replicate ((width + 1) * (height + 1)) false, Array.replicate ((width + 1) * (height + 1)) false, none)
  simp only [Array.size_replicate] at hl1 hl2 ht1 ht2
  congr 1
  · apply Array.ext
    · rw [hl1, Array.size_ofFn]
    · intro k h1 h2
      have hk : k < (width + 1) * (height + 1) := by rw [hl1] at h1; exact h1
      rw [Array.getElem_eq_getD false, hl2 k hk, Array.getElem_ofFn, any_Pl bits width height k hk]
      simp [Array.getD, hk]
  · apply Array.ext
    · rw [ht1, Array.size_ofFn]
    · intro k h1 h2
      have hk : k < (width + 1) * (height + 1) := by rw [ht1] at h1; exact h1
      rw [Array.getElem_eq_getD false, ht2 k hk, Array.getElem_ofFn, any_Pt bits width height k hk]
      simp [Array.getD, hk]
  · rw [hh, Option.none_or, flat_findSome (fun x => bits.getD x false) width height]
    cases List.find? (fun idx => bits.getD idx false) (List.range (width * height)) <;> rfl

end DM.Lemmas.PathP
