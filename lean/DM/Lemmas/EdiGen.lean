import DM.Lemmas.C40Gen
/-
EDIFACT encoder from an arbitrary position `p0` after arbitrary codewords `c0`, for a state whose
remaining plan names EDIFACT only (EDIFACT is the final stretch of the message): the run ends with
the data, in one of the three ways `EdiRT.EdiEnd` distinguishes for a message planned entirely in
EDIFACT.
-/
namespace DM.Lemmas.EdiGen
open DM.Model DM.Model.Enc DM.Model.Dec DM.Lemmas DM.Lemmas.DecRun DM.Lemmas.AsciiRT DM.Lemmas.Complete
open DM.Lemmas.EncRT DM.Lemmas.X12RT DM.Lemmas.EdiRT DM.Spec.Build

/-- with an EDIFACT-only plan `maybe_switch_mode` never leaves EDIFACT (a pop keeps the mode) -/
theorem maybeSwitch_allE (s s1 : St) (b : Bool) (hm : s.mode = .edifact) (hp : ∀ e ∈ s.plan, e.2 = .edifact)
    (h : s.maybeSwitch = .ok (b, s1)) :
    b = false ∧ s1.input = s.input ∧ s1.list = s.list ∧ s1.pos = s.pos ∧ s1.cw = s.cw ∧ s1.mode = .edifact ∧
    s1.newMode = s.newMode ∧ ∀ e ∈ s1.plan, e.2 = .edifact := by
  obtain ⟨m1, m2, m3, m4, m5, m6⟩ := maybeSwitch_spec s s1 b h
  cases b with
  | true =>
    obtain ⟨t1, _, ⟨p, t3⟩, _⟩ := m6 rfl
    have : s1.mode = .edifact := hp _ t3
    exact absurd (this.trans hm.symm) t1
  | false =>
    obtain ⟨f1, f2⟩ := m5 rfl
    exact ⟨rfl, m1.1, m1.2, m2, m3, f1.trans hm, f2, fun e he => hp e (m4 e he)⟩

/-- the EDIFACT stretch: the characters from `p0` on -/
def bE (body : List Nat) (p0 : Nat) : List Nat := body.drop p0

/-- codewords after `q` complete quadruples of the stretch -/
def cwE (body : List Nat) (p0 : Nat) (c0 : List Nat) (q : Nat) : List Nat := c0 ++ ediC (bE body p0) q

/-- what is left of the stretch after `q` quadruples -/
def restE (body : List Nat) (p0 q : Nat) : List Nat := (bE body p0).drop (4 * q)

theorem restE_eq (body : List Nat) (p0 q : Nat) : restE body p0 q = body.drop (p0 + 4 * q) := by
  simp [restE, bE, List.drop_drop]

theorem restE_length (body : List Nat) (p0 q : Nat) : (restE body p0 q).length = body.length - (p0 + 4 * q) := by
  rw [restE_eq, List.length_drop]

structure EInv (list : List Sym) (body : List Nat) (p0 : Nat) (c0 : List Nat) (s : St) (sym : List Nat) (q : Nat) : Prop where
  input : s.input = body
  list : s.list = list
  mode : s.mode = .edifact
  plan : ∀ e ∈ s.plan, e.2 = .edifact
  newMode : s.newMode = none
  pos : s.pos = p0 + 4 * q + sym.length
  le : s.pos ≤ body.length
  symEq : sym = (restE body p0 q).take sym.length
  short : sym.length ≤ 3
  cw : s.cw = cwE body p0 c0 q

/-- what `edifact::encode` leaves behind when EDIFACT is the final stretch -/
inductive EEnd (list : List Sym) (body : List Nat) (p0 : Nat) (c0 : List Nat) (s' : St) : Prop where
  /-- the rest (at most four characters, at most two codewords) goes to the ASCII end game -/
  | ascii (q : Nat) (hq : p0 + 4 * q ≤ body.length)
      (ok : AsciiEndOK list (cwE body p0 c0 q).length (restE body p0 q))
      (eq : s' = stAscii list body (p0 + 4 * q) (cwE body p0 c0 q))
  /-- the last group carries the UNLATCH value -/
  | unlatch (q : Nat) (hq : p0 + 4 * q ≤ body.length) (hr : (restE body p0 q).length ≤ 3)
      (nok : ¬ AsciiEndOK list (cwE body p0 c0 q).length (restE body p0 q))
      (room : ∃ S, firstBigEnough list ((cwE body p0 c0 q).length + (restE body p0 q).length) = some S ∧
        ((restE body p0 q).length = 0 → dataCw S - (cwE body p0 c0 q).length > 2) ∧
        ((restE body p0 q).length ≠ 0 → (restE body p0 q).length = 3 ∨
          dataCw S - ((cwE body p0 c0 q).length + (restE body p0 q).length) > 0))
      (eq : s' = stAscii list body body.length (cwE body p0 c0 q ++ ediLast (restE body p0 q)))
  /-- complete quadruples fill the symbol exactly: the encoder stays in EDIFACT mode -/
  | exact (q : Nat) (hq : p0 + 4 * q = body.length)
      (fit : ∃ S, firstBigEnough list (cwE body p0 c0 q).length = some S ∧ dataCw S = (cwE body p0 c0 q).length)
      (cw : s'.cw = cwE body p0 c0 q) (pos : s'.pos = body.length) (inp : s'.input = body) (lst : s'.list = list)

theorem eInv_end {list : List Sym} {body : List Nat} {p0 : Nat} {c0 : List Nat} {s : St} {sym : List Nat} {q : Nat}
    (inv : EInv list body p0 c0 s sym q) (hend : s.hasMore = false) :
    sym = restE body p0 q ∧ s.rest = [] ∧ s.pos = body.length ∧ p0 + 4 * q ≤ body.length := by
  have h1 := of_decide_eq_false hend
  rw [inv.input] at h1
  have hpl : s.pos = body.length := by have := inv.le; omega
  have hdl : (restE body p0 q).length = sym.length := by
    rw [restE_length]; have := inv.pos; omega
  refine ⟨?_, ?_, hpl, by have := inv.pos; omega⟩
  · have := inv.symEq
    rw [← hdl, List.take_length] at this
    exact this
  · unfold St.rest
    rw [inv.input]
    exact List.drop_eq_nil_of_le (by omega)

theorem handleEnd_gen {list : List Sym} {body : List Nat} {p0 : Nat} {c0 : List Nat} {s s' : St} {sym : List Nat} {q : Nat}
    (inv : EInv list body p0 c0 s sym q) (hend : s.hasMore = false) (hc : EdiChars (bE body p0))
    (h : edifactHandleEnd s sym = .ok s') : EEnd list body p0 c0 s' := by
  obtain ⟨hsym, hrest, hpos, hq⟩ := eInv_end inv hend
  have hcs : EdiChars sym := fun x hx => hc x (by rw [hsym] at hx; exact List.mem_of_mem_drop hx)
  unfold edifactHandleEnd at h
  cases ht : edifactTryAsciiEnd s sym with
  | error e => rw [ht] at h; cases h
  | ok r =>
    rw [ht] at h
    have hsp : sym.length ≤ s.pos := by have := inv.pos; omega
    rcases tryAscii_spec s sym hsp r ht with ⟨hok, hr⟩ | ⟨hnok, hr⟩
    · subst hr
      simp only [Except.ok.injEq] at h
      subst h
      rw [hrest, List.append_nil, inv.list, inv.cw, hsym] at hok
      refine .ascii q hq hok ?_
      simp only [St.setAscii, stAscii, inv.input, inv.list, inv.newMode, inv.cw]
      congr 1
      have := inv.pos; omega
    · subst hr
      simp only [] at h
      rw [hrest, List.append_nil, inv.list, inv.cw, hsym] at hnok
      have hdl : (restE body p0 q).length = sym.length := by rw [hsym]
      by_cases hemp : sym.isEmpty = true
      · rw [if_pos hemp] at h
        simp only [hend, Bool.not_false, ↓reduceIte] at h
        have hs0 : sym = [] := by simpa using hemp
        unfold St.sizeLeftE St.sizeLeft at h
        rw [inv.list, inv.cw] at h
        cases hf : firstBigEnough list (cwE body p0 c0 q).length with
        | none => simp only [Nat.add_zero, hf] at h; cases h
        | some S =>
          simp only [Nat.add_zero, hf] at h
          by_cases hgt : dataCw S - (cwE body p0 c0 q).length > 0
          · rw [if_pos hgt] at h
            by_cases h2 : dataCw S - (cwE body p0 c0 q).length ≤ 2
            · rw [if_pos h2] at h; cases h
            · rw [if_neg h2] at h
              simp only [Except.ok.injEq] at h
              subst h
              refine .unlatch q hq (by rw [hdl, hs0]; simp) hnok ⟨S, by rw [hdl, hs0]; simpa using hf, ?_, ?_⟩ ?_
              · intro _; omega
              · intro hne; rw [hdl, hs0] at hne; simp at hne
              · rw [← hsym, hs0]
                simp only [St.push, St.setAscii, stAscii, inv.input, inv.list, inv.newMode, inv.cw, ediLast, hpos]
          · rw [if_neg hgt] at h
            simp only [Except.ok.injEq] at h
            subst h
            have hge := firstBigEnough_le _ _ _ hf
            refine .exact q ?_ ⟨S, hf, by omega⟩ inv.cw hpos inv.input inv.list
            have := inv.pos
            rw [hs0] at this
            simp at this
            omega
      · rw [if_neg hemp] at h
        rw [if_neg (by have := inv.short; omega)] at h
        simp only [hend, Bool.not_false, ↓reduceIte] at h
        have hne : sym ≠ [] := by simpa using hemp
        have hlpos : 0 < sym.length := List.length_pos_iff.mpr hne
        unfold St.sizeLeftE St.sizeLeft at h
        rw [inv.list, inv.cw] at h
        cases hf : firstBigEnough list ((cwE body p0 c0 q).length + sym.length) with
        | none => simp only [hf] at h; cases h
        | some S =>
          simp only [hf] at h
          by_cases hcond : dataCw S - ((cwE body p0 c0 q).length + sym.length) > 0 ∨ sym.length = 3
          · rw [if_pos hcond] at h
            simp only [Except.ok.injEq] at h
            subst h
            refine .unlatch q hq (by rw [hdl]; exact inv.short) hnok ⟨S, by rw [hdl]; exact hf, ?_, ?_⟩ ?_
            · intro h0; rw [hdl] at h0; omega
            · intro _; rw [hdl]; rcases hcond with h1 | h1
              · exact Or.inr h1
              · exact Or.inl h1
            · have hw := write4_last s.setAscii sym inv.short hcs
              obtain ⟨w1, w2, w3, w4, w5, w6⟩ := write4_same s.setAscii (sym ++ [31])
              rw [← hsym]
              apply St_ext
              · rw [w2]; simp [St.setAscii, stAscii, inv.input]
              · rw [w1]; simp [St.setAscii, stAscii, hpos]
              · rw [w5]; simp [St.setAscii, stAscii]
              · rw [w4]; simp [St.setAscii, stAscii]
              · rw [w6]; simp [St.setAscii, stAscii, inv.newMode]
              · rw [hw]; simp [St.setAscii, stAscii, inv.cw]
              · rw [w3]; simp [St.setAscii, stAscii, inv.list]
          · -- `write4` without UNLATCH would need `try_ascii_end` to have failed: impossible
            exfalso
            apply hnok
            have hlen12 : sym.length ≤ 2 := by have := inv.short; omega
            have hcap : dataCw S = (cwE body p0 c0 q).length + sym.length := by
              have := firstBigEnough_le _ _ _ hf; omega
            have hasz : asciiSize sym ≤ sym.length := by
              match sym, hlen12 with
              | [], _ => simp [asciiSize]
              | [a], _ =>
                have := (hcs a (by simp)).2
                simp only [asciiSize, List.length_singleton]
                split <;> omega
              | [a, b], _ =>
                have ha := (hcs a (by simp)).2
                have hb := (hcs b (by simp)).2
                simp only [asciiSize, List.length_cons, List.length_nil]
                split
                · omega
                · split <;> split <;> omega
              | _ :: _ :: _ :: _, h => simp at h
            obtain ⟨S', hS', hle⟩ := fbe_weaker list _ ((cwE body p0 c0 q).length + asciiSize sym) S hf (by omega)
            rw [← hsym]
            exact ⟨by omega, by omega, S', hS', by omega⟩

theorem cwE_succ (body : List Nat) (p0 : Nat) (c0 : List Nat) (q : Nat) (h : p0 + 4 * q + 4 ≤ body.length) :
    cwE body p0 c0 (q + 1) = cwE body p0 c0 q ++ packEdifact (((restE body p0 q).take 4).map (· % 64)) := by
  unfold cwE restE
  rw [ediC_succ (bE body p0) q (by simp only [bE, List.length_drop]; omega), List.append_assoc]

theorem ediLoop_gen (list : List Sym) (body : List Nat) (p0 : Nat) (c0 : List Nat) (hc : EdiChars (bE body p0)) :
    ∀ (n f : Nat) (s : St) (sym : List Nat) (q : Nat) (s' : St), body.length - s.pos = n → n < f →
      EInv list body p0 c0 s sym q → edifactLoop f s sym = .ok s' → EEnd list body p0 c0 s' := by
  intro n
  induction n with
  | zero =>
    intro f s sym q s' hn hf inv h
    cases f with
    | zero => omega
    | succ f =>
      unfold edifactLoop at h
      have hmore : s.hasMore = false := by
        simp only [St.hasMore, inv.input]
        have := inv.le
        simp; omega
      simp only [hmore, Bool.false_eq_true, and_false, ↓reduceIte] at h
      have hnone : s.eat = none := by
        simp only [St.eat]
        rw [List.getElem?_eq_none (by rw [inv.input]; have := inv.le; omega)]
      rw [hnone] at h
      exact handleEnd_gen inv hmore hc h
  | succ n ih =>
    intro f s sym q s' hn hf inv h
    cases f with
    | zero => omega
    | succ f =>
      unfold edifactLoop at h
      have hlt : s.pos < body.length := by omega
      have hmore : s.hasMore = true := by simp [St.hasMore, inv.input, hlt]
      -- the early test at a group boundary
      have hcont : (match s.eat with
            | none => edifactHandleEnd s sym
            | some (ch, s1) =>
              let sym1 := sym ++ [ch]
              let (s2, sym2) := if sym1.length = 4 then (write4 s1 sym1, []) else (s1, sym1)
              match s2.maybeSwitch with
              | .error e => .error e
              | .ok (true, s3) => edifactHandleEnd s3 sym2
              | .ok (false, s3) => edifactLoop f s3 sym2) = .ok s' → EEnd list body p0 c0 s' := by
        intro h
        have he : s.eat = some (body[s.pos], { s with pos := s.pos + 1 }) := by
          simp only [St.eat]
          rw [List.getElem?_eq_getElem (by rw [inv.input]; exact hlt)]
          simp [inv.input]
        rw [he] at h
        simp only [] at h
        have hblen : 4 * q + sym.length < (bE body p0).length := by
          simp only [bE, List.length_drop]; have := inv.pos; omega
        have hget : (bE body p0)[4 * q + sym.length] = body[s.pos] := by
          simp only [bE, List.getElem_drop]
          congr 1
          have := inv.pos; omega
        have hsym1 : sym ++ [body[s.pos]] = (restE body p0 q).take (sym.length + 1) := by
          have := take_succ_drop (bE body p0) (4 * q) sym.length hblen
          unfold restE
          rw [this, ← hget]
          congr 1
          exact inv.symEq
        -- the state after the (possible) `write4`, and what `maybe_switch_mode` does to it
        have hstep : ∀ (s2 : St) (sym2 : List Nat) (q2 : Nat), EInv list body p0 c0 s2 sym2 q2 → s2.pos = s.pos + 1 →
            (match s2.maybeSwitch with
              | .error e => .error e
              | .ok (true, s3) => edifactHandleEnd s3 sym2
              | .ok (false, s3) => edifactLoop f s3 sym2) = Except.ok s' → EEnd list body p0 c0 s' := by
          intro s2 sym2 q2 inv2 hp2 h
          cases hm : s2.maybeSwitch with
          | error e => rw [hm] at h; cases h
          | ok r =>
            obtain ⟨b, s3⟩ := r
            rw [hm] at h
            obtain ⟨hb, a1, a2, a3, a4, a5, a6, a7⟩ := maybeSwitch_allE s2 s3 b inv2.mode inv2.plan hm
            subst hb
            simp only [] at h
            have inv3 : EInv list body p0 c0 s3 sym2 q2 :=
              ⟨a1.trans inv2.input, a2.trans inv2.list, a5, a7, a6.trans inv2.newMode, by rw [a3]; exact inv2.pos,
                by rw [a3]; exact inv2.le, inv2.symEq, inv2.short, by rw [a4]; exact inv2.cw⟩
            exact ih f s3 sym2 q2 s' (by rw [a3, hp2]; omega) (by omega) inv3 h
        by_cases h4 : (sym ++ [body[s.pos]]).length = 4
        · rw [if_pos h4] at h
          simp only [] at h
          have hl3 : sym.length = 3 := by simpa using h4
          rw [hl3] at hsym1
          have hquad : ∃ x0 x1 x2 x3, sym ++ [body[s.pos]] = [x0, x1, x2, x3] := by
            match hs : sym ++ [body[s.pos]], h4 with
            | [x0, x1, x2, x3], _ => exact ⟨x0, x1, x2, x3, rfl⟩
          obtain ⟨x0, x1, x2, x3, hq4⟩ := hquad
          have hx0 : 32 ≤ x0 ∧ x0 ≤ 94 := by
            apply hc x0
            have : x0 ∈ sym ++ [body[s.pos]] := by rw [hq4]; simp
            rw [hsym1] at this
            exact List.mem_of_mem_drop (List.mem_of_mem_take this)
          obtain ⟨w1, w2, w3, w4, w5, w6⟩ := write4_same { s with pos := s.pos + 1 } (sym ++ [body[s.pos]])
          have hcw : (write4 { s with pos := s.pos + 1 } (sym ++ [body[s.pos]])).cw = cwE body p0 c0 (q + 1) := by
            rw [hq4, write4_quad _ x0 x1 x2 x3 hx0, ← hq4, hsym1]
            simp only []
            rw [inv.cw, cwE_succ body p0 c0 q (by have := inv.pos; omega)]
          have inv' : EInv list body p0 c0 (write4 { s with pos := s.pos + 1 } (sym ++ [body[s.pos]])) [] (q + 1) :=
            ⟨by rw [w2]; exact inv.input, by rw [w3]; exact inv.list, by rw [w5]; exact inv.mode, by rw [w4]; exact inv.plan,
              by rw [w6]; exact inv.newMode, by rw [w1]; simp only []; have := inv.pos; simp; omega,
              by rw [w1]; simp only []; omega, by simp, by simp, hcw⟩
          exact hstep _ [] (q + 1) inv' (by rw [w1]) h
        · rw [if_neg h4] at h
          simp only [] at h
          have hl : sym.length + 1 ≤ 3 := by have := inv.short; simp at h4; omega
          have inv' : EInv list body p0 c0 { s with pos := s.pos + 1 } (sym ++ [body[s.pos]]) q :=
            ⟨inv.input, inv.list, inv.mode, inv.plan, inv.newMode, by simp; have := inv.pos; omega,
              by simp only []; omega, by simp only [List.length_append, List.length_singleton]; exact hsym1,
              by simpa using hl, inv.cw⟩
          exact hstep _ _ q inv' rfl h
      by_cases hearly : sym.isEmpty = true ∧ s.hasMore = true
      · rw [if_pos hearly] at h
        cases ht : edifactTryAsciiEnd s sym with
        | error e => rw [ht] at h; cases h
        | ok r =>
          rw [ht] at h
          have hs0 : sym = [] := by simpa using hearly.1
          rcases tryAscii_spec s sym (by rw [hs0]; simp) r ht with ⟨hok, hr⟩ | ⟨_, hr⟩
          · subst hr
            simp only [Except.ok.injEq] at h
            subst h
            have hp4 : s.pos = p0 + 4 * q := by have := inv.pos; rw [hs0] at this; simpa using this
            have hrest : s.rest = restE body p0 q := by simp [St.rest, inv.input, hp4, restE_eq]
            rw [hs0, List.nil_append, hrest, inv.list, inv.cw] at hok
            refine .ascii q (by omega) hok ?_
            simp [St.setAscii, stAscii, inv.input, inv.list, inv.newMode, inv.cw, hs0, hp4]
          · subst hr
            simp only [] at h
            exact hcont h
      · rw [if_neg hearly] at h
        simp only [] at h
        exact hcont h

/-- `edifact::encode` on the state the main loop hands over (latch written) -/
theorem edifactEncode_gen (list : List Sym) (body : List Nat) (p0 : Nat) (c0 : List Nat) (sL s' : St)
    (hin : sL.input = body) (hli : sL.list = list) (hpos : sL.pos = p0) (hle : p0 ≤ body.length)
    (hmode : sL.mode = .edifact) (hnm : sL.newMode = none) (hcw : sL.cw = c0 ++ [240])
    (hpl : ∀ e ∈ sL.plan, e.2 = .edifact) (hc : EdiChars (body.drop p0))
    (h : edifactEncode sL = .ok s') : EEnd list body p0 c0 s' := by
  unfold edifactEncode at h
  have inv0 : EInv list body p0 c0 sL [] 0 :=
    ⟨hin, hli, hmode, hpl, hnm, by simp [hpos], by rw [hpos]; exact hle, by simp, by simp,
      by simp [cwE, ediC, packEdifact, hcw]⟩
  exact ediLoop_gen list body p0 c0 hc (body.length - sL.pos) _ sL [] 0 s' rfl
    (by simp [St.charsLeft, hin]) inv0 h

end DM.Lemmas.EdiGen
