import DM.Lemmas.Placement
import DM.Lemmas.Bytes
import DM.Lemmas.GFTable
/-
Writing values through pairwise distinct positions and reading them back.
-/
namespace DM.Lemmas
open DM.Model

theorem setAll_length (as : List (Nat × Bool)) (e : List Bool) : (setAll e as).length = e.length := by
  induction as generalizing e with
  | nil => rfl
  | cons a as ih => simp [setAll, List.foldl_cons] at *; rw [ih]; simp

theorem setAll_getD_not_mem (as : List (Nat × Bool)) (e : List Bool) (q : Nat)
    (h : q ∉ as.map Prod.fst) : (setAll e as).getD q false = e.getD q false := by
  induction as generalizing e with
  | nil => rfl
  | cons a as ih =>
    simp only [List.map_cons, List.mem_cons, not_or] at h
    simp only [setAll, List.foldl_cons]
    have := ih (e.set a.1 a.2) h.2
    simp only [setAll] at this
    rw [this]
    simp only [List.getD_eq_getElem?_getD, List.getElem?_set]
    rw [if_neg (fun e => h.1 e.symm)]

theorem setAll_getD_mem (as : List (Nat × Bool)) (e : List Bool)
    (hnd : (as.map Prod.fst).Nodup) (p : Nat) (v : Bool) (hm : (p, v) ∈ as) (hp : p < e.length) :
    (setAll e as).getD p false = v := by
  induction as generalizing e with
  | nil => simp at hm
  | cons a as ih =>
    simp only [List.map_cons, List.nodup_cons] at hnd
    simp only [setAll, List.foldl_cons]
    rcases List.mem_cons.mp hm with h | h
    · subst h
      have := setAll_getD_not_mem as (e.set p v) p hnd.1
      simp only [setAll] at this
      rw [this]
      simp [List.getD_eq_getElem?_getD, List.getElem?_set, hp]
    · have := ih (e.set a.1 a.2) hnd.2 h (by simpa using hp)
      simpa [setAll] using this

theorem writeCodewords_eq (e : List Bool) (layout : List (List Nat)) (data : List Nat) :
    writeCodewords e layout data = setAll e (assigns layout data) := rfl

theorem bitsMsb_length (c : Nat) : (bitsMsb c).length = 8 := by simp [bitsMsb]

theorem map_fst_zip_sublist {α β : Type} : ∀ (l₁ : List α) (l₂ : List β),
    ((l₁.zip l₂).map Prod.fst).Sublist l₁
  | [], _ => by simp
  | _ :: _, [] => by simp
  | a :: as, b :: bs => by
    simp only [List.zip_cons_cons, List.map_cons]
    exact (map_fst_zip_sublist as bs).cons₂ a

/-- positions of the assignments are a sublist of the flattened layout -/
theorem assigns_fst_sublist : ∀ (layout : List (List Nat)) (data : List Nat),
    ((assigns layout data).map Prod.fst).Sublist layout.flatten := by
  intro layout
  induction layout with
  | nil => intro data; simp [assigns]
  | cons o layout ih =>
    intro data
    cases data with
    | nil => simp [assigns]
    | cons c data =>
      have h1 : assigns (o :: layout) (c :: data) = o.zip (bitsMsb c) ++ assigns layout data := by
        simp [assigns]
      rw [h1, List.map_append, List.flatten_cons]
      apply List.Sublist.append _ (ih data)
      exact map_fst_zip_sublist o (bitsMsb c)

/-- reassemble a codeword from its bits, most significant first -/
def fromBitsMsb (bs : List Bool) : Nat :=
  bs.foldl (fun c b => (c * 2 % 256) ||| (if b then 1 else 0)) 0

theorem readCodeword_eq (e : List Bool) (idxs : List Nat) :
    readCodeword e idxs = fromBitsMsb (idxs.map fun i => e.getD i false) := by
  unfold readCodeword fromBitsMsb
  rw [List.foldl_map]

theorem byte_bits_roundtrip : ∀ c, c < 256 → fromBitsMsb (bitsMsb c) = c := by
  intro c hc
  have h : allBelow 256 (fun c => fromBitsMsb (bitsMsb c) == c) = true := by decide +kernel
  simpa using allBelow_spec h c hc

end DM.Lemmas
