import DM.Lemmas.Couple
/-!
# Planner / encoder coupling for X12 (`SwitchSeg .x12`, `EndSeg .x12`)

Planner side: `FInv` describes the state of an `X12Plan` created at position `p` with `w` codewords accounted
for after `i` steps (`x12Step_FInv`, lifted to `StepsTo` by `stepsTo_FInv`).  Encoder side: `x12Loop_switch` /
`x12Loop_end` run `x12Loop` forward over `j` native triples, the `x12Encode_*` lemmas evaluate the code after the
loop.  `switchSeg_x12` proves `SwitchSeg .x12` as stated in `Couple.lean`.

`EndSeg .x12` as stated is **false** (`not_endSeg_x12`): when the segment is a whole number of triples and the
symbol still has room, `x12::encode` writes an UNLATCH (254) the planner does not price (it cannot change the
symbol size).  `endSeg_x12_gen` proves the statement with that case spelled out as an alternative;
`endSeg_x12' : EndSegX12'` is the corrected shape (what the encoder leaves fits the symbol the planner predicted,
and `w ≤ s'.cw.length`); `endSeg_x12_noSpare` is `EndSeg .x12` verbatim under the extra decidable hypothesis
`NoSpareAtEnd` that excludes the case.  `switchSeg_x12' : SwitchSegX12'` adds the progress fact
`w + 2 ≤ ctx'.written` to `SwitchSeg .x12`.
-/
namespace DM.Lemmas.CoupleX12
open DM.Model DM.Model.Plan DM.Model.Enc DM.Lemmas.AsciiRT DM.Lemmas.Couple

/-- the surcharge `c0` (in twelfths) the end-of-data look-ahead of `X12Plan::step` adds for the UNLATCH:
nothing iff a single ASCII codeword remains and it exactly fills the symbol -/
def EndC (list : List Sym) (W asz c0 : Nat) : Prop :=
  (asz = 1 ∧ ∃ sym, firstBigEnough list (W + 1) = some sym ∧ c0 = if dataCw sym - (W + 1) = 0 then 0 else 12) ∨
  (asz ≠ 1 ∧ c0 = 12)

theorem x12Init_trigger (q : X12P) (hv : q.values = 0) (ha : q.asciiEnd = none)
    (hcl : q.ctx.charsLeft = 1 ∨ q.ctx.charsLeft = 2) :
    (x12Init q = .ok none ∧ asciiSize q.ctx.rest = 1 ∧ firstBigEnough q.ctx.list (q.ctx.written + 1) = none) ∨
    ∃ c0, x12Init q = .ok (some { q with cost := q.cost + c0,
                                         asciiEnd := some (asciiSize q.ctx.rest * (12 / q.ctx.charsLeft)) }) ∧
      EndC q.ctx.list q.ctx.written (asciiSize q.ctx.rest) c0 := by
  unfold x12Init
  have hc : q.values = 0 ∧ q.ctx.charsLeft ≤ 2 ∧ q.asciiEnd.isNone = true := ⟨hv, by omega, by simp [ha]⟩
  rw [if_pos hc]
  have hf : frac (asciiSize q.ctx.rest) q.ctx.charsLeft = .ok (asciiSize q.ctx.rest * (12 / q.ctx.charsLeft)) := by
    unfold frac
    rcases hcl with h | h <;> simp [h]
  simp only [hf]
  by_cases h1 : asciiSize q.ctx.rest = 1
  · simp only [h1, ↓reduceIte, Ctx.sizeLeft]
    cases hfb : firstBigEnough q.ctx.list (q.ctx.written + 1) with
    | none => left; exact ⟨rfl, trivial, rfl⟩
    | some sym =>
      right
      simp only []
      by_cases hs1 : dataCw sym - (q.ctx.written + 1) = 1
      · refine ⟨12, by simp [hs1], Or.inl ⟨rfl, sym, hfb, by simp [hs1]⟩⟩
      · by_cases hs0 : dataCw sym - (q.ctx.written + 1) = 0
        · refine ⟨0, by simp [hs0], Or.inl ⟨rfl, sym, hfb, by simp [hs0]⟩⟩
        · refine ⟨12, by simp [hs0, hs1], Or.inl ⟨rfl, sym, hfb, by simp [hs0]⟩⟩
  · simp only [h1, ↓reduceIte]
    right
    exact ⟨12, rfl, Or.inr ⟨h1, rfl⟩⟩

theorem x12Init_skip (q : X12P) (h : ¬ (q.values = 0 ∧ q.ctx.charsLeft ≤ 2 ∧ q.asciiEnd = none)) :
    x12Init q = .ok (some q) := by
  unfold x12Init
  rw [if_neg]
  intro h3
  exact h ⟨h3.1, h3.2.1, by simpa using h3.2.2⟩

/-- state of an X12 plan created at position `p` with `w` codewords accounted for, after `i` steps -/
structure FInv (body : List Nat) (list : List Sym) (p w i : Nat) (q : X12P) : Prop where
  hdata : q.ctx.data = body
  hlist : q.ctx.list = list
  hpos : q.ctx.pos = p + i
  nat : q.asciiEnd = none → q.values = i % 3 ∧ q.cost = 8 * i ∧ q.ctx.written = w + 2 * (i / 3) ∧
      (i % 3 ≠ 0 → p + 3 * (i / 3) + 3 ≤ body.length) ∧ ∀ x, x < i → isNativeX12 (body.getD (p + x) 0) = true
  asc : ∀ f, q.asciiEnd = some f → ∃ j t c0, 3 * j < i ∧ p + 3 * j + t = body.length ∧ (t = 1 ∨ t = 2) ∧
      q.values = 0 ∧ q.ctx.written = w + 2 * j ∧ f = asciiSize (body.drop (p + 3 * j)) * (12 / t) ∧
      q.cost = 24 * j + c0 + f * (i - 3 * j) ∧ EndC list (w + 2 * j) (asciiSize (body.drop (p + 3 * j))) c0 ∧
      ∀ x, x < 3 * j → isNativeX12 (body.getD (p + x) 0) = true

theorem x12Step_FInv {body list p w i} (q q' : X12P) (r : StepResult) (h : FInv body list p w i q)
    (hs : x12Step q = .ok (some (q', r))) (he : r.end = false) :
    FInv body list p w (i + 1) q' ∧ p + i < body.length := by
  unfold x12Step at hs
  simp only [] at hs
  cases hm : q.ctx.hasMore with
  | false =>
    simp only [hm, Bool.not_false, ↓reduceIte, Except.ok.injEq, Option.some.injEq, Prod.mk.injEq] at hs
    obtain ⟨_, rfl⟩ := hs
    simp at he
  | true =>
    simp only [hm, Bool.not_true, Bool.false_eq_true, ↓reduceIte] at hs
    have hlt : p + i < body.length := by
      have h1 := h.hdata; have h2 := h.hpos
      simp only [Ctx.hasMore, decide_eq_true_eq, h1, h2] at hm
      exact hm
    refine ⟨?_, hlt⟩
    have hcl : q.ctx.charsLeft = body.length - (p + i) := by simp [Ctx.charsLeft, h.hdata, h.hpos]
    have hpeek : q.ctx.peek = body.getD (p + i) 0 := by simp [Ctx.peek, h.hdata, h.hpos]
    have hrest : q.ctx.rest = body.drop (p + i) := by simp [Ctx.rest, h.hdata, h.hpos]
    cases hae : q.asciiEnd with
    | none =>
      obtain ⟨n1, n2, n3, n4, n5⟩ := h.nat hae
      by_cases hc : q.values = 0 ∧ q.ctx.charsLeft ≤ 2
      · rcases x12Init_trigger q hc.1 hae (by omega) with ⟨h1, _⟩ | ⟨c0, h1, hE⟩
        · rw [h1] at hs; cases hs
        · rw [h1] at hs
          simp only [Except.ok.injEq, Option.some.injEq, Prod.mk.injEq] at hs
          obtain ⟨rfl, _⟩ := hs
          have hi : 3 * (i / 3) = i := by omega
          refine ⟨by simp [Ctx.eat, h.hdata], by simp [Ctx.eat, h.hlist], by simp [Ctx.eat, h.hpos]; omega,
            fun hn => by simp at hn, ?_⟩
          intro f hf
          simp only [Option.some.injEq] at hf
          refine ⟨i / 3, body.length - (p + i), c0, by omega, by omega, by omega, hc.1, ?_, ?_, ?_, ?_, ?_⟩
          · simp only [Ctx.eat]; exact n3
          · rw [← hf, hi, hrest, hcl]
          · simp only [n2, hi]; rw [← hf]; simp only [Nat.add_sub_cancel_left, Nat.mul_one]; omega
          · rw [hi, ← hrest, ← n3, ← h.hlist]; exact hE
          · intro x hx; exact n5 x (by omega)
      · rw [x12Init_skip q (fun h3 => hc ⟨h3.1, h3.2.1⟩)] at hs
        simp only [hae] at hs
        by_cases hnat : isNativeX12 q.ctx.peek = true
        · simp only [hnat, Bool.not_true, Bool.false_eq_true, ↓reduceIte, Except.ok.injEq, Option.some.injEq,
            Prod.mk.injEq] at hs
          obtain ⟨rfl, _⟩ := hs
          have hge : q.values = 0 → p + i + 3 ≤ body.length := by intro hv; omega
          by_cases hv : (q.values + 1) % 3 = 0
          · simp only [hv, ↓reduceIte]
            refine ⟨by simp [Ctx.eat, Ctx.write, h.hdata], by simp [Ctx.eat, Ctx.write, h.hlist],
              by simp [Ctx.eat, Ctx.write, h.hpos]; omega, ?_, fun f hf => by simp at hf⟩
            intro _
            refine ⟨by simp only []; omega, by simp only []; omega, by simp only [Ctx.write, Ctx.eat]; omega, by omega, ?_⟩
            intro x hx
            by_cases hxi : x = i
            · subst hxi; rw [← hpeek]; exact hnat
            · exact n5 x (by omega)
          · simp only [hv, ↓reduceIte]
            refine ⟨by simp [Ctx.eat, h.hdata], by simp [Ctx.eat, h.hlist],
              by simp [Ctx.eat, h.hpos]; omega, ?_, fun f hf => by simp at hf⟩
            intro _
            refine ⟨by simp only []; omega, by simp only []; omega, by simp only [Ctx.eat]; omega, by omega, ?_⟩
            intro x hx
            by_cases hxi : x = i
            · subst hxi; rw [← hpeek]; exact hnat
            · exact n5 x (by omega)
        · simp [hnat] at hs
    | some f =>
      rw [x12Init_skip q (fun h3 => by simp [hae] at h3)] at hs
      simp only [hae, Except.ok.injEq, Option.some.injEq, Prod.mk.injEq] at hs
      obtain ⟨rfl, _⟩ := hs
      obtain ⟨j, t, c0, a1, a2, a3, a4, a5, a6, a7, a8, a9⟩ := h.asc f hae
      refine ⟨by simp [Ctx.eat, h.hdata], by simp [Ctx.eat, h.hlist], by simp [Ctx.eat, h.hpos]; omega,
        fun hn => by simp at hn, ?_⟩
      intro f' hf'
      simp only [Option.some.injEq] at hf'
      subst hf'
      refine ⟨j, t, c0, by omega, a2, a3, a4, by simp only [Ctx.eat]; exact a5, a6, ?_, a8, a9⟩
      have : i + 1 - 3 * j = (i - 3 * j) + 1 := by omega
      simp only [this, Nat.mul_succ, a7]; omega

theorem gstep_x12 (g g1 : GPlan) (q : X12P) (r : StepResult) (hp : g.plan = .x12 q)
    (h : g.step = .ok (some (g1, r))) : ∃ q1, x12Step q = .ok (some (q1, r)) ∧ g1.plan = .x12 q1 ∧ g1.extra = g.extra := by
  unfold GPlan.step at h
  rw [hp] at h
  simp only [] at h
  cases hx : x12Step q with
  | error e => rw [hx] at h; cases h
  | ok o =>
    cases o with
    | none => rw [hx] at h; cases h
    | some pr =>
      obtain ⟨q1, r1⟩ := pr
      rw [hx] at h
      simp only [Except.ok.injEq, Option.some.injEq, Prod.mk.injEq] at h
      obtain ⟨rfl, rfl⟩ := h
      exact ⟨q1, rfl, rfl, rfl⟩

theorem fresh_FInv (body : List Nat) (list : List Sym) (p w : Nat) :
    FInv body list p w 0 { ctx := ctxAt body list p w, values := 0, asciiEnd := none, cost := 0 } :=
  ⟨rfl, rfl, rfl, fun _ => ⟨rfl, rfl, rfl, fun h => absurd rfl h, fun x hx => absurd hx (Nat.not_lt_zero x)⟩,
    fun f hf => by simp at hf⟩

theorem stepsTo_FInv {body list p w} : ∀ (k i : Nat) (g gk : GPlan) (q : X12P), g.plan = .x12 q →
    FInv body list p w i q → StepsTo k g gk →
    ∃ qk, gk.plan = .x12 qk ∧ FInv body list p w (i + k) qk ∧ gk.extra = g.extra := by
  intro k
  induction k with
  | zero =>
    intro i g gk q hp hi hs
    simp only [StepsTo] at hs
    subst hs
    exact ⟨q, hp, hi, rfl⟩
  | succ k ih =>
    intro i g gk q hp hi hs
    obtain ⟨g1, r, h1, h2, h3⟩ := hs
    obtain ⟨q1, e1, e2, e3⟩ := gstep_x12 g g1 q r hp h1
    obtain ⟨qk, f1, f2, f3⟩ := ih (i + 1) g1 gk q1 e2 (x12Step_FInv q q1 r hi e1 h2).1 h3
    exact ⟨qk, f1, by rw [show i + (k + 1) = i + 1 + k by omega]; exact f2, f3.trans e3⟩

/-! ### encoder side -/

theorem x12Enc_native (ch : Nat) (h : isNativeX12 ch = true) : ∃ v, x12Enc ch = .ok v := by
  unfold x12Enc
  split
  · exact ⟨_, rfl⟩
  split
  · exact ⟨_, rfl⟩
  split
  · exact ⟨_, rfl⟩
  split
  · exact ⟨_, rfl⟩
  split
  · exact ⟨_, rfl⟩
  split
  · exact ⟨_, rfl⟩
  exfalso
  simp only [isNativeX12, isDigit, Bool.or_eq_true, beq_iff_eq, Bool.and_eq_true, decide_eq_true_eq] at h
  omega

theorem rest3 (s : St) (h : s.pos + 3 ≤ s.input.length) :
    s.rest = s.input.getD s.pos 0 :: s.input.getD (s.pos + 1) 0 :: s.input.getD (s.pos + 2) 0 :: s.input.drop (s.pos + 3) := by
  unfold St.rest
  rw [List.drop_eq_getElem_cons (by omega), List.drop_eq_getElem_cons (by omega : s.pos + 1 < _),
    List.drop_eq_getElem_cons (by omega : s.pos + 1 + 1 < _)]
  simp only [List.getD_eq_getElem?_getD]
  rw [List.getElem?_eq_getElem (by omega), List.getElem?_eq_getElem (by omega), List.getElem?_eq_getElem (by omega)]
  rfl

theorem x12Loop_iter (f : Nat) (s : St) (h3 : s.pos + 3 ≤ s.input.length)
    (hn : ∀ x, x < 3 → isNativeX12 (s.input.getD (s.pos + x) 0) = true) :
    ∃ v1 v2 v3, ∀ b s', (writeThree { s with pos := s.pos + 3 } v1 v2 v3).maybeSwitch = .ok (b, s') →
      x12Loop (f + 1) s = if b then .ok (s', true) else x12Loop f s' := by
  obtain ⟨v1, e1⟩ := x12Enc_native _ (hn 0 (by omega))
  obtain ⟨v2, e2⟩ := x12Enc_native _ (hn 1 (by omega))
  obtain ⟨v3, e3⟩ := x12Enc_native _ (hn 2 (by omega))
  refine ⟨v1, v2, v3, ?_⟩
  intro b s' hms
  rw [x12Loop]
  have hc : s.charsLeft ≥ 3 := by simp only [St.charsLeft]; omega
  rw [if_pos hc, rest3 s h3]
  simp only [Nat.add_zero] at e1
  simp only [e1, e2, e3, hms]
  cases b <;> rfl

theorem maybeSwitch_stay (s : St) (at_ : Nat) (m : EMode) (rest : List (Nat × EMode))
    (hp : s.plan = (at_, m) :: rest) (hle : at_ ≤ s.charsLeft) (hne : ¬ (s.charsLeft > 0 ∧ s.charsLeft = at_)) :
    s.maybeSwitch = .ok (false, s) := by
  unfold St.maybeSwitch
  rw [hp]
  have h1 : ¬ s.charsLeft < at_ := by omega
  simp only [h1, hne, ↓reduceIte, ne_eq, not_true_eq_false]
  rw [← hp]

theorem maybeSwitch_go (s : St) (at_ : Nat) (m : EMode) (rest : List (Nat × EMode))
    (hp : s.plan = (at_, m) :: rest) (heq : s.charsLeft = at_) (hpos : 0 < at_) (hm : m ≠ s.mode)
    (hnm : s.newMode = none) :
    s.maybeSwitch = .ok (true, { s with mode := m, plan := rest, newMode := m.latch }) := by
  subst heq
  unfold St.maybeSwitch
  rw [hp]
  have h2 : s.charsLeft > 0 := hpos
  simp only [Nat.lt_irrefl, h2, and_self, ↓reduceIte, ne_eq, hm, not_false_eq_true, hnm]
  cases m <;> rfl

theorem x12Loop_switch (body : List Nat) (list : List Sym) (m' : EMode) (rest : List (Nat × EMode)) (hm' : m' ≠ .x12) :
    ∀ (j f : Nat) (s : St), s.input = body → s.list = list → s.mode = .x12 → s.newMode = none →
      1 ≤ j → j ≤ f → s.pos + 3 * j < body.length → s.plan = (body.length - (s.pos + 3 * j), m') :: rest →
      (∀ x, x < 3 * j → isNativeX12 (body.getD (s.pos + x) 0) = true) →
      ∃ s', x12Loop f s = .ok (s', true) ∧ s'.input = body ∧ s'.list = list ∧ s'.pos = s.pos + 3 * j ∧
        s'.cw.length = s.cw.length + 2 * j ∧ s'.mode = m' ∧ s'.plan = rest ∧ s'.newMode = m'.latch := by
  intro j
  induction j with
  | zero => intro f s _ _ _ _ h; omega
  | succ j ih =>
    intro f s hi hl hm hn _ hf hlt hp hnat
    obtain ⟨f, rfl⟩ : ∃ f', f = f' + 1 := ⟨f - 1, by omega⟩
    obtain ⟨v1, v2, v3, hit⟩ := x12Loop_iter f s (by rw [hi]; omega) (fun x hx => by rw [hi]; exact hnat x (by omega))
    generalize hs1 : writeThree { s with pos := s.pos + 3 } v1 v2 v3 = s1 at hit
    have a1 : s1.input = body := by rw [← hs1]; exact hi
    have a2 : s1.list = list := by rw [← hs1]; exact hl
    have a3 : s1.mode = .x12 := by rw [← hs1]; exact hm
    have a4 : s1.newMode = none := by rw [← hs1]; exact hn
    have a5 : s1.pos = s.pos + 3 := by rw [← hs1]; rfl
    have a6 : s1.plan = s.plan := by rw [← hs1]; rfl
    have a7 : s1.cw.length = s.cw.length + 2 := by rw [← hs1]; simp [writeThree, St.push]
    have a8 : s1.charsLeft = body.length - (s.pos + 3) := by simp [St.charsLeft, a1, a5]
    by_cases hj : j = 0
    · subst hj
      have hgo := maybeSwitch_go s1 (body.length - (s.pos + 3 * (0 + 1))) m' rest (by rw [a6, hp]) (by rw [a8])
        (by omega) (by rw [a3]; exact hm') a4
      rw [hit _ _ hgo]
      exact ⟨_, rfl, a1, a2, by simp only [a5], by simp only [a7], rfl, rfl, rfl⟩
    · have hstay := maybeSwitch_stay s1 (body.length - (s.pos + 3 * (j + 1))) m' rest (by rw [a6, hp]) (by rw [a8]; omega)
        (by rw [a8]; omega)
      rw [hit _ _ hstay]
      simp only [Bool.false_eq_true, ↓reduceIte]
      obtain ⟨s', e1, e2, e3, e4, e5, e6, e7, e8⟩ := ih f s1 a1 a2 a3 a4 (by omega) (by omega) (by rw [a5]; omega)
        (by rw [a6, hp, a5]; congr 3; omega) (fun x hx => by rw [a5, Nat.add_assoc]; exact hnat (3 + x) (by omega))
      exact ⟨s', e1, e2, e3, by rw [e4, a5]; omega, by rw [e5, a7]; omega, e6, e7, e8⟩

theorem x12Loop_end (body : List Nat) (list : List Sym) :
    ∀ (j f : Nat) (s : St), s.input = body → s.list = list → s.mode = .x12 → s.newMode = none →
      j + 1 ≤ f → s.pos + 3 * j ≤ body.length → body.length < s.pos + 3 * j + 3 → s.plan = [(0, .x12)] →
      (∀ x, x < 3 * j → isNativeX12 (body.getD (s.pos + x) 0) = true) →
      ∃ s', x12Loop f s = .ok (s', false) ∧ s'.input = body ∧ s'.list = list ∧ s'.pos = s.pos + 3 * j ∧
        s'.cw.length = s.cw.length + 2 * j ∧ s'.mode = .x12 ∧ s'.plan = [(0, .x12)] ∧ s'.newMode = none := by
  intro j
  induction j with
  | zero =>
    intro f s hi hl hm hn hf hle hlt hp _
    obtain ⟨f, rfl⟩ : ∃ f', f = f' + 1 := ⟨f - 1, by omega⟩
    rw [x12Loop, if_neg (by simp only [St.charsLeft, hi]; omega)]
    exact ⟨s, rfl, hi, hl, rfl, rfl, hm, hp, hn⟩
  | succ j ih =>
    intro f s hi hl hm hn hf hle hlt hp hnat
    obtain ⟨f, rfl⟩ : ∃ f', f = f' + 1 := ⟨f - 1, by omega⟩
    obtain ⟨v1, v2, v3, hit⟩ := x12Loop_iter f s (by rw [hi]; omega) (fun x hx => by rw [hi]; exact hnat x (by omega))
    generalize hs1 : writeThree { s with pos := s.pos + 3 } v1 v2 v3 = s1 at hit
    have a1 : s1.input = body := by rw [← hs1]; exact hi
    have a2 : s1.list = list := by rw [← hs1]; exact hl
    have a3 : s1.mode = .x12 := by rw [← hs1]; exact hm
    have a4 : s1.newMode = none := by rw [← hs1]; exact hn
    have a5 : s1.pos = s.pos + 3 := by rw [← hs1]; rfl
    have a6 : s1.plan = s.plan := by rw [← hs1]; rfl
    have a7 : s1.cw.length = s.cw.length + 2 := by rw [← hs1]; simp [writeThree, St.push]
    have hstay := maybeSwitch_stay s1 0 .x12 [] (by rw [a6, hp]) (by omega) (by omega)
    rw [hit _ _ hstay]
    simp only [Bool.false_eq_true, ↓reduceIte]
    obtain ⟨s', e1, e2, e3, e4, e5, e6, e7, e8⟩ := ih f s1 a1 a2 a3 a4 (by omega) (by rw [a5]; omega) (by rw [a5]; omega)
      (by rw [a6, hp]) (fun x hx => by rw [a5, Nat.add_assoc]; exact hnat (3 + x) (by omega))
    exact ⟨s', e1, e2, e3, by rw [e4, a5]; omega, by rw [e5, a7]; omega, e6, e7, e8⟩

/-! ### what `x12::encode` does after its loop -/

theorem rest_ne_of_asz1 (s : St) (h : asciiSize s.rest = 1) : s.hasMore = true := by
  by_cases hm : s.pos < s.input.length
  · simp [St.hasMore, hm]
  · have : s.rest = [] := List.drop_eq_nil_of_le (by omega)
    rw [this] at h
    simp [asciiSize] at h

theorem x12Encode_tooMuch1 (s s2 : St) (sw : Bool) (hl : x12Loop (s.charsLeft + 2) s = .ok (s2, sw))
    (h2 : s2.charsLeft ≤ 2) (h1 : asciiSize s2.rest = 1)
    (hf : firstBigEnough s2.list (s2.cw.length + 1) = none) : x12Encode s = .error .tooMuch := by
  unfold x12Encode
  rw [hl]
  simp only [h2, h1, and_self, ↓reduceIte, St.sizeLeftE, St.sizeLeft, hf]

theorem x12Encode_one (s s2 : St) (sw : Bool) (sym : Sym) (hl : x12Loop (s.charsLeft + 2) s = .ok (s2, sw))
    (h2 : s2.charsLeft ≤ 2) (h1 : asciiSize s2.rest = 1)
    (hf : firstBigEnough s2.list (s2.cw.length + 1) = some sym) :
    x12Encode s = if dataCw sym - (s2.cw.length + 1) = 0 then .ok s2.setAscii
      else .ok ((if !sw then s2.setAscii else s2).push 254) := by
  unfold x12Encode
  rw [hl]
  have hm := rest_ne_of_asz1 s2 h1
  simp only [h2, h1, and_self, ↓reduceIte, St.sizeLeftE, St.sizeLeft, hf, hm]
  by_cases h0 : dataCw sym - (s2.cw.length + 1) = 0
  · simp only [h0, decide_true, ↓reduceIte]
  · simp only [h0, decide_false, ↓reduceIte]

theorem x12Encode_more (s s2 : St) (sw : Bool) (hl : x12Loop (s.charsLeft + 2) s = .ok (s2, sw))
    (hm : s2.hasMore = true) (hn : ¬ (s2.charsLeft ≤ 2 ∧ asciiSize s2.rest = 1)) :
    x12Encode s = .ok ((if !sw then s2.setAscii else s2).push 254) := by
  unfold x12Encode
  rw [hl]
  simp only [hn, ↓reduceIte, hm]

theorem x12Encode_done (s s2 : St) (sw : Bool) (hl : x12Loop (s.charsLeft + 2) s = .ok (s2, sw))
    (hm : s2.hasMore = false) :
    x12Encode s = match firstBigEnough s2.list (s2.cw.length + 0) with
      | none => .error .tooMuch
      | some sym => if dataCw sym - (s2.cw.length + 0) > 0 then .ok ((if !sw then s2.setAscii else s2).push 254)
          else .ok s2 := by
  unfold x12Encode
  rw [hl]
  have hr : s2.rest = [] := by
    simp only [St.hasMore, decide_eq_false_iff_not] at hm
    exact List.drop_eq_nil_of_le (by omega)
  have hn : ¬ (s2.charsLeft ≤ 2 ∧ asciiSize s2.rest = 1) := by rw [hr]; simp [asciiSize]
  simp only [hn, ↓reduceIte, hm, Bool.false_eq_true, St.sizeLeftE, St.sizeLeft]
  cases hf : firstBigEnough s2.list (s2.cw.length + 0) with
  | none => rfl
  | some sym =>
    simp only []
    by_cases h0 : dataCw sym - (s2.cw.length + 0) > 0
    · simp only [h0, decide_true, ↓reduceIte]
    · simp only [h0, decide_false, ↓reduceIte]

/-! ### `SwitchSeg .x12` -/

theorem firstBigEnough_le (list : List Sym) (n : Nat) (sym : Sym) (h : firstBigEnough list n = some sym) :
    n ≤ dataCw sym := by
  unfold firstBigEnough at h
  have := List.find?_some h
  simpa using this

theorem ceil12_of_dvd (c : Nat) (h : c % 12 = 0) : ceil12 c = c := by
  unfold ceil12; rw [if_pos h]

/-- with one or two characters left at a triple boundary the plan is a `SwitchPoint` only if it dies:
a single ASCII codeword remains and no symbol holds it -/
theorem switchPoint_few (g : GPlan) (q : X12P) (hp : g.plan = .x12 q) (hv : q.values = 0) (ha : q.asciiEnd = none)
    (hcl : q.ctx.charsLeft = 1 ∨ q.ctx.charsLeft = 2) (hsp : SwitchPoint g) :
    asciiSize q.ctx.rest = 1 ∧ firstBigEnough q.ctx.list (q.ctx.written + 1) = none := by
  rcases x12Init_trigger q hv ha hcl with ⟨_, h2, h3⟩ | ⟨c0, h1, _⟩
  · exact ⟨h2, h3⟩
  · exfalso
    have hm : q.ctx.hasMore = true := by
      simp only [Ctx.charsLeft] at hcl
      simp only [Ctx.hasMore, decide_eq_true_eq]
      omega
    have hst : ∃ g1, g.step = .ok (some (g1, { «end» := false, unbeatable := true })) := by
      unfold GPlan.step
      rw [hp]
      simp only [x12Step, hm, Bool.not_true, Bool.false_eq_true, ↓reduceIte, h1, Option.isSome_some]
      exact ⟨_, rfl⟩
    obtain ⟨g1, hst⟩ := hst
    rcases hsp with h | ⟨g', r, h, hu, _⟩
    · rw [hst] at h; cases h
    · rw [hst] at h
      simp only [Except.ok.injEq, Option.some.injEq, Prod.mk.injEq] at h
      obtain ⟨_, rfl⟩ := h
      simp at hu

/-- `SwitchSeg .x12` together with the progress fact `w + 2 ≤ ctx'.written` (at least one triple and the UNLATCH are
written), which the main loop's no-progress counter needs -/
def SwitchSegX12' : Prop :=
  ∀ (body : List Nat) (list : List Sym) (p w k : Nat) (g0 gk : GPlan) (ac : Nat) (ctx' : Ctx) (m' : EMode)
    (rest : List (Nat × EMode)) (s : St),
    ByteList body → p + k < body.length → (1 ≤ k ∨ EMode.x12 = .ascii) →
    g0.plan = newPlan .x12 (ctxAt body list p w) →
    StepsTo k g0 gk → SwitchPoint gk → gk.switchCost = some ac → gk.unlatch = .ok ctx' → m' ≠ .x12 →
    EncAt body list s p w .x12 ((body.length - (p + k), m') :: rest) →
    ac = g0.extra + 12 * (ctx'.written - w) ∧ w + 2 ≤ ctx'.written ∧
    ((∃ s', encodeMode s = .ok s' ∧ s'.input = body ∧ s'.list = list ∧ s'.pos = p + k ∧
        s'.cw.length = ctx'.written ∧ s'.mode = m' ∧ s'.plan = rest ∧ s'.newMode = m'.latch) ∨
     (encodeMode s = .error .tooMuch ∧ firstBigEnough list ctx'.written = none))

theorem switchSeg_x12' : SwitchSegX12' := by
  intro body list p w k g0 gk ac ctx' m' rest s _ hlt hk hg0 hst hsp hsc hul hm' henc
  obtain ⟨hi, hl, hpos, hcw, hmode, hplan, hnm⟩ := henc
  have hk1 : 1 ≤ k := by
    rcases hk with h | h
    · exact h
    · cases h
  obtain ⟨qk, hqk, hF, hex⟩ := stepsTo_FInv k 0 g0 gk _ hg0 (fresh_FInv body list p w) hst
  rw [Nat.zero_add] at hF
  -- the switch is priced at a triple boundary
  unfold GPlan.switchCost at hsc
  rw [hqk] at hsc
  simp only [] at hsc
  have hv : qk.values = 0 := by
    by_cases hv : qk.values = 0
    · exact hv
    · rw [if_neg hv] at hsc; cases hsc
  rw [if_pos hv] at hsc
  simp only [Option.some.injEq] at hsc
  -- `write_unlatch`
  unfold GPlan.unlatch at hul
  rw [hqk] at hul
  cases hae : qk.asciiEnd with
  | some f => simp [x12Unlatch, hv, hae] at hul
  | none =>
    simp only [x12Unlatch, hv, hae, ne_eq, not_true_eq_false, ↓reduceIte, Option.isSome_none, Bool.false_eq_true,
      Except.ok.injEq] at hul
    subst hul
    obtain ⟨n1, n2, n3, _, n5⟩ := hF.nat hae
    have hk3 : k = 3 * (k / 3) := by omega
    have hwr : (qk.ctx.write 1).written = w + 2 * (k / 3) + 1 := by simp only [Ctx.write]; omega
    rw [hwr]
    refine ⟨by omega, by omega, ?_⟩
    have hcl : s.charsLeft = body.length - p := by simp [St.charsLeft, hi, hpos]
    obtain ⟨s2, e0, e1, e2, e3, e4, e5, e6, e7⟩ := x12Loop_switch body list m' rest hm' (k / 3) (s.charsLeft + 2) s hi hl hmode hnm
      (by omega) (by omega) (by rw [hpos]; omega) (by rw [hplan, hpos]; congr 3; omega)
      (fun x hx => by rw [hpos]; exact n5 x (by omega))
    have hx : encodeMode s = x12Encode s := by simp only [encodeMode, hmode]
    rw [hx]
    have hp2 : s2.pos = p + k := by rw [e3, hpos]; omega
    have hc2 : s2.cw.length = w + 2 * (k / 3) := by rw [e4, hcw]
    have hcl2 : s2.charsLeft = body.length - (p + k) := by simp [St.charsLeft, e1, hp2]
    have hm2 : s2.hasMore = true := by simp only [St.hasMore, e1, hp2, decide_eq_true_eq]; exact hlt
    by_cases hfew : body.length - (p + k) ≤ 2
    · right
      have hqcl : qk.ctx.charsLeft = body.length - (p + k) := by simp [Ctx.charsLeft, hF.hdata, hF.hpos]
      have hqr : qk.ctx.rest = s2.rest := by simp [Ctx.rest, St.rest, hF.hdata, hF.hpos, e1, hp2]
      obtain ⟨f1, f2⟩ := switchPoint_few gk qk hqk hv hae (by omega) hsp
      rw [hF.hlist, n3] at f2
      exact ⟨x12Encode_tooMuch1 s s2 true e0 (by omega) (by rw [← hqr]; exact f1) (by rw [e2, hc2]; exact f2), f2⟩
    · left
      rw [x12Encode_more s s2 true e0 hm2 (fun h => hfew (by omega))]
      exact ⟨_, rfl, e1, e2, hp2, by simp [St.push, hc2], e5, e6, e7⟩

theorem switchSeg_x12 : SwitchSeg .x12 := by
  intro body list p w k g0 gk ac ctx' m' rest s h1 h2 h3 h4 h5 h6 h7 h8 h9 h10
  obtain ⟨a, b, c⟩ := switchSeg_x12' body list p w k g0 gk ac ctx' m' rest s h1 h2 h3 h4 h5 h6 h7 h8 h9 h10
  exact ⟨a, by omega, c⟩

/-! ### `EndSeg .x12` -/

/-- the step that reports the end of the data leaves the plan as it is -/
theorem endStep_x12 (g gE : GPlan) (q : X12P) (r : StepResult) (hp : g.plan = .x12 q) (hm : q.ctx.hasMore = false)
    (h : g.step = .ok (some (gE, r))) : gE.cost = g.extra + q.cost := by
  obtain ⟨q1, e1, e2, e3⟩ := gstep_x12 g gE q r hp h
  unfold x12Step at e1
  simp only [hm, Bool.not_false, ↓reduceIte, Except.ok.injEq, Option.some.injEq, Prod.mk.injEq] at e1
  obtain ⟨rfl, _⟩ := e1
  unfold GPlan.cost
  rw [e2, e3]

/-- **`EndSeg .x12`, general form.**  Either the inequality of `EndSeg` holds, or the segment is a whole number of
triples, the symbol the planner predicted has room left, and the encoder has written exactly one codeword more
than priced (the UNLATCH at the end of the data), which still fits that symbol. -/
theorem endSeg_x12_gen (body : List Nat) (list : List Sym) (p w k : Nat) (g0 gk gE : GPlan) (r : StepResult) (s : St)
    (_hb : ByteList body) (hpk : p + k = body.length) (hk : 1 ≤ k ∨ EMode.x12 = .ascii)
    (hg0 : g0.plan = newPlan .x12 (ctxAt body list p w))
    (hst : StepsTo k g0 gk) (hstep : gk.step = .ok (some (gE, r))) (_hend : r.end = true)
    (henc : EncAt body list s p w .x12 [(0, .x12)]) :
    g0.extra ≤ gE.cost ∧
    ((∃ s', encodeMode s = .ok s' ∧ s'.input = body ∧ s'.list = list ∧ s'.pos ≤ body.length ∧ s'.newMode = none ∧
        (s'.hasMore = true → s'.mode = .ascii ∧ s'.plan = [(0, .ascii)]) ∧ w ≤ s'.cw.length ∧
        (12 * (s'.cw.length + asciiSize s'.rest) ≤ 12 * w + ceil12 (gE.cost - g0.extra) ∨
         (k % 3 = 0 ∧ s'.hasMore = false ∧ ceil12 (gE.cost - g0.extra) = 24 * (k / 3) ∧
          s'.cw.length = w + 2 * (k / 3) + 1 ∧
          ∃ sym, firstBigEnough list (w + ceil12 (gE.cost - g0.extra) / 12) = some sym ∧ s'.cw.length ≤ dataCw sym))) ∨
     (encodeMode s = .error .tooMuch ∧ firstBigEnough list (w + ceil12 (gE.cost - g0.extra) / 12) = none)) := by
  obtain ⟨hi, hl, hpos, hcw, hmode, hplan, hnm⟩ := henc
  have hk1 : 1 ≤ k := by
    rcases hk with h | h
    · exact h
    · cases h
  obtain ⟨qk, hqk, hF, hex⟩ := stepsTo_FInv k 0 g0 gk _ hg0 (fresh_FInv body list p w) hst
  rw [Nat.zero_add] at hF
  have hmq : qk.ctx.hasMore = false := by
    simp only [Ctx.hasMore, hF.hdata, hF.hpos, decide_eq_false_iff_not]; omega
  have hcost := endStep_x12 gk gE qk r hqk hmq hstep
  rw [hex] at hcost
  have hC : gE.cost - g0.extra = qk.cost := by omega
  rw [hC]
  refine ⟨by omega, ?_⟩
  have hx : encodeMode s = x12Encode s := by simp only [encodeMode, hmode]
  rw [hx]
  have hcl : s.charsLeft = k := by simp only [St.charsLeft, hi, hpos]; omega
  -- the triples of the segment are native
  have hnat : ∀ x, x < 3 * (k / 3) → isNativeX12 (body.getD (p + x) 0) = true := by
    cases hae : qk.asciiEnd with
    | none => intro x hx; exact (hF.nat hae).2.2.2.2 x (by omega)
    | some f =>
      obtain ⟨j, t, c0, a1, a2, a3, _, _, _, _, _, a9⟩ := hF.asc f hae
      have : k / 3 = j := by omega
      rw [this]; exact a9
  obtain ⟨s2, e0, e1, e2, e3, e4, e5, e6, e7⟩ := x12Loop_end body list (k / 3) (s.charsLeft + 2) s hi hl hmode hnm
    (by omega) (by rw [hpos]; omega) (by rw [hpos]; omega) hplan (fun x hx => by rw [hpos]; exact hnat x hx)
  rw [hpos] at e3
  rw [hcw] at e4
  have hr2 : s2.rest = body.drop (p + 3 * (k / 3)) := by simp only [St.rest, e1, e3]
  have hif : (if (!false) = true then s2.setAscii else s2) = s2.setAscii := rfl
  have fcw : (s2.setAscii.push 254).cw.length = w + 2 * (k / 3) + 1 := by simp [St.push, St.setAscii, e4]
  have fpos : (s2.setAscii.push 254).pos = p + 3 * (k / 3) := e3
  have frest : (s2.setAscii.push 254).rest = s2.rest := rfl
  have gcw : s2.setAscii.cw.length = w + 2 * (k / 3) := e4
  have gpos : s2.setAscii.pos = p + 3 * (k / 3) := e3
  have grest : s2.setAscii.rest = s2.rest := rfl
  cases hae : qk.asciiEnd with
  | none =>
    obtain ⟨_, n2, _, n4, _⟩ := hF.nat hae
    have hk3 : k % 3 = 0 := by
      by_cases h : k % 3 = 0
      · exact h
      · have := n4 h; omega
    have hm2 : s2.hasMore = false := by
      simp only [St.hasMore, e1, e3, decide_eq_false_iff_not]; omega
    have hc12 : ceil12 qk.cost = 24 * (k / 3) := by rw [ceil12_of_dvd _ (by omega)]; omega
    rw [hc12, x12Encode_done s s2 false e0 hm2, e2, e4, hif]
    have hd : w + 24 * (k / 3) / 12 = w + 2 * (k / 3) + 0 := by omega
    rw [hd]
    have hrest : s2.rest = [] := by rw [hr2]; exact List.drop_eq_nil_of_le (by omega)
    cases hf : firstBigEnough list (w + 2 * (k / 3) + 0) with
    | none => right; exact ⟨rfl, rfl⟩
    | some sym =>
      left
      simp only []
      have hle := firstBigEnough_le _ _ _ hf
      by_cases h0 : dataCw sym - (w + 2 * (k / 3) + 0) > 0
      · rw [if_pos h0]
        refine ⟨_, rfl, e1, e2, by rw [fpos]; omega, e7, fun _ => ⟨rfl, rfl⟩, by rw [fcw]; omega,
          Or.inr ⟨hk3, hm2, trivial, fcw, sym, rfl, by rw [fcw]; omega⟩⟩
      · rw [if_neg h0]
        refine ⟨s2, rfl, e1, e2, by rw [e3]; omega, e7, fun h => (by rw [hm2] at h; cases h), by omega, Or.inl ?_⟩
        rw [hrest, e4]; simp only [asciiSize]; omega
  | some f =>
    obtain ⟨j, t, c0, a1, a2, a3, _, _, a6, a7, a8, _⟩ := hF.asc f hae
    have hj : k / 3 = j := by omega
    rw [hj] at e3 e4 hr2 fcw fpos gcw gpos
    have hkt : k - 3 * j = t := by omega
    generalize hasz : asciiSize (body.drop (p + 3 * j)) = asz at a6 a8
    have hft : f * (k - 3 * j) = 12 * asz := by
      rw [hkt, a6]
      rcases a3 with rfl | rfl
      · simp only [Nat.reduceDiv]; omega
      · simp only [Nat.reduceDiv]; omega
    rw [hft] at a7
    have hcl2 : s2.charsLeft ≤ 2 := by simp only [St.charsLeft, e1, e3]; omega
    have hasz2 : asciiSize s2.rest = asz := by rw [hr2]; exact hasz
    have hm2 : s2.hasMore = true := by simp only [St.hasMore, e1, e3, decide_eq_true_eq]; omega
    left
    rcases a8 with ⟨h1, sym, hf, hc0⟩ | ⟨h1, hc0⟩
    · subst h1
      rw [x12Encode_one s s2 false sym e0 hcl2 hasz2 (by rw [e2, e4]; exact hf), e4, hif]
      by_cases h0 : dataCw sym - (w + 2 * j + 1) = 0
      · rw [if_pos h0] at hc0 ⊢
        subst hc0
        have hc12 : ceil12 qk.cost = 24 * j + 12 := by rw [ceil12_of_dvd _ (by omega)]; omega
        refine ⟨_, rfl, e1, e2, by rw [gpos]; omega, e7, fun _ => ⟨rfl, rfl⟩, by rw [gcw]; omega, Or.inl ?_⟩
        rw [hc12, grest, hasz2, gcw]
        omega
      · rw [if_neg h0] at hc0 ⊢
        subst hc0
        have hc12 : ceil12 qk.cost = 24 * j + 24 := by rw [ceil12_of_dvd _ (by omega)]; omega
        refine ⟨_, rfl, e1, e2, by rw [fpos]; omega, e7, fun _ => ⟨rfl, rfl⟩, by rw [fcw]; omega, Or.inl ?_⟩
        rw [hc12, frest, hasz2, fcw]
        omega
    · subst hc0
      have hc12 : ceil12 qk.cost = 24 * j + 12 + 12 * asz := by rw [ceil12_of_dvd _ (by omega)]; omega
      rw [x12Encode_more s s2 false e0 hm2 (fun h => h1 (hasz2 ▸ h.2)), hif]
      refine ⟨_, rfl, e1, e2, by rw [fpos]; omega, e7, fun _ => ⟨rfl, rfl⟩, by rw [fcw]; omega, Or.inl ?_⟩
      rw [hc12, frest, hasz2, fcw]
      omega

/-- **`EndSeg .x12` in the corrected shape**: the inequality of the `ok` branch is replaced by "what the encoder has
written plus the ASCII tail fits the symbol the planner predicted"; `w ≤ s'.cw.length` is added. -/
def EndSegX12' : Prop :=
  ∀ (body : List Nat) (list : List Sym) (p w k : Nat) (g0 gk gE : GPlan) (r : StepResult) (s : St),
    ByteList body → p + k = body.length → (1 ≤ k ∨ EMode.x12 = .ascii) →
    g0.plan = newPlan .x12 (ctxAt body list p w) →
    StepsTo k g0 gk → gk.step = .ok (some (gE, r)) → r.end = true →
    EncAt body list s p w .x12 [(0, .x12)] →
    g0.extra ≤ gE.cost ∧
    ((∃ s', encodeMode s = .ok s' ∧ s'.input = body ∧ s'.list = list ∧ s'.pos ≤ body.length ∧ s'.newMode = none ∧
        (s'.hasMore = true → s'.mode = .ascii ∧ s'.plan = [(0, .ascii)]) ∧ w ≤ s'.cw.length ∧
        (∀ sym, firstBigEnough list (w + ceil12 (gE.cost - g0.extra) / 12) = some sym →
          s'.cw.length + asciiSize s'.rest ≤ dataCw sym)) ∨
     (encodeMode s = .error .tooMuch ∧ firstBigEnough list (w + ceil12 (gE.cost - g0.extra) / 12) = none))

theorem endSeg_x12' : EndSegX12' := by
  intro body list p w k g0 gk gE r s h1 h2 h3 h4 h5 h6 h7 h8
  obtain ⟨a, b⟩ := endSeg_x12_gen body list p w k g0 gk gE r s h1 h2 h3 h4 h5 h6 h7 h8
  refine ⟨a, ?_⟩
  rcases b with ⟨s', b1, b2, b3, b4, b5, b6, b7, b8⟩ | b
  · left
    refine ⟨s', b1, b2, b3, b4, b5, b6, b7, ?_⟩
    intro sym hsym
    have hle := firstBigEnough_le _ _ _ hsym
    rcases b8 with h | ⟨_, c2, _, _, sym', c4, c5⟩
    · omega
    · rw [hsym] at c4
      simp only [Option.some.injEq] at c4
      subst c4
      have : s'.rest = [] := by
        simp only [St.hasMore, decide_eq_false_iff_not] at c2
        exact List.drop_eq_nil_of_le (by omega)
      rw [this]; simp only [asciiSize]; omega
  · right; exact b

/-- the hypothesis under which `EndSeg .x12` holds as stated: a segment of whole triples must fill the
symbol chosen for it exactly (otherwise the encoder appends an UNLATCH the planner does not price) -/
def NoSpareAtEnd (list : List Sym) (w k : Nat) : Prop :=
  k % 3 = 0 → match firstBigEnough list (w + 2 * (k / 3)) with
    | some sym => dataCw sym ≤ w + 2 * (k / 3)
    | none => True

instance (list : List Sym) (w k : Nat) : Decidable (NoSpareAtEnd list w k) := by
  unfold NoSpareAtEnd
  cases firstBigEnough list (w + 2 * (k / 3)) <;> simp only [] <;> infer_instance

/-- `EndSeg .x12` with the extra hypothesis `NoSpareAtEnd` and its conclusions unchanged -/
theorem endSeg_x12_noSpare (body : List Nat) (list : List Sym) (p w k : Nat) (g0 gk gE : GPlan) (r : StepResult) (s : St)
    (hb : ByteList body) (hpk : p + k = body.length) (hk : 1 ≤ k ∨ EMode.x12 = .ascii)
    (hg0 : g0.plan = newPlan .x12 (ctxAt body list p w))
    (hst : StepsTo k g0 gk) (hstep : gk.step = .ok (some (gE, r))) (hend : r.end = true)
    (henc : EncAt body list s p w .x12 [(0, .x12)]) (hns : NoSpareAtEnd list w k) :
    g0.extra ≤ gE.cost ∧
    ((∃ s', encodeMode s = .ok s' ∧ s'.input = body ∧ s'.list = list ∧ s'.pos ≤ body.length ∧ s'.newMode = none ∧
        (s'.hasMore = true → s'.mode = .ascii ∧ s'.plan = [(0, .ascii)]) ∧
        12 * (s'.cw.length + asciiSize s'.rest) ≤ 12 * w + ceil12 (gE.cost - g0.extra)) ∨
     (encodeMode s = .error .tooMuch ∧ firstBigEnough list (w + ceil12 (gE.cost - g0.extra) / 12) = none)) := by
  obtain ⟨a, b⟩ := endSeg_x12_gen body list p w k g0 gk gE r s hb hpk hk hg0 hst hstep hend henc
  refine ⟨a, ?_⟩
  rcases b with ⟨s', b1, b2, b3, b4, b5, b6, _, b8⟩ | b
  · left
    refine ⟨s', b1, b2, b3, b4, b5, b6, ?_⟩
    rcases b8 with h | ⟨c1, _, c3, c4, sym, c5, c6⟩
    · exact h
    · exfalso
      have := hns c1
      rw [c3, show w + 24 * (k / 3) / 12 = w + 2 * (k / 3) by omega] at c5
      rw [c5] at this
      simp only [] at this
      omega
  · right; exact b

/-! ### `EndSeg .x12` as stated in `Couple.lean` is false

`body = "AAA"`, the only symbol is 10×10 (3 data codewords), `p = w = 0`: the plan costs two codewords, the encoder
writes the triple and, as the symbol has room, an UNLATCH: `[89, 191, 254]`. -/

def cexG (i wr : Nat) : GPlan :=
  { extra := 0, switches := [],
    plan := PlanImpl.x12 ⟨{ data := [65, 65, 65], pos := i, written := wr, list := [0] }, i % 3, none, 8 * i⟩ }

def cexS : St :=
  { input := [65, 65, 65], pos := 0, mode := .x12, plan := [(0, .x12)], newMode := none, cw := [], list := [0] }

theorem cexG_step (i wr wr' : Nat) (hi : i = 0 ∧ wr = 0 ∧ wr' = 0 ∨ i = 1 ∧ wr = 0 ∧ wr' = 0 ∨ i = 2 ∧ wr = 0 ∧ wr' = 2) :
    (cexG i wr).step = .ok (some (cexG (i + 1) wr', { «end» := false, unbeatable := false })) := by
  rcases hi with ⟨rfl, rfl, rfl⟩ | ⟨rfl, rfl, rfl⟩ | ⟨rfl, rfl, rfl⟩ <;>
    simp [cexG, GPlan.step, x12Step, x12Init, Ctx.hasMore, Ctx.charsLeft, isNativeX12, Ctx.peek, Ctx.eat, Ctx.write]

theorem not_endSeg_x12 : ¬ EndSeg .x12 := by
  intro h
  have hst : StepsTo 3 (cexG 0 0) (cexG 3 2) :=
    ⟨_, _, cexG_step 0 0 0 (by omega), rfl, _, _, cexG_step 1 0 0 (by omega), rfl, _, _, cexG_step 2 0 2 (by omega), rfl, rfl⟩
  obtain ⟨_, hd⟩ := h [65, 65, 65] [0] 0 0 3 (cexG 0 0) (cexG 3 2) (cexG 3 2) { «end» := true, unbeatable := false } cexS
    (by intro b hb; simp at hb; omega) rfl (Or.inl (by decide)) rfl hst rfl rfl ⟨rfl, rfl, rfl, rfl, rfl, rfl, rfl⟩
  have he : encodeMode cexS =
      .ok { input := [65, 65, 65], pos := 3, mode := .ascii, plan := [(0, .ascii)], newMode := none, cw := [89, 191, 254], list := [0] } :=
    rfl
  rcases hd with ⟨s', e1, _, _, _, _, _, hineq⟩ | ⟨e1, _⟩
  · rw [he] at e1
    simp only [Except.ok.injEq] at e1
    subst e1
    revert hineq
    decide
  · rw [he] at e1; cases e1

end DM.Lemmas.CoupleX12
