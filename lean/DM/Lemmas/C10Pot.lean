import DM.Lemmas.CoupleAscii
import DM.Lemmas.C10Live
/-!
The ASCII potential (used by `DM/Props/C10Ascii.lean`): for an ASCII plan that has read `k` characters,
`finA data k P` = its cost + the cost of encoding the unread rest in ASCII (inside a digit pair:
the second half of the pair, then the rest). One `step()` of an ASCII plan keeps it, so the plan that is
ASCII from the start ends with cost `12 * asciiSize data`. Also: where the candidates of one pass of
`iteratePlans` come from.
-/
namespace DM.Lemmas.C10Pot
open DM.Model DM.Model.Plan DM.Model.Enc DM.Lemmas DM.Lemmas.PlanInv DM.Lemmas.PlanLoop DM.Lemmas.CoupleAscii

/-! ### `asciiSize` one step at a time -/

theorem asciiSize_pair (l : List Nat) (h : twoDigitsComing l = true) : asciiSize l = 1 + asciiSize (l.drop 2) := by
  match l with
  | [] => simp [twoDigitsComing] at h
  | [a] => simp [twoDigitsComing] at h
  | a :: b :: t =>
    simp only [twoDigitsComing] at h
    simp [asciiSize, h]

theorem asciiSize_one (a : Nat) (t : List Nat) (h : twoDigitsComing (a :: t) = false) :
    asciiSize (a :: t) = (if a ≤ 127 then 1 else 2) + asciiSize t := by
  match t with
  | [] => simp [asciiSize]
  | b :: t =>
    simp only [twoDigitsComing] at h
    simp [asciiSize, h]

theorem asciiSize_drop_pair (data : List Nat) (k : Nat) (h : 2 ≤ digitsFrom data k) :
    asciiSize (data.drop k) = 1 + asciiSize (data.drop (k + 2)) := by
  have := asciiSize_pair (data.drop k) ((twoDigits_iff data k).mpr h)
  rw [this, List.drop_drop]

theorem asciiSize_drop_one (data : List Nat) (k : Nat) (hk : k < data.length) (h : digitsFrom data k < 2) :
    asciiSize (data.drop k) = (if data.getD k 0 ≤ 127 then 1 else 2) + asciiSize (data.drop (k + 1)) := by
  have h2 : twoDigitsComing (data.drop k) = false := by
    cases hh : twoDigitsComing (data.drop k) with
    | false => rfl
    | true => have := (twoDigits_iff data k).mp hh; omega
  rw [List.drop_eq_getElem_cons hk] at h2 ⊢
  have hg : data.getD k 0 = data[k] := by simp [List.getD, List.getElem?_eq_getElem hk]
  rw [hg]
  exact asciiSize_one _ _ h2

/-! ### the potential -/

def finA (data : List Nat) (k : Nat) (P : AsciiP) : Nat :=
  if P.digitsAhead % 2 = 1 then P.cost + 6 + 12 * asciiSize (data.drop (k + 1))
  else P.cost + 12 * asciiSize (data.drop k)

theorem finA_step {data : List Nat} {list : List Sym} {k : Nat} (P P1 : AsciiP) (r : StepResult)
    (hc : CtxAt data list k P.ctx) (hl : P.digitsAhead ≤ digitsFrom data k)
    (hs : asciiStep P = .ok (P1, r)) (he : r.end = false) : finA data (k + 1) P1 = finA data k P := by
  obtain ⟨hlt, _, _, hcase⟩ := asciiStep_elim P P1 r hc hl hs he
  unfold finA
  rcases hcase with ⟨h0, hd, h1, _, hcost⟩ | ⟨h0, hd, h1, _, hcost⟩ | ⟨hpos, h1, _, hcost⟩
  · rw [h0, h1]
    simp only [Nat.zero_mod, Nat.zero_ne_one, ↓reduceIte]
    rw [asciiSize_drop_one data k hlt hd, hcost]
    split <;> omega
  · rw [h0, h1]
    have hodd : (digitsFrom data k / 2 * 2 - 1) % 2 = 1 := by omega
    simp only [hodd, Nat.zero_mod, Nat.zero_ne_one, ↓reduceIte]
    rw [asciiSize_drop_pair data k hd, hcost, show k + 1 + 1 = k + 2 from rfl]
    omega
  · rw [h1, hcost]
    by_cases hodd : P.digitsAhead % 2 = 1
    · have : ¬ (P.digitsAhead - 1) % 2 = 1 := by omega
      rw [if_pos hodd, if_neg this]
    · have : (P.digitsAhead - 1) % 2 = 1 := by omega
      rw [if_neg hodd, if_pos this]
      rw [asciiSize_drop_pair data k (by omega), show k + 1 + 1 = k + 2 from rfl]
      omega

/-- at the end of the data a step changes neither the cost nor the (empty) look-ahead -/
theorem asciiStep_end {data : List Nat} {list : List Sym} {k : Nat} (P P1 : AsciiP) (r : StepResult)
    (hc : CtxAt data list k P.ctx) (hl : P.digitsAhead ≤ digitsFrom data k) (hk : ¬ k < data.length)
    (hs : asciiStep P = .ok (P1, r)) : P1.cost = P.cost ∧ P1.digitsAhead = 0 := by
  have hd0 : digitsFrom data k = 0 := by
    unfold digitsFrom
    rw [List.drop_eq_nil_of_le (by omega)]
    rfl
  have h0 : P.digitsAhead = 0 := by omega
  unfold asciiStep at hs
  simp only [h0, ↓reduceIte] at hs
  rw [rest_eq hc] at hs
  have hdf : ((data.drop k).takeWhile isDigit).length = digitsFrom data k := rfl
  rw [hdf, hd0] at hs
  have hm : (P.ctx.write (0 / 2 * 2 / 2)).hasMore = false := by
    rw [hasMore_iff (ctxAt_write hc _)]; simpa using hk
  simp only [hm, Bool.not_false, ↓reduceIte, Except.ok.injEq, Prod.mk.injEq] at hs
  rw [← hs.1]
  exact ⟨rfl, rfl⟩

/-- the invariant of a plan that has been ASCII from the start -/
def PureA (data : List Nat) (k : Nat) (g : GPlan) : Prop :=
  ∃ P, g.plan = .ascii P ∧ g.extra = 0 ∧ finA data k P = 12 * asciiSize data

theorem pureA_step {data : List Nat} {list : List Sym} {k : Nat} {g g' : GPlan} {r : StepResult}
    (hcore : Core data list k g.plan) (h : PureA data k g) (hs : g.step = .ok (some (g', r))) :
    PureA data (nxt data k) g' := by
  obtain ⟨P, hp, hx, hf⟩ := h
  obtain ⟨hc, hk, hl⟩ := hcore
  rw [hp] at hc hl
  obtain ⟨P1, hs1, hp1, hx1⟩ := gstep_ascii hp hs
  refine ⟨P1, hp1, by rw [hx1, hx], ?_⟩
  obtain ⟨p', r', e1, _, _, e4, _⟩ := asciiStep_spec P hc hl
  rw [hs1] at e1
  simp only [Except.ok.injEq, Prod.mk.injEq] at e1
  by_cases hlt : k < data.length
  · have he : r.end = false := by rw [e1.2, e4]; simpa using hlt
    have hn : nxt data k = k + 1 := by simp [nxt, hlt]
    rw [hn, finA_step P P1 r hc hl hs1 he, hf]
  · have hn : nxt data k = k := by simp [nxt, hlt]
    obtain ⟨c1, c2⟩ := asciiStep_end P P1 r hc hl hlt hs1
    have hd0 : digitsFrom data k = 0 := by
      unfold digitsFrom
      rw [List.drop_eq_nil_of_le (by omega)]
      rfl
    have h0 : P.digitsAhead = 0 := by simp only [Local] at hl; omega
    rw [hn, ← hf]
    unfold finA
    rw [c1, c2, h0]

theorem pureA_end {data : List Nat} {list : List Sym} {k : Nat} {g : GPlan}
    (hcore : Core data list k g.plan) (h : PureA data k g) (hk : ¬ k < data.length) :
    g.cost = 12 * asciiSize data := by
  obtain ⟨P, hp, hx, hf⟩ := h
  obtain ⟨hc, hk', hl⟩ := hcore
  rw [hp] at hl
  have hd0 : digitsFrom data k = 0 := by
    unfold digitsFrom
    rw [List.drop_eq_nil_of_le (by omega)]
    rfl
  have h0 : P.digitsAhead = 0 := by simp only [Local] at hl; omega
  unfold finA at hf
  rw [h0] at hf
  simp only [Nat.zero_mod, Nat.zero_ne_one, ↓reduceIte] at hf
  rw [List.drop_eq_nil_of_le (by omega)] at hf
  simp only [asciiSize, Nat.mul_zero, Nat.add_zero] at hf
  unfold GPlan.cost
  rw [hp, hx]
  simp only []
  omega

/-! ### where the candidates of one pass come from -/

theorem iterate_mem (rc : Nat) (as : Bool) (modes : Nat) :
    ∀ (plans acc : List GPlan) (steps : Nat) (atEnd : Bool) (res : List GPlan × Nat × Bool),
      iteratePlans rc as modes plans acc steps atEnd = .ok res → ∀ c ∈ res.1,
        c ∈ acc ∨ ∃ g ∈ plans, (∃ r, g.step = .ok (some (c, r))) ∨
          (∃ sw n, g.addSwitches rc as modes = .ok (sw, n) ∧ c ∈ sw) := by
  intro plans
  induction plans with
  | nil =>
    intro acc steps atEnd res h c hc
    simp only [iteratePlans, Except.ok.injEq] at h
    rw [← h] at hc
    exact Or.inl hc
  | cons plan rest ih =>
    intro acc steps atEnd res h c hc
    have lift : (c ∈ acc ∨ ∃ g ∈ rest, (∃ r, g.step = .ok (some (c, r))) ∨
          (∃ sw n, g.addSwitches rc as modes = .ok (sw, n) ∧ c ∈ sw)) ∨
        ((∃ r, plan.step = .ok (some (c, r))) ∨
          (∃ sw n, plan.addSwitches rc as modes = .ok (sw, n) ∧ c ∈ sw)) →
        c ∈ acc ∨ ∃ g ∈ plan :: rest, (∃ r, g.step = .ok (some (c, r))) ∨
          (∃ sw n, g.addSwitches rc as modes = .ok (sw, n) ∧ c ∈ sw) := by
      rintro ((h1 | ⟨g, hg, h2⟩) | h3)
      · exact Or.inl h1
      · exact Or.inr ⟨g, List.mem_cons_of_mem _ hg, h2⟩
      · exact Or.inr ⟨plan, List.mem_cons_self .., h3⟩
    unfold iteratePlans at h
    split at h
    · cases h
    · split at h
      · cases h
      · rename_i sw n hsw
        apply lift
        rcases ih _ _ _ _ h c hc with h1 | h1
        · rcases List.mem_append.mp h1 with h1 | h1
          · exact Or.inl (Or.inl h1)
          · exact Or.inr (Or.inr ⟨sw, n, hsw, h1⟩)
        · exact Or.inl (Or.inr h1)
    · rename_i stepped result hst
      simp only [] at h
      split at h
      · cases h
      · rename_i sw n hsw
        split at h
        · cases h
        · apply lift
          rcases ih _ _ _ _ h c hc with h1 | h1
          · rcases List.mem_append.mp h1 with h1 | h1
            · rcases List.mem_append.mp h1 with h1 | h1
              · exact Or.inl (Or.inl h1)
              · simp only [List.mem_singleton] at h1
                subst h1
                exact Or.inr (Or.inl ⟨result, hst⟩)
            · split at hsw
              · exact Or.inr (Or.inr ⟨sw, n, hsw, h1⟩)
              · simp only [Except.ok.injEq, Prod.mk.injEq] at hsw
                rw [← hsw.1] at h1
                cases h1
          · exact Or.inl (Or.inr h1)

end DM.Lemmas.C10Pot
