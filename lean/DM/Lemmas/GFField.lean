import DM.Lemmas.GFLaws
import Mathlib.Algebra.Ring.MinimalAxioms
import Mathlib.Algebra.Field.Defs
import Mathlib.Tactic.Ring
/-
The byte type with the table-driven arithmetic is a field. This lets `ring` and the
Mathlib polynomial library speak about the model's arithmetic.
-/
namespace DM.Lemmas
open DM.Model

/-- A GF(256) element: a natural number below 256. -/
structure GF where
  val : Nat
  lt : val < 256

namespace GF

@[ext] theorem ext {a b : GF} (h : a.val = b.val) : a = b := by
  cases a; cases b; simp_all

instance : DecidableEq GF := fun a b =>
  if h : a.val = b.val then isTrue (ext h) else isFalse (fun e => h (by rw [e]))

/-- interpret any natural number as a field element (bytes are unchanged) -/
def ofNat (n : Nat) : GF := ⟨n % 256, Nat.mod_lt _ (by omega)⟩

theorem ofNat_val {n : Nat} (h : n < 256) : (ofNat n).val = n := Nat.mod_eq_of_lt h

instance : Zero GF := ⟨⟨0, by omega⟩⟩
instance : One GF := ⟨⟨1, by omega⟩⟩
instance : Add GF := ⟨fun a b => ⟨a.val ^^^ b.val, xor_lt_256 a.lt b.lt⟩⟩
instance : Neg GF := ⟨fun a => a⟩
instance : Mul GF := ⟨fun a b => ⟨gmul a.val b.val, gmul_lt a.lt b.lt⟩⟩
instance : Inv GF := ⟨fun a => ⟨ginv a.val, ginv_lt a.val⟩⟩

@[simp] theorem zero_val : (0 : GF).val = 0 := rfl
@[simp] theorem one_val : (1 : GF).val = 1 := rfl
@[simp] theorem add_val (a b : GF) : (a + b).val = a.val ^^^ b.val := rfl
@[simp] theorem neg_val (a : GF) : (-a).val = a.val := rfl
@[simp] theorem mul_val (a b : GF) : (a * b).val = gmul a.val b.val := rfl
@[simp] theorem inv_val (a : GF) : (a⁻¹).val = ginv a.val := rfl

instance : CommRing GF :=
  CommRing.ofMinimalAxioms
    (fun a b c => ext (by simp [Nat.xor_assoc]))
    (fun a => ext (by simp))
    (fun a => ext (by simp))
    (fun a b c => ext (by simpa using gmul_assoc a.lt b.lt c.lt))
    (fun a b => ext (by simpa using gmul_comm a.val b.val))
    (fun a => ext (by simpa using gmul_one_left a.lt))
    (fun a b c => ext (by simpa using gmul_xor a.lt b.lt c.lt))

instance : Field GF where
  inv := Inv.inv
  exists_pair_ne := ⟨0, 1, fun h => by have := congrArg GF.val h; simp at this⟩
  mul_inv_cancel := fun a h => ext (by
    have h0 : a.val ≠ 0 := fun e => h (ext e)
    simpa using gmul_ginv a.lt h0)
  inv_zero := ext (by simp [ginv])
  nnqsmul := _
  nnqsmul_def := fun _ _ => rfl
  qsmul := _
  qsmul_def := fun _ _ => rfl

/-- characteristic two -/
theorem add_self (a : GF) : a + a = 0 := ext (by simp)

theorem neg_eq (a : GF) : -a = a := rfl

theorem sub_eq_add (a b : GF) : a - b = a + b := by
  rw [sub_eq_add_neg, neg_eq]

theorem ofNat_xor (a b : Nat) : ofNat (a ^^^ b) = ofNat a + ofNat b :=
  ext (by simp [ofNat, Nat.xor_mod_two_pow (n := 8)])

theorem ofNat_gmul {a b : Nat} (ha : a < 256) (hb : b < 256) :
    ofNat (gmul a b) = ofNat a * ofNat b :=
  ext (by simp [ofNat, Nat.mod_eq_of_lt ha, Nat.mod_eq_of_lt hb, Nat.mod_eq_of_lt (gmul_lt ha hb)])

theorem ofNat_eq_zero {a : Nat} (ha : a < 256) : ofNat a = 0 ↔ a = 0 := by
  constructor
  · intro h; have := congrArg GF.val h; simpa [ofNat, Nat.mod_eq_of_lt ha] using this
  · intro h; subst h; rfl

end GF
end DM.Lemmas
