import DM.Lemmas.B256RT
import DM.Lemmas.C40Gen
/-
Base 256 encoder from an arbitrary position with an arbitrary plan.
-/
namespace DM.Lemmas.B256Gen
open DM.Model DM.Model.Enc DM.Model.Dec DM.Lemmas DM.Lemmas.DecRun DM.Lemmas.AsciiRT DM.Lemmas.Complete
open DM.Lemmas.EncRT DM.Lemmas.X12RT DM.Lemmas.B256RT DM.Lemmas.EdiRT DM.Lemmas.C40Gen DM.Spec.Build

/-- the final pass of `write_length` over a field that follows arbitrary codewords -/
theorem randomize_fieldG (pre F : List Nat) (hF : ByteList F) :
    (List.range (pre ++ F).length).map (fun i =>
      if pre.length ≤ i ∧ i < pre.length + F.length then Enc.randomize255 ((pre ++ F).getD i 0) (i + 1)
      else (pre ++ F).getD i 0) = pre ++ randFrom (pre.length + 1) F := by
  have := range_map_getD (fun i v => if pre.length ≤ i ∧ i < pre.length + F.length then Enc.randomize255 v (i + 1) else v)
    (pre ++ F) 0
  simp only [Nat.add_zero] at this
  rw [this, List.zipIdx_append, List.map_append]
  congr 1
  · -- the codewords before the field are left alone
    have hid : ∀ p ∈ pre.zipIdx 0, (fun (p : Nat × Nat) =>
        if pre.length ≤ p.2 ∧ p.2 < pre.length + F.length then Enc.randomize255 p.1 (p.2 + 1) else p.1) p = p.1 := by
      intro p hp
      have := List.mem_zipIdx hp
      simp only []
      rw [if_neg (by omega)]
    rw [List.map_congr_left hid]
    clear hid this
    induction pre with
    | nil => rfl
    | cons a t ih =>
      rw [List.zipIdx_cons, List.map_cons]
      congr 1
      have : ∀ (l : List Nat) (k : Nat), (l.zipIdx k).map (fun p => p.1) = l := by
        intro l
        induction l with
        | nil => intro k; rfl
        | cons x xs ihx => intro k; rw [List.zipIdx_cons, List.map_cons, ihx]
      exact this t _
  · have hz := zipIdx_rand 0 F pre.length
    simp only [Nat.zero_add] at hz ⊢
    rw [← hz]
    apply List.map_congr_left
    intro p hp
    obtain ⟨v, i⟩ := p
    have hm := List.mem_zipIdx hp
    simp only [] at hm ⊢
    have hv : v < 256 := by
      obtain ⟨h1, h2, h3⟩ := hm
      rw [h3]; exact hF _ (List.getElem_mem _)
    rw [if_pos (by omega), rand_eq v (i + 1) hv]

theorem set_mid (pre t : List Nat) (x y : Nat) : (pre ++ x :: t).set pre.length y = pre ++ y :: t := by
  induction pre with
  | nil => rfl
  | cons a r ih => simp only [List.cons_append, List.length_cons, List.set_cons_succ, ih]

theorem take_mid (pre t : List Nat) (x : Nat) : (pre ++ x :: t).take (pre.length + 1) = pre ++ [x] := by
  have := DM.Lemmas.C40RT.take_len_add pre (x :: t) 1
  simpa using this

theorem drop_mid (pre t : List Nat) (x : Nat) : (pre ++ x :: t).drop (pre.length + 1) = t := by
  have := DM.Lemmas.C40RT.drop_len_add pre (x :: t) 1
  simpa using this

/-- `write_length`: the field gets its header and is randomised -/
theorem writeLength_gen (sW s2 : St) (c0 chunk : List Nat) (hcw : sW.cw = c0 ++ 231 :: 0 :: chunk) (hb : ByteList chunk)
    (hne : chunk ≠ []) (h : b256WriteLength sW (c0.length + 1) = .ok s2) :
    ∃ toEnd, s2 = { sW with cw := c0 ++ [231] ++ randFrom (c0.length + 2) (b256Hdr chunk toEnd ++ chunk) } ∧
      (toEnd = true → sW.hasMore = false ∧ sW.sizeLeft 0 = some 0) ∧ (toEnd = false → chunk.length ≤ 1555) := by
  have hlen : 0 < chunk.length := List.length_pos_iff.mpr hne
  have hpre : sW.cw = (c0 ++ [231]) ++ 0 :: chunk := by rw [hcw]; simp
  have hprelen : (c0 ++ [231]).length = c0.length + 1 := by simp
  unfold b256WriteLength at h
  unfold St.sizeLeftE at h
  cases hs : sW.sizeLeft 0 with
  | none => rw [hs] at h; cases h
  | some spaceLeft =>
    rw [hs] at h
    simp only [] at h
    have hcwlen : sW.cw.length = c0.length + 1 + 1 + chunk.length := by rw [hcw]; simp; omega
    rw [if_neg (by omega)] at h
    have hwritten : sW.cw.length - (c0.length + 1) = chunk.length + 1 := by omega
    rw [hwritten] at h
    by_cases hcond : sW.hasMore = true ∨ spaceLeft > 0
    · rw [if_pos hcond] at h
      rw [if_neg (by omega)] at h
      have hcount : chunk.length + 1 - 1 = chunk.length := by omega
      simp only [hcount] at h
      by_cases h249 : chunk.length ≤ 249
      · simp only [h249, ↓reduceIte] at h
        refine ⟨false, ?_, by simp, fun _ => by omega⟩
        simp only [Except.ok.injEq] at h
        rw [← h]
        congr 1
        have hset : sW.cw.set (c0.length + 1) chunk.length = (c0 ++ [231]) ++ (chunk.length :: chunk) := by
          rw [hpre, ← hprelen, set_mid]
        rw [hset]
        have hF : ByteList (chunk.length :: chunk) := by
          intro x hx
          rcases List.mem_cons.mp hx with rfl | hx
          · omega
          · exact hb x hx
        have := randomize_fieldG (c0 ++ [231]) (chunk.length :: chunk) hF
        simp only [b256Hdr, Bool.false_eq_true, ↓reduceIte, h249, List.singleton_append]
        rw [hprelen] at this
        rw [← this]
        apply List.map_congr_left
        intro i _
        have : (c0.length + 1 ≤ i ∧ i < c0.length + 1 + (chunk.length + 1)) ↔
            (c0.length + 1 ≤ i ∧ i < c0.length + 1 + (chunk.length :: chunk).length) := by simp
        simp only [this]
      · simp only [h249, ↓reduceIte] at h
        by_cases h1555 : chunk.length ≤ 1555
        · simp only [h1555, ↓reduceIte] at h
          refine ⟨false, ?_, by simp, fun _ => h1555⟩
          simp only [Except.ok.injEq] at h
          rw [← h]
          congr 1
          have hset : sW.cw.set (c0.length + 1) (chunk.length / 250 + 249) =
              (c0 ++ [231]) ++ ((chunk.length / 250 + 249) :: chunk) := by
            rw [hpre, ← hprelen, set_mid]
          rw [hset]
          have hins : List.take (c0.length + 1 + 1) ((c0 ++ [231]) ++ ((chunk.length / 250 + 249) :: chunk)) ++
              [chunk.length % 250] ++ List.drop (c0.length + 1 + 1) ((c0 ++ [231]) ++ ((chunk.length / 250 + 249) :: chunk)) =
              (c0 ++ [231]) ++ ((chunk.length / 250 + 249) :: chunk.length % 250 :: chunk) := by
            rw [← hprelen, take_mid, drop_mid]
            simp
          rw [hins]
          have hF : ByteList ((chunk.length / 250 + 249) :: chunk.length % 250 :: chunk) := by
            intro x hx
            rcases List.mem_cons.mp hx with rfl | hx
            · omega
            · rcases List.mem_cons.mp hx with rfl | hx
              · omega
              · exact hb x hx
          have := randomize_fieldG (c0 ++ [231]) _ hF
          simp only [b256Hdr, Bool.false_eq_true, ↓reduceIte, h249, List.cons_append, List.nil_append]
          rw [hprelen] at this
          rw [← this]
          apply List.map_congr_left
          intro i _
          have : (c0.length + 1 ≤ i ∧ i < c0.length + 1 + (chunk.length + 1 + 1)) ↔
              (c0.length + 1 ≤ i ∧ i < c0.length + 1 + ((chunk.length / 250 + 249) :: chunk.length % 250 :: chunk).length) := by
            simp
          simp only [this]
        · simp only [h1555, ↓reduceIte] at h
          cases h
    · rw [if_neg hcond] at h
      have hnm : sW.hasMore = false := by
        cases hh : sW.hasMore with
        | true => exact absurd (Or.inl hh) hcond
        | false => rfl
      refine ⟨true, ?_, fun _ => ⟨hnm, by congr 1; omega⟩, by simp⟩
      simp only [Except.ok.injEq] at h
      rw [← h]
      congr 1
      have hF : ByteList (0 :: chunk) := by
        intro x hx
        rcases List.mem_cons.mp hx with rfl | hx
        · omega
        · exact hb x hx
      have := randomize_fieldG (c0 ++ [231]) (0 :: chunk) hF
      simp only [b256Hdr, ↓reduceIte, List.singleton_append]
      rw [hprelen] at this
      rw [← this, hpre]
      apply List.map_congr_left
      intro i _
      have : (c0.length + 1 ≤ i ∧ i < c0.length + 1 + (chunk.length + 1)) ↔
          (c0.length + 1 ≤ i ∧ i < c0.length + 1 + (0 :: chunk).length) := by simp
      simp only [this]

structure BInv (list : List Sym) (body : List Nat) (p0 : Nat) (c0 : List Nat) (s : St) : Prop where
  input : s.input = body
  list : s.list = list
  newMode : s.newMode = none
  base : p0 ≤ s.pos
  le : s.pos ≤ body.length
  cw : s.cw = c0 ++ 231 :: 0 :: seg body p0 s.pos

/-- what `base256::encode` leaves behind -/
structure BEnd (list : List Sym) (body : List Nat) (p0 : Nat) (c0 : List Nat) (s' : St) : Prop where
  out : ∃ (p : Nat) (toEnd : Bool), p0 < p ∧ p ≤ body.length ∧
    s'.cw = c0 ++ [231] ++ randFrom (c0.length + 2) (b256Hdr (seg body p0 p) toEnd ++ seg body p0 p) ∧
    s'.pos = p ∧ s'.input = body ∧ s'.list = list ∧
    (toEnd = true → p = body.length ∧ ∃ S, firstBigEnough list s'.cw.length = some S ∧ dataCw S = s'.cw.length) ∧
    (toEnd = false → (seg body p0 p).length ≤ 1555) ∧
    ((s'.mode = .ascii ∧ s'.plan = [(0, .ascii)] ∧ s'.newMode = none ∧ p = body.length) ∨
     (toEnd = false ∧ s'.hasMore = true ∧ Pending s' ∧ PlanOKE body s'.plan))

theorem seg_length (body : List Nat) (p0 p : Nat) (h0 : p0 ≤ p) (h : p ≤ body.length) : (seg body p0 p).length = p - p0 := by
  unfold seg
  rw [List.length_take, List.length_drop]
  omega

/-- after `write_length` -/
theorem afterWrite (list : List Sym) (body : List Nat) (hb : ByteList body) (p0 : Nat) (c0 : List Nat) (sW s2 : St)
    (hin : sW.input = body) (hli : sW.list = list) (hbase : p0 < sW.pos) (hle : sW.pos ≤ body.length)
    (hcw : sW.cw = c0 ++ 231 :: 0 :: seg body p0 sW.pos)
    (h : b256WriteLength sW (c0.length + 1) = .ok s2) :
    ∃ toEnd, s2 = { sW with cw := c0 ++ [231] ++ randFrom (c0.length + 2) (b256Hdr (seg body p0 sW.pos) toEnd ++ seg body p0 sW.pos) } ∧
      (toEnd = true → sW.hasMore = false ∧ ∃ S, firstBigEnough list s2.cw.length = some S ∧ dataCw S = s2.cw.length) ∧
      (toEnd = false → (seg body p0 sW.pos).length ≤ 1555) := by
  have hne : seg body p0 sW.pos ≠ [] := by
    intro hnil
    have := seg_length body p0 sW.pos (by omega) hle
    rw [hnil] at this
    simp at this
    omega
  obtain ⟨toEnd, h1, h2, h3⟩ := writeLength_gen sW s2 c0 _ hcw (seg_bytes body hb p0 sW.pos) hne h
  refine ⟨toEnd, h1, fun ht => ?_, h3⟩
  obtain ⟨a1, a2⟩ := h2 ht
  obtain ⟨S, f1, f2⟩ := sizeLeft_zero sW 0 a2
  refine ⟨a1, S, ?_, ?_⟩
  · rw [h1, ht]
    simp only [Nat.add_zero, hli] at f1
    simp only [b256Hdr, ↓reduceIte, List.length_append, List.length_singleton, randFrom_length, List.length_cons,
      List.length_nil]
    rw [hcw] at f1
    simp only [List.length_append, List.length_cons] at f1
    rw [← f1]
    congr 1
    omega
  · rw [h1, ht]
    simp only [Nat.add_zero] at f2
    simp only [b256Hdr, ↓reduceIte, List.length_append, List.length_singleton, randFrom_length, List.length_cons,
      List.length_nil]
    rw [hcw] at f2
    simp only [List.length_append, List.length_cons] at f2
    omega

/-- the two halves of one iteration of `b256Loop` as separate functions (definitionally the same) -/
def eatPush (s : St) : St :=
  match s.eat with
  | some (ch, s') => s'.push ch
  | none => s

def b256Tail (start f : Nat) (s : St) : Enc.R St :=
  if !s.hasMore then
    match b256WriteLength s start with
    | .error e => .error e
    | .ok s => .ok s.setAscii
  else
    match s.maybeSwitch with
    | .error e => .error e
    | .ok (true, s) =>
      match b256WriteLength s start with
      | .error e => .error e
      | .ok s => .ok (if !s.hasMore then s.setAscii else s)
    | .ok (false, s) => b256Loop start f s

theorem b256Loop_eq (start f : Nat) (s : St) : b256Loop start (f + 1) s = b256Tail start f (eatPush s) := rfl

theorem b256Loop_gen (list : List Sym) (body : List Nat) (hb : ByteList body) (p0 : Nat) (c0 : List Nat) :
    ∀ (n f : Nat) (s s' : St), body.length - s.pos = n → n < f → BInv list body p0 c0 s → PlanOKE body s.plan →
      (s.hasMore = true ∨ p0 < s.pos) → b256Loop (c0.length + 1) f s = .ok s' → BEnd list body p0 c0 s' := by
  intro n
  induction n using Nat.strongRecOn with
  | _ n ih =>
    intro f s s' hn hf inv hplan hprog h
    cases f with
    | zero => omega
    | succ f =>
      rw [b256Loop_eq] at h
      -- the state after `eat` (if there was a character)
      have hs1 : BInv list body p0 c0 (eatPush s) ∧ p0 < (eatPush s).pos ∧ (eatPush s).plan = s.plan ∧
          (s.pos < body.length → (eatPush s).pos = s.pos + 1) ∧ (¬ s.pos < body.length → eatPush s = s) := by
        unfold eatPush
        by_cases hlt : s.pos < body.length
        · have he : s.eat = some (body[s.pos], { s with pos := s.pos + 1 }) := by
            simp only [St.eat]
            rw [List.getElem?_eq_getElem (by rw [inv.input]; exact hlt)]
            simp [inv.input]
          rw [he]
          refine ⟨⟨inv.input, inv.list, inv.newMode, by simp [St.push]; have := inv.base; omega,
            by simp [St.push]; omega, ?_⟩, by simp [St.push]; have := inv.base; omega, rfl, fun _ => rfl,
            fun hn => absurd hlt hn⟩
          simp only [St.push]
          rw [inv.cw, seg_succ body p0 s.pos inv.base hlt]
          simp
        · have he : s.eat = none := by
            simp only [St.eat]
            rw [List.getElem?_eq_none (by rw [inv.input]; omega)]
          rw [he]
          refine ⟨inv, ?_, rfl, fun h => absurd h hlt, fun _ => rfl⟩
          rcases hprog with hm | hp
          · have := of_decide_eq_true hm
            rw [inv.input] at this
            exact absurd this hlt
          · exact hp
      obtain ⟨inv1, hb1, hpl1, hadv, hsame⟩ := hs1
      generalize eatPush s = s1 at h inv1 hb1 hpl1 hadv hsame
      unfold b256Tail at h
      by_cases hmore : s1.hasMore = true
      · simp only [hmore, Bool.not_true, Bool.false_eq_true, ↓reduceIte] at h
        cases hm : s1.maybeSwitch with
        | error e => rw [hm] at h; cases h
        | ok r =>
          obtain ⟨bsw, s3⟩ := r
          rw [hm] at h
          obtain ⟨m1, m2, m3, m4, m5, m6⟩ := maybeSwitch_spec s1 s3 bsw hm
          cases bsw with
          | true =>
            simp only [] at h
            obtain ⟨hP, hL, hPl⟩ := switched_ok s1 s3 inv1.newMode (by rw [hpl1, inv1.input]; exact hplan) hm
            rw [inv1.input] at hPl
            cases hw : b256WriteLength s3 (c0.length + 1) with
            | error e => rw [hw] at h; cases h
            | ok s4 =>
              rw [hw] at h
              simp only [Except.ok.injEq] at h
              obtain ⟨toEnd, w1, w2, w3⟩ := afterWrite list body hb p0 c0 s3 s4 (m1.1.trans inv1.input) (m1.2.trans inv1.list)
                (by rw [m2]; exact hb1) (by rw [m2]; exact inv1.le) (by rw [m3, m2]; exact inv1.cw) hw
              have hmore3 : s3.hasMore = true := by simpa [St.hasMore, m1.1, m2] using hmore
              have hte : toEnd = false := by
                cases toEnd with
                | false => rfl
                | true => have := (w2 rfl).1; rw [hmore3] at this; cases this
              have hmore4 : s4.hasMore = true := by rw [w1]; simpa [St.hasMore] using hmore3
              rw [hmore4] at h
              simp only [Bool.not_true, Bool.false_eq_true, ↓reduceIte] at h
              subst h
              refine ⟨s3.pos, toEnd, by rw [m2]; exact hb1, by rw [m2]; exact inv1.le, by rw [w1], by rw [w1],
                by rw [w1]; exact m1.1.trans inv1.input, by rw [w1]; exact m1.2.trans inv1.list,
                (fun ht => by rw [hte] at ht; cases ht), w3, Or.inr ⟨hte, hmore4, ?_, ?_⟩⟩
              · rw [w1]; exact hP.congr rfl rfl rfl rfl rfl
              · rw [w1]; exact hPl
          | false =>
            simp only [] at h
            obtain ⟨f1, f2⟩ := m5 rfl
            have inv3 : BInv list body p0 c0 s3 :=
              ⟨m1.1.trans inv1.input, m1.2.trans inv1.list, f2.trans inv1.newMode, by rw [m2]; exact inv1.base,
                by rw [m2]; exact inv1.le, by rw [m3, m2]; exact inv1.cw⟩
            have hlt : s.pos < body.length := by
              by_cases hlt : s.pos < body.length
              · exact hlt
              · rw [hsame hlt] at hmore
                have := of_decide_eq_true hmore
                rw [inv.input] at this
                exact absurd this hlt
            exact ih (body.length - s3.pos) (by rw [m2, hadv hlt]; omega) f s3 s' rfl (by rw [m2, hadv hlt]; omega) inv3
              (planOKE_maybeSwitch s1 s3 false hm (by rw [hpl1]; exact hplan)) (Or.inr (by rw [m2]; exact hb1)) h
      · have hmf : s1.hasMore = false := by simpa using hmore
        simp only [hmf, Bool.not_false, ↓reduceIte] at h
        cases hw : b256WriteLength s1 (c0.length + 1) with
        | error e => rw [hw] at h; cases h
        | ok s4 =>
          rw [hw] at h
          simp only [Except.ok.injEq] at h
          subst h
          obtain ⟨toEnd, w1, w2, w3⟩ := afterWrite list body hb p0 c0 s1 s4 inv1.input inv1.list hb1 inv1.le inv1.cw hw
          have hpl : s1.pos = body.length := by
            have := of_decide_eq_false hmf
            rw [inv1.input] at this
            have := inv1.le
            omega
          refine ⟨s1.pos, toEnd, hb1, inv1.le, by rw [w1]; rfl, by rw [w1]; rfl, by rw [w1]; exact inv1.input,
            by rw [w1]; exact inv1.list, fun ht => ⟨hpl, ?_⟩, w3, Or.inl ⟨rfl, rfl, by rw [w1]; exact inv1.newMode, hpl⟩⟩
          obtain ⟨_, S, f1, f2⟩ := w2 ht
          exact ⟨S, by simpa [St.setAscii] using f1, by simpa [St.setAscii] using f2⟩

end DM.Lemmas.B256Gen
