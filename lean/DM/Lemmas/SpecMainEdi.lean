import DM.Lemmas.SpecMain
import DM.Lemmas.SpecEdiGen
/-
The EDIFACT encoder preserves the main-loop invariant `SpecMain.SInv` against the reference decoder
(`edi_SInv`), for EDIFACT as the final stretch of the message (the plan behind the switch to EDIFACT
names EDIFACT only, the remaining characters are EDIFACT characters), and a frame for side
conditions that depend on the message and on the position (`mainLoop_SInvB`, `run_specB`).

Why not `ModeStep P Q .edifact`: `ModeStep P Q m` quantifies over *all* messages `body` behind a fixed
predicate `Q` of (plan, mode, pending latch). The EDIFACT encoder does not check its characters (it
masks them with `% 64`), so for every `Q` that admits one state in EDIFACT mode with data left,
`ModeStep P Q .edifact` is false (take a body with a byte outside 32‥94 there). The condition "the
characters from the current position on are EDIFACT characters" is a property of the whole encoder
state; `StepB` below is `ModeStep` with such a state invariant `R` in place of `Q`.
-/
namespace DM.Lemmas.SpecMainEdi
open DM.Model DM.Lemmas DM.Lemmas.AsciiRT DM.Lemmas.SpecStep DM.Lemmas.SpecAscii DM.Lemmas.SpecB256 DM.Lemmas.Complete
open DM.Lemmas.EncRT DM.Lemmas.C40Gen DM.Lemmas.B256Gen DM.Lemmas.PlanProv DM.Lemmas.MainRT DM.Spec.Stream
open DM.Lemmas.SpecMain DM.Lemmas.SpecEdi DM.Lemmas.SpecEdiGen DM.Lemmas.EdiGen DM.Lemmas.EdiRT

/-! ### the decoder side -/

theorem dAt_emitE {sD : St} {L : Nat} {out : List Nat} {tr : List Mode} {lat : List (Nat × Mode)}
    (hat : DAt sD L out tr lat) (n : Nat) (chunk : List Nat) :
    DAt (emitE sD n chunk) (L + n) (out ++ chunk) (tr ++ List.replicate chunk.length .edifact) (lat ++ [(L, .edifact)]) := by
  refine ⟨by simp [emitE, hat.i], by simp [emitE, hat.out], ?_, by simp [emitE, hat.latches, hat.i], hat.ecis, hat.padAt⟩
  simp only [emitE, hat.trace]; exact toArray_replicate _ _ _

theorem dAt_emitLatch {sD : St} {L : Nat} {out : List Nat} {tr : List Mode} {lat : List (Nat × Mode)}
    (hat : DAt sD L out tr lat) (n : Nat) (chunk : List Nat) :
    DAt (emit (latch sD .edifact) n chunk .edifact) (L + (1 + n)) (out ++ chunk)
      (tr ++ List.replicate chunk.length .edifact) (lat ++ [(L, .edifact)]) := by
  refine ⟨by simp [emit, latch, hat.i]; omega, by simp [emit, latch, hat.out], ?_, by simp [emit, latch, hat.latches, hat.i],
    hat.ecis, hat.padAt⟩
  simp only [emit, latch, hat.trace]; exact toArray_replicate _ _ _

/-- an EDIFACT stretch closed by the UNLATCH value behind a correctly read prefix -/
theorem dec_ediSeg (cw : Array Nat) (i0 k L : Nat) (sD : St) (out : List Nat) (tr : List Mode) (lat : List (Nat × Mode))
    (b : List Nat) (hs : Steps cw k { i := i0 } sD) (hat : DAt sD L out tr lat) (hm : sD.mode = .ascii)
    (hc : EdiChars b) (ho : Occurs cw L (ediSegCw b)) (hneed : L + (ediSegCw b).length + ediNeed b ≤ cw.size) :
    ∃ k' sD', k' ≤ k + (ediSegCw b).length ∧ Steps cw k' { i := i0 } sD' ∧
      DAt sD' (L + (ediSegCw b).length) (out ++ b) (tr ++ List.replicate b.length .edifact) (lat ++ [(L, .edifact)]) ∧
      sD'.mode = .ascii := by
  obtain ⟨k2, hk2, hs2⟩ := specSegE_unlatch b hc cw sD hm (by rw [hat.i]; exact ho) (by rw [hat.i]; exact hneed)
  exact ⟨k + k2, _, by omega, hs.trans hs2, dAt_emitE hat _ _, rfl⟩

/-- latch and complete groups up to at most two codewords before the end of the stream -/
theorem dec_ediGroups (cw : Array Nat) (i0 k L : Nat) (sD : St) (out : List Nat) (tr : List Mode) (lat : List (Nat × Mode))
    (b : List Nat) (q : Nat) (hs : Steps cw k { i := i0 } sD) (hat : DAt sD L out tr lat) (hm : sD.mode = .ascii)
    (hc : EdiChars b) (hbl : b.length = 4 * q) (ho : Occurs cw L (ediC b q))
    (h1 : L + 1 + 3 * q ≤ cw.size) (h2 : cw.size ≤ L + 1 + 3 * q + 2) :
    ∃ k' sD', k' ≤ k + (1 + q + 1) ∧ Steps cw k' { i := i0 } sD' ∧
      DAt sD' (L + (1 + 3 * q)) (out ++ b) (tr ++ List.replicate b.length .edifact) (lat ++ [(L, .edifact)]) ∧
      (sD'.mode = .ascii ∨ cw.size = L + 1 + 3 * q) := by
  by_cases hx : cw.size = L + 1 + 3 * q
  · obtain ⟨s1, _⟩ := steps_edi_exact cw sD b q hm hc hbl (by rw [hat.i]; exact ho) (by rw [hat.i]; exact hx)
    exact ⟨k + (1 + q), _, by omega, hs.trans s1, dAt_emitLatch hat _ _, Or.inr hx⟩
  · have s1 := steps_edi_short cw sD b q hm hc hbl (by rw [hat.i]; exact ho) (by rw [hat.i]; omega) (by rw [hat.i]; exact h2)
    exact ⟨k + (1 + q + 1), _, Nat.le_refl _, hs.trans s1, dAt_emitE hat _ _, Or.inl rfl⟩

theorem asciiSize_eq_zero : ∀ l : List Nat, Enc.asciiSize l = 0 → l = []
  | [], _ => rfl
  | [a], h => by simp only [Enc.asciiSize] at h; split at h <;> omega
  | a :: b :: t, h => by
    simp only [Enc.asciiSize] at h
    split at h
    · omega
    · split at h <;> omega

/-! ### assembling the invariant behind an EDIFACT stretch -/

/-- the parts of `SMI` that are the same for all ends of an EDIFACT stretch -/
theorem smi_edi {P : Mode → Prop} {list : List Sym} {i0 : Nat} {pre body : List Nat} {s s' : Enc.St}
    {room : Option Nat} {lo : Nat} {tr : List Mode} {lat : List (Nat × Mode)}
    (mi : SMI P list i0 pre body s room lo tr lat) (hP : P .edifact)
    (X : List Nat) (hX : s'.cw = s.cw ++ 240 :: X) (hp0 : s.pos ≤ s'.pos) (hp : s'.pos ≤ body.length)
    (hin : s'.input = body) (hli : s'.list = list) (room' : Option Nat) (lo' : Nat)
    (ctl : (room' = some 0 ∧ s'.hasMore = false) ∨ s'.newMode = s'.mode.latch)
    (more : s'.newMode ≠ none → s'.hasMore = true)
    (closing : ∀ r, room' = some r → ((r = 0 ∧ s'.hasMore = false) ∨ (s'.mode = .ascii ∧ s'.plan = [(0, .ascii)])) ∧
      ∃ S, firstBigEnough list (s'.cw.length + Enc.asciiSize (body.drop s'.pos)) = some S ∧ dataCw S = s'.cw.length + r)
    (low : lo' ≠ 0 → ∀ sE S, Reach s' sE → firstBigEnough list sE.cw.length = some S → s'.cw.length + lo' ≤ dataCw S)
    (dec : ∀ cw : Array Nat, Occurs cw 0 s'.cw → s'.cw.length + lo' ≤ cw.size →
      (∀ r, room' = some r → cw.size = s'.cw.length + r ∧ cw[s'.cw.length]? ≠ some 254) →
      ∃ k sD, k ≤ 2 * (s'.cw.length - i0) ∧ Steps cw k { i := i0 } sD ∧
        DAt sD s'.cw.length (body.take s'.pos) (tr ++ List.replicate (s'.pos - s.pos) .edifact)
          (lat ++ [(s.cw.length, .edifact)]) ∧
        (sD.mode = .ascii ∨ (room' = some 0 ∧ s'.hasMore = false))) :
    SMI P list i0 pre body s' room' lo' (tr ++ List.replicate (s'.pos - s.pos) .edifact) (lat ++ [(s.cw.length, .edifact)]) := by
  have hlen : s'.cw.length = s.cw.length + (1 + X.length) := by rw [hX]; simp; omega
  refine ⟨hin, hli, hp, by rw [hlen]; have := mi.i0le; omega,
    by rw [hX, List.take_append_of_le_length mi.i0le]; exact mi.pfx,
    by rw [hX, drop_append_le i0 s.cw _ mi.i0le]; exact headOK_append mi.hd (headOK_cons 240 _ (by omega)),
    ctl, more, by rw [List.length_append, List.length_replicate, mi.trlen]; omega, ?_, ?_, closing, low, dec⟩
  · intro m hm
    rcases List.mem_append.mp hm with hm | hm
    · exact mi.trP m hm
    · rw [(List.mem_replicate.mp hm).2]; exact hP
  · intro l hl
    rcases List.mem_append.mp hl with hl | hl
    · obtain ⟨a, a', b, c⟩ := mi.latP l hl
      exact ⟨a, a', b, by rw [hlen]; omega⟩
    · simp only [List.mem_singleton] at hl
      subst hl
      exact ⟨hP, by simp, mi.i0le, by rw [hlen]; simp only []; omega⟩

/-- the control part stays "one mode, nothing pending" inside a final stretch -/
def OneMode : Key → Prop := fun k => (∀ e ∈ k.1, e.2 = k.2.1) ∧ k.2.2 = none

theorem oneMode_closed : Closed OneMode := by
  refine ⟨?_, ?_, ?_⟩
  · intro k hk
    refine ⟨?_, hk.2⟩
    intro e he
    simp only [asciiKey, List.mem_singleton] at he
    subst he
    rfl
  · intro s s1 b h hk
    obtain ⟨h1, h2⟩ := hk
    simp only [key] at h1 h2 ⊢
    obtain ⟨_, _, _, m4, m5, m6⟩ := maybeSwitch_spec s s1 b h
    cases b with
    | false =>
      obtain ⟨f1, f2⟩ := m5 rfl
      exact ⟨fun e he => by rw [f1]; exact h1 e (m4 e he), f2.trans h2⟩
    | true =>
      obtain ⟨t1, _, ⟨p, hp⟩, _⟩ := m6 rfl
      exact absurd (h1 _ hp) t1
  · intro k hk
    exact ⟨hk.1, rfl⟩

/-! ### the EDIFACT encoder preserves the invariant -/

/-- **The EDIFACT encoder, as the final stretch of the message, preserves the invariant against the
reference decoder.** The remaining plan names EDIFACT only and the remaining characters are EDIFACT
characters; the three ends: UNLATCH in the last group (`room = none`, `lo = ediNeed`: the codewords
the last group still needs exist in the symbol, `MainRT.unlatch_room`), the ASCII end game
(`room = some r`, `r ≤ 2`, back to ASCII by the rule "at most two codewords left") and the exact fit
(`room = some 0`, the decoder ends in EDIFACT mode). Afterwards the encoder is in "ASCII until the
end" or done. -/
theorem edi_SInv (P : Mode → Prop) (hP : P .edifact) (list : List Sym) (i0 : Nat) (pre body : List Nat) (s s' : Enc.St)
    (hinv : SInv P list i0 pre body s) (hmore : s.hasMore = true) (hmode : s.mode = .edifact)
    (hplan : ∀ e ∈ s.plan, e.2 = .edifact) (hc : EdiChars (body.drop s.pos))
    (h : Enc.encodeMode (latched s) = .ok s') :
    SInv P list i0 pre body s' ∧
      (s'.hasMore = true → s'.mode = .ascii ∧ s'.plan = [(0, .ascii)] ∧ s'.newMode = none) := by
  obtain ⟨room, lo, tr, lat, mi⟩ := hinv
  have h0 := h
  have hnm : s.newMode = some 240 := by
    rcases mi.ctl with ⟨_, hf⟩ | hcc
    · rw [hmore] at hf; cases hf
    · rw [hcc, hmode]; rfl
  have hroom : room = none := by
    cases room with
    | none => rfl
    | some r =>
      rcases (mi.closing r rfl).1 with ⟨_, hf⟩ | ⟨hm, _⟩
      · rw [hmore] at hf; cases hf
      · rw [hmode] at hm; cases hm
  subst hroom
  have hlatched : latched s = { s with newMode := none }.push 240 := by simp [latched, hnm]
  -- nothing is pending at the end
  have hone : OneMode (key s') := by
    apply q_encodeMode oneMode_closed _ _ h
    rw [hlatched]
    exact ⟨fun e he => by simp only [key_push] at he ⊢; rw [hmode]; exact hplan e he, rfl⟩
  have hnm' : s'.newMode = none := hone.2
  rw [hlatched] at h
  generalize hsL : ({ s with newMode := none }.push 240 : Enc.St) = sL at h
  have hLin : sL.input = body := by rw [← hsL]; exact mi.inp
  have hLli : sL.list = list := by rw [← hsL]; exact mi.lst
  have hLpos : sL.pos = s.pos := by rw [← hsL]; rfl
  have hLnm : sL.newMode = none := by rw [← hsL]; rfl
  have hLcw : sL.cw = s.cw ++ [240] := by rw [← hsL]; rfl
  have hLmode : sL.mode = .edifact := by rw [← hsL]; exact hmode
  have hLplan : sL.plan = s.plan := by rw [← hsL]; rfl
  simp only [Enc.encodeMode, hLmode] at h
  have hend := edifactEncode_specGen list body s.pos s.cw sL s' hLin hLli hLpos mi.le hLmode hLnm hLcw h (fun _ => hc)
  rw [hLplan] at hend
  have hcE : EdiChars (bE body s.pos) := hc
  have hseg := gEnd_seg hend (fun x hx => hcE x (List.mem_of_mem_take hx))
  obtain ⟨g1, g2, g3, g4, g5⟩ := hseg
  have hchunk : body.take s'.pos = body.take s.pos ++ (bE body s.pos).take (s'.pos - s.pos) := by
    have : s'.pos = s.pos + (s'.pos - s.pos) := by omega
    conv => lhs; rw [this, List.take_add]
    rfl
  have hclen : ((bE body s.pos).take (s'.pos - s.pos)).length = s'.pos - s.pos := by
    simp only [bE, List.length_take, List.length_drop]; omega
  have hcc : EdiChars ((bE body s.pos).take (s'.pos - s.pos)) := fun x hx => hcE x (List.mem_of_mem_take hx)
  have hstepR : ∀ sE, Reach s' sE → Reach s sE := fun sE hr => Reach.step s s' sE hmore h0 hr
  cases hend with
  | asciiSwitch q m hq ok hm planned eq =>
    obtain ⟨p, hp⟩ := planned
    exact absurd (hplan _ hp) hm
  | switch q r hr pos more nok cw inp lst mode planned plan newMode =>
    obtain ⟨p, hp⟩ := planned
    exact absurd (hplan _ hp) mode
  | unlatch q hq hr nok roomS eq =>
    -- the last group carries the UNLATCH value
    have hpos' : s'.pos = body.length := by rw [eq]; rfl
    have hcwL : s'.cw = cwE body s.pos s.cw q ++ ediLast (restE body s.pos q) := by rw [eq]; rfl
    have hcw : s'.cw = s.cw ++ ediSegCw ((bE body s.pos).take (s'.pos - s.pos)) := by
      have e1 := cwE_seg body s.pos s.cw q (body.length - (s.pos + 4 * q)) (by rw [restE_length] at hr; exact hr)
        (by simp only [bE, List.length_drop]; omega)
      have ht : (restE body s.pos q).take (body.length - (s.pos + 4 * q)) = restE body s.pos q := by
        rw [← restE_length, List.take_length]
      rw [ht] at e1
      have e2 : 4 * q + (body.length - (s.pos + 4 * q)) = body.length - s.pos := by omega
      rw [e2] at e1
      rw [hcwL, e1, hpos']
    have hmf : s'.hasMore = false := by rw [eq]; simp [Enc.St.hasMore, stAscii]
    have hcwlen : s'.cw.length = s.cw.length + (ediSegCw ((bE body s.pos).take (s'.pos - s.pos))).length := by
      rw [hcw, List.length_append]
    have hcr : EdiChars (restE body s.pos q) := fun x hx => hcE x (List.mem_of_mem_drop hx)
    -- the symbol has the codewords the last group needs
    have hthree : ∀ S, firstBigEnough list s'.cw.length = some S →
        s'.cw.length + ediNeed ((bE body s.pos).take (s'.pos - s.pos)) ≤ dataCw S := by
      intro S hS
      have hr3 := unlatch_room list (cwE body s.pos s.cw q).length (restE body s.pos q) hr hcr nok roomS S
        (by rw [← List.length_append, ← hcwL]; exact hS)
      have hge := DM.Lemmas.X12RT.firstBigEnough_le _ _ _ hS
      have hdropEq : (ediLast (List.drop (4 * (((bE body s.pos).take (s'.pos - s.pos)).length / 4))
          ((bE body s.pos).take (s'.pos - s.pos)))).length = (ediLast (restE body s.pos q)).length := by
        have := congrArg List.length hcwL
        rw [hcw, List.length_append, List.length_append, ediSegCw_length, cwE, List.length_append,
          ediC_length _ q (by simp only [bE, List.length_drop]; omega)] at this
        rw [hclen, hpos'] at this ⊢
        have hql : (body.length - s.pos) / 4 = q := by rw [restE_length] at hr; omega
        rw [hql] at this ⊢
        omega
      unfold ediNeed
      rw [hdropEq]
      rw [hcwL, List.length_append] at hge ⊢
      omega
    have hsegTail : ∃ X, ediSegCw ((bE body s.pos).take (s'.pos - s.pos)) = 240 :: X := by
      unfold ediSegCw ediC; exact ⟨_, rfl⟩
    obtain ⟨X, hX⟩ := hsegTail
    refine ⟨⟨none, max (ediNeed ((bE body s.pos).take (s'.pos - s.pos))) (lo - (1 + X.length)), _, _,
      smi_edi mi hP X (by rw [hcw, hX]) g1 g2 g3 g4 none _
        (Or.inr (by rw [eq]; rfl)) (fun hne => absurd hnm' hne) (fun r hr => by cases hr) ?_ ?_⟩,
      fun hm => by rw [hmf] at hm; cases hm⟩
    · intro _ sE S hr hS
      have hsE : sE = s' := by
        cases hr with
        | done _ _ => rfl
        | step _ s2 _ hm2 _ _ => rw [hmf] at hm2; cases hm2
      subst hsE
      have a1 := hthree S hS
      have a2 : sE.cw.length + (lo - (1 + X.length)) ≤ dataCw S := by
        have hge := DM.Lemmas.X12RT.firstBigEnough_le _ _ _ hS
        by_cases hl0 : lo = 0
        · omega
        · have := mi.low hl0 sE S (hstepR sE (Reach.done sE hmf)) hS
          rw [hcwlen, hX] at hge ⊢; simp only [List.length_cons] at hge ⊢; omega
      omega
    · intro cw ho hsize _
      rw [hcw] at ho
      have hXl : (ediSegCw ((bE body s.pos).take (s'.pos - s.pos))).length = 1 + X.length := by rw [hX]; simp; omega
      obtain ⟨k, sD, hk, hs, hat, hmD⟩ := mi.dec cw (occurs_zero_left ho) (by rw [hcwlen, hXl] at hsize; omega)
        (fun r hr => by cases hr)
      have hmD' : sD.mode = .ascii := by
        rcases hmD with h | ⟨h, _⟩
        · exact h
        · cases h
      obtain ⟨k', sD', hk', hs', hat', hm'⟩ := dec_ediSeg cw i0 k s.cw.length sD _ tr lat _ hs hat hmD' hcc
        (occurs_zero_right ho) (by rw [hcwlen] at hsize; omega)
      refine ⟨k', sD', ?_, hs', ?_, Or.inl hm'⟩
      · rw [hcwlen]; have := mi.i0le; omega
      · rw [hcwlen, hchunk]
        rw [hclen] at hat'
        exact hat'
  | ascii q hq ok eq =>
    have hpos' : s'.pos = s.pos + 4 * q := by rw [eq]; rfl
    have e4 : s'.pos - s.pos = 4 * q := by omega
    have hq4 : ((bE body s.pos).take (s'.pos - s.pos)).length = 4 * q := by rw [hclen]; exact e4
    have hcw : s'.cw = s.cw ++ ediC ((bE body s.pos).take (s'.pos - s.pos)) q := by
      rw [e4, ← cwE_groups, eq]; rfl
    have hmA : s'.mode = .ascii ∧ s'.plan = [(0, .ascii)] := by rw [eq]; exact ⟨rfl, rfl⟩
    obtain ⟨hr4, hasz, S, hS, hroomS⟩ := ok
    have hcwE : s'.cw = cwE body s.pos s.cw q := by rw [eq]; rfl
    have hcwlen : s'.cw.length = s.cw.length + (1 + 3 * q) := by
      rw [hcw, List.length_append, ediC_length _ q (by omega)]
    rw [← hcwE, restE_eq, ← hpos'] at hS
    rw [← hcwE] at hroomS
    rw [restE_eq, ← hpos'] at hasz
    have hSge := DM.Lemmas.X12RT.firstBigEnough_le _ _ _ hS
    have hXt : ∃ X, ediC ((bE body s.pos).take (s'.pos - s.pos)) q = 240 :: X := by unfold ediC; exact ⟨_, rfl⟩
    obtain ⟨X, hX⟩ := hXt
    have hXl : 1 + X.length = 1 + 3 * q := by
      have := ediC_length ((bE body s.pos).take (s'.pos - s.pos)) q (by omega)
      rw [hX] at this; simp only [List.length_cons] at this; omega
    have hdone : dataCw S - s'.cw.length = 0 → s'.hasMore = false := by
      intro h0
      have : Enc.asciiSize (body.drop s'.pos) = 0 := by omega
      have hnil := asciiSize_eq_zero _ this
      have : (body.drop s'.pos).length = 0 := by rw [hnil]; rfl
      rw [List.length_drop] at this
      simp only [Enc.St.hasMore, g3]
      simp; omega
    refine ⟨⟨some (dataCw S - s'.cw.length), lo - (1 + X.length), _, _,
      smi_edi mi hP X (by rw [hcw, hX]) g1 g2 g3 g4 _ _
        (Or.inr (by rw [hnm', hmA.1]; rfl)) (fun hne => absurd hnm' hne) ?_ ?_ ?_⟩, fun _ => ⟨hmA.1, hmA.2, hnm'⟩⟩
    · intro r hr
      simp only [Option.some.injEq] at hr
      subst hr
      exact ⟨Or.inr hmA, S, hS, by omega⟩
    · intro hlo sE S' hr hS'
      have := mi.low (by omega) sE S' (hstepR sE hr) hS'
      rw [hcwlen, ← hXl]; omega
    · intro cw ho hsize hsz
      obtain ⟨hsz1, _⟩ := hsz _ rfl
      rw [hcw] at ho
      obtain ⟨k, sD, hk, hs, hat, hmD⟩ := mi.dec cw (occurs_zero_left ho) (by rw [hcwlen, ← hXl] at hsize; omega)
        (fun r hr => by cases hr)
      have hmD' : sD.mode = .ascii := by
        rcases hmD with h | ⟨h, _⟩
        · exact h
        · cases h
      obtain ⟨k', sD', hk', hs', hat', hm'⟩ := dec_ediGroups cw i0 k s.cw.length sD _ tr lat _ q hs hat hmD' hcc hq4
        (occurs_zero_right ho) (by rw [hsz1, hcwlen]; omega) (by rw [hsz1, hcwlen]; omega)
      refine ⟨k', sD', ?_, hs', ?_, ?_⟩
      · rw [hcwlen]; have := mi.i0le; omega
      · rw [hcwlen, hchunk]
        rw [hclen] at hat'
        exact hat'
      · rcases hm' with hm' | hx
        · exact Or.inl hm'
        · have h0 : dataCw S - s'.cw.length = 0 := by rw [hsz1, hcwlen] at hx; omega
          exact Or.inr ⟨by rw [h0], hdone h0⟩
  | exact q hq fit cw pos inp lst =>
    have e4 : s'.pos - s.pos = 4 * q := by omega
    have hq4 : ((bE body s.pos).take (s'.pos - s.pos)).length = 4 * q := by rw [hclen]; exact e4
    have hcw : s'.cw = s.cw ++ ediC ((bE body s.pos).take (s'.pos - s.pos)) q := by
      rw [e4, ← cwE_groups, cw]
    have hmf : s'.hasMore = false := by simp [Enc.St.hasMore, pos, inp]
    have hcwlen : s'.cw.length = s.cw.length + (1 + 3 * q) := by
      rw [hcw, List.length_append, ediC_length _ q (by omega)]
    obtain ⟨S, hS, hSeq⟩ := fit
    rw [← cw] at hS hSeq
    have hXt : ∃ X, ediC ((bE body s.pos).take (s'.pos - s.pos)) q = 240 :: X := by unfold ediC; exact ⟨_, rfl⟩
    obtain ⟨X, hX⟩ := hXt
    have hXl : 1 + X.length = 1 + 3 * q := by
      have := ediC_length ((bE body s.pos).take (s'.pos - s.pos)) q (by omega)
      rw [hX] at this; simp only [List.length_cons] at this; omega
    refine ⟨⟨some 0, lo - (1 + X.length), _, _,
      smi_edi mi hP X (by rw [hcw, hX]) g1 g2 g3 g4 _ _
        (Or.inl ⟨rfl, hmf⟩) (fun hne => absurd hnm' hne) ?_ ?_ ?_⟩, fun hm => by rw [hmf] at hm; cases hm⟩
    · intro r hr
      simp only [Option.some.injEq] at hr
      subst hr
      refine ⟨Or.inl ⟨rfl, hmf⟩, S, ?_, by omega⟩
      rw [pos, List.drop_length]
      simpa [Enc.asciiSize] using hS
    · intro hlo sE S' hr hS'
      have := mi.low (by omega) sE S' (hstepR sE hr) hS'
      rw [hcwlen, ← hXl]; omega
    · intro cw ho hsize hsz
      obtain ⟨hsz1, _⟩ := hsz _ rfl
      rw [hcw] at ho
      obtain ⟨k, sD, hk, hs, hat, hmD⟩ := mi.dec cw (occurs_zero_left ho) (by rw [hcwlen, ← hXl] at hsize; omega)
        (fun r hr => by cases hr)
      have hmD' : sD.mode = .ascii := by
        rcases hmD with h | ⟨h, _⟩
        · exact h
        · cases h
      obtain ⟨k', sD', hk', hs', hat', hm'⟩ := dec_ediGroups cw i0 k s.cw.length sD _ tr lat _ q hs hat hmD' hcc hq4
        (occurs_zero_right ho) (by rw [hsz1, hcwlen]; omega) (by rw [hsz1, hcwlen]; omega)
      refine ⟨k', sD', ?_, hs', ?_, Or.inr ⟨rfl, hmf⟩⟩
      · rw [hcwlen]; have := mi.i0le; omega
      · rw [hcwlen, hchunk]
        rw [hclen] at hat'
        exact hat'


/-! ### a frame for side conditions that depend on the message and the position -/

/-- `ModeStep` for all modes at once, with an invariant `R` of the whole encoder state (for a fixed
message) in place of the predicate `Q` of the control part: one round of the main loop preserves
`SInv` and `R`. -/
def StepB (P : Mode → Prop) (list : List Sym) (i0 : Nat) (pre body : List Nat) (R : Enc.St → Prop) : Prop :=
  ∀ s s' : Enc.St, SInv P list i0 pre body s → R s → s.hasMore = true → Enc.encodeMode (latched s) = .ok s' →
    SInv P list i0 pre body s' ∧ R s'

theorem mainLoop_SInvB (P : Mode → Prop) (list : List Sym) (i0 : Nat) (pre body : List Nat) (R : Enc.St → Prop)
    (hstep : StepB P list i0 pre body R) :
    ∀ (f : Nat) (s : Enc.St) (k : Nat) (sE : Enc.St), Enc.mainLoop f s k = .ok sE → SInv P list i0 pre body s → R s →
      SInv P list i0 pre body sE ∧ sE.hasMore = false := by
  intro f
  induction f with
  | zero => intro s k sE h; cases h
  | succ f ih =>
    intro s k sE h mi hr
    by_cases hmore : s.hasMore = true
    · obtain ⟨s', k', he, hm⟩ := mainLoop_step f s sE k h hmore
      obtain ⟨a, b⟩ := hstep s s' mi hr hmore he
      exact ih s' k' sE hm a b
    · have hmf : s.hasMore = false := by simpa using hmore
      rw [mainLoop_end _ _ _ hmf] at h
      simp only [Except.ok.injEq] at h
      subst h
      exact ⟨mi, hmf⟩

/-- `SpecMain.run_spec` over `StepB` (the same proof behind the main loop) -/
theorem run_specB (P : Mode → Prop) (list : List Sym) (pre body cw : List Nat) (plan : List (Nat × Enc.EMode)) (sym : Sym)
    (R : Enc.St → Prop) (hstep : StepB P list pre.length pre body R)
    (hR0 : R { input := body, pos := 0, mode := .ascii, plan := plan, newMode := none, cw := pre, list := list })
    (h : Enc.run list pre body plan = .ok (cw, sym)) :
    cw.length = dataCw sym ∧ ∃ L sF, pre.length ≤ L ∧ L ≤ cw.length ∧ cw.take pre.length = pre ∧
      HeadOK (cw.drop pre.length) ∧ (L < cw.length → cw.getD L 0 = 129) ∧
      run cw.toArray (3 * cw.length + 4) { i := pre.length } = .ok sF ∧ Final P pre.length body cw sF L := by
  obtain ⟨sE, hmain, hsym, hpad⟩ := run_unfoldP list pre body cw plan sym h
  obtain ⟨⟨room, lo, tr, lat, mi⟩, hmf⟩ := mainLoop_SInvB P list pre.length pre body R hstep _ _ 0 sE hmain
    (sInv_init P list pre body plan) hR0
  have hposl : sE.pos = body.length := by
    have := of_decide_eq_false hmf
    rw [mi.inp] at this
    have := mi.le
    omega
  have hcap := DM.Lemmas.X12RT.firstBigEnough_le list _ sym hsym
  have hsize : ∀ r, room = some r → dataCw sym = sE.cw.length + r := by
    intro r hr
    obtain ⟨_, S, hS, hc⟩ := mi.closing r hr
    rw [hposl, List.drop_length] at hS
    simp only [Enc.asciiSize, Nat.add_zero] at hS
    rw [hS] at hsym
    cases hsym
    exact hc
  have hmode : sE.cw.length < dataCw sym → sE.mode = .ascii := by
    intro hlt
    rcases mi.ctl with ⟨h0, _⟩ | hc
    · have := hsize 0 h0; omega
    · have hnm : sE.newMode = none := by
        cases hn : sE.newMode with
        | none => rfl
        | some l => have := mi.more (by rw [hn]; simp); rw [hmf] at this; cases this
      rw [hnm] at hc
      cases hm : sE.mode <;> rw [hm] at hc <;> simp [Enc.EMode.latch] at hc
  obtain ⟨out, hout, hlen, htake, _, hrest⟩ := DM.Props.C02.padding_conformant sE.cw (sE.mode == .ascii) (dataCw sym) hcap
  rw [hpad] at hout
  cases hout
  have hstart : sE.cw.length = sE.cw.length +
      (if (sE.mode == Enc.EMode.ascii) = false ∧ sE.cw.length < dataCw sym then 1 else 0) := by
    by_cases hlt : sE.cw.length < dataCw sym
    · rw [hmode hlt]; simp
    · simp [hlt]
  obtain ⟨h129, hpads⟩ := hrest sE.cw.length hstart
  have ho : Occurs cw.toArray 0 sE.cw := by
    have := occurs_of_take cw [] sE.cw (by simpa using htake)
    simpa using this
  have hroom : ∀ r, room = some r → cw.toArray.size = sE.cw.length + r ∧ cw.toArray[sE.cw.length]? ≠ some 254 := by
    intro r hr
    refine ⟨by simp only [List.size_toArray, hlen, hsize r hr], ?_⟩
    simp only [List.getElem?_toArray]
    by_cases hlt : sE.cw.length < cw.length
    · have := h129 (by rw [← hlen]; exact hlt)
      rw [List.getD_eq_getElem?_getD, List.getElem?_eq_getElem hlt] at this
      rw [List.getElem?_eq_getElem hlt]
      simp only [Option.getD_some] at this
      rw [this]; simp
    · rw [List.getElem?_eq_none (by omega)]; simp
  have hlow : sE.cw.length + lo ≤ cw.toArray.size := by
    simp only [List.size_toArray, hlen]
    by_cases hl0 : lo = 0
    · omega
    · exact mi.low hl0 sE sym (Reach.done sE hmf) hsym
  obtain ⟨k, sD, hk, hs, hat, hmD⟩ := mi.dec cw.toArray ho hlow hroom
  have hLle : sE.cw.length ≤ cw.length := by rw [hlen]; exact hcap
  have hpfx : cw.take pre.length = pre := by
    calc cw.take pre.length = (cw.take sE.cw.length).take pre.length := by rw [List.take_take, Nat.min_eq_left mi.i0le]
      _ = pre := by rw [htake]; exact mi.pfx
  have hcwsplit : cw = sE.cw ++ cw.drop sE.cw.length := by
    conv => lhs; rw [← List.take_append_drop sE.cw.length cw, htake]
  have hhd : HeadOK (cw.drop pre.length) := by
    rw [hcwsplit, drop_append_le _ sE.cw _ mi.i0le]
    apply headOK_append mi.hd
    intro c hc
    cases hd : cw.drop sE.cw.length with
    | nil => rw [hd] at hc; simp at hc
    | cons x t =>
      rw [hd] at hc
      simp only [List.head?_cons, Option.mem_def, Option.some.injEq] at hc
      subst hc
      have hlt : sE.cw.length < cw.length := by
        have : (cw.drop sE.cw.length).length = (x :: t).length := by rw [hd]
        simp only [List.length_drop, List.length_cons] at this
        omega
      have h1 := h129 (by rw [← hlen]; exact hlt)
      have h2 : cw.getD sE.cw.length 0 = x := by
        rw [List.getD_eq_getElem?_getD, ← List.head?_drop, hd]; rfl
      omega
  refine ⟨hlen, sE.cw.length, ?_⟩
  have hfin : ∀ sF, run cw.toArray (3 * cw.length + 4) { i := pre.length } = .ok sF →
      Final P pre.length body cw sF sE.cw.length → ∃ sF, pre.length ≤ sE.cw.length ∧ sE.cw.length ≤ cw.length ∧
        cw.take pre.length = pre ∧ HeadOK (cw.drop pre.length) ∧ (sE.cw.length < cw.length → cw.getD sE.cw.length 0 = 129) ∧
        run cw.toArray (3 * cw.length + 4) { i := pre.length } = .ok sF ∧ Final P pre.length body cw sF sE.cw.length :=
    fun sF h1 h2 => ⟨sF, mi.i0le, hLle, hpfx, hhd, fun hlt => h129 (by rw [← hlen]; exact hlt), h1, h2⟩
  have hout : sD.out.toList = body := by rw [hat.out, hposl]; simp
  have htr : sD.trace.toList = tr := by rw [hat.trace]
  have hlat : sD.latches.toList = lat := by rw [hat.latches]
  have htrl : tr.length = body.length := by rw [mi.trlen, hposl]
  by_cases hfull : sE.cw.length = cw.length
  · apply hfin sD
    · exact hs.finish (step_end _ _ (by simp [hat.i, hfull])) (by have := mi.i0le; omega)
    · exact ⟨by rw [hat.i, hfull], hout, by rw [htr]; exact htrl, by rw [htr]; exact mi.trP, by rw [hlat]; exact mi.latP,
        hat.ecis, by rw [if_pos hfull]; exact hat.padAt⟩
  · have hlt : sE.cw.length < cw.length := by omega
    have hmD' : sD.mode = .ascii := by
      rcases hmD with h | ⟨h, _⟩
      · exact h
      · have := (hroom 0 h).1
        simp only [List.size_toArray] at this
        omega
    have hc : cw.toArray[sD.i]? = some 129 := by
      rw [hat.i]
      simp only [List.getElem?_toArray]
      have := h129 (by rw [← hlen]; exact hlt)
      rw [List.getD_eq_getElem?_getD, List.getElem?_eq_getElem hlt] at this
      rw [List.getElem?_eq_getElem hlt]
      simpa using this
    have hpad : step cw.toArray sD = .ok (some { sD with i := cw.toArray.size, padAt := some sD.i }) := by
      apply step_pad _ _ hc hmD'
      intro j h1 h2
      rw [getBang_toArray]
      rw [hat.i] at h1
      exact hpads j h1 (by rw [← hlen]; simpa using h2)
    apply hfin _ ((hs.trans (Steps.one hpad)).finish (step_end _ _ (by simp)) (by have := mi.i0le; omega))
    exact ⟨by simp, hout, by simp only []; rw [htr]; exact htrl, by simp only []; rw [htr]; exact mi.trP,
      by simp only []; rw [hlat]; exact mi.latP, hat.ecis, by rw [if_neg hfull, hat.i]⟩


/-! ### plans over ASCII, Base 256 and EDIFACT (as the final stretch) -/

/-- only ASCII, Base 256 and EDIFACT occur in the control part of the encoder state -/
def ABE : Key → Prop := fun k =>
  (∀ x ∈ k.1, x.2 = .ascii ∨ x.2 = .base256 ∨ x.2 = .edifact) ∧ (k.2.1 = .ascii ∨ k.2.1 = .base256 ∨ k.2.1 = .edifact)

theorem abe_closed : Closed ABE := by
  refine ⟨?_, ?_, ?_⟩
  · intro k _
    refine ⟨?_, Or.inl rfl⟩
    intro x hx
    simp only [asciiKey, List.mem_singleton] at hx
    subst hx
    exact Or.inl rfl
  · intro s s1 b h hk
    obtain ⟨h1, h2⟩ := hk
    simp only [key] at h1 h2 ⊢
    obtain ⟨_, _, _, m4, m5, m6⟩ := maybeSwitch_spec s s1 b h
    refine ⟨fun x hx => h1 x (m4 x hx), ?_⟩
    cases b with
    | false => rw [(m5 rfl).1]; exact h2
    | true => obtain ⟨_, _, ⟨p, hp⟩, _⟩ := m6 rfl; exact h1 _ hp
  · intro k hk
    exact ⟨hk.1, hk.2⟩

/-- the state invariant: the plan is `PlanOKE` (EDIFACT only as the final stretch, over EDIFACT
characters; no latch planned for the last four characters), the pending latch is consistent with the
mode (`C40Gen.Pending`: in EDIFACT mode the remaining plan names EDIFACT only and the remaining
characters are EDIFACT characters), and only ASCII, Base 256 and EDIFACT occur -/
structure RInv (body : List Nat) (s : Enc.St) : Prop where
  plan : PlanOKE body s.plan
  pend : s.hasMore = true → Pending s
  abe : ABE (key s)

/-- **One round of the main loop for plans over ASCII, Base 256 and EDIFACT.** -/
theorem stepB_abe (P : Mode → Prop) (hA : P .ascii) (hB : P .base256) (hE : P .edifact)
    (list : List Sym) (i0 : Nat) (pre body : List Nat) (hb : ByteList body) :
    StepB P list i0 pre body (RInv body) := by
  intro s s' hinv r hmore he
  have hplan' : PlanOKE body s'.plan :=
    q_encodeMode (planOKE_closed body) _ _ he (q_latched (planOKE_closed body) s r.plan)
  have habe' : ABE (key s') := q_encodeMode abe_closed _ _ he (q_latched abe_closed s r.abe)
  obtain ⟨room, lo, tr, lat, mi⟩ := hinv
  have hinv : SInv P list i0 pre body s := ⟨room, lo, tr, lat, mi⟩
  have hpend := r.pend hmore
  cases hm : s.mode with
  | ascii =>
    refine ⟨step_ascii P (fun _ => True) hA list i0 pre body s s' hb hinv trivial hmore hm he, hplan', fun _ => ?_, habe'⟩
    have hnm : s.newMode = none := by
      rcases mi.ctl with ⟨_, hf⟩ | hc
      · rw [hmore] at hf; cases hf
      · rw [hc, hm]; rfl
    have hl : latched s = s := by simp [latched, hnm]
    rw [hl] at he
    simp only [Enc.encodeMode, hm] at he
    exact asciiLoop_pend _ s s' he hm hnm (by rw [mi.inp]; exact r.plan)
  | base256 =>
    refine ⟨step_b256 P (fun _ => True) hB list i0 pre body s s' hb hinv trivial hmore hm he, hplan', fun _ => ?_, habe'⟩
    have hnm : s.newMode = some 231 := by
      rcases mi.ctl with ⟨_, hf⟩ | hc
      · rw [hmore] at hf; cases hf
      · rw [hc, hm]; rfl
    have hlatched : latched s = { s with newMode := none }.push 231 := by simp [latched, hnm]
    rw [hlatched] at he
    generalize hsL : ({ s with newMode := none }.push 231 : Enc.St) = sL at he
    have hLin : sL.input = body := by rw [← hsL]; exact mi.inp
    have hLli : sL.list = list := by rw [← hsL]; exact mi.lst
    have hLpos : sL.pos = s.pos := by rw [← hsL]; rfl
    have hLnm : sL.newMode = none := by rw [← hsL]; rfl
    have hLcw : sL.cw = s.cw ++ [231] := by rw [← hsL]; rfl
    have hLmode : sL.mode = .base256 := by rw [← hsL]; exact hm
    have hLplan : PlanOKE body sL.plan := by rw [← hsL]; exact r.plan
    simp only [Enc.encodeMode, hLmode, Enc.b256Encode] at he
    have hstart : sL.cw.length = s.cw.length + 1 := by rw [hLcw]; simp
    rw [hstart] at he
    have inv0 : BInv list body s.pos s.cw (sL.push 0) :=
      ⟨hLin, hLli, hLnm, by simp [Enc.St.push, hLpos], by simp [Enc.St.push, hLpos]; exact mi.le,
        by simp [Enc.St.push, hLcw, hLpos, seg_self]⟩
    have hLcl : sL.charsLeft = body.length - s.pos := by simp [Enc.St.charsLeft, hLin, hLpos]
    have hend := b256Loop_gen list body hb s.pos s.cw (body.length - s.pos) (sL.charsLeft + 2) (sL.push 0) s'
      (by simp [Enc.St.push, hLpos]) (by omega) inv0 (by simpa [Enc.St.push] using hLplan)
      (Or.inl (by simp only [Enc.St.hasMore, Enc.St.push, hLin, hLpos]; simpa [Enc.St.hasMore, mi.inp] using hmore)) he
    obtain ⟨p, toEnd, _, _, _, _, _, _, _, _, hctl⟩ := hend.out
    rcases hctl with ⟨a1, _, a3, _⟩ | ⟨_, _, a3, _⟩
    · exact Or.inl ⟨a1, a3⟩
    · exact a3
  | edifact =>
    have hedi : (∀ e ∈ s.plan, e.2 = .edifact) ∧ EdiChars (s.input.drop (s.input.length - s.charsLeft)) := by
      rcases hpend with ⟨a, _⟩ | ⟨l, _, _, c⟩
      · rw [hm] at a; cases a
      · exact c hm
    have hpos : s.input.length - s.charsLeft = s.pos := by
      have := mi.le
      simp only [Enc.St.charsLeft, mi.inp]; omega
    rw [hpos, mi.inp] at hedi
    obtain ⟨a, b⟩ := edi_SInv P hE list i0 pre body s s' hinv hmore hm hedi.1 hedi.2 he
    exact ⟨a, hplan', fun hmo => Or.inl ⟨(b hmo).1, (b hmo).2.2⟩, habe'⟩
  | c40 => have := r.abe.2; simp only [key] at this; rw [hm] at this; simp at this
  | text => have := r.abe.2; simp only [key] at this; rw [hm] at this; simp at this
  | x12 => have := r.abe.2; simp only [key] at this; rw [hm] at this; simp at this

end DM.Lemmas.SpecMainEdi
