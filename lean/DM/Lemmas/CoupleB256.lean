import DM.Lemmas.CoupleAscii
/-!
# Planner / encoder coupling: Base 256

The Base 256 plan accounts one codeword for the length field when it is created (`b256New`), one per
byte, and a second length codeword at unlatch / cost time when 250 or more bytes were written.  The
encoder pushes a placeholder for the length, copies the bytes and lets `b256WriteLength` rewrite the
field (inserting the second codeword when `count > 249`).  `b256Step` refuses the 1556th byte, so the
encoder's "base256 data too long" site is unreachable along a plan.  At the end of the data both
sides consult `symbol_size_left(0)`: no length field is needed when the symbol is exactly full.
-/
namespace DM.Lemmas.CoupleB256
open DM.Model DM.Model.Plan DM.Model.Enc DM.Lemmas DM.Lemmas.AsciiRT DM.Lemmas.PlanInv DM.Lemmas.Couple
open DM.Lemmas.CoupleAscii

/-! ### planner side -/

theorem gstep_b256 {g g1 : GPlan} {P : B256P} {r : StepResult} (hp : g.plan = .base256 P)
    (hs : g.step = .ok (some (g1, r))) :
    ∃ P1, b256Step P = some (P1, r) ∧ g1.plan = .base256 P1 ∧ g1.extra = g.extra := by
  unfold GPlan.step at hs
  rw [hp] at hs
  simp only [] at hs
  split at hs
  · cases hs
  · rename_i P1 r1 hstep
    simp only [Except.ok.injEq, Option.some.injEq, Prod.mk.injEq] at hs
    obtain ⟨h1, h2⟩ := hs
    subst h1 h2
    exact ⟨P1, hstep, rfl, rfl⟩

/-- a Base 256 step that does not report the end of the data -/
theorem b256Step_elim (P P1 : B256P) (r : StepResult) (hs : b256Step P = some (P1, r)) (he : r.end = false) :
    P.ctx.pos < P.ctx.data.length ∧ P.written + 1 ≠ 1556 ∧
    P1 = { ctx := P.ctx.eat.write 1, written := P.written + 1, cost := P.cost + 12 } := by
  unfold b256Step at hs
  simp only [] at hs
  by_cases hm : P.ctx.hasMore = true
  · simp only [hm, Bool.not_true, Bool.false_eq_true, ↓reduceIte] at hs
    split at hs
    · cases hs
    · rename_i hne
      simp only [Option.some.injEq, Prod.mk.injEq] at hs
      refine ⟨?_, hne, hs.1.symm⟩
      simpa [Ctx.hasMore] using hm
  · have hmf : P.ctx.hasMore = false := by simpa using hm
    simp only [hmf, Bool.not_false, ↓reduceIte, Option.some.injEq, Prod.mk.injEq] at hs
    rw [← hs.2] at he
    simp at he

theorem b256_steps : ∀ (k : Nat) (g gk : GPlan) (P : B256P), g.plan = .base256 P → P.written ≤ 1555 →
    P.ctx.pos ≤ P.ctx.data.length → StepsTo k g gk →
    ∃ Pk, gk.plan = .base256 Pk ∧ gk.extra = g.extra ∧ Pk.ctx.data = P.ctx.data ∧ Pk.ctx.list = P.ctx.list ∧
      Pk.ctx.pos = P.ctx.pos + k ∧ Pk.ctx.written = P.ctx.written + k ∧ Pk.written = P.written + k ∧
      Pk.cost = P.cost + 12 * k ∧ P.written + k ≤ 1555 ∧ P.ctx.pos + k ≤ P.ctx.data.length := by
  intro k
  induction k with
  | zero =>
    intro g gk P hp hw hpos hst
    have : g = gk := hst
    subst this
    exact ⟨P, hp, rfl, rfl, rfl, rfl, rfl, rfl, rfl, hw, hpos⟩
  | succ k ih =>
    intro g gk P hp hw hpos hst
    obtain ⟨g1, r, hs, he, hrest⟩ := hst
    obtain ⟨P1, hs1, hp1, hx1⟩ := gstep_b256 hp hs
    obtain ⟨hlt, hne, hP1⟩ := b256Step_elim P P1 r hs1 he
    subst hP1
    obtain ⟨Pk, a1, a2, a3, a4, a5, a6, a7, a8, a9, a10⟩ := ih g1 gk _ hp1 (by simp only []; omega)
      (by simp only [Ctx.eat, Ctx.write]; omega) hrest
    simp only [Ctx.eat, Ctx.write] at a3 a4 a5 a6 a7 a8 a9 a10
    exact ⟨Pk, a1, a2.trans hx1, a3, a4, by omega, by omega, by omega, by omega, by omega, by omega⟩

theorem firstBigEnough_none_mono (l : List Sym) (n n' : Nat) (h : firstBigEnough l n = none) (hle : n ≤ n') :
    firstBigEnough l n' = none := by
  unfold firstBigEnough at h ⊢
  rw [List.find?_eq_none] at h ⊢
  intro x hx
  have := h x hx
  simp only [ge_iff_le, decide_eq_true_eq] at this ⊢
  omega

/-! ### encoder side -/

/-- `write_length`, as far as lengths are concerned -/
theorem writeLength_len (s : St) (start : Nat) (hs : start < s.cw.length) (hlen : s.cw.length - start - 1 ≤ 1555) :
    (s.sizeLeft 0 = none ∧ b256WriteLength s start = .error .tooMuch) ∨
    (∃ sp cw', s.sizeLeft 0 = some sp ∧ b256WriteLength s start = .ok { s with cw := cw' } ∧
      cw'.length = s.cw.length +
        (if (s.hasMore = true ∨ sp > 0) ∧ s.cw.length - start - 1 > 249 then 1 else 0)) := by
  unfold b256WriteLength St.sizeLeftE
  cases hsl : s.sizeLeft 0 with
  | none => left; exact ⟨rfl, rfl⟩
  | some sp =>
    right
    refine ⟨sp, ?_⟩
    simp only []
    rw [if_neg (by omega)]
    by_cases hcond : s.hasMore = true ∨ sp > 0
    · rw [if_pos hcond, if_neg (by omega)]
      by_cases h249 : s.cw.length - start - 1 ≤ 249
      · rw [if_pos h249]
        simp only []
        refine ⟨_, trivial, rfl, ?_⟩
        simp only [List.length_map, List.length_range, List.length_set]
        rw [if_neg (by omega)]
        rfl
      · rw [if_neg h249, if_pos hlen]
        simp only []
        refine ⟨_, trivial, rfl, ?_⟩
        simp only [List.length_map, List.length_range, List.length_append, List.length_take, List.length_drop,
          List.length_set, List.length_singleton]
        rw [if_pos ⟨hcond, by omega⟩]
        omega
    · rw [if_neg hcond]
      simp only []
      refine ⟨_, trivial, rfl, ?_⟩
      simp only [List.length_map, List.length_range]
      rw [if_neg (fun h => hcond h.1)]
      rfl

/-- an iteration of the Base 256 loop before the planned switch -/
theorem b256Loop_stay (start : Nat) (s : St) (at_ : Nat) (m' : EMode) (rest : List (Nat × EMode))
    (hplan : s.plan = (at_, m') :: rest) (h : at_ + s.pos + 1 < s.input.length) (f : Nat) :
    b256Loop start (f + 1) s =
      b256Loop start f { s with pos := s.pos + 1, cw := s.cw ++ [s.input.getD s.pos 0] } := by
  rw [b256Loop]
  rw [eat_some s (by omega)]
  simp only [St.push]
  have hm : ({ s with pos := s.pos + 1, cw := s.cw ++ [s.input.getD s.pos 0] } : St).hasMore = true := by
    simp only [St.hasMore, decide_eq_true_eq]; omega
  simp only [hm, Bool.not_true, Bool.false_eq_true, ↓reduceIte]
  rw [maybeSwitch_stay { s with pos := s.pos + 1, cw := s.cw ++ [s.input.getD s.pos 0] } at_ m' rest hplan
    (by simp only [St.charsLeft]; omega)]

/-- `j` iterations before the planned switch -/
theorem b256Loop_walk (start : Nat) (at_ : Nat) (m' : EMode) (rest : List (Nat × EMode)) :
    ∀ (j : Nat) (s : St), s.plan = (at_, m') :: rest → at_ + s.pos + j < s.input.length →
    ∃ sj : St, (∀ f, b256Loop start (f + j) s = b256Loop start f sj) ∧
      sj.input = s.input ∧ sj.list = s.list ∧ sj.mode = s.mode ∧ sj.plan = s.plan ∧ sj.newMode = s.newMode ∧
      sj.pos = s.pos + j ∧ sj.cw.length = s.cw.length + j := by
  intro j
  induction j with
  | zero => intro s _ _; exact ⟨s, fun f => rfl, rfl, rfl, rfl, rfl, rfl, rfl, rfl⟩
  | succ j ih =>
    intro s hplan h
    obtain ⟨sj, a1, a2, a3, a4, a5, a6, a7, a8⟩ :=
      ih { s with pos := s.pos + 1, cw := s.cw ++ [s.input.getD s.pos 0] } hplan (by simp only []; omega)
    refine ⟨sj, fun f => ?_, a2, a3, a4, a5, a6, by rw [a7]; simp only []; omega,
      by rw [a8]; simp only [List.length_append, List.length_singleton]; omega⟩
    rw [← a1 f]
    exact b256Loop_stay start s at_ m' rest hplan (by omega) (f + j)

/-- the iteration in which the planned switch fires -/
theorem b256Loop_switch (start : Nat) (s : St) (m' : EMode) (rest : List (Nat × EMode))
    (hplan : s.plan = (s.input.length - (s.pos + 1), m') :: rest) (h : s.pos + 1 < s.input.length)
    (hm : m' ≠ s.mode) (hn : s.newMode = none) (f : Nat) :
    (∀ e, b256WriteLength { s with pos := s.pos + 1, cw := s.cw ++ [s.input.getD s.pos 0], mode := m',
                                   plan := rest, newMode := m'.latch } start = .error e →
      b256Loop start (f + 1) s = .error e) ∧
    (∀ s3, b256WriteLength { s with pos := s.pos + 1, cw := s.cw ++ [s.input.getD s.pos 0], mode := m',
                                    plan := rest, newMode := m'.latch } start = .ok s3 →
      b256Loop start (f + 1) s = .ok (if !s3.hasMore then s3.setAscii else s3)) := by
  rw [b256Loop]
  rw [eat_some s (by omega)]
  simp only [St.push]
  have hmore : ({ s with pos := s.pos + 1, cw := s.cw ++ [s.input.getD s.pos 0] } : St).hasMore = true := by
    simp only [St.hasMore, decide_eq_true_eq]; omega
  simp only [hmore, Bool.not_true, Bool.false_eq_true, ↓reduceIte]
  rw [maybeSwitch_fire { s with pos := s.pos + 1, cw := s.cw ++ [s.input.getD s.pos 0] } m' rest
    (by simp only [St.charsLeft]; exact hplan) (by simp only [St.charsLeft]; omega) hm hn]
  simp only []
  constructor
  · intro e he; rw [he]
  · intro s3 he; rw [he]

/-- the iteration that reaches the end of the data -/
theorem b256Loop_end (start : Nat) (s : St) (h : s.pos + 1 = s.input.length) (f : Nat) :
    (∀ e, b256WriteLength { s with pos := s.pos + 1, cw := s.cw ++ [s.input.getD s.pos 0] } start = .error e →
      b256Loop start (f + 1) s = .error e) ∧
    (∀ s3, b256WriteLength { s with pos := s.pos + 1, cw := s.cw ++ [s.input.getD s.pos 0] } start = .ok s3 →
      b256Loop start (f + 1) s = .ok s3.setAscii) := by
  rw [b256Loop]
  rw [eat_some s (by omega)]
  simp only [St.push]
  have hmore : ({ s with pos := s.pos + 1, cw := s.cw ++ [s.input.getD s.pos 0] } : St).hasMore = false := by
    simp only [St.hasMore, decide_eq_false_iff_not]; omega
  simp only [hmore, Bool.not_false, ↓reduceIte]
  constructor
  · intro e he; rw [he]
  · intro s3 he; rw [he]

theorem sizeLeft_none {s : St} {e : Nat} (h : s.sizeLeft e = none) : firstBigEnough s.list (s.cw.length + e) = none := by
  unfold St.sizeLeft at h
  split at h
  · cases h
  · assumption

theorem encodeMode_b256 (s : St) (hm : s.mode = .base256) :
    encodeMode s = b256Loop s.cw.length (s.charsLeft + 2) (s.push 0) := by
  unfold encodeMode
  rw [hm]
  rfl

/-! ### the statements -/

/-- `SwitchSeg` with the progress fact `w + 2 ≤ ctx'.written` (the main loop's no-progress counter) -/
def SwitchSegP (m : EMode) : Prop :=
  ∀ (body : List Nat) (list : List Sym) (p w k : Nat) (g0 gk : GPlan) (ac : Nat) (ctx' : Ctx) (m' : EMode)
    (rest : List (Nat × EMode)) (s : St),
    ByteList body → p + k < body.length → (1 ≤ k ∨ m = .ascii) →
    g0.plan = newPlan m (ctxAt body list p w) →
    StepsTo k g0 gk → SwitchPoint gk → gk.switchCost = some ac → gk.unlatch = .ok ctx' → m' ≠ m →
    EncAt body list s p w m ((body.length - (p + k), m') :: rest) →
    (ac = g0.extra + 12 * (ctx'.written - w) ∧ w ≤ ctx'.written ∧
      ((∃ s', encodeMode s = .ok s' ∧ s'.input = body ∧ s'.list = list ∧ s'.pos = p + k ∧
          s'.cw.length = ctx'.written ∧ s'.mode = m' ∧ s'.plan = rest ∧ s'.newMode = m'.latch) ∨
       (encodeMode s = .error .tooMuch ∧ firstBigEnough list ctx'.written = none))) ∧
    w + 2 ≤ ctx'.written

theorem switchSeg_of_P {m : EMode} (h : SwitchSegP m) : SwitchSeg m := by
  intro body list p w k g0 gk ac ctx' m' rest s h1 h2 h3 h4 h5 h6 h7 h8 h9 h10
  exact (h body list p w k g0 gk ac ctx' m' rest s h1 h2 h3 h4 h5 h6 h7 h8 h9 h10).1

/-- the planner side of a fresh Base 256 plan after `k` steps -/
theorem b256_fresh {body : List Nat} {list : List Sym} {p w k : Nat} {g0 gk : GPlan}
    (hg0 : g0.plan = newPlan .base256 (ctxAt body list p w)) (hp : p ≤ body.length) (hst : StepsTo k g0 gk) :
    ∃ Pk, gk.plan = .base256 Pk ∧ gk.extra = g0.extra ∧ Pk.ctx.data = body ∧ Pk.ctx.list = list ∧
      Pk.ctx.pos = p + k ∧ Pk.ctx.written = w + 1 + k ∧ Pk.written = k ∧ Pk.cost = 12 + 12 * k ∧ k ≤ 1555 := by
  obtain ⟨Pk, a1, a2, a3, a4, a5, a6, a7, a8, a9, _⟩ :=
    b256_steps k g0 gk (b256New (ctxAt body list p w)) hg0 (by simp [b256New]) (by simpa [b256New, Ctx.write, ctxAt] using hp) hst
  simp only [b256New, Ctx.write, ctxAt, Nat.zero_add] at a3 a4 a5 a6 a7 a8 a9
  exact ⟨Pk, a1, a2, a3, a4, a5, a6, a7, a8, a9⟩

/-- the encoder up to the last iteration -/
theorem b256_prefix {body : List Nat} {list : List Sym} {p w k : Nat} (plan : List (Nat × EMode)) (at_ : Nat) (m' : EMode)
    (rest : List (Nat × EMode)) (s : St) (henc : EncAt body list s p w .base256 plan) (hplan : plan = (at_, m') :: rest)
    (hk : 1 ≤ k) (hat : at_ + p + k = body.length) :
    ∃ sj : St, encodeMode s = b256Loop w (at_ + 2 + 1) sj ∧
      sj.input = body ∧ sj.list = list ∧ sj.mode = .base256 ∧ sj.plan = plan ∧ sj.newMode = none ∧
      sj.pos + 1 = p + k ∧ sj.cw.length = w + k := by
  obtain ⟨hin, hlist, hpos, hcw, hmode, hpl, hnm⟩ := henc
  obtain ⟨sj, a1, a2, a3, a4, a5, a6, a7, a8⟩ := b256Loop_walk w at_ m' rest (k - 1) (s.push 0)
    (by simp only [St.push]; rw [hpl, hplan]) (by simp only [St.push, hin, hpos]; omega)
  simp only [St.push, List.length_append, List.length_singleton] at a2 a3 a4 a5 a6 a7 a8
  rw [hpos] at a7
  rw [hcw] at a8
  refine ⟨sj, ?_, a2.trans hin, a3.trans hlist, a4.trans hmode, a5.trans hpl, a6.trans hnm, by omega, by omega⟩
  rw [encodeMode_b256 s hmode, hcw]
  have hfuel : s.charsLeft + 2 = (at_ + 2 + 1) + (k - 1) := by
    simp only [St.charsLeft, hin, hpos]; omega
  rw [hfuel]
  exact a1 _

theorem switchSegP_base256 : SwitchSegP .base256 := by
  intro body list p w k g0 gk ac ctx' m' rest s _ hk hk1 hg0 hst _ hsc hunl hm' henc
  have hk1 : 1 ≤ k := by
    rcases hk1 with h | h
    · exact h
    · cases h
  obtain ⟨Pk, hpk, hex, _, hcl, _, hcw', hwr, hcost, hk1555⟩ := b256_fresh hg0 (by omega) hst
  have hctx : ctx' = b256Unlatch Pk := by
    unfold GPlan.unlatch at hunl
    rw [hpk] at hunl
    simp only [Except.ok.injEq] at hunl
    exact hunl.symm
  have hac : ac = b256SwitchCost Pk + gk.extra := by
    unfold GPlan.switchCost at hsc
    rw [hpk] at hsc
    simp only [Option.some.injEq] at hsc
    exact hsc.symm
  have hwritten : ctx'.written = w + 1 + k + (if k ≥ 250 then 1 else 0) := by
    rw [hctx]
    unfold b256Unlatch
    rw [hwr]
    split
    · simp only [Ctx.write]; omega
    · omega
  have hlistc : ctx'.list = list := by
    rw [hctx]
    unfold b256Unlatch
    split
    · exact hcl
    · exact hcl
  have hacv : ac = g0.extra + 12 * (ctx'.written - w) := by
    rw [hac, hwritten, hex]
    unfold b256SwitchCost
    rw [hwr, hcost]
    split <;> omega
  refine ⟨⟨hacv, by omega, ?_⟩, by omega⟩
  obtain ⟨sj, hloop, b1, b2, b3, b4, b5, b6, b7⟩ :=
    b256_prefix _ (body.length - (p + k)) m' rest s henc rfl hk1 (by omega)
  have hpl : sj.plan = (sj.input.length - (sj.pos + 1), m') :: rest := by rw [b4, b1, b6]
  obtain ⟨herr, hok⟩ := b256Loop_switch w sj m' rest hpl (by rw [b1]; omega) (by rw [b3]; exact hm') b5
    (body.length - (p + k) + 2)
  rcases writeLength_len { sj with pos := sj.pos + 1, cw := sj.cw ++ [sj.input.getD sj.pos 0], mode := m', plan := rest, newMode := m'.latch } w
      (by simp only [List.length_append, List.length_singleton]; omega)
      (by simp only [List.length_append, List.length_singleton]; omega) with ⟨hnone, hwl⟩ | ⟨sp, cw', _, hwl, hlen⟩
  · right
    refine ⟨by rw [hloop]; exact herr _ hwl, ?_⟩
    have := sizeLeft_none hnone
    simp only [List.length_append, List.length_singleton, b2] at this
    exact firstBigEnough_none_mono list _ _ this (by omega)
  · left
    have hmore : ({ sj with pos := sj.pos + 1, cw := cw', mode := m', plan := rest, newMode := m'.latch } : St).hasMore
        = true := by
      simp only [St.hasMore, decide_eq_true_eq, b1]; omega
    have hres := hok _ hwl
    simp only [hmore, Bool.not_true, Bool.false_eq_true, ↓reduceIte] at hres
    refine ⟨{ sj with pos := sj.pos + 1, cw := cw', mode := m', plan := rest, newMode := m'.latch },
      by rw [hloop]; exact hres, b1, b2, by simp only []; omega, ?_, rfl, rfl, rfl⟩
    simp only [List.length_append, List.length_singleton] at hlen
    have hm2 : ({ sj with pos := sj.pos + 1, cw := sj.cw ++ [sj.input.getD sj.pos 0], mode := m', plan := rest, newMode := m'.latch } : St).hasMore = true := by
      simp only [St.hasMore, decide_eq_true_eq, b1]; omega
    simp only [hm2, true_or, true_and] at hlen
    simp only []
    rw [hlen, hwritten, b7]
    split <;> split <;> omega

theorem switchSeg_base256 : SwitchSeg .base256 := switchSeg_of_P switchSegP_base256

theorem endSegW_base256 : EndSegW .base256 := by
  intro body list p w k g0 gk gE r s _ hk hk1 hg0 hst hstep _ henc
  have hk1 : 1 ≤ k := by
    rcases hk1 with h | h
    · exact h
    · cases h
  obtain ⟨Pk, hpk, hex, hdata, hcl, hposk, hcw', hwr, hcost, hk1555⟩ := b256_fresh hg0 (by omega) hst
  have hm : Pk.ctx.hasMore = false := by
    simp only [Ctx.hasMore, hdata, hposk, decide_eq_false_iff_not]; omega
  -- the step that reports the end leaves the plan alone
  obtain ⟨PE, hsE, hpE, hexE⟩ := gstep_b256 hpk hstep
  have hPE : PE = Pk := by
    unfold b256Step at hsE
    simp only [hm, Bool.not_false, ↓reduceIte, Option.some.injEq, Prod.mk.injEq] at hsE
    exact hsE.1.symm
  have hgE : gE.cost = g0.extra + b256Cost Pk := by
    unfold GPlan.cost
    rw [hpE]
    simp only []
    rw [hexE, hex, hPE]
  obtain ⟨sj, hloop, b1, b2, b3, b4, b5, b6, b7⟩ := b256_prefix _ 0 .base256 [] s henc rfl hk1 (by omega)
  obtain ⟨herr, hok⟩ := b256Loop_end w sj (by rw [b1]; omega) (0 + 2)
  -- both sides ask `symbol_size_left(0)` of the same number of codewords
  have hsl : Pk.ctx.sizeLeft 0 =
      ({ sj with pos := sj.pos + 1, cw := sj.cw ++ [sj.input.getD sj.pos 0] } : St).sizeLeft 0 := by
    unfold Ctx.sizeLeft St.sizeLeft
    simp only [hcl, b2, hcw', List.length_append, List.length_singleton, b7]
    have e : w + 1 + k = w + k + 1 := by omega
    rw [e]
    cases firstBigEnough list (w + k + 1 + 0) <;> rfl
  have hcostE : b256Cost Pk = 12 * (1 + k + (if (({ sj with pos := sj.pos + 1, cw := sj.cw ++ [sj.input.getD sj.pos 0] } : St).sizeLeft 0).getD 1 > 0 ∧ k ≥ 250 then 1 else 0)) := by
    unfold b256Cost
    simp only [hm, Bool.not_false, ↓reduceIte]
    rw [hsl, hwr, hcost]
    split <;> omega
  have hdiff : gE.cost - g0.extra = b256Cost Pk := by omega
  have hm2 : ({ sj with pos := sj.pos + 1, cw := sj.cw ++ [sj.input.getD sj.pos 0] } : St).hasMore = false := by
    simp only [St.hasMore, decide_eq_false_iff_not, b1]; omega
  refine ⟨by omega, ?_⟩
  rcases writeLength_len { sj with pos := sj.pos + 1, cw := sj.cw ++ [sj.input.getD sj.pos 0] } w
      (by simp only [List.length_append, List.length_singleton]; omega)
      (by simp only [List.length_append, List.length_singleton]; omega) with ⟨hnone, hwl⟩ | ⟨sp, cw', hsome, hwl, hlen⟩
  · right
    refine ⟨by rw [hloop]; exact herr _ hwl, ?_⟩
    rw [hdiff, hcostE, ceil12_mul, Nat.mul_div_cancel_left _ (by omega : 0 < 12)]
    have := sizeLeft_none hnone
    simp only [List.length_append, List.length_singleton, b2] at this
    exact firstBigEnough_none_mono list _ _ this (by omega)
  · left
    have hres := hok _ hwl
    rw [hsome] at hcostE
    simp only [Option.getD_some] at hcostE
    simp only [hm2, Bool.false_eq_true, false_or, List.length_append, List.length_singleton] at hlen
    refine ⟨({ sj with pos := sj.pos + 1, cw := cw' } : St).setAscii, by rw [hloop]; exact hres, b1, b2,
      by simp only [St.setAscii]; omega, b5, fun _ => ⟨rfl, rfl⟩, ?_, ?_⟩
    · have hr : (({ sj with pos := sj.pos + 1, cw := cw' } : St).setAscii).rest = [] := by
        simp only [St.rest, St.setAscii, b1]
        exact List.drop_eq_nil_of_le (by omega)
      rw [hr, hdiff, hcostE, ceil12_mul]
      simp only [St.setAscii, asciiSize]
      rw [hlen, b7]
      split <;> split <;> omega
    · simp only [St.setAscii]
      omega

theorem endSeg_base256 : EndSeg .base256 := endSeg_of_W endSegW_base256

end DM.Lemmas.CoupleB256
