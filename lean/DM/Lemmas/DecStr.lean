import DM.Lemmas.DecTotal
/-
Totality of the string decoder model (`decode_str` = `decode_parts(data, false)` + `eci::convert`):
the ECI span starts recorded while decoding are non-decreasing and never beyond the output, so
the slices `raw[i..j]` taken by `convert` are always in range.
-/
namespace DM.Lemmas
open DM.Model.Dec DM.Gen

def ByteList (l : List Nat) : Prop := ∀ b ∈ l, b < 256

/-- span starts are non-decreasing and at most `n` -/
def SpansOK (n : Nat) (ecis : List (Nat × Nat)) : Prop :=
  ecis.Pairwise (fun a b => a.1 ≤ b.1) ∧ ∀ e ∈ ecis, e.1 ≤ n

def OutInv (out : List Nat) (ecis : List (Nat × Nat)) : Prop := ByteList out ∧ SpansOK out.length ecis

theorem ByteList.append {a b : List Nat} (ha : ByteList a) (hb : ByteList b) : ByteList (a ++ b) := by
  intro x hx
  rcases List.mem_append.mp hx with h | h
  · exact ha x h
  · exact hb x h

theorem ByteList.tail {a : Nat} {l : List Nat} (h : ByteList (a :: l)) : ByteList l :=
  fun b hb => h b (List.mem_cons_of_mem _ hb)

theorem ByteList.head {a : Nat} {l : List Nat} (h : ByteList (a :: l)) : a < 256 := h a (List.mem_cons_self ..)

theorem SpansOK.mono {n n' : Nat} {ecis : List (Nat × Nat)} (h : SpansOK n ecis) (hn : n ≤ n') : SpansOK n' ecis :=
  ⟨h.1, fun e he => Nat.le_trans (h.2 e he) hn⟩

theorem SpansOK.push {n : Nat} {ecis : List (Nat × Nat)} (h : SpansOK n ecis) (e : Nat) : SpansOK n (ecis ++ [(n, e)]) := by
  refine ⟨?_, ?_⟩
  · rw [List.pairwise_append]
    refine ⟨h.1, by simp, ?_⟩
    intro a ha b hb
    simp only [List.mem_singleton] at hb
    subst hb
    exact h.2 a ha
  · intro x hx
    rcases List.mem_append.mp hx with hx | hx
    · exact h.2 x hx
    · simp only [List.mem_singleton] at hx
      subst hx
      exact Nat.le_refl _

theorem OutInv.grow {out add : List Nat} {ecis : List (Nat × Nat)} (h : OutInv out ecis) (ha : ByteList add) :
    OutInv (out ++ add) ecis :=
  ⟨h.1.append ha, h.2.mono (by simp)⟩

theorem decodeAscii_inv (l : List Nat) :
    ∀ (eaten : Nat) (out : List Nat) (ecis : List (Nat × Nat)) (upper : Bool) (skip : Nat) (st' : DSt) (m : DMode),
      ByteList l → OutInv out ecis → decodeAscii l eaten out ecis upper skip = .ok (st', m) →
      OutInv st'.out st'.ecis ∧ ByteList st'.rest := by
  induction l with
  | nil =>
    intro eaten out ecis upper skip st' m _ hinv h
    unfold decodeAscii at h
    split at h
    · cases h
    · split at h
      · cases h
      · simp only [Except.ok.injEq, Prod.mk.injEq] at h
        rw [← h.1]; exact ⟨hinv, by intro b hb; simp at hb⟩
  | cons ch t ih =>
    intro eaten out ecis upper skip st' m hb hinv h
    have hch := hb.head
    have hbt := hb.tail
    have direct : ∀ {e : Nat} {m' : DMode}, (Except.ok (({ rest := t, eaten := e, out := out, ecis := ecis } : DSt), m') : R (DSt × DMode))
        = .ok (st', m) → OutInv st'.out st'.ecis ∧ ByteList st'.rest := by
      intro _ _ h'
      simp only [Except.ok.injEq, Prod.mk.injEq] at h'
      rw [← h'.1]; exact ⟨hinv, hbt⟩
    unfold decodeAscii at h
    by_cases hk : skip ≠ 0
    · rw [if_pos hk] at h; exact ih _ _ _ _ _ _ _ hbt hinv h
    rw [if_neg hk] at h
    by_cases c1 : upper = true ∧ ¬ (1 ≤ ch ∧ ch ≤ 128)
    · rw [if_pos c1] at h; cases h
    rw [if_neg c1] at h
    by_cases c2 : 1 ≤ ch ∧ ch ≤ 128
    · rw [if_pos c2] at h
      by_cases cu : upper = true
      · rw [if_pos cu, addU8_ok _ _ _ (by omega)] at h
        exact ih _ _ _ _ _ _ _ hbt (hinv.grow (by intro b hb'; simp only [List.mem_singleton] at hb'; omega)) h
      · rw [if_neg cu] at h
        exact ih _ _ _ _ _ _ _ hbt (hinv.grow (by intro b hb'; simp only [List.mem_singleton] at hb'; omega)) h
    rw [if_neg c2] at h
    by_cases c3 : ch = 129
    · rw [if_pos c3] at h
      cases hc : checkPads t (eaten + 1) with
      | error e => rw [hc] at h; cases h
      | ok v =>
        rw [hc] at h
        simp only [Except.ok.injEq, Prod.mk.injEq] at h
        rw [← h.1]; exact ⟨hinv, by intro b hb'; simp at hb'⟩
    rw [if_neg c3] at h
    by_cases c4 : 130 ≤ ch ∧ ch ≤ 229
    · rw [if_pos c4] at h
      refine ih _ _ _ _ _ _ _ hbt (hinv.grow ?_) h
      intro b hb'
      simp only [List.mem_cons, List.not_mem_nil, or_false] at hb'
      have h1 : (ch - 130) / 10 ≤ 9 := by omega
      have h2 : (ch - 130) % 10 ≤ 9 := by omega
      rcases hb' with hb' | hb' <;> omega
    rw [if_neg c4] at h
    by_cases c5 : ch = 230
    · rw [if_pos c5] at h; exact direct h
    rw [if_neg c5] at h
    by_cases c6 : ch = 231
    · rw [if_pos c6] at h; exact direct h
    rw [if_neg c6] at h
    by_cases c7 : ch = 232
    · rw [if_pos c7] at h
      exact ih _ _ _ _ _ _ _ hbt (hinv.grow (by intro b hb'; simp only [List.mem_singleton] at hb'; omega)) h
    rw [if_neg c7] at h
    by_cases c8 : ch = 233
    · rw [if_pos c8] at h; cases h
    rw [if_neg c8] at h
    by_cases c9 : ch = 234
    · rw [if_pos c9] at h; cases h
    rw [if_neg c9] at h
    by_cases c10 : ch = 235
    · rw [if_pos c10] at h; exact ih _ _ _ _ _ _ _ hbt hinv h
    rw [if_neg c10] at h
    by_cases c11 : ch = 238
    · rw [if_pos c11] at h; exact direct h
    rw [if_neg c11] at h
    by_cases c12 : ch = 239
    · rw [if_pos c12] at h; exact direct h
    rw [if_neg c12] at h
    by_cases c13 : ch = 240
    · rw [if_pos c13] at h; exact direct h
    rw [if_neg c13] at h
    by_cases c14 : ch = 241
    · rw [if_pos c14] at h
      cases hr : readEci t with
      | error e => rw [hr] at h; cases h
      | ok v =>
        obtain ⟨eci, used⟩ := v
        rw [hr] at h
        exact ih _ _ _ _ _ _ _ hbt ⟨hinv.1, hinv.2.push eci⟩ h
    rw [if_neg c14] at h
    cases h

theorem derand255_lt (ch pos : Nat) (h : ch < 256) : derand255 ch pos < 256 := by
  unfold derand255
  simp only []
  have : (149 * pos) % 255 < 255 := Nat.mod_lt _ (by omega)
  split <;> omega

theorem ByteList.drop {l : List Nat} (h : ByteList l) (n : Nat) : ByteList (l.drop n) :=
  fun b hb => h b (List.mem_of_mem_drop hb)

theorem decodeBase256_inv (rest : List Nat) (eaten : Nat) (out : List Nat) (r : List Nat) (e : Nat) (o : List Nat)
    (hb : ByteList rest) (h : decodeBase256 rest eaten out = .ok (r, e, o)) :
    ∃ add, o = out ++ add ∧ ByteList add ∧ ByteList r := by
  unfold decodeBase256 at h
  cases rest with
  | nil => cases h
  | cons c1 t =>
    simp only [] at h
    have hbt := hb.tail
    -- whatever header was read, the body is a suffix of the input
    split at h
    · cases h
    · rename_i len body eaten' hh
      have hbody : ByteList body := by
        split at hh
        · cases hh; exact hbt
        · split at hh
          · cases hh; exact hbt
          · cases t with
            | nil => cases hh
            | cons c2 t2 => simp only [Except.ok.injEq, Prod.mk.injEq] at hh; rw [← hh.2.1]; exact hbt.tail
      split at h
      · cases h
      · simp only [Except.ok.injEq, Prod.mk.injEq] at h
        refine ⟨_, h.2.2.symm, ?_, by rw [← h.1]; exact hbody.drop _⟩
        intro b hb'
        obtain ⟨k, hk, rfl⟩ := List.mem_map.mp hb'
        apply derand255_lt
        have hk' : k < len := List.mem_range.mp hk
        have hlt : k < body.length := by omega
        have : body.getD k 0 = body[k] := by simp [List.getD, List.getElem?_eq_getElem hlt]
        rw [this]
        exact hbody _ (List.getElem_mem hlt)

theorem decEdifactChar_lt (v : Nat) (h : v < 64) : decEdifactChar v < 256 := by
  unfold decEdifactChar; split <;> omega

theorem decodeEdifact_inv : ∀ (f : Nat) (rest : List Nat) (eaten : Nat) (out : List Nat), ByteList rest →
    ∃ add, (decodeEdifact f rest eaten out).2.2 = out ++ add ∧ ByteList add ∧ ByteList (decodeEdifact f rest eaten out).1 := by
  intro f
  induction f with
  | zero => intro rest eaten out hb; exact ⟨[], by simp [decodeEdifact], by intro b hb'; simp at hb', hb⟩
  | succ f ih =>
    intro rest eaten out hb
    unfold decodeEdifact
    match rest, hb with
    | [], hb => exact ⟨[], by simp, by intro b hb'; simp at hb', hb⟩
    | [a], hb => exact ⟨[], by simp, by intro b hb'; simp at hb', hb⟩
    | [a, b], hb => exact ⟨[], by simp, by intro b hb'; simp at hb', hb⟩
    | a :: b :: c :: t, hb =>
      have ha := hb.head
      have hb2 := hb.tail.head
      have hc := hb.tail.tail.head
      have ht := hb.tail.tail.tail
      have one : ∀ v, v < 64 → ByteList [decEdifactChar v] := by
        intro v hv x hx; simp only [List.mem_singleton] at hx; subst hx; exact decEdifactChar_lt v hv
      have v1 : a / 4 < 64 := by omega
      have v2 : (a % 4) * 16 + b / 16 < 64 := by omega
      have v3 : (b % 16) * 4 + c / 64 < 64 := by omega
      have v4 : c % 64 < 64 := by omega
      simp only []
      split
      · exact ⟨[], by simp, by intro b hb'; simp at hb', hb.tail⟩
      · split
        · exact ⟨_, rfl, one _ v1, hb.tail.tail⟩
        · split
          · exact ⟨[decEdifactChar (a / 4)] ++ [decEdifactChar ((a % 4) * 16 + b / 16)], by simp,
              (one _ v1).append (one _ v2), ht⟩
          · split
            · exact ⟨[decEdifactChar (a / 4)] ++ [decEdifactChar ((a % 4) * 16 + b / 16)] ++ [decEdifactChar ((b % 16) * 4 + c / 64)],
                by simp, ((one _ v1).append (one _ v2)).append (one _ v3), ht⟩
            · obtain ⟨add, h1, h2, h3⟩ := ih t (eaten + 3)
                (out ++ [decEdifactChar (a / 4)] ++ [decEdifactChar ((a % 4) * 16 + b / 16)] ++
                  [decEdifactChar ((b % 16) * 4 + c / 64)] ++ [decEdifactChar (c % 64)]) ht
              refine ⟨[decEdifactChar (a / 4)] ++ [decEdifactChar ((a % 4) * 16 + b / 16)] ++
                  [decEdifactChar ((b % 16) * 4 + c / 64)] ++ [decEdifactChar (c % 64)] ++ add, ?_, ?_, h3⟩
              · rw [h1]; simp
              · exact ((((one _ v1).append (one _ v2)).append (one _ v3)).append (one _ v4)).append h2

theorem decX12_lt (v x : Nat) (h : decX12 v = .ok x) : x < 256 := by
  unfold decX12 at h
  repeat' split at h
  all_goals first | (cases h; omega) | cases h

theorem bytes_nil : ByteList [] := by intro b hb; simp at hb

theorem decodeX12_inv :
    ∀ (n : Nat) (l : List Nat), l.length ≤ n → ByteList l → ∀ (eaten : Nat) (out : List Nat) (r : List Nat) (e : Nat) (o : List Nat),
      decodeX12 l eaten out = .ok (r, e, o) → ∃ add, o = out ++ add ∧ ByteList add ∧ ByteList r := by
  intro n
  induction n with
  | zero =>
    intro l hl hb eaten out r e o h
    have : l = [] := List.length_eq_zero_iff.mp (by omega)
    subst this
    unfold decodeX12 at h
    simp only [Except.ok.injEq, Prod.mk.injEq] at h
    exact ⟨[], by simp [h.2.2], bytes_nil, by rw [← h.1]; exact bytes_nil⟩
  | succ n ih =>
    intro l hl hb eaten out r e o h
    match l, hb with
    | [], _ =>
      unfold decodeX12 at h
      simp only [Except.ok.injEq, Prod.mk.injEq] at h
      exact ⟨[], by simp [h.2.2], bytes_nil, by rw [← h.1]; exact bytes_nil⟩
    | [a], hb =>
      unfold decodeX12 at h
      split at h
      · simp only [Except.ok.injEq, Prod.mk.injEq] at h
        exact ⟨[], by simp [h.2.2], bytes_nil, by rw [← h.1]; exact bytes_nil⟩
      · simp only [Except.ok.injEq, Prod.mk.injEq] at h
        exact ⟨[], by simp [h.2.2], bytes_nil, by rw [← h.1]; exact hb⟩
    | a :: b :: t, hb =>
      unfold decodeX12 at h
      by_cases ha : a = 254
      · rw [if_pos ha] at h
        split at h
        · simp only [Except.ok.injEq, Prod.mk.injEq] at h
          exact ⟨[], by simp [h.2.2], bytes_nil, by rw [← h.1]; exact bytes_nil⟩
        · simp only [Except.ok.injEq, Prod.mk.injEq] at h
          exact ⟨[], by simp [h.2.2], bytes_nil, by rw [← h.1]; exact hb.tail⟩
      · rw [if_neg ha] at h
        simp only at h
        split at h
        · rename_i x1 x2 x3 h1 h2 h3
          obtain ⟨add, e1, e2, e3⟩ := ih t (by simp only [List.length_cons] at hl; omega) hb.tail.tail _ _ _ _ _ h
          refine ⟨[x1, x2, x3] ++ add, by rw [e1]; simp, ?_, e3⟩
          refine ByteList.append ?_ e2
          intro y hy
          simp only [List.mem_cons, List.not_mem_nil, or_false] at hy
          rcases hy with rfl | rfl | rfl
          · exact decX12_lt _ _ h1
          · exact decX12_lt _ _ h2
          · exact decX12_lt _ _ h3
        · cases h
        · cases h
        · cases h

theorem tableGet_mem (site : String) (tab : List Nat) (i b : Nat) (h : tableGet site tab i = .ok b) : b ∈ tab := by
  unfold tableGet at h
  split at h
  · rename_i v hv
    cases h
    exact List.mem_of_getElem? hv
  · cases h

theorem emit_lt (st st' : CSt) (b x : Nat) (hb : b ≤ 127)
    (h : (if st.upper then
        match addU8 "c40 upper shift + 128" b 128 with
        | .error e => .error e
        | .ok x => .ok ({ shift := 0, upper := false }, some x)
      else .ok ({ shift := 0, upper := false }, some b) : R (CSt × Option Nat)) = .ok (st', some x)) : x < 256 := by
  split at h
  · rw [addU8_ok _ _ _ (by omega)] at h
    simp only [Except.ok.injEq, Prod.mk.injEq, Option.some.injEq] at h
    omega
  · simp only [Except.ok.injEq, Prod.mk.injEq, Option.some.injEq] at h
    omega

theorem c40Value_lt (base shift3 : List Nat) (G : GoodTables base shift3) (st st' : CSt) (v x : Nat)
    (h : c40Value base shift3 st v = .ok (st', some x)) : x < 256 := by
  unfold c40Value at h
  simp only [] at h
  split at h
  · split at h
    · simp at h
    · split at h
      · cases hg : tableGet "map_base[ch - 3]" base (v - 3) with
        | error e => rw [hg] at h; cases h
        | ok b =>
          rw [hg] at h
          exact emit_lt st st' b x (G.baseLe b (tableGet_mem _ _ _ _ hg)) h
      · cases h
  · split at h
    · split at h
      · rename_i hv
        exact emit_lt st st' v x (by omega) h
      · cases h
    · split at h
      · split at h
        · cases hg : tableGet "SHIFT2[ch]" shift2 v with
          | error e => rw [hg] at h; cases h
          | ok b =>
            rw [hg] at h
            exact emit_lt st st' b x (shift2_facts.2 b (tableGet_mem _ _ _ _ hg)) h
        · split at h
          · cases h
          · split at h
            · simp at h
            · cases h
      · split at h
        · cases hg : tableGet "map_shift3[ch]" shift3 v with
          | error e => rw [hg] at h; cases h
          | ok b =>
            rw [hg] at h
            exact emit_lt st st' b x (G.sh3Le b (tableGet_mem _ _ _ _ hg)) h
        · cases h

theorem c40Values_inv (base shift3 : List Nat) (G : GoodTables base shift3) :
    ∀ (vs : List Nat) (st : CSt) (out : List Nat) (st' : CSt) (o : List Nat),
      c40Values base shift3 vs st out = .ok (st', o) → ∃ add, o = out ++ add ∧ ByteList add := by
  intro vs
  induction vs with
  | nil =>
    intro st out st' o h
    simp only [c40Values, Except.ok.injEq, Prod.mk.injEq] at h
    exact ⟨[], by simp [h.2], bytes_nil⟩
  | cons v vs ih =>
    intro st out st' o h
    unfold c40Values at h
    cases hv : c40Value base shift3 st v with
    | error e => rw [hv] at h; cases h
    | ok r =>
      obtain ⟨st1, ob⟩ := r
      rw [hv] at h
      cases ob with
      | none =>
        simp only [] at h
        exact ih _ _ _ _ h
      | some b =>
        simp only [] at h
        obtain ⟨add, e1, e2⟩ := ih _ _ _ _ h
        refine ⟨[b] ++ add, by rw [e1]; simp, ByteList.append ?_ e2⟩
        intro y hy
        simp only [List.mem_singleton] at hy
        subst hy
        exact c40Value_lt base shift3 G st st1 v y hv

theorem decodeC40_inv (base shift3 : List Nat) (G : GoodTables base shift3) :
    ∀ (n : Nat) (l : List Nat), l.length ≤ n → ByteList l → ∀ (eaten : Nat) (out : List Nat) (st : CSt) (r : List Nat) (e : Nat) (o : List Nat),
      decodeC40 base shift3 l eaten out st = .ok (r, e, o) → ∃ add, o = out ++ add ∧ ByteList add ∧ ByteList r := by
  intro n
  induction n with
  | zero =>
    intro l hl hb eaten out st r e o h
    have : l = [] := List.length_eq_zero_iff.mp (by omega)
    subst this
    unfold decodeC40 at h
    simp only [Except.ok.injEq, Prod.mk.injEq] at h
    exact ⟨[], by simp [h.2.2], bytes_nil, by rw [← h.1]; exact bytes_nil⟩
  | succ n ih =>
    intro l hl hb eaten out st r e o h
    match l, hb with
    | [], _ =>
      unfold decodeC40 at h
      simp only [Except.ok.injEq, Prod.mk.injEq] at h
      exact ⟨[], by simp [h.2.2], bytes_nil, by rw [← h.1]; exact bytes_nil⟩
    | [a], hb =>
      unfold decodeC40 at h
      split at h
      · simp only [Except.ok.injEq, Prod.mk.injEq] at h
        exact ⟨[], by simp [h.2.2], bytes_nil, by rw [← h.1]; exact bytes_nil⟩
      · simp only [Except.ok.injEq, Prod.mk.injEq] at h
        exact ⟨[], by simp [h.2.2], bytes_nil, by rw [← h.1]; exact hb⟩
    | a :: b :: t, hb =>
      unfold decodeC40 at h
      by_cases ha : a = 254
      · rw [if_pos ha] at h
        split at h
        · simp only [Except.ok.injEq, Prod.mk.injEq] at h
          exact ⟨[], by simp [h.2.2], bytes_nil, by rw [← h.1]; exact bytes_nil⟩
        · simp only [Except.ok.injEq, Prod.mk.injEq] at h
          exact ⟨[], by simp [h.2.2], bytes_nil, by rw [← h.1]; exact hb.tail⟩
      · rw [if_neg ha] at h
        simp only at h
        cases hv : c40Values base shift3 [(c40Tuple a b).1, (c40Tuple a b).2.1, (c40Tuple a b).2.2] st out with
        | error e' => rw [hv] at h; cases h
        | ok rr =>
          obtain ⟨st', out'⟩ := rr
          rw [hv] at h
          obtain ⟨add1, f1, f2⟩ := c40Values_inv base shift3 G _ _ _ _ _ hv
          obtain ⟨add, e1, e2, e3⟩ := ih t (by simp only [List.length_cons] at hl; omega) hb.tail.tail _ _ _ _ _ _ h
          exact ⟨add1 ++ add, by rw [e1, f1]; simp, f2.append e2, e3⟩

theorem mainLoop_inv : ∀ (f : Nat) (m : DMode) (st st' : DSt), ByteList st.rest → OutInv st.out st.ecis →
    mainLoop f m st = .ok st' → OutInv st'.out st'.ecis := by
  intro f
  induction f with
  | zero => intro m st st' _ _ h; cases h
  | succ f ih =>
    intro m st st' hb hinv h
    unfold mainLoop at h
    by_cases he : st.rest.isEmpty = true
    · rw [if_pos he] at h; cases h; exact hinv
    rw [if_neg he] at h
    have grow : ∀ (r : List Nat) (e : Nat) (o : List Nat), (∃ add, o = st.out ++ add ∧ ByteList add ∧ ByteList r) →
        mainLoop f .ascii { st with rest := r, eaten := e, out := o } = .ok st' → OutInv st'.out st'.ecis := by
      intro r e o ⟨add, e1, e2, e3⟩ h'
      exact ih _ _ _ e3 (by rw [e1]; exact hinv.grow e2) h'
    cases m with
    | ascii =>
      simp only at h
      cases hd : decodeAscii st.rest st.eaten st.out st.ecis false 0 with
      | error e => rw [hd] at h; cases h
      | ok r =>
        obtain ⟨st1, m1⟩ := r
        rw [hd] at h
        have := decodeAscii_inv _ _ _ _ _ _ _ _ hb hinv hd
        exact ih _ _ _ this.2 this.1 h
    | base256 =>
      simp only at h
      cases hd : decodeBase256 st.rest st.eaten st.out with
      | error e => rw [hd] at h; cases h
      | ok r =>
        obtain ⟨r, e, o⟩ := r
        rw [hd] at h
        exact grow r e o (decodeBase256_inv _ _ _ _ _ _ hb hd) h
    | x12 =>
      simp only at h
      cases hd : decodeX12 st.rest st.eaten st.out with
      | error e => rw [hd] at h; cases h
      | ok r =>
        obtain ⟨r, e, o⟩ := r
        rw [hd] at h
        exact grow r e o (decodeX12_inv _ _ (Nat.le_refl _) hb _ _ _ _ _ hd) h
    | edifact =>
      simp only at h
      have := decodeEdifact_inv st.rest.length st.rest st.eaten st.out hb
      exact grow _ _ _ this h
    | c40 =>
      simp only at h
      cases hd : decodeC40 baseC40 shift3C40 st.rest st.eaten st.out { shift := 0, upper := false } with
      | error e => rw [hd] at h; cases h
      | ok r =>
        obtain ⟨r, e, o⟩ := r
        rw [hd] at h
        exact grow r e o (decodeC40_inv _ _ good_c40 _ _ (Nat.le_refl _) hb _ _ _ _ _ _ hd) h
    | text =>
      simp only at h
      cases hd : decodeC40 baseText shift3Text st.rest st.eaten st.out { shift := 0, upper := false } with
      | error e => rw [hd] at h; cases h
      | ok r =>
        obtain ⟨r, e, o⟩ := r
        rw [hd] at h
        exact grow r e o (decodeC40_inv _ _ good_text _ _ (Nat.le_refl _) hb _ _ _ _ _ _ hd) h

theorem bytes_macro : ByteList macroHead05 ∧ ByteList macroHead06 ∧ ByteList macroTrail := by
  refine ⟨?_, ?_, ?_⟩ <;> (intro b hb; simp only [macroHead05, macroHead06, macroTrail, List.mem_cons, List.not_mem_nil, or_false] at hb; omega)

theorem finish_inv (st : DSt) (mac fnc1 : Bool) (p : Parts) (hinv : OutInv st.out st.ecis)
    (h : (if mac then
        (.ok { output := st.out ++ macroTrail,
               ecis := if st.ecis.isEmpty then st.ecis else st.ecis ++ [(st.out.length, 26)], fnc1 := fnc1 } : R Parts)
      else .ok { output := st.out, ecis := st.ecis, fnc1 := fnc1 }) = .ok p) : OutInv p.output p.ecis := by
  split at h
  · cases h
    simp only []
    refine ⟨hinv.1.append bytes_macro.2.2, ?_⟩
    split
    · exact hinv.2.mono (by simp)
    · exact (hinv.2.push 26).mono (by simp)
  · cases h; exact hinv

/-- `decode_parts` after the macro codeword has been looked at -/
def partsBody (raw : Bool) (out0 d1 : List Nat) (e1 : Nat) (mac : Bool) : R Parts :=
  let ecis0 : List (Nat × Nat) := if !raw && mac then [(0, 26), (out0.length, 0)] else []
  let (fnc1, data2, eaten2) : Bool × List Nat × Nat :=
    match d1 with
    | 232 :: t => (true, t, e1 + 1)
    | _ => (false, d1, e1)
  match mainLoop (2 * data2.length + 2) .ascii { rest := data2, eaten := eaten2, out := out0, ecis := ecis0 } with
  | .error e => .error e
  | .ok st =>
    if mac then
      let ecis := if st.ecis.isEmpty then st.ecis else st.ecis ++ [(st.out.length, 26)]
      .ok { output := st.out ++ macroTrail, ecis := ecis, fnc1 := fnc1 }
    else .ok { output := st.out, ecis := st.ecis, fnc1 := fnc1 }

theorem decodeParts_eq (data : List Nat) (raw : Bool) :
    (∃ t, data = 236 :: t ∧ decodeParts data raw = partsBody raw macroHead05 t 1 true) ∨
    (∃ t, data = 237 :: t ∧ decodeParts data raw = partsBody raw macroHead06 t 1 true) ∨
    decodeParts data raw = partsBody raw [] data 0 false := by
  match data with
  | [] => right; right; rfl
  | c :: t =>
    by_cases h1 : c = 236
    · subst h1; left; exact ⟨t, rfl, rfl⟩
    by_cases h2 : c = 237
    · subst h2; right; left; exact ⟨t, rfl, rfl⟩
    right; right
    unfold decodeParts partsBody
    split
    rename_i heq
    split at heq
    · rename_i heq2; injection heq2 with heq2; exact absurd heq2 h1
    · rename_i heq2; injection heq2 with heq2; exact absurd heq2 h2
    · cases heq; rfl

/-- `decode_parts` when neither a macro nor an FNC1 codeword leads the data -/
theorem partsBody_plain (raw : Bool) (d1 : List Nat) (h : ∀ t, d1 ≠ 232 :: t) :
    partsBody raw [] d1 0 false =
      match mainLoop (2 * d1.length + 2) .ascii { rest := d1, eaten := 0, out := [], ecis := [] } with
      | .error e => .error e
      | .ok st => .ok { output := st.out, ecis := st.ecis, fnc1 := false } := by
  unfold partsBody
  match d1, h with
  | [], _ => simp
  | c :: t, h =>
    have hc : c ≠ 232 := fun hc => h t (by rw [hc])
    have hmatch : (match c :: t with
        | 232 :: t' => (true, t', 0 + 1)
        | _ => (false, c :: t, 0) : Bool × List Nat × Nat) = (false, c :: t, 0) := by
      split
      · rename_i heq; injection heq with heq; exact absurd heq hc
      · rfl
    simp only [hmatch]
    simp

/-- `decode_parts` after the macro test, FNC1 test resolved -/
def partsFinish (mac fnc1 : Bool) (r : R DSt) : R Parts :=
  match r with
  | .error e => .error e
  | .ok st =>
    if mac then
      .ok { output := st.out ++ macroTrail,
            ecis := if st.ecis.isEmpty then st.ecis else st.ecis ++ [(st.out.length, 26)], fnc1 := fnc1 }
    else .ok { output := st.out, ecis := st.ecis, fnc1 := fnc1 }

theorem partsBody_no232 (raw : Bool) (out0 d1 : List Nat) (e1 : Nat) (mac : Bool) (h : ∀ t, d1 ≠ 232 :: t) :
    partsBody raw out0 d1 e1 mac =
      partsFinish mac false (mainLoop (2 * d1.length + 2) .ascii
        { rest := d1, eaten := e1, out := out0, ecis := if !raw && mac then [(0, 26), (out0.length, 0)] else [] }) := by
  unfold partsBody partsFinish
  match d1, h with
  | [], _ => simp
  | c :: t, h =>
    have hc : c ≠ 232 := fun hc => h t (by rw [hc])
    have hmatch : (match c :: t with
        | 232 :: t' => (true, t', e1 + 1)
        | _ => (false, c :: t, e1) : Bool × List Nat × Nat) = (false, c :: t, e1) := by
      split
      · rename_i heq; injection heq with heq; exact absurd heq hc
      · rfl
    simp only [hmatch]

theorem partsBody_232 (raw : Bool) (out0 t : List Nat) (e1 : Nat) (mac : Bool) :
    partsBody raw out0 (232 :: t) e1 mac =
      partsFinish mac true (mainLoop (2 * t.length + 2) .ascii
        { rest := t, eaten := e1 + 1, out := out0, ecis := if !raw && mac then [(0, 26), (out0.length, 0)] else [] }) := by
  unfold partsBody partsFinish
  simp only []

theorem decodeParts_236 (t : List Nat) (raw : Bool) :
    decodeParts (236 :: t) raw = partsBody raw macroHead05 t 1 true := rfl

theorem decodeParts_237 (t : List Nat) (raw : Bool) :
    decodeParts (237 :: t) raw = partsBody raw macroHead06 t 1 true := rfl

theorem decodeParts_other (data : List Nat) (raw : Bool) (h : ∀ t, data ≠ 236 :: t ∧ data ≠ 237 :: t) :
    decodeParts data raw = partsBody raw [] data 0 false := by
  rcases decodeParts_eq data raw with ⟨t, ht, _⟩ | ⟨t, ht, _⟩ | e
  · exact absurd ht (h t).1
  · exact absurd ht (h t).2
  · exact e

theorem partsBody_inv (raw : Bool) (out0 d1 : List Nat) (e1 : Nat) (mac : Bool) (p : Parts)
    (hd1 : ByteList d1) (ho : ByteList out0) (h : partsBody raw out0 d1 e1 mac = .ok p) : OutInv p.output p.ecis := by
  have hinv0 : OutInv out0 (if (!raw && mac) = true then [(0, 26), (out0.length, 0)] else []) := by
    refine ⟨ho, ?_⟩
    split
    · refine ⟨by simp, ?_⟩
      intro e he
      simp only [List.mem_cons, List.not_mem_nil, or_false] at he
      rcases he with rfl | rfl <;> simp
    · exact ⟨by simp, by simp⟩
  unfold partsBody at h
  match d1, hd1 with
  | [], hd1 =>
    simp only [] at h
    cases hm : mainLoop (2 * ([] : List Nat).length + 2) .ascii { rest := [], eaten := e1, out := out0, ecis := _ } with
    | error e => rw [hm] at h; cases h
    | ok st =>
      rw [hm] at h
      exact finish_inv st mac false p (mainLoop_inv _ _ _ _ hd1 hinv0 hm) h
  | c :: t, hd1 =>
    by_cases hc : c = 232
    · subst hc
      simp only [] at h
      cases hm : mainLoop (2 * t.length + 2) .ascii { rest := t, eaten := e1 + 1, out := out0, ecis := _ } with
      | error e => rw [hm] at h; cases h
      | ok st =>
        rw [hm] at h
        exact finish_inv st mac true p (mainLoop_inv _ _ _ _ hd1.tail hinv0 hm) h
    · have hmatch : (match c :: t with
          | 232 :: t' => (true, t', e1 + 1)
          | _ => (false, c :: t, e1) : Bool × List Nat × Nat) = (false, c :: t, e1) := by
        split
        · rename_i heq; injection heq with heq; exact absurd heq hc
        · rfl
      simp only [hmatch] at h
      cases hm : mainLoop (2 * (c :: t).length + 2) .ascii { rest := c :: t, eaten := e1, out := out0, ecis := _ } with
      | error e => rw [hm] at h; cases h
      | ok st =>
        rw [hm] at h
        exact finish_inv st mac false p (mainLoop_inv _ _ _ _ hd1 hinv0 hm) h

/-- what `decode_parts` hands to `eci::convert` -/
theorem decodeParts_inv (data : List Nat) (raw : Bool) (p : Parts) (hb : ByteList data)
    (h : decodeParts data raw = .ok p) : OutInv p.output p.ecis := by
  rcases decodeParts_eq data raw with ⟨t, rfl, e⟩ | ⟨t, rfl, e⟩ | e
  · rw [e] at h; exact partsBody_inv _ _ _ _ _ _ hb.tail bytes_macro.1 h
  · rw [e] at h; exact partsBody_inv _ _ _ _ _ _ hb.tail bytes_macro.2.1 h
  · rw [e] at h; exact partsBody_inv _ _ _ _ _ _ hb bytes_nil h

/-! ### `eci::convert` -/

def TableOK (tab : List Int) : Prop := tab.length = 256 ∧ ∀ v ∈ tab, v ≥ -1

def charTablesOK : Bool :=
  [latin1ToUtf8, csEci11, csEci13].all fun t => t.length == 256 && t.all (fun v => decide (v ≥ -1))

theorem char_tables_ok : charTablesOK = true := by decide +kernel

theorem tables_ok : TableOK latin1ToUtf8 ∧ TableOK csEci11 ∧ TableOK csEci13 := by
  have h := char_tables_ok
  simp only [charTablesOK, List.all_cons, List.all_nil, Bool.and_true, Bool.and_eq_true, beq_iff_eq,
    List.all_eq_true, decide_eq_true_eq] at h
  exact ⟨⟨h.1.1, h.1.2⟩, ⟨h.2.1.1, h.2.1.2⟩, ⟨h.2.2.1, h.2.2.2⟩⟩

theorem tableChar_good (tab : List Int) (ht : TableOK tab) (b : Nat) (hb : b < 256) : Good (tableChar tab b) := by
  unfold tableChar
  have hlt : b < tab.length := by rw [ht.1]; exact hb
  rw [List.getElem?_eq_getElem hlt]
  simp only []
  have hv := ht.2 tab[b] (List.getElem_mem hlt)
  split
  · exact Good.ok _
  · split
    · exact good_err _ trivial
    · omega

theorem good_bind {α β : Type} {r : R α} (hr : Good r) {f : α → R β} (hf : ∀ a, r = .ok a → Good (f a)) :
    Good (match r with | .error e => .error e | .ok a => f a) := by
  cases h : r with
  | error e => exact good_err _ (hr e h)
  | ok a => exact hf a h

theorem mapChars_good (tab : List Int) (ht : TableOK tab) : ∀ (l : List Nat), ByteList l → Good (mapChars tab l) := by
  intro l
  induction l with
  | nil => intro _; exact Good.ok _
  | cons b t ih =>
    intro hb
    unfold mapChars
    have h1 := tableChar_good tab ht b hb.head
    cases hc : tableChar tab b with
    | error e => exact good_err _ (h1 e hc)
    | ok c =>
      simp only []
      have h2 := ih hb.tail
      cases hm : mapChars tab t with
      | error e => exact good_err _ (h2 e hm)
      | ok cs => exact Good.ok _

theorem convertChunk_good (bytes : List Nat) (eci : Nat) (hb : ByteList bytes) : Good (convertChunk bytes eci) := by
  unfold convertChunk
  split
  · exact mapChars_good _ tables_ok.1 _ hb
  · split
    · exact mapChars_good _ tables_ok.2.1 _ hb
    · split
      · exact mapChars_good _ tables_ok.2.2 _ hb
      · split
        · split
          · exact Good.ok _
          · exact good_err _ trivial
        · split
          · split
            · exact Good.ok _
            · exact good_err _ trivial
          · exact good_err _ trivial

theorem convertSpans_good (raw : List Nat) (hb : ByteList raw) : ∀ (spans : List (Nat × Nat)),
    SpansOK raw.length spans → Good (convertSpans raw spans) := by
  intro spans
  induction spans with
  | nil => intro _; unfold convertSpans; exact Good.ok _
  | cons a rest ih =>
    intro hs
    match rest, ih, hs with
    | [], _, _ => unfold convertSpans; exact Good.ok _
    | (j, e2) :: rest', ih, hs =>
      obtain ⟨i, eci⟩ := a
      unfold convertSpans
      have hij : i ≤ j := (List.pairwise_cons.mp hs.1).1 (j, e2) (List.mem_cons_self ..)
      have hj : j ≤ raw.length := hs.2 (j, e2) (List.mem_cons_of_mem _ (List.mem_cons_self ..))
      rw [if_neg (by omega)]
      have hchunk : ByteList ((raw.drop i).take (j - i)) := fun b hb' => hb b (List.mem_of_mem_drop (List.mem_of_mem_take hb'))
      have h1 := convertChunk_good _ eci hchunk
      cases hc : convertChunk ((raw.drop i).take (j - i)) eci with
      | error e => exact good_err _ (h1 e hc)
      | ok cps =>
        simp only []
        have h2 := ih ⟨(List.pairwise_cons.mp hs.1).2, fun e he => hs.2 e (List.mem_cons_of_mem _ he)⟩
        cases hm : convertSpans raw ((j, e2) :: rest') with
        | error e => exact good_err _ (h2 e hm)
        | ok more => exact Good.ok _

theorem convert_good (raw : List Nat) (ecis : List (Nat × Nat)) (h : OutInv raw ecis) : Good (convert raw ecis) := by
  unfold convert
  apply convertSpans_good raw h.1
  refine ⟨?_, ?_⟩
  · rw [List.append_assoc, List.singleton_append, List.pairwise_cons]
    refine ⟨fun e _ => Nat.zero_le _, ?_⟩
    rw [List.pairwise_append]
    refine ⟨h.2.1, by simp, ?_⟩
    intro a ha b hb'
    simp only [List.mem_singleton] at hb'
    subst hb'
    exact h.2.2 a ha
  · intro e he
    simp only [List.cons_append, List.mem_cons, List.mem_append, List.not_mem_nil, or_false, List.nil_append] at he
    rcases he with rfl | he | rfl
    · exact Nat.zero_le _
    · exact h.2.2 e he
    · exact Nat.le_refl _

theorem decodeParts_good (data : List Nat) (raw : Bool) : Good (decodeParts data raw) := by
  have body : ∀ out0 d1 e1 mac, Good (partsBody raw out0 d1 e1 mac) := by
    intro out0 d1 e1 mac
    unfold partsBody
    simp only
    generalize hm : mainLoop _ _ _ = r
    have hn : Good r := by
      rw [← hm]
      apply mainLoop_good
      simp
    cases r with
    | error e => exact good_err _ (hn e rfl)
    | ok st => simp only; split <;> exact Good.ok _
  rcases decodeParts_eq data raw with ⟨t, _, e⟩ | ⟨t, _, e⟩ | e <;> (rw [e]; exact body _ _ _ _)

/-- **`decode_str` is total** (model): for every slice of codewords it returns the string or a
documented error; no slice, index, overflow or table panic is reachable and the loop bound of the
model is never hit. -/
theorem decodeStr_good (data : List Nat) (hb : ByteList data) : Good (decodeStr data) := by
  unfold decodeStr
  have h1 := decodeParts_good data false
  cases hp : decodeParts data false with
  | error e => exact good_err _ (h1 e hp)
  | ok p => exact convert_good _ _ (decodeParts_inv data false p hb hp)

end DM.Lemmas
