/-
Strictly sorted lists: insertion with duplicate removal (the iteration order of a
`BTreeSet`) is determined by the set of members.
-/
namespace DM.Lemmas

variable {α : Type} (lt : α → α → Bool)

/-- insert into a sorted list, dropping the new element if an equal key is present -/
def insertBy (s : α) : List α → List α
  | [] => [s]
  | t :: ts =>
    if lt s t then s :: t :: ts
    else if lt t s then t :: insertBy s ts
    else t :: ts

/-- `lt` is a strict total order on the elements satisfying `D`. -/
structure StrictTotalOn (D : α → Prop) : Prop where
  irrefl : ∀ a, D a → lt a a = false
  trans : ∀ a b c, D a → D b → D c → lt a b = true → lt b c = true → lt a c = true
  tri : ∀ a b, D a → D b → lt a b = false → lt b a = false → a = b

variable {lt} {D : α → Prop}

theorem mem_insertBy (h : StrictTotalOn lt D) (s : α) (hs : D s) (l : List α) (hl : ∀ x ∈ l, D x) :
    ∀ x, x ∈ insertBy lt s l ↔ x = s ∨ x ∈ l := by
  induction l with
  | nil => intro x; simp [insertBy]
  | cons t ts ih =>
    intro x
    have hts : ∀ x ∈ ts, D x := fun x hx => hl x (List.mem_cons_of_mem _ hx)
    unfold insertBy
    split
    · simp
    · split
      · simp [ih hts]
        constructor
        · rintro (h1 | h1 | h1) <;> simp [h1]
        · rintro (h1 | h1 | h1) <;> simp [h1]
      · rename_i h1 h2
        have : s = t := h.tri s t hs (hl t (List.mem_cons_self ..)) (by simpa using h1) (by simpa using h2)
        subst this
        simp

theorem pairwise_insertBy (h : StrictTotalOn lt D) (s : α) (hs : D s) (l : List α)
    (hl : ∀ x ∈ l, D x) (hp : l.Pairwise (fun a b => lt a b = true)) :
    (insertBy lt s l).Pairwise (fun a b => lt a b = true) := by
  induction l with
  | nil => simp [insertBy]
  | cons t ts ih =>
    have hts : ∀ x ∈ ts, D x := fun x hx => hl x (List.mem_cons_of_mem _ hx)
    have ht : D t := hl t (List.mem_cons_self ..)
    rw [List.pairwise_cons] at hp
    unfold insertBy
    split
    · rename_i h1
      rw [List.pairwise_cons]
      refine ⟨?_, List.pairwise_cons.mpr hp⟩
      intro x hx
      rcases List.mem_cons.mp hx with rfl | hx
      · exact h1
      · exact h.trans s t x hs ht (hts x hx) h1 (hp.1 x hx)
    · split
      · rename_i h1 h2
        rw [List.pairwise_cons]
        refine ⟨?_, ih hts hp.2⟩
        intro x hx
        rcases (mem_insertBy h s hs ts hts x).mp hx with rfl | hx
        · exact h2
        · exact hp.1 x hx
      · exact List.pairwise_cons.mpr hp

/-- Two strictly sorted lists with the same members are equal. -/
theorem sorted_ext (h : StrictTotalOn lt D) :
    ∀ (l₁ l₂ : List α), (∀ x ∈ l₁, D x) → (∀ x ∈ l₂, D x) →
      l₁.Pairwise (fun a b => lt a b = true) → l₂.Pairwise (fun a b => lt a b = true) →
      (∀ x, x ∈ l₁ ↔ x ∈ l₂) → l₁ = l₂ := by
  intro l₁
  induction l₁ with
  | nil =>
    intro l₂ _ _ _ _ hm
    cases l₂ with
    | nil => rfl
    | cons b l₂ => exact absurd ((hm b).mpr (List.mem_cons_self ..)) (by simp)
  | cons a l₁ ih =>
    intro l₂ hd1 hd2 hp1 hp2 hm
    cases l₂ with
    | nil => exact absurd ((hm a).mp (List.mem_cons_self ..)) (by simp)
    | cons b l₂ =>
      rw [List.pairwise_cons] at hp1 hp2
      have ha : D a := hd1 a (List.mem_cons_self ..)
      have hb : D b := hd2 b (List.mem_cons_self ..)
      have hab : a = b := by
        rcases List.mem_cons.mp ((hm a).mp (List.mem_cons_self ..)) with e | e
        · exact e
        · rcases List.mem_cons.mp ((hm b).mpr (List.mem_cons_self ..)) with e' | e'
          · exact e'.symm
          · have h1 := hp2.1 a e
            have h2 := hp1.1 b e'
            have := h.trans a b a ha hb ha h2 h1
            rw [h.irrefl a ha] at this
            exact absurd this (by simp)
      subst hab
      congr 1
      apply ih l₂ (fun x hx => hd1 x (List.mem_cons_of_mem _ hx))
        (fun x hx => hd2 x (List.mem_cons_of_mem _ hx)) hp1.2 hp2.2
      intro x
      constructor
      · intro hx
        rcases List.mem_cons.mp ((hm x).mp (List.mem_cons_of_mem _ hx)) with e | e
        · subst e
          have := hp1.1 x hx
          rw [h.irrefl x ha] at this
          exact absurd this (by simp)
        · exact e
      · intro hx
        rcases List.mem_cons.mp ((hm x).mpr (List.mem_cons_of_mem _ hx)) with e | e
        · subst e
          have := hp2.1 x hx
          rw [h.irrefl x ha] at this
          exact absurd this (by simp)
        · exact e

/-- fold of `insertBy` over a list: members and sortedness -/
theorem foldl_insertBy (h : StrictTotalOn lt D) (wl : List α) (hw : ∀ x ∈ wl, D x) :
    ∀ (acc : List α), (∀ x ∈ acc, D x) → acc.Pairwise (fun a b => lt a b = true) →
      (∀ x ∈ wl.foldl (fun acc s => insertBy lt s acc) acc, D x) ∧
      (wl.foldl (fun acc s => insertBy lt s acc) acc).Pairwise (fun a b => lt a b = true) ∧
      (∀ x, x ∈ wl.foldl (fun acc s => insertBy lt s acc) acc ↔ x ∈ wl ∨ x ∈ acc) := by
  induction wl with
  | nil => intro acc ha hp; simp [ha, hp]; exact ha
  | cons s wl ih =>
    intro acc ha hp
    have hs : D s := hw s (List.mem_cons_self ..)
    have hwl : ∀ x ∈ wl, D x := fun x hx => hw x (List.mem_cons_of_mem _ hx)
    have hm := mem_insertBy h s hs acc ha
    have ha' : ∀ x ∈ insertBy lt s acc, D x := by
      intro x hx
      rcases (hm x).mp hx with rfl | hx
      · exact hs
      · exact ha x hx
    have := ih hwl (insertBy lt s acc) ha' (pairwise_insertBy h s hs acc ha hp)
    simp only [List.foldl_cons]
    refine ⟨this.1, this.2.1, ?_⟩
    intro x
    rw [this.2.2 x, hm x]
    simp only [List.mem_cons]
    constructor
    · rintro (h1 | h1 | h1) <;> simp [h1]
    · rintro ((h1 | h1) | h1) <;> simp [h1]

end DM.Lemmas
