import DM.Props.Planner
import DM.Lemmas.C10Live
import DM.Lemmas.C10Pot
import DM.Lemmas.C10Succ
import DM.Lemmas.C10Plan
import DM.Lemmas.PlannedRun
import DM.Model.PlannerAuto
/-!
# C10, second sentence: "never a larger symbol than plain ASCII encodation would need"

**The sentence is false for the planner model** (and so, as far as the model is faithful, for the crate):
`ascii_bound_false` (`refuted_cost`, `refuted_symbol`). With all six modes enabled and the 30 standard sizes,
for the 44 bytes `aaaaaaaaa` + 5 × `123456a` the planner model answers "Text throughout" at 32 codewords,
plain ASCII encodation needs 29 (`12 * asciiSize = 348 < 384`), and the encoder model run on that plan ends
in the symbol with 32 data codewords where ASCII fits the one with 30. Every further `123456a` adds 8/12 of
a codeword to the gap, so no `+ constant` variant holds either. Mechanism: `unbeatableStrike` of the
C40/Text plan (runs of ≤ 6 digits separated by one base-set character never reach the count 7) keeps the
plan "unbeatable" for the whole message, so `add_switches` is never called on it; after nine letters its
`switchCost` (96) is below the cost of the ASCII plan (108), which dominance removes; from then on Text pays
56 twelfths per `123456a` where ASCII pays 48. The same with `A` and C40 (mode sets 3, 7).

What is proved - for every message, symbol list, `written` offset and every valid log of sort permutations
(any order of equal-cost candidates):

* `plan_exists` (a): **whenever ASCII is enabled `optimize` returns a plan**, whatever other modes are
  enabled. The only plan that leaves nothing behind when it cannot continue is an X12 plan inside a triple
  (`values ≠ 0`: no `switchCost`, `add_switches` pushes nothing; `C10Plan.Bad`). Invariant of the loop:
  some live plan is not `Bad`. Such a plan leaves a candidate of another mode than X12 (itself one step
  further, or its ASCII child), which pruning only removes in favour of a kept plan that is not `Bad`
  (`prune_nonx12`) - except an X12 plan in its ASCII end (the last two characters, `x12Step_ae`); there an
  X12 plan at a triple boundary stays at one (`x12_stays`), and the costs modulo 12 (`NormG`: an X12 plan
  inside a triple costs 4 or 8 mod 12, one at a boundary 0 or 6) show that a pruned list without plans of
  other modes never mixes the two kinds (`prune_tri`).
* `ascii_only_cost` (b): if ASCII is the only enabled mode the predicted cost is exactly
  `12 * asciiSize body` (potential `C10Pot.finA`: cost + ASCII cost of the unread rest, with the half-read
  digit pair taken into account, is invariant under `asciiStep`).
* `never_worse_than_ascii_ab` (b'): **if only ASCII and Base 256 are enabled, `cost12 ≤ 12 * asciiSize body`**
  (any length, also beyond the 250-byte length-field boundary). Potential `C10AB.phi` = cost of leaving
  the mode now + 12 × ASCII size of the rest; every plan has an ASCII successor candidate of the same
  potential (itself, or its ASCII child, which pairs digits afresh - covered by `finA`), and whatever
  removes an ASCII candidate (deduplication, dominance) has at most its potential (`inherit_phi`; this
  needs the costs modulo 12: an ASCII plan inside a digit pair costs 6 mod 12). Base 256 plans need not
  survive, so the tie between a plan with 250+ and one with fewer bytes does no harm.
* `never_larger_symbol_of_bound`: the corollary with the coupling theorem (`predicted_size_suffices_gate`)
  for any run in which the cost bound holds; `ascii_only_symbol`, `never_larger_symbol_ab` instantiate it:
  within `planOK`, if prefix + plain ASCII size fit a listed symbol `pa`, the encoder model succeeds on the
  planner's plan in a symbol no larger than `pa`.

Not proved: the bound for mode sets with X12 or EDIFACT but without C40 and Text. No counterexample in
≈ 9 million runs (exhaustive over three- and four-letter alphabets up to length 10 / 8, mode sets 9, 17, 25,
41, 57, full and tiny symbol lists, `written` 0 and 1, stable, reversed and random order of equal costs).
Their look-aheads (`x12Init`, `ediInit`) make a plan "unbeatable" only for the last ≤ 2 / ≤ 4 characters, so
the unbounded loss above cannot occur; but in that end game the potential argument breaks: a plan in its
ASCII end has no ASCII child, and it can be removed by a cheaper plan of the same mode whose own finish is
12 twelfths dearer (e.g. `AAAAAA11`, modes 9: the X12 plan from the start, in its ASCII end at 78 with
final cost 84 = plain ASCII, against the X12 plan latched after one character at 72 whose own end costs
96; there the plan that stayed in ASCII survives and saves the bound).
-/
namespace DM.Props.C10Ascii
open DM.Model DM.Model.Plan DM.Model.Enc DM.Model.PlanSide DM.Lemmas DM.Lemmas.PlanInv DM.Lemmas.PlanLoop DM.Lemmas.C10Live
open DM.Lemmas.C10Pot DM.Lemmas.C10Prune DM.Lemmas.C10AB DM.Lemmas.C10Succ DM.Lemmas.C10Plan

/-! ### (a) a plan is always returned -/

theorem live_switchCost {data list modes k} {g : GPlan} (hx : enabledMode modes .x12 = false)
    (h : Live data list modes k g) : ∃ c, g.switchCost = some c := by
  apply switchCost_of_ne_x12
  intro hc
  have := h.2.1
  rw [hc, hx] at this
  cases this

theorem optLoop_plan {data : List Nat} {list : List Sym} {modes : Nat} (written : Nat)
    (hasc : enabledMode modes .ascii = true) (hx : enabledMode modes .x12 = false) :
    ∀ (f k : Nat) (plans : List GPlan) (perms : List (List Nat)) (steps maxLive : Nat) (o : Outcome),
      k ≤ data.length → (∀ g ∈ plans, Live data list modes k g) →
      (k = 0 → ∀ g ∈ plans, g.switches.length = 1) → plans ≠ [] →
      optLoop data written modes f k plans perms steps maxLive = .ok o → ∃ p, o.plan = some p := by
  intro f
  induction f with
  | zero => intro k plans perms steps maxLive o _ _ _ _ h; simp [optLoop] at h
  | succ f ih =>
    intro k plans perms steps maxLive o hk hlive hst hne h
    unfold optLoop at h
    rw [if_neg (by omega)] at h
    simp only [] at h
    obtain ⟨cands, steps', atEnd, e1, e2, _, _, e5⟩ :=
      iterate_spec (data := data) (list := list) (modes := modes) hk plans [] steps false hlive
        (by intro h0 g hg; exact hst (by simpa using h0) g hg) (by simp) (by simp)
    rw [e1] at h
    simp only [] at h
    have hcne : cands ≠ [] := by
      cases plans with
      | nil => exact absurd rfl hne
      | cons g rest =>
        obtain ⟨c, hc⟩ := live_switchCost hx (hlive g (List.mem_cons_self ..))
        exact iterate_ne_nil hasc hc e1
    cases perms with
    | nil => cases h
    | cons perm perms =>
      simp only [] at h
      cases hr : removeHopelessPlans cands perm with
      | error e => rw [hr] at h; cases h
      | ok live =>
        rw [hr] at h
        simp only [] at h
        have hlne : live ≠ [] := removeHopeless_ne_nil hr hcne
        have hemp : ¬ live.isEmpty = true := by simpa using hlne
        rw [if_neg hemp] at h
        obtain ⟨_, hmem⟩ := removeHopelessPlans_spec cands perm live hr
        by_cases hat : atEnd = true
        · rw [if_pos hat] at h
          split at h
          · cases h
          · simp only [Except.ok.injEq] at h
            rw [← h]
            exact ⟨_, rfl⟩
        · rw [if_neg hat] at h
          have hlt : k < data.length := by
            by_cases hlt : k < data.length
            · exact hlt
            · exact absurd (e5 (Or.inl hne) hlt) hat
          have hn : nxt data k = k + 1 := by simp [nxt, hlt]
          rw [hn] at e2
          exact ih (k + 1) live perms steps' _ o (by omega) (fun g hg => e2 g (hmem g hg))
            (by intro h0; omega) hlne h

/-- special case of `plan_exists` (X12 disabled) with a two-line invariant: every live plan has a
`switchCost` -/
theorem plan_exists_noX12 (body : List Nat) (w : Nat) (list : List Sym) (modes : Nat) (perms : List (List Nat))
    (o : Outcome) (hasc : enabledMode modes .ascii = true) (hx : enabledMode modes .x12 = false)
    (h : optimize body w list modes perms = .ok o) : ∃ plan, o.plan = some plan := by
  unfold optimize at h
  simp only [hasc, ↓reduceIte] at h
  have hcore : Core body list 0 (newPlan .ascii { data := body, pos := 0, written := w, list := list }) :=
    (newPlan_core .ascii _ ⟨rfl, rfl, rfl⟩ (Nat.zero_le _)).1
  refine optLoop_plan (list := list) w hasc hx _ 0 _ perms 0 0 o (Nat.zero_le _) ?_ ?_ (by simp) h
  · intro g hg
    simp only [List.mem_singleton] at hg
    subst hg
    refine ⟨hcore, hasc, ?_, by simp, by simp⟩
    intro e he
    simp only [List.mem_singleton] at he
    subst he
    exact ⟨hasc, by simp, by simp⟩
  · intro _ g hg
    simp only [List.mem_singleton] at hg
    subst hg
    rfl

/-! ### (a) in general: all six modes -/

theorem plan_of_x12 {g : GPlan} (h : g.current = .x12) : ∃ p, g.plan = .x12 p := by
  unfold GPlan.current at h
  cases hp : g.plan with
  | x12 p => exact ⟨p, rfl⟩
  | c40 p => rw [hp] at h; simp only [PlanImpl.mode] at h; split at h <;> cases h
  | ascii p => rw [hp] at h; cases h
  | edifact p => rw [hp] at h; cases h
  | base256 p => rw [hp] at h; cases h

/-- a plan with a `switchCost` leaves a candidate of another mode than X12 (itself one step further, or
its ASCII child) - unless it is an X12 plan in its ASCII end -/
theorem succ_cases {data : List Nat} {list : List Sym} {modes k : Nat} {plans cands : List GPlan}
    {steps steps' : Nat} {atEnd : Bool} (hasc : enabledMode modes .ascii = true) (hk : k < data.length)
    (e1 : iteratePlans (data.length - k) (k == 0) modes plans [] steps false = .ok (cands, steps', atEnd))
    {g : GPlan} (hg : g ∈ plans) (hlive : Live data list modes k g) (hgood : ¬ Bad g) :
    (∃ s ∈ cands, s.current ≠ .x12) ∨
    (g.current = .x12 ∧ ∃ g' r, g.step = .ok (some (g', r)) ∧ r.unbeatable = true) := by
  obtain ⟨_, j2⟩ := iterate_sub _ _ _ _ _ _ _ _ e1
  obtain ⟨s, hs⟩ : ∃ s, g.switchCost = some s := by
    cases h : g.switchCost with
    | none => exact absurd h hgood
    | some s => exact ⟨s, rfl⟩
  have child : g.current ≠ .ascii → ∀ sw n, g.addSwitches (data.length - k) (k == 0) modes = .ok (sw, n) →
      (∀ c ∈ sw, c ∈ cands) → ∃ s ∈ cands, s.current ≠ .x12 := by
    intro hna sw n hsw hsub
    obtain ⟨ctx, c, r, _, hc, hst⟩ := addSwitches_ascii_child hasc hna hs hsw
    obtain ⟨P1, _, hp1, _⟩ := CoupleAscii.gstep_ascii
      (g := candOf g (data.length - k) (k == 0) s ctx .ascii 0)
      (P := { ctx := ctx.write 0, digitsAhead := 0, cost := 0 }) rfl hst
    exact ⟨c, hsub c hc, by simp [GPlan.current, hp1, PlanImpl.mode]⟩
  rcases step_spec g hlive.1 with ⟨hst, _, _⟩ | ⟨g', r, hst, _, _, h4, _, h6, _⟩
  · obtain ⟨sw, n, hsw, hsub⟩ := (j2 g hg).1 hst
    exact Or.inl (child (step_none_not_ascii hst) sw n hsw hsub)
  · by_cases hx : g.current = .x12
    · by_cases hu : r.unbeatable = true
      · exact Or.inr ⟨hx, g', r, hst, hu⟩
      · obtain ⟨sw, n, hsw, hsub⟩ := ((j2 g hg).2 g' r hst).2 ⟨by simpa using hu, by rw [h6]; simpa using hk⟩
        exact Or.inl (child (by rw [hx]; decide) sw n hsw hsub)
    · exact Or.inl ⟨g', ((j2 g hg).2 g' r hst).1, by rw [h4]; exact hx⟩

theorem optLoop_plan_all {data : List Nat} {list : List Sym} {modes : Nat} (written : Nat)
    (hasc : enabledMode modes .ascii = true) :
    ∀ (f k : Nat) (plans : List GPlan) (perms : List (List Nat)) (steps maxLive : Nat) (o : Outcome),
      k ≤ data.length → (∀ g ∈ plans, Live data list modes k g ∧ NormG g ∧ AEG g) →
      (k = 0 → ∀ g ∈ plans, g.switches.length = 1) → Tri plans → (∃ g ∈ plans, ¬ Bad g) →
      optLoop data written modes f k plans perms steps maxLive = .ok o → ∃ p, o.plan = some p := by
  intro f
  induction f with
  | zero => intro k plans perms steps maxLive o _ _ _ _ _ h; simp [optLoop] at h
  | succ f ih =>
    intro k plans perms steps maxLive o hk hinv hst htri hex h
    have hlive : ∀ g ∈ plans, Live data list modes k g := fun g hg => (hinv g hg).1
    unfold optLoop at h
    rw [if_neg (by omega)] at h
    simp only [] at h
    obtain ⟨cands, steps', atEnd, e1, e2, _, _, e5⟩ :=
      iterate_spec (data := data) (list := list) (modes := modes) hk plans [] steps false hlive
        (by intro h0 g hg; exact hst (by simpa using h0) g hg) (by simp) (by simp)
    rw [e1] at h
    simp only [] at h
    have hnormc : ∀ c ∈ cands, NormG c ∧ AEG c := by
      intro c hc
      rcases iterate_mem _ _ _ _ _ _ _ _ e1 c hc with h1 | ⟨g, hg, ⟨r, hs⟩ | ⟨sw, n, hsw, hcs⟩⟩
      · cases h1
      · exact ⟨normG_step (hinv g hg).2.1 hs, aeg_step (hinv g hg).2.1 (hinv g hg).2.2 hs⟩
      · exact ⟨normG_child (hinv g hg).2.1 hsw hcs, aeg_child (hinv g hg).2.1 hsw hcs⟩
    obtain ⟨j1, j2⟩ := iterate_sub _ _ _ _ _ _ _ _ e1
    obtain ⟨g, hg, hgood⟩ := hex
    have hne : plans ≠ [] := by intro h0; rw [h0] at hg; cases hg
    have hcne : cands ≠ [] := by
      rcases step_spec g (hlive g hg).1 with ⟨hs, _, _⟩ | ⟨g', r, hs, _⟩
      · obtain ⟨sw, n, hsw, hsub⟩ := (j2 g hg).1 hs
        obtain ⟨s, hsc⟩ : ∃ s, g.switchCost = some s := by
          cases h' : g.switchCost with
          | none => exact absurd h' hgood
          | some s => exact ⟨s, rfl⟩
        have hswne := addSwitches_ne_nil hasc (step_none_not_ascii hs) hsc hsw
        cases sw with
        | nil => exact absurd rfl hswne
        | cons c t => intro h0; have := hsub c (List.mem_cons_self ..); rw [h0] at this; cases this
      · intro h0; have := ((j2 g hg).2 g' r hs).1; rw [h0] at this; cases this
    cases perms with
    | nil => cases h
    | cons perm perms =>
      simp only [] at h
      cases hr : removeHopelessPlans cands perm with
      | error e => rw [hr] at h; cases h
      | ok live =>
        rw [hr] at h
        simp only [] at h
        have hlne : live ≠ [] := removeHopeless_ne_nil hr hcne
        have hemp : ¬ live.isEmpty = true := by simpa using hlne
        rw [if_neg hemp] at h
        obtain ⟨_, hmem⟩ := removeHopelessPlans_spec cands perm live hr
        by_cases hat : atEnd = true
        · rw [if_pos hat] at h
          split at h
          · cases h
          · simp only [Except.ok.injEq] at h
            rw [← h]
            exact ⟨_, rfl⟩
        · rw [if_neg hat] at h
          have hlt : k < data.length := by
            by_cases hlt : k < data.length
            · exact hlt
            · exact absurd (e5 (Or.inl hne) hlt) hat
          have hn : nxt data k = k + 1 := by simp [nxt, hlt]
          rw [hn] at e2
          have htri' : Tri live := prune_tri (fun c hc => (hnormc c hc).1) hr
          have nonx : (∃ s ∈ cands, s.current ≠ .x12) → ∃ c' ∈ live, ¬ Bad c' := by
            rintro ⟨s, hs, hsx⟩
            exact prune_nonx12 hr s hs hsx
          have hex' : ∃ g ∈ live, ¬ Bad g := by
            rcases htri' with ⟨x, hx, hxx⟩ | hallbad | hallgood
            · exact ⟨x, hx, nonx12_good hxx⟩
            · exfalso
              have contra : (∃ s ∈ cands, s.current ≠ .x12) → False := by
                intro hs
                obtain ⟨c', hc', hgc⟩ := nonx hs
                exact hgc (hallbad c' hc')
              rcases succ_cases hasc hlt e1 hg (hlive g hg) hgood with hs | ⟨hgx, g', r, hgs, hunb⟩
              · exact contra hs
              · -- an X12 plan in its ASCII end: at most two characters are left
                obtain ⟨pg, hpg⟩ := plan_of_x12 hgx
                have hcl : data.length - k ≤ 2 := by
                  rcases step_spec g (hlive g hg).1 with ⟨hs0, _, _⟩ | ⟨g2, r2, hs2, _, _, h4, _⟩
                  · rw [hs0] at hgs; cases hgs
                  · rw [hgs] at hs2
                    simp only [Except.ok.injEq, Option.some.injEq, Prod.mk.injEq] at hs2
                    obtain ⟨rfl, rfl⟩ := hs2
                    obtain ⟨pg', hpg'⟩ := plan_of_x12 (by rw [h4]; exact hgx)
                    obtain ⟨q, hq, hx⟩ := gstep_x12_inv hgs hpg'
                    rw [hpg] at hq
                    simp only [PlanImpl.x12.injEq] at hq
                    subst hq
                    have hnx := normX_of_normG (hinv g hg).2.1 hpg
                    have hctx : CtxAt data list k pg.ctx := by
                      have := (hlive g hg).1.1
                      rw [hpg] at this
                      exact this
                    have := (x12Step_ae hnx ((hinv g hg).2.2 pg hpg hnx) hx).2 hunb
                      (by rw [hasMore_iff hctx]; simpa using hlt)
                    rw [charsLeft_eq hctx] at this
                    exact this
                cases live with
                | nil => exact hlne rfl
                | cons h0 tl =>
                  have hb : Bad h0 := hallbad h0 (List.mem_cons_self ..)
                  have hc0 := hmem h0 (List.mem_cons_self ..)
                  obtain ⟨ph, hph, hvh⟩ := bad_plan hb
                  rcases iterate_mem _ _ _ _ _ _ _ _ e1 h0 hc0 with h1 | ⟨q, hq, ⟨r', hs'⟩ | ⟨sw, n, hsw, hcs⟩⟩
                  · cases h1
                  · -- stepped from a live plan, which then was inside a triple too
                    obtain ⟨po, hpo, _⟩ := gstep_x12_inv hs' hph
                    have hctxo : CtxAt data list k po.ctx := by
                      have := (hlive q hq).1.1
                      rw [hpo] at this
                      exact this
                    have hvo : po.values ≠ 0 := by
                      intro hv0
                      exact x12_stays (hinv q hq).2.1 hpo hctxo hlt hcl hv0 hs' hb
                    have hbq : Bad q := by
                      unfold Bad GPlan.switchCost
                      rw [hpo]
                      simp only []
                      rw [if_neg hvo]
                    rcases htri with ⟨x, hx, hxx⟩ | hab | hag
                    · rcases succ_cases hasc hlt e1 hx (hlive x hx) (nonx12_good hxx) with hs | ⟨hxx', _⟩
                      · exact contra hs
                      · exact hxx hxx'
                    · exact hgood (hab g hg)
                    · exact hag q hq hbq
                  · -- a fresh X12 plan so close to the end starts its ASCII end at once
                    obtain ⟨s, ctx, m, ce, r', hs, hu, _, _, _, hst'⟩ := addSwitches_mem hsw h0 hcs
                    have hm : m = .x12 := step_kind_new hst' hph
                    subst hm
                    obtain ⟨ctx', hu', hctx'⟩ := unlatch_spec q (hlive q hq).1 (allowed_of_unlatch_g hu) s hs
                    rw [hu] at hu'
                    simp only [Except.ok.injEq] at hu'
                    subst hu'
                    have hsm := normG_switchCost (hinv q hq).2.1 hs hu
                    exact x12_stays (g := candOf q (data.length - k) (k == 0) s ctx .x12 ce)
                      (p := { ctx := ctx.write ce, values := 0, asciiEnd := none, cost := 0 })
                      (normG_new .x12 (ctx.write ce) (s + ce * 12) _ (by omega)) rfl
                      (ctxAt_write hctx' ce) hlt hcl rfl hst' hb
            · cases live with
              | nil => exact absurd rfl hlne
              | cons h0 tl => exact ⟨h0, List.mem_cons_self .., hallgood h0 (List.mem_cons_self ..)⟩
          exact ih (k + 1) live perms steps' _ o (by omega)
            (fun x hx => ⟨e2 x (hmem x hx), hnormc x (hmem x hx)⟩)
            (by intro h0; omega) htri' hex' h

/-- **(a)** Whenever ASCII is enabled, `optimize` returns a plan (never "no plan") - for every message,
symbol list, `written` offset, set of further modes and valid log of sort permutations. -/
theorem plan_exists (body : List Nat) (w : Nat) (list : List Sym) (modes : Nat) (perms : List (List Nat))
    (o : Outcome) (hasc : enabledMode modes .ascii = true)
    (h : optimize body w list modes perms = .ok o) : ∃ plan, o.plan = some plan := by
  unfold optimize at h
  simp only [hasc, ↓reduceIte] at h
  have hcore : Core body list 0 (newPlan .ascii { data := body, pos := 0, written := w, list := list }) :=
    (newPlan_core .ascii _ ⟨rfl, rfl, rfl⟩ (Nat.zero_le _)).1
  refine optLoop_plan_all (list := list) w hasc _ 0 _ perms 0 0 o (Nat.zero_le _) ?_ ?_ ?_ ?_ h
  · intro g hg
    simp only [List.mem_singleton] at hg
    subst hg
    refine ⟨⟨hcore, hasc, ?_, by simp, by simp⟩, normG_new _ _ _ _ rfl, aeg_new _ _ _ _⟩
    intro e he
    simp only [List.mem_singleton] at he
    subst he
    exact ⟨hasc, by simp, by simp⟩
  · intro _ g hg
    simp only [List.mem_singleton] at hg
    subst hg
    rfl
  · exact Or.inl ⟨_, List.mem_singleton.mpr rfl, by simp [GPlan.current, newPlan, PlanImpl.mode]⟩
  · exact ⟨_, List.mem_singleton.mpr rfl,
      nonx12_good (by simp [GPlan.current, newPlan, PlanImpl.mode])⟩

/-! ### (b) ASCII as the only mode -/

theorem addSwitchesGo_skip (g : GPlan) (restLen : Nat) (asStart : Bool) (modes asciiCost : Nat) (ctx : Ctx) :
    ∀ (t : List (EMode × Nat)) (acc : List GPlan) (n : Nat),
      (∀ e ∈ t, ¬ (g.current ≠ e.1 ∧ enabledMode modes e.1 = true)) →
      addSwitchesGo g restLen asStart modes asciiCost ctx t acc n = .ok (acc.reverse, n) := by
  intro t
  induction t with
  | nil => intro acc n _; rfl
  | cons e t ih =>
    intro acc n h
    obtain ⟨m, ce⟩ := e
    unfold addSwitchesGo
    rw [if_neg (h (m, ce) (List.mem_cons_self ..))]
    exact ih acc n (fun e he => h e (List.mem_cons_of_mem _ he))

theorem addSwitches_onlyAscii {g : GPlan} {restLen : Nat} {asStart : Bool} {modes : Nat} {sw : List GPlan} {n : Nat}
    (honly : ∀ m, enabledMode modes m = true → m = .ascii) (hcur : g.current = .ascii)
    (h : g.addSwitches restLen asStart modes = .ok (sw, n)) : sw = [] := by
  unfold GPlan.addSwitches at h
  split at h
  · simp only [Except.ok.injEq, Prod.mk.injEq] at h
    exact h.1.symm
  · split at h
    · cases h
    · split at h
      · split at h
        · cases h
        · simp only [Except.ok.injEq, Prod.mk.injEq] at h
          exact h.1.symm
      · rw [addSwitchesGo_skip] at h
        · simp only [List.reverse_nil, Except.ok.injEq, Prod.mk.injEq] at h
          exact h.1.symm
        · intro e _ hc
          exact hc.1 (by rw [hcur]; exact (honly e.1 hc.2).symm)

theorem optLoop_pure {data : List Nat} {list : List Sym} {modes : Nat} (written : Nat)
    (honly : ∀ m, enabledMode modes m = true → m = .ascii) :
    ∀ (f k : Nat) (plans : List GPlan) (perms : List (List Nat)) (steps maxLive : Nat) (o : Outcome),
      k ≤ data.length → (∀ g ∈ plans, Live data list modes k g ∧ PureA data k g) →
      (k = 0 → ∀ g ∈ plans, g.switches.length = 1) → plans ≠ [] →
      optLoop data written modes f k plans perms steps maxLive = .ok o → (∃ p, o.plan = some p) →
      o.cost12 = 12 * asciiSize data := by
  intro f
  induction f with
  | zero => intro k plans perms steps maxLive o _ _ _ _ h; simp [optLoop] at h
  | succ f ih =>
    intro k plans perms steps maxLive o hk hinv hst hne h hsome
    have hlive : ∀ g ∈ plans, Live data list modes k g := fun g hg => (hinv g hg).1
    unfold optLoop at h
    rw [if_neg (by omega)] at h
    simp only [] at h
    obtain ⟨cands, steps', atEnd, e1, e2, _, e4, e5⟩ :=
      iterate_spec (data := data) (list := list) (modes := modes) hk plans [] steps false hlive
        (by intro h0 g hg; exact hst (by simpa using h0) g hg) (by simp) (by simp)
    rw [e1] at h
    simp only [] at h
    have hpure : ∀ c ∈ cands, PureA data (nxt data k) c := by
      intro c hc
      rcases iterate_mem _ _ _ _ _ _ _ _ e1 c hc with h1 | ⟨g, hg, ⟨r, hs⟩ | ⟨sw, n, hsw, hcs⟩⟩
      · cases h1
      · exact pureA_step (hlive g hg).1 (hinv g hg).2 hs
      · rw [addSwitches_onlyAscii honly (honly _ (hlive g hg).2.1) hsw] at hcs
        cases hcs
    cases perms with
    | nil => cases h
    | cons perm perms =>
      simp only [] at h
      cases hr : removeHopelessPlans cands perm with
      | error e => rw [hr] at h; cases h
      | ok live =>
        rw [hr] at h
        simp only [] at h
        obtain ⟨_, hmem⟩ := removeHopelessPlans_spec cands perm live hr
        by_cases hemp : live.isEmpty = true
        · rw [if_pos hemp] at h
          simp only [Except.ok.injEq] at h
          rw [← h] at hsome
          obtain ⟨p, hp⟩ := hsome
          cases hp
        · rw [if_neg hemp] at h
          by_cases hat : atEnd = true
          · rw [if_pos hat] at h
            split at h
            · cases h
            · rename_i best hb
              simp only [Except.ok.injEq] at h
              rw [← h]
              simp only []
              have hbm := hmem best (pickBest_mem live best hb)
              have hnk := e4 hat
              have hn : nxt data k = k := by simp [nxt, hnk]
              have h1 := (e2 best hbm).1
              have h2 := hpure best hbm
              rw [hn] at h1 h2
              rw [pureA_end h1 h2 hnk]
              exact CoupleAscii.ceil12_mul _
          · rw [if_neg hat] at h
            have hlt : k < data.length := by
              by_cases hlt : k < data.length
              · exact hlt
              · exact absurd (e5 (Or.inl hne) hlt) hat
            have hn : nxt data k = k + 1 := by simp [nxt, hlt]
            rw [hn] at e2 hpure
            exact ih (k + 1) live perms steps' _ o (by omega)
              (fun g hg => ⟨e2 g (hmem g hg), hpure g (hmem g hg)⟩)
              (by intro h0; omega) (by simpa using hemp) h hsome

/-- **(b)** If ASCII is the only enabled mode, the planner returns a plan and predicts exactly the size of
plain ASCII encodation. -/
theorem ascii_only_cost (body : List Nat) (w : Nat) (list : List Sym) (modes : Nat) (perms : List (List Nat))
    (o : Outcome) (hasc : enabledMode modes .ascii = true)
    (honly : ∀ m, enabledMode modes m = true → m = .ascii)
    (h : optimize body w list modes perms = .ok o) :
    (∃ plan, o.plan = some plan) ∧ o.cost12 = 12 * asciiSize body := by
  have hx : enabledMode modes .x12 = false := by
    cases hh : enabledMode modes .x12 with
    | false => rfl
    | true => exact absurd (honly _ hh) (by decide)
  have hplan := plan_exists_noX12 body w list modes perms o hasc hx h
  refine ⟨hplan, ?_⟩
  unfold optimize at h
  simp only [hasc, ↓reduceIte] at h
  have hcore : Core body list 0 (newPlan .ascii { data := body, pos := 0, written := w, list := list }) :=
    (newPlan_core .ascii _ ⟨rfl, rfl, rfl⟩ (Nat.zero_le _)).1
  refine optLoop_pure (list := list) w honly _ 0 _ perms 0 0 o (Nat.zero_le _) ?_ ?_ (by simp) h hplan
  · intro g hg
    simp only [List.mem_singleton] at hg
    subst hg
    refine ⟨⟨hcore, hasc, ?_, by simp, by simp⟩, ⟨_, rfl, rfl, ?_⟩⟩
    · intro e he
      simp only [List.mem_singleton] at he
      subst he
      exact ⟨hasc, by simp, by simp⟩
    · simp [finA]
  · intro _ g hg
    simp only [List.mem_singleton] at hg
    subst hg
    rfl

/-! ### the corollary with the coupling theorem -/

/-- For any run of the planner in which the cost bound holds: within `planOK`, if prefix + plain ASCII
size fit the listed symbol `pa`, the encoder model succeeds on the planner's plan, in a symbol no larger
than `pa`. -/
theorem never_larger_symbol_of_bound (body pre : List Nat) (list : List Sym) (modes : Nat) (perms : List (List Nat))
    (o : Outcome) (plan : List (Nat × EMode)) (pa : Sym) (hb : ByteList body)
    (hopt : Plan.optimize body pre.length list modes perms = .ok o) (hp : o.plan = some plan)
    (hok : planOK body plan = true) (hbound : o.cost12 ≤ 12 * asciiSize body)
    (hfit : firstBigEnough list (pre.length + asciiSize body) = some pa) :
    ∃ cw sym, Enc.run list pre body plan = .ok (cw, sym) ∧ dataCw sym ≤ dataCw pa := by
  have hle : pre.length + o.cost12 / 12 ≤ pre.length + asciiSize body := by omega
  rcases PlannedRun.predicted_size_suffices_gate body pre list modes perms o plan hb hopt hp hok with
    ⟨h1, _⟩ | ⟨_, cw, sym, h2, h3⟩ | ⟨_, _, h3⟩
  · subst h1
    simp [firstBigEnough] at hfit
  · refine ⟨cw, sym, h2, ?_⟩
    cases hps : firstBigEnough list (pre.length + o.cost12 / 12) with
    | none => rw [CoupleMain.fbe_none_mono _ _ _ hps hle] at hfit; cases hfit
    | some ps => exact Nat.le_trans (h3 ps hps) (CoupleMain.fbe_some_le _ _ _ _ _ hps hfit hle)
  · rw [CoupleMain.fbe_none_mono _ _ _ h3 hle] at hfit
    cases hfit

/-- ASCII as the only mode: the encoder never refuses what plain ASCII fits. -/
theorem ascii_only_symbol (body pre : List Nat) (list : List Sym) (modes : Nat) (perms : List (List Nat))
    (o : Outcome) (plan : List (Nat × EMode)) (pa : Sym) (hb : ByteList body)
    (hasc : enabledMode modes .ascii = true) (honly : ∀ m, enabledMode modes m = true → m = .ascii)
    (hopt : Plan.optimize body pre.length list modes perms = .ok o) (hp : o.plan = some plan)
    (hok : planOK body plan = true)
    (hfit : firstBigEnough list (pre.length + asciiSize body) = some pa) :
    ∃ cw sym, Enc.run list pre body plan = .ok (cw, sym) ∧ dataCw sym ≤ dataCw pa :=
  never_larger_symbol_of_bound body pre list modes perms o plan pa hb hopt hp hok
    (Nat.le_of_eq (ascii_only_cost body pre.length list modes perms o hasc honly hopt).2) hfit

/-! ### (b') ASCII and Base 256 -/

theorem optLoop_ab {data : List Nat} {list : List Sym} {modes : Nat} (written : Nat)
    (hasc : enabledMode modes .ascii = true)
    (honly : ∀ m, enabledMode modes m = true → m = .ascii ∨ m = .base256) :
    ∀ (f k : Nat) (plans : List GPlan) (perms : List (List Nat)) (steps maxLive : Nat) (o : Outcome),
      k ≤ data.length → (∀ g ∈ plans, Live data list modes k g ∧ Norm g) →
      (k = 0 → ∀ g ∈ plans, g.switches.length = 1) →
      (∃ g ∈ plans, phi data k g ≤ 12 * asciiSize data) →
      optLoop data written modes f k plans perms steps maxLive = .ok o →
      o.cost12 ≤ 12 * asciiSize data := by
  intro f
  induction f with
  | zero => intro k plans perms steps maxLive o _ _ _ _ h; simp [optLoop] at h
  | succ f ih =>
    intro k plans perms steps maxLive o hk hinv hst hex h
    have hlive : ∀ g ∈ plans, Live data list modes k g := fun g hg => (hinv g hg).1
    have hokp : ∀ g ∈ plans, OK data list k g :=
      fun g hg => ⟨(hinv g hg).2, (hlive g hg).1, honly _ (hlive g hg).2.1⟩
    unfold optLoop at h
    rw [if_neg (by omega)] at h
    simp only [] at h
    obtain ⟨cands, steps', atEnd, e1, e2, _, e4, e5⟩ :=
      iterate_spec (data := data) (list := list) (modes := modes) hk plans [] steps false hlive
        (by intro h0 g hg; exact hst (by simpa using h0) g hg) (by simp) (by simp)
    rw [e1] at h
    simp only [] at h
    have hnormc : ∀ c ∈ cands, Norm c := by
      intro c hc
      rcases iterate_mem _ _ _ _ _ _ _ _ e1 c hc with h1 | ⟨g, hg, ⟨r, hs⟩ | ⟨sw, n, hsw, hcs⟩⟩
      · cases h1
      · exact norm_step (hokp g hg) hs
      · exact norm_child honly (hokp g hg) hsw hcs
    have hokc : ∀ c ∈ cands, OK data list (nxt data k) c :=
      fun c hc => ⟨hnormc c hc, (e2 c hc).1, honly _ (e2 c hc).2.1⟩
    obtain ⟨j1, j2⟩ := iterate_sub _ _ _ _ _ _ _ _ e1
    obtain ⟨g, hg, hphi⟩ := hex
    have hne : plans ≠ [] := by intro h0; rw [h0] at hg; cases hg
    cases perms with
    | nil => cases h
    | cons perm perms =>
      simp only [] at h
      cases hr : removeHopelessPlans cands perm with
      | error e => rw [hr] at h; cases h
      | ok live =>
        rw [hr] at h
        simp only [] at h
        obtain ⟨_, hmem⟩ := removeHopelessPlans_spec cands perm live hr
        by_cases hemp : live.isEmpty = true
        · rw [if_pos hemp] at h
          simp only [Except.ok.injEq] at h
          rw [← h]
          exact Nat.zero_le _
        · rw [if_neg hemp] at h
          by_cases hat : atEnd = true
          · rw [if_pos hat] at h
            split at h
            · cases h
            · rename_i best hb
              simp only [Except.ok.injEq] at h
              rw [← h]
              simp only []
              have hnk := e4 hat
              rcases step_spec g (hlive g hg).1 with ⟨_, hlt, _⟩ | ⟨g', r, hs, _⟩
              · exact absurd hlt hnk
              · have hg'c := ((j2 g hg).2 g' r hs).1
                have hcost := end_cost (hokp g hg) hnk hphi hs
                obtain ⟨c', hc', hle⟩ := prune_cheapest hr g' hg'c
                exact Nat.le_trans (pickBest_min live best hb c' hc') (ceil12_le _ _ (by omega))
          · rw [if_neg hat] at h
            have hlt : k < data.length := by
              by_cases hlt : k < data.length
              · exact hlt
              · exact absurd (e5 (Or.inl hne) hlt) hat
            have hn : nxt data k = k + 1 := by simp [nxt, hlt]
            rw [hn] at e2 hokc
            -- the ASCII successor of `g`
            have hsucc : ∃ c ∈ cands, c.current = .ascii ∧ phi data (k + 1) c ≤ 12 * asciiSize data := by
              rcases (hokp g hg).2.2 with hm | hm
              · rcases step_spec g (hlive g hg).1 with ⟨hs, _, _⟩ | ⟨g', r, hs, _, _, h4, _⟩
                · exact absurd hm (step_none_not_ascii hs)
                · exact ⟨g', ((j2 g hg).2 g' r hs).1, by rw [h4]; exact hm,
                    by rw [succ_ascii (hokp g hg) hm hlt hs]; exact hphi⟩
              · have hsw : ∃ sw n, g.addSwitches (data.length - k) (k == 0) modes = .ok (sw, n) ∧
                    ∀ c ∈ sw, c ∈ cands := by
                  rcases step_spec g (hlive g hg).1 with ⟨hs, _, _⟩ | ⟨g', r, hs, _, _, _, _, h6, _⟩
                  · exact (j2 g hg).1 hs
                  · refine ((j2 g hg).2 g' r hs).2 ⟨?_, ?_⟩
                    · rw [b256_not_unbeatable hm hs]; rfl
                    · rw [h6]; simpa using hlt
                obtain ⟨sw, n, hsw, hsub⟩ := hsw
                obtain ⟨c, hc, hca, hcphi⟩ := succ_b256 hasc (hokp g hg) hm hlt hsw
                exact ⟨c, hsub c hc, hca, by rw [hcphi]; exact hphi⟩
            obtain ⟨c, hc, hca, hcphi⟩ := hsucc
            obtain ⟨c', hc', hq⟩ := prune_ascii (inherit_phi (B := 12 * asciiSize data) hokc) hr c hc hcphi hca
            exact ih (k + 1) live perms steps' _ o (by omega)
              (fun x hx => ⟨e2 x (hmem x hx), hnormc x (hmem x hx)⟩)
              (by intro h0; omega) ⟨c', hc', hq⟩ h

/-- **(b')** If ASCII and Base 256 are the only enabled modes (ASCII enabled), the planner returns a plan
whose predicted cost is at most the cost of plain ASCII encodation - for every symbol list, `written`
offset, message length and valid log of sort permutations. -/
theorem never_worse_than_ascii_ab (body : List Nat) (w : Nat) (list : List Sym) (modes : Nat)
    (perms : List (List Nat)) (o : Outcome) (hasc : enabledMode modes .ascii = true)
    (honly : ∀ m, enabledMode modes m = true → m = .ascii ∨ m = .base256)
    (h : optimize body w list modes perms = .ok o) :
    (∃ plan, o.plan = some plan) ∧ o.cost12 ≤ 12 * asciiSize body := by
  have hx : enabledMode modes .x12 = false := by
    cases hh : enabledMode modes .x12 with
    | false => rfl
    | true => rcases honly _ hh with h1 | h1 <;> cases h1
  refine ⟨plan_exists_noX12 body w list modes perms o hasc hx h, ?_⟩
  unfold optimize at h
  simp only [hasc, ↓reduceIte] at h
  have hcore : Core body list 0 (newPlan .ascii { data := body, pos := 0, written := w, list := list }) :=
    (newPlan_core .ascii _ ⟨rfl, rfl, rfl⟩ (Nat.zero_le _)).1
  refine optLoop_ab (list := list) w hasc honly _ 0 _ perms 0 0 o (Nat.zero_le _) ?_ ?_ ?_ h
  · intro g hg
    simp only [List.mem_singleton] at hg
    subst hg
    refine ⟨⟨hcore, hasc, ?_, by simp, by simp⟩, rfl, rfl⟩
    intro e he
    simp only [List.mem_singleton] at he
    subst he
    exact ⟨hasc, by simp, by simp⟩
  · intro _ g hg
    simp only [List.mem_singleton] at hg
    subst hg
    rfl
  · exact ⟨_, List.mem_singleton.mpr rfl, by simp [phi, newPlan, finA]⟩

/-- ASCII and Base 256 only: within `planOK`, the encoder never refuses what plain ASCII fits and never
uses a larger symbol. -/
theorem never_larger_symbol_ab (body pre : List Nat) (list : List Sym) (modes : Nat) (perms : List (List Nat))
    (o : Outcome) (plan : List (Nat × EMode)) (pa : Sym) (hb : ByteList body)
    (hasc : enabledMode modes .ascii = true)
    (honly : ∀ m, enabledMode modes m = true → m = .ascii ∨ m = .base256)
    (hopt : Plan.optimize body pre.length list modes perms = .ok o) (hp : o.plan = some plan)
    (hok : planOK body plan = true)
    (hfit : firstBigEnough list (pre.length + asciiSize body) = some pa) :
    ∃ cw sym, Enc.run list pre body plan = .ok (cw, sym) ∧ dataCw sym ≤ dataCw pa :=
  never_larger_symbol_of_bound body pre list modes perms o plan pa hb hopt hp hok
    (never_worse_than_ascii_ab body pre.length list modes perms o hasc honly hopt).2 hfit

/-! ### the counterexample to the general statement -/

/-- `aaaaaaaaa123456a123456a123456a123456a123456a` -/
def cexBody : List Nat :=
  [97, 97, 97, 97, 97, 97, 97, 97, 97, 49, 50, 51, 52, 53, 54, 97, 49, 50, 51, 52, 53, 54, 97, 49, 50, 51, 52, 53, 54, 97,
   49, 50, 51, 52, 53, 54, 97, 49, 50, 51, 52, 53, 54, 97]
def cexList : List Sym := symbolList (List.range 30)

/-- All modes, the 30 standard sizes, sort permutations of a stable sort: the planner model predicts 32
codewords (Text throughout) where plain ASCII needs 29. -/
theorem refuted_cost : (match optimize cexBody 0 cexList 63 (permsFor cexBody 0 cexList 63) with
    | .ok o => o.plan == some [(44, EMode.text), (0, EMode.text)] && o.cost12 == 384
    | .error _ => false) = true ∧ enabledMode 63 .ascii = true ∧ 12 * asciiSize cexBody = 348 := by
  decide +kernel

/-- ... and the encoder model, run on that plan, uses the symbol with 32 data codewords where plain ASCII
fits the one with 30. -/
theorem refuted_symbol :
    (match Enc.run cexList [] cexBody [(44, EMode.text), (0, EMode.text)] with
     | .ok (cw, sym) => cw.length == 32 && dataCw sym == 32
     | .error _ => false) = true ∧
    (firstBigEnough cexList (asciiSize cexBody)).map dataCw = some 30 := by decide +kernel

/-- **The second sentence of C10 does not hold for the models.** There are a message, a symbol list, a mode
set with ASCII enabled and a valid log of sort permutations (concretely: the 44 bytes
`aaaaaaaaa123456a123456a123456a123456a123456a`, the 30 standard sizes, all six modes, the permutations of a
stable sort by cost) for which the planner's predicted cost exceeds the cost of plain ASCII encodation
(384 against 348 twelfths, 32 against 29 codewords) and the encoder model, run on the planner's plan, ends
in a larger symbol (32 data codewords) than the one plain ASCII encodation fits (30).

Mechanism: the look-ahead `unbeatableStrike` of the C40/Text plan counts base-set characters until a
seventh consecutive digit; runs of six digits separated by one letter never reach seven, so the Text plan
is "unbeatable" for the whole message and `add_switches` is never called on it (no ASCII child is ever
created). After nine letters its `switchCost` (96) is below the cost of the plan that stayed in ASCII (108),
so dominance removes the ASCII plan; from then on Text pays 56 twelfths for every `123456a` where ASCII
pays 48. Every further `123456a` widens the gap by 8/12 codeword: no bound `+ constant` holds. -/
theorem ascii_bound_false :
    ∃ (body : List Nat) (list : List Sym) (modes : Nat) (perms : List (List Nat)) (o : Outcome)
      (plan : List (Nat × EMode)) (cw : List Nat) (sym pa : Sym),
      enabledMode modes .ascii = true ∧ optimize body 0 list modes perms = .ok o ∧ o.plan = some plan ∧
      12 * asciiSize body < o.cost12 ∧ Enc.run list [] body plan = .ok (cw, sym) ∧
      firstBigEnough list (asciiSize body) = some pa ∧ dataCw pa < dataCw sym := by
  obtain ⟨h1, h2, h3⟩ := refuted_cost
  obtain ⟨h4, h5⟩ := refuted_symbol
  cases ho : optimize cexBody 0 cexList 63 (permsFor cexBody 0 cexList 63) with
  | error e => rw [ho] at h1; cases h1
  | ok o =>
    rw [ho] at h1
    simp only [Bool.and_eq_true, beq_iff_eq] at h1
    cases hr : Enc.run cexList [] cexBody [(44, EMode.text), (0, EMode.text)] with
    | error e => rw [hr] at h4; cases h4
    | ok res =>
      obtain ⟨cw, sym⟩ := res
      rw [hr] at h4
      simp only [Bool.and_eq_true, beq_iff_eq] at h4
      cases hf : firstBigEnough cexList (asciiSize cexBody) with
      | none => rw [hf] at h5; cases h5
      | some pa =>
        rw [hf] at h5
        simp only [Option.map_some, Option.some.injEq] at h5
        refine ⟨cexBody, cexList, 63, _, o, _, cw, sym, pa, h2, ho, h1.1, ?_, hr, ?_, ?_⟩
        · rw [h1.2]; omega
        · exact hf
        · rw [h5, h4.2]; decide

/-- the same with C40 (upper case) and only ASCII + C40 enabled: 37 bytes, 27 against 25 codewords -/
example : (match optimizeAuto ([65, 65, 65, 65, 65, 65, 65, 65, 65, 49, 50, 51, 52, 53, 54, 65, 49, 50, 51, 52, 53, 54, 65,
      49, 50, 51, 52, 53, 54, 65, 49, 50, 51, 52, 53, 54, 65]) 0 cexList 3 with
    | .ok o => o.cost12 == 324
    | .error _ => false) = true ∧
    12 * asciiSize ([65, 65, 65, 65, 65, 65, 65, 65, 65, 49, 50, 51, 52, 53, 54, 65, 49, 50, 51, 52, 53, 54, 65,
      49, 50, 51, 52, 53, 54, 65, 49, 50, 51, 52, 53, 54, 65]) = 300 := by decide +kernel

/-! ### non-vacuity -/

/-- `ascii_only_cost` / `plan_exists_noX12` apply: mode set 1, "A1234b" (4 codewords) -/
example : enabledMode 1 .ascii = true ∧ (∀ m, enabledMode 1 m = true → m = .ascii) ∧
    (match optimize [65, 49, 50, 51, 52, 98] 0 cexList 1 (permsFor [65, 49, 50, 51, 52, 98] 0 cexList 1) with
     | .ok o => o.plan == some [(0, EMode.ascii)] && o.cost12 == 48
     | .error _ => false) = true := by
  refine ⟨by decide, ?_, by decide +kernel⟩
  intro m
  cases m <;> decide

/-- `never_worse_than_ascii_ab` applies and is not trivial: mode set 33, three bytes ≥ 128 then "A12": the
planner takes Base 256 for four bytes and ASCII for the digit pair, 7 codewords against 8 in plain ASCII -/
example : enabledMode 33 .ascii = true ∧ (∀ m, enabledMode 33 m = true → m = .ascii ∨ m = .base256) ∧
    (match optimizeAuto [200, 201, 202, 65, 49, 50] 0 cexList 33 with
     | .ok o => o.plan.isSome && o.cost12 == 84
     | .error _ => false) = true ∧ 12 * asciiSize [200, 201, 202, 65, 49, 50] = 96 := by
  refine ⟨by decide, ?_, by decide +kernel, by decide +kernel⟩
  intro m
  cases m <;> decide

/-- `plan_exists` with all modes, on an input where X12 plans die inside a triple -/
example : (match optimizeAuto [65, 65, 65, 65, 65, 65, 65, 97, 49, 49] 0 cexList 63 with
     | .ok o => o.plan.isSome
     | .error _ => false) = true := by decide +kernel

/-- `plan_exists_noX12` with several modes (ASCII, C40, Text, EDIFACT, Base 256 = 55) -/
example : enabledMode 55 .ascii = true ∧ enabledMode 55 .x12 = false ∧
    (match optimizeAuto [65, 66, 67, 200, 49, 50, 97] 0 cexList 55 with
     | .ok o => o.plan.isSome
     | .error _ => false) = true := by decide +kernel

end DM.Props.C10Ascii
