import DM.Props.C02SpecMixedC40
import DM.Lemmas.SpecMainX12
/-!
# C02 — conformant output against the reference decoder: plans over ASCII, Base 256, C40, Text and X12

`spec_mixed_roundtrip_5`: `C02SpecMixed.spec_frame` instantiated with the five mode encoders whose
`ModeStep` is proved (`SpecMain.step_ascii`, `SpecMain.step_b256`, `SpecMainC40.step_c40`,
`SpecMainC40.step_text`, `SpecMainX12.step_x12_of`). Side condition on the plan: `C40Gen.PlanOK`
(no EDIFACT entry; no latch to a non-ASCII mode planned for the last four characters) — the side
condition of `Props/C01.mixed_roundtrip`, now with the *reference* decoder in place of the model of the
crate's decoder. EDIFACT inside mixed plans is the one mode whose `ModeStep` is not discharged here.
-/
namespace DM.Props.C02SpecMixed5
open DM.Model DM.Lemmas DM.Lemmas.AsciiRT DM.Lemmas.SpecStep DM.Lemmas.SpecMain DM.Lemmas.MainRT DM.Lemmas.PlanProv
open DM.Lemmas.EncRT DM.Lemmas.C40Gen DM.Lemmas.SpecMainC40
open DM.Props.C02SpecMixed (HdrOK spec_frame)
open DM.Spec.Stream (decode Decoded Mode macroHead macroTrail)

/-- the control part of the encoder state: an admissible plan (`PlanOK`, hence without EDIFACT); the
current mode is not EDIFACT -/
def Q5 : Key → Prop := fun k => PlanOK k.1 ∧ k.2.1 ≠ .edifact

theorem q5_closed : Closed Q5 := by
  refine ⟨?_, ?_, ?_⟩
  · intro k _
    refine ⟨?_, by simp [asciiKey]⟩
    intro e he
    simp only [asciiKey, List.mem_singleton] at he
    subst he
    simp
  · intro s s1 b h hk
    obtain ⟨h1, h3⟩ := hk
    simp only [key] at h1 h3 ⊢
    obtain ⟨_, _, _, m4, m5, m6⟩ := maybeSwitch_spec s s1 b h
    refine ⟨fun x hx => h1 x (m4 x hx), ?_⟩
    cases b with
    | false => rw [(m5 rfl).1]; exact h3
    | true =>
      obtain ⟨_, _, ⟨p, hp⟩, _⟩ := m6 rfl
      exact (h1 _ hp).2
  · intro k hk
    exact hk

/-- the carrying modes of such a message -/
def M5 (m : Mode) : Prop := m ≠ .edifact

theorem steps_5 : ∀ m, ModeStep M5 Q5 m := by
  intro m
  cases m with
  | ascii => exact step_ascii M5 Q5 (by simp [M5])
  | base256 => exact step_b256 M5 Q5 (by simp [M5])
  | c40 => exact step_c40 M5 Q5 (fun body _ h => planOKE_of_planOK body h.1) (by simp [M5])
  | text => exact step_text M5 Q5 (fun body _ h => planOKE_of_planOK body h.1) (by simp [M5])
  | x12 => exact DM.Lemmas.SpecMainX12.step_x12_of M5 Q5 (fun _ h body => planOKE_of_planOK body h.1) (by simp [M5])
  | edifact => intro _ _ _ _ s _ _ _ hq _ hm _; have := hq.2; simp only [key] at this; exact absurd hm this

/-- **Mixed round trip through the reference decoder for every plan within `PlanOK`** (ASCII, Base 256,
C40, Text, X12 in any order; no latch to a non-ASCII mode planned for the last four characters), every
message of bytes, every symbol list and each of the headers none / FNC1 / Macro 05 / Macro 06: whatever
the encoder model returns, the reference decoder accepts and returns the message; no byte is carried by
EDIFACT, every latch stands among the encoder's own codewords, there is no ECI; the stream fills the
symbol, and the decoder meets the first pad codeword exactly where the encoder's own codewords end. -/
theorem spec_mixed_roundtrip_5 (list : List Sym) (pre body cw : List Nat) (plan : List (Nat × Enc.EMode)) (sym : Sym)
    (hpre : HdrOK pre) (hb : ∀ b ∈ body, b < 256)
    (hplan : ∀ e ∈ plan, (e.2 ≠ .ascii → e.1 = 0 ∨ e.1 > 4) ∧ e.2 ≠ .edifact)
    (h : Enc.run list pre body plan = .ok (cw, sym)) :
    ∃ d L, decode cw = .ok d ∧ d.body = body ∧
      d.bytes = (if macOf pre = 0 then body else macroHead (macOf pre) ++ body ++ macroTrail) ∧
      d.fnc1 = (pre == [232]) ∧ d.macro = macOf pre ∧ d.ecis = [] ∧ d.trace.length = body.length ∧
      (∀ m ∈ d.trace, m ≠ .edifact) ∧
      (∀ l ∈ d.latches, l.2 ≠ .edifact ∧ l.2 ≠ .ascii ∧ pre.length ≤ l.1 ∧ l.1 < L) ∧
      cw.length = dataCw sym ∧ cw.take pre.length = pre ∧ pre.length ≤ L ∧ L ≤ cw.length ∧
      (L < cw.length → cw.getD L 0 = 129) ∧ d.padAt = (if L = cw.length then none else some L) := by
  have hq : Q5 (plan, .ascii, none) := ⟨hplan, by simp⟩
  obtain ⟨d, L, a1, a2, a3, a4, a5, a6, a7, a8, a9, a10⟩ :=
    spec_frame M5 Q5 q5_closed steps_5 list pre body cw plan sym hpre hb hq h
  exact ⟨d, L, a1, a2, a3, a4, a5, a6, a7, a8, a9, a10⟩

/-! ### Non-vacuity: the run of `Props/C01.lean`'s example (C40, ASCII digit pairs, Base 256, X12) -/

example : (∀ e ∈ [(26, DM.Model.Enc.EMode.c40), (20, .ascii), (12, .base256), (6, .x12), (0, .x12)],
    (e.2 ≠ DM.Model.Enc.EMode.ascii → e.1 = 0 ∨ e.1 > 4) ∧ e.2 ≠ .edifact) := by decide

example : ∃ d, decode [230, 89, 233, 109, 36, 254, 142, 164, 186, 208, 231, 10, 97, 248, 142, 37, 187, 82, 238, 89, 233, 0, 43, 254] = .ok d ∧
    d.body = [65, 66, 67, 68, 69, 70, 49, 50, 51, 52, 53, 54, 55, 56, 200, 201, 202, 203, 204, 205, 65, 66, 67, 13, 42, 62] ∧
    d.ecis = [] := by
  obtain ⟨d, L, h1, h2, _, _, _, h6, _⟩ :=
    spec_mixed_roundtrip_5 (symbolList (List.range 30)) []
      [65, 66, 67, 68, 69, 70, 49, 50, 51, 52, 53, 54, 55, 56, 200, 201, 202, 203, 204, 205, 65, 66, 67, 13, 42, 62] _
      [(26, .c40), (20, .ascii), (12, .base256), (6, .x12), (0, .x12)] _ (Or.inl rfl) (by decide) (by decide)
      (DM.Props.C02Spec.run_eq_of_check
        (cw := [230, 89, 233, 109, 36, 254, 142, 164, 186, 208, 231, 10, 97, 248, 142, 37, 187, 82, 238, 89, 233, 0, 43, 254])
        (sym := 11) (by decide +kernel))
  exact ⟨d, h1, h2, h6⟩

end DM.Props.C02SpecMixed5
