import DM.Lemmas.SpecMain
import DM.Props.C02Spec
/-!
# C02 — conformant output against the reference decoder: mixed plans

`spec_frame`: the round trip through the independent decoder `DM.Spec.Stream.decode` for *every*
plan, given that each of the six mode encoders preserves the main-loop invariant
(`SpecMain.ModeStep`). The ASCII and the Base 256 encoder do (`SpecMain.step_ascii`,
`SpecMain.step_b256`, arbitrary plans), so for plans over these two modes the theorem holds without
further hypotheses: `spec_mixed_roundtrip`.

## The interface `ModeStep P Q m` (for `SpecX12` / `SpecEdi` / `SpecC40`)

    ∀ list i0 pre body s s', ByteList body → SInv P list i0 pre body s → Q (key s) → s.hasMore = true →
      s.mode = m → Enc.encodeMode (latched s) = .ok s' → SInv P list i0 pre body s'

`SInv … s` = `∃ room lo tr lat, SMI … s room lo tr lat` (`DM/Lemmas/SpecMain.lean`, read the comment
there). To discharge it for a mode `m ≠ ASCII`: `mi.ctl` gives `s.newMode = some latch` (the
alternative "done" needs `s.hasMore = false`), so `latched s` has the latch appended; `room = none`
(by `mi.closing`, since `s.mode ≠ ASCII`); take any stream `cw` with `Occurs cw 0 s'.cw`, get the
decoder state `sD` (ASCII mode, at `s.cw.length`) from `mi.dec` on `Occurs.left`, extend `Steps` by
`step_latch` and the steps of the mode, and give the new `DAt` (`step_b256` is the model). What the
three kinds of ending need:
* with UNLATCH 254 (C40 / Text / X12): `room = none`, `lo = 0`, nothing else.
* without UNLATCH: `room = some r` — the encoder is in ASCII mode with the plan "ASCII until the end"
  and the symbol has exactly `r` more data codewords than are written (`closing`); `dec` has to be
  shown only for streams of that size whose next codeword is not 254; `step_ascii` continues from
  there. If no data is left and `r = 0` ("done") the encoder's mode is free and the decoder may end
  the stream inside the mode (last disjunct of `dec`).
* EDIFACT's UNLATCH value in the middle of a message is read only if at least three codewords are
  left from the start of its group: `lo` = the number of codewords that must still follow (1 or 2),
  with the proof `low` that every way the main loop can still take (`Reach`) ends in a symbol that
  large; `step_ascii` / `step_b256` count `lo` down by what they write.
`P` must hold of the mode (`trP`, `latP`); `Q` is any `PlanProv.Closed` predicate on
(plan, mode, pending latch), e.g. `fun k => PlanOKE body k.1` or "the characters planned for EDIFACT
are EDIFACT characters" — `spec_frame` wants it for the initial triple `(plan, ASCII, none)` only.

Evaluation of the interface on all six modes (`Scratch/EvalFrame.lean`: 20000 random plans over all
modes, 12784 successful runs, every state between two calls of a mode encoder checked against the
reference decoder run on the final stream and on the codewords written so far): 8614 runs have only
states of the first kind, 2459 also some of the second, 1711 also some of the third; the remaining
286 runs all contain a state with `mode = ASCII` and a stale pending latch (`ctl` fails: a switch
planned for the last characters behind a C40 / Text / X12 / EDIFACT run, defects K-D…; 241 of
these streams are wrong) — these plans have to be excluded through `Q`, as `PlanOKE` does in `MainRT`.

## Side conditions, with counterexamples (evaluated with `Enc.run` / `decode`, 30-symbol list)

* `ByteList body`: body `[300]`, plan `[(0, ascii)]` → `[235, 173, 129]`, decoder: "bad upper shift";
  body `[65, 300, 66]` in Base 256 → `[231, 44, 2, 131, 46]` decodes to `[65, 44, 66]`.
* the header is one of `[]`, `[232]`, `[236]`, `[237]`: prefix `[233]`, body "AB" → `[233, 66, 67]`,
  decoder: "illegal ascii codeword 233 at 0"; prefix `[232, 232]` → error at 1.
* none on the plan: of 6000 random ASCII / Base 256 plans (bodies of 0‥22 bytes, all four headers,
  both symbol lists) 4752 runs succeed and all decode to the message; the others fail in the
  encoder (`expected to call maybe_switch_mode earlier`: a digit pair across a planned switch, e.g.
  body "123", plan `[(2, base256), (0, base256)]`), where the theorem says nothing.
-/
namespace DM.Props.C02SpecMixed
open DM.Model DM.Lemmas DM.Lemmas.AsciiRT DM.Lemmas.SpecStep DM.Lemmas.SpecMain DM.Lemmas.MainRT DM.Lemmas.PlanProv
open DM.Lemmas.EncRT
open DM.Props.C02Spec (run_eq_of_check)
open DM.Spec.Stream (decode Decoded Mode macroHead macroTrail)

/-- the header codewords written before the data: none, FNC1, Macro 05, Macro 06 -/
def HdrOK (pre : List Nat) : Prop := pre = [] ∨ pre = [232] ∨ pre = [236] ∨ pre = [237]

/-- `decode` on a stream whose run behind the header is known -/
theorem decode_of_run (pre cw : List Nat) (sF : DM.Spec.Stream.St) (hpre : HdrOK pre) (hpfx : cw.take pre.length = pre)
    (hhd : HeadOK (cw.drop pre.length))
    (hrun : DM.Spec.Stream.run cw.toArray (3 * cw.length + 4) { i := pre.length } = .ok sF) :
    decode cw = .ok (mkDecoded sF (macOf pre) (pre == [232])) := by
  have hcons : ∀ c, pre = [c] → ∃ t, cw = c :: t ∧
      DM.Spec.Stream.run (c :: t).toArray (3 * (c :: t).length + 4) { i := 1 } = .ok sF := by
    intro c hc
    subst hc
    match cw, hpfx, hrun with
    | y :: t, hpfx, hrun =>
      simp only [List.length_singleton, List.take_succ_cons, List.take_zero, List.cons.injEq, and_true] at hpfx
      subst hpfx
      exact ⟨t, rfl, hrun⟩
  rcases hpre with rfl | rfl | rfl | rfl
  · have h0 : HeadOK cw := by simpa using hhd
    exact decode_plain cw sF h0 hrun
  · obtain ⟨t, rfl, hr⟩ := hcons 232 rfl
    exact decode_fnc1 t sF hr
  · obtain ⟨t, rfl, hr⟩ := hcons 236 rfl
    exact decode_macro5 t sF hr
  · obtain ⟨t, rfl, hr⟩ := hcons 237 rfl
    exact decode_macro6 t sF hr

/-- **The frame.** Let `P` be a property of modes, `Q` a closed property of the control part of the
encoder state, and let every mode encoder preserve the invariant (`ModeStep`). Then for every
symbol list, header, message of bytes and plan satisfying `Q`: whatever the encoder returns, the
reference decoder accepts, and it returns the message (with header and trailer for Macro 05 / 06),
no ECI, one trace entry per byte; all carrying modes and latches satisfy `P`; the stream fills the
symbol, its first `L` codewords are the encoder's own, the rest is padding, and the decoder meets
the first pad codeword exactly at `L`. -/
theorem spec_frame (P : Mode → Prop) (Q : Key → Prop) (hQ : Closed Q) (hsteps : ∀ m, ModeStep P Q m)
    (list : List Sym) (pre body cw : List Nat) (plan : List (Nat × Enc.EMode)) (sym : Sym)
    (hpre : HdrOK pre) (hb : ∀ b ∈ body, b < 256) (hq : Q (plan, .ascii, none))
    (h : Enc.run list pre body plan = .ok (cw, sym)) :
    ∃ d L, decode cw = .ok d ∧ d.body = body ∧
      d.bytes = (if macOf pre = 0 then body else macroHead (macOf pre) ++ body ++ macroTrail) ∧
      d.fnc1 = (pre == [232]) ∧ d.macro = macOf pre ∧ d.ecis = [] ∧ d.trace.length = body.length ∧
      (∀ m ∈ d.trace, P m) ∧ (∀ l ∈ d.latches, P l.2 ∧ l.2 ≠ .ascii ∧ pre.length ≤ l.1 ∧ l.1 < L) ∧
      cw.length = dataCw sym ∧ cw.take pre.length = pre ∧ pre.length ≤ L ∧ L ≤ cw.length ∧
      (L < cw.length → cw.getD L 0 = 129) ∧ d.padAt = (if L = cw.length then none else some L) := by
  obtain ⟨hlen, L, sF, h1, h2, hpfx, hhd, h129, hrun, hfin⟩ := run_spec P Q hQ hsteps list pre body cw plan sym hb hq h
  have hd := decode_of_run pre cw sF hpre hpfx hhd hrun
  refine ⟨_, L, hd, hfin.out, ?_, rfl, rfl, by simp [mkDecoded, hfin.ecis], hfin.trlen, hfin.trP, hfin.latP, hlen, hpfx,
    h1, h2, h129, hfin.padAt⟩
  simp only [mkDecoded, hfin.out]

/-! ## ASCII and Base 256 -/

/-- only ASCII and Base 256 occur in the control part of the encoder state -/
def NA : Key → Prop := fun k => (∀ x ∈ k.1, x.2 = .ascii ∨ x.2 = .base256) ∧ (k.2.1 = .ascii ∨ k.2.1 = .base256)

theorem na_closed : Closed NA := by
  refine ⟨?_, ?_, ?_⟩
  · intro k _
    refine ⟨?_, Or.inl rfl⟩
    intro x hx
    simp only [asciiKey, List.mem_singleton] at hx
    subst hx
    exact Or.inl rfl
  · intro s s1 b h hk
    obtain ⟨h1, h2⟩ := hk
    simp only [key] at h1 h2 ⊢
    obtain ⟨_, _, _, m4, m5, m6⟩ := maybeSwitch_spec s s1 b h
    refine ⟨fun x hx => h1 x (m4 x hx), ?_⟩
    cases b with
    | false => rw [(m5 rfl).1]; exact h2
    | true => obtain ⟨_, _, ⟨p, hp⟩, _⟩ := m6 rfl; exact h1 _ hp
  · intro k hk
    exact ⟨hk.1, hk.2⟩

/-- the carrying modes of such a message -/
def AB (m : Mode) : Prop := m = .ascii ∨ m = .base256

theorem steps_AB : ∀ m, ModeStep AB NA m := by
  intro m
  cases m with
  | ascii => exact step_ascii AB NA (Or.inl rfl)
  | base256 => exact step_b256 AB NA (Or.inr rfl)
  | c40 => intro _ _ _ _ s _ _ _ hq _ hm _; have := hq.2; simp only [key] at this; rw [hm] at this; simp at this
  | text => intro _ _ _ _ s _ _ _ hq _ hm _; have := hq.2; simp only [key] at this; rw [hm] at this; simp at this
  | x12 => intro _ _ _ _ s _ _ _ hq _ hm _; have := hq.2; simp only [key] at this; rw [hm] at this; simp at this
  | edifact => intro _ _ _ _ s _ _ _ hq _ hm _; have := hq.2; simp only [key] at this; rw [hm] at this; simp at this

/-- **Mixed ASCII / Base 256 round trip through the reference decoder.** For every plan whose entries
name only ASCII and Base 256 (no other condition on the plan), every message of bytes, every symbol
list and each of the headers none / FNC1 / Macro 05 / Macro 06: whatever the encoder returns, the
reference decoder accepts and returns the message; every byte is carried by ASCII or Base 256
encodation, every latch is a Base 256 latch standing among the encoder's own codewords, there is no
ECI; the stream fills the symbol, and the decoder meets the first pad codeword exactly where the
encoder's own codewords end. -/
theorem spec_mixed_roundtrip (list : List Sym) (pre body cw : List Nat) (plan : List (Nat × Enc.EMode)) (sym : Sym)
    (hpre : HdrOK pre) (hb : ∀ b ∈ body, b < 256) (hplan : ∀ e ∈ plan, e.2 = .ascii ∨ e.2 = .base256)
    (h : Enc.run list pre body plan = .ok (cw, sym)) :
    ∃ d L, decode cw = .ok d ∧ d.body = body ∧
      d.bytes = (if macOf pre = 0 then body else macroHead (macOf pre) ++ body ++ macroTrail) ∧
      d.fnc1 = (pre == [232]) ∧ d.macro = macOf pre ∧ d.ecis = [] ∧ d.trace.length = body.length ∧
      (∀ m ∈ d.trace, m = .ascii ∨ m = .base256) ∧ (∀ l ∈ d.latches, l.2 = .base256 ∧ pre.length ≤ l.1 ∧ l.1 < L) ∧
      cw.length = dataCw sym ∧ cw.take pre.length = pre ∧ pre.length ≤ L ∧ L ≤ cw.length ∧
      (L < cw.length → cw.getD L 0 = 129) ∧ d.padAt = (if L = cw.length then none else some L) := by
  obtain ⟨d, L, a1, a2, a3, a4, a5, a6, a7, a8, a9, a10⟩ :=
    spec_frame AB NA na_closed steps_AB list pre body cw plan sym hpre hb ⟨hplan, Or.inl rfl⟩ h
  refine ⟨d, L, a1, a2, a3, a4, a5, a6, a7, a8, ?_, a10⟩
  intro l hl
  obtain ⟨b1, b2, b3⟩ := a9 l hl
  exact ⟨b1.resolve_left b2, b3⟩

/-! ### Non-vacuity -/

/-- "A", two bytes in Base 256 (explicit length 2, in the middle of the message), "B12" in ASCII with
a digit pair, one pad; the kernel runs encoder and reference decoder. -/
example : Enc.run (symbolList (List.range 30)) [] [65, 200, 201, 66, 49, 50]
    [(6, .ascii), (5, .base256), (3, .ascii), (0, .ascii)] = .ok ([66, 231, 195, 31, 181, 67, 142, 129], 3) :=
  run_eq_of_check (by decide +kernel)
example : (decode [66, 231, 195, 31, 181, 67, 142, 129]).toOption.map (fun d => (d.body, d.padAt, d.latches, d.trace)) =
    some ([65, 200, 201, 66, 49, 50], some 7, [(1, .base256)], [.ascii, .base256, .base256, .ascii, .ascii, .ascii]) := by
  decide +kernel

/-- … and the theorem applied to that run. -/
example : ∃ d, decode [66, 231, 195, 31, 181, 67, 142, 129] = .ok d ∧ d.body = [65, 200, 201, 66, 49, 50] ∧
    d.bytes = [65, 200, 201, 66, 49, 50] ∧ d.ecis = [] ∧ ∀ l ∈ d.latches, l.2 = .base256 := by
  obtain ⟨d, L, h1, h2, h3, _, _, h6, _, _, h9, _⟩ :=
    spec_mixed_roundtrip (symbolList (List.range 30)) [] [65, 200, 201, 66, 49, 50] _
      [(6, .ascii), (5, .base256), (3, .ascii), (0, .ascii)] _ (Or.inl rfl) (by decide) (by decide)
      (run_eq_of_check (cw := [66, 231, 195, 31, 181, 67, 142, 129]) (sym := 3) (by decide +kernel))
  exact ⟨d, h1, h2, by simpa [macOf] using h3, h6, fun l hl => (h9 l hl).1⟩

/-- Two Base 256 stretches with ASCII in between (latches at codewords 1 and 7). -/
example : Enc.run (symbolList (List.range 30)) [] [65, 200, 201, 66, 49, 50, 220, 221]
    [(7, .base256), (5, .ascii), (2, .base256), (0, .base256)] =
    .ok ([66, 231, 195, 31, 181, 67, 142, 231, 69, 180, 75, 129], 5) := run_eq_of_check (by decide +kernel)
example : (decode [66, 231, 195, 31, 181, 67, 142, 231, 69, 180, 75, 129]).toOption.map (fun d => (d.body, d.padAt, d.latches)) =
    some ([65, 200, 201, 66, 49, 50, 220, 221], some 11, [(1, .base256), (7, .base256)]) := by decide +kernel

/-- The "to the end of the symbol" form behind an ASCII character: the field fills the symbol. -/
example : Enc.run (symbolList (List.range 30)) [] [65, 200, 201] [(2, .base256), (0, .base256)] =
    .ok ([66, 231, 193, 31, 181], 1) := run_eq_of_check (by decide +kernel)
example : (decode [66, 231, 193, 31, 181]).toOption.map (fun d => (d.body, d.padAt, d.latches)) =
    some ([65, 200, 201], none, [(1, .base256)]) := by decide +kernel

/-- Behind Macro 06 and behind FNC1. -/
example : Enc.run (symbolList (List.range 30)) [237] [200, 201, 49, 50, 51] [(5, .base256), (3, .ascii), (0, .ascii)] =
    .ok ([237, 231, 195, 31, 181, 142, 52, 129], 3) := run_eq_of_check (by decide +kernel)
example : ∃ d, decode [237, 231, 195, 31, 181, 142, 52, 129] = .ok d ∧ d.body = [200, 201, 49, 50, 51] ∧
    d.bytes = [91, 41, 62, 30, 48, 54, 29, 200, 201, 49, 50, 51, 30, 4] ∧ d.macro = 6 := by
  obtain ⟨d, L, h1, h2, h3, _, h5, _⟩ :=
    spec_mixed_roundtrip (symbolList (List.range 30)) [237] [200, 201, 49, 50, 51] _
      [(5, .base256), (3, .ascii), (0, .ascii)] _ (Or.inr (Or.inr (Or.inr rfl))) (by decide) (by decide)
      (run_eq_of_check (cw := [237, 231, 195, 31, 181, 142, 52, 129]) (sym := 3) (by decide +kernel))
  exact ⟨d, h1, h2, by rw [h3]; decide, h5⟩
example : Enc.run (symbolList (List.range 30)) [232] [49, 50, 200, 201] [(2, .base256), (0, .base256)] =
    .ok ([232, 142, 231, 89, 180, 75, 129, 56], 3) := run_eq_of_check (by decide +kernel)
example : (decode [232, 142, 231, 89, 180, 75, 129, 56]).toOption.map (fun d => (d.body, d.fnc1, d.padAt, d.latches)) =
    some ([49, 50, 200, 201], true, some 6, [(2, .base256)]) := by decide +kernel

/-- The side conditions are needed (kernel-checked): a "byte" ≥ 256 in ASCII gives a stream the
reference decoder rejects, in Base 256 one that decodes to another message; a header codeword that
is not FNC1 / Macro is rejected. -/
example : Enc.run (symbolList (List.range 30)) [] [300] [(0, .ascii)] = .ok ([235, 173, 129], 0) :=
  run_eq_of_check (by decide +kernel)
example : (decode [235, 173, 129]).toOption.isNone = true := by decide +kernel
example : Enc.run (symbolList (List.range 30)) [] [65, 300, 66] [(3, .base256), (0, .base256)] =
    .ok ([231, 44, 2, 131, 46], 1) := run_eq_of_check (by decide +kernel)
example : (decode [231, 44, 2, 131, 46]).toOption.map (fun d => d.body) = some [65, 44, 66] := by decide +kernel
example : Enc.run (symbolList (List.range 30)) [233] [65, 66] [(0, .ascii)] = .ok ([233, 66, 67], 0) :=
  run_eq_of_check (by decide +kernel)
example : (decode [233, 66, 67]).toOption.isNone = true := by decide +kernel

end DM.Props.C02SpecMixed
