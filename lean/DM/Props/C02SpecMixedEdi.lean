import DM.Lemmas.SpecMainEdi
import DM.Props.C02SpecMixed
/-!
# C02 — conformant output against the reference decoder: plans over ASCII, Base 256 and EDIFACT

`spec_mixed_roundtrip_abe`: the round trip through the independent decoder `DM.Spec.Stream.decode`
for every plan over ASCII, Base 256 and EDIFACT that satisfies `C40Gen.PlanOKE body plan`: EDIFACT is
used for the final stretch of the message only (behind the first EDIFACT entry the plan names
EDIFACT only), the characters planned for EDIFACT are EDIFACT characters (32‥94), and no latch is
planned for the last four characters.

The frame used is `SpecMainEdi.run_specB` / `spec_frameB`, not `C02SpecMixed.spec_frame`: the latter
wants `ModeStep P Q .edifact` for a predicate `Q` of (plan, mode, pending latch) and for *all*
messages, which no `Q` admitting EDIFACT can satisfy — the EDIFACT encoder does not check its
characters (`write4` masks with `% 64`), see the kernel-checked counterexample at the end.
-/
namespace DM.Props.C02SpecMixedEdi
open DM.Model DM.Lemmas DM.Lemmas.AsciiRT DM.Lemmas.SpecStep DM.Lemmas.SpecMain DM.Lemmas.MainRT DM.Lemmas.PlanProv
open DM.Lemmas.EncRT DM.Lemmas.C40Gen DM.Lemmas.SpecMainEdi
open DM.Props.C02Spec (run_eq_of_check)
open DM.Props.C02SpecMixed
open DM.Spec.Stream (decode Decoded Mode macroHead macroTrail)

/-- **The frame over a state invariant** (`SpecMainEdi.StepB`): `C02SpecMixed.spec_frame` with an
invariant `R` of the whole encoder state for the given message in place of `Q` and `ModeStep`. -/
theorem spec_frameB (P : Mode → Prop) (list : List Sym) (pre body cw : List Nat) (plan : List (Nat × Enc.EMode)) (sym : Sym)
    (R : Enc.St → Prop) (hstep : StepB P list pre.length pre body R)
    (hR0 : R { input := body, pos := 0, mode := .ascii, plan := plan, newMode := none, cw := pre, list := list })
    (hpre : HdrOK pre) (h : Enc.run list pre body plan = .ok (cw, sym)) :
    ∃ d L, decode cw = .ok d ∧ d.body = body ∧
      d.bytes = (if macOf pre = 0 then body else macroHead (macOf pre) ++ body ++ macroTrail) ∧
      d.fnc1 = (pre == [232]) ∧ d.macro = macOf pre ∧ d.ecis = [] ∧ d.trace.length = body.length ∧
      (∀ m ∈ d.trace, P m) ∧ (∀ l ∈ d.latches, P l.2 ∧ l.2 ≠ .ascii ∧ pre.length ≤ l.1 ∧ l.1 < L) ∧
      cw.length = dataCw sym ∧ cw.take pre.length = pre ∧ pre.length ≤ L ∧ L ≤ cw.length ∧
      (L < cw.length → cw.getD L 0 = 129) ∧ d.padAt = (if L = cw.length then none else some L) := by
  obtain ⟨hlen, L, sF, h1, h2, hpfx, hhd, h129, hrun, hfin⟩ := run_specB P list pre body cw plan sym R hstep hR0 h
  have hd := decode_of_run pre cw sF hpre hpfx hhd hrun
  refine ⟨_, L, hd, hfin.out, ?_, rfl, rfl, by simp [mkDecoded, hfin.ecis], hfin.trlen, hfin.trP, hfin.latP, hlen, hpfx,
    h1, h2, h129, hfin.padAt⟩
  simp only [mkDecoded, hfin.out]

/-- the carrying modes of such a message -/
def ABEm (m : Mode) : Prop := m = .ascii ∨ m = .base256 ∨ m = .edifact

/-- **Mixed ASCII / Base 256 / EDIFACT round trip through the reference decoder.** For every plan
whose entries name only ASCII, Base 256 and EDIFACT and which satisfies `PlanOKE body plan` (EDIFACT
as the final stretch, over EDIFACT characters; no latch planned for the last four characters), every
message of bytes, every symbol list and each of the headers none / FNC1 / Macro 05 / Macro 06:
whatever the encoder returns, the reference decoder accepts and returns the message; every byte is
carried by ASCII, Base 256 or EDIFACT encodation, every latch is a Base 256 or an EDIFACT latch
standing among the encoder's own codewords, there is no ECI; the stream fills the symbol, and the
decoder meets the first pad codeword exactly where the encoder's own codewords end. -/
theorem spec_mixed_roundtrip_abe (list : List Sym) (pre body cw : List Nat) (plan : List (Nat × Enc.EMode)) (sym : Sym)
    (hpre : HdrOK pre) (hb : ∀ b ∈ body, b < 256)
    (hplan : ∀ e ∈ plan, e.2 = .ascii ∨ e.2 = .base256 ∨ e.2 = .edifact) (hok : PlanOKE body plan)
    (h : Enc.run list pre body plan = .ok (cw, sym)) :
    ∃ d L, decode cw = .ok d ∧ d.body = body ∧
      d.bytes = (if macOf pre = 0 then body else macroHead (macOf pre) ++ body ++ macroTrail) ∧
      d.fnc1 = (pre == [232]) ∧ d.macro = macOf pre ∧ d.ecis = [] ∧ d.trace.length = body.length ∧
      (∀ m ∈ d.trace, m = .ascii ∨ m = .base256 ∨ m = .edifact) ∧
      (∀ l ∈ d.latches, (l.2 = .base256 ∨ l.2 = .edifact) ∧ pre.length ≤ l.1 ∧ l.1 < L) ∧
      cw.length = dataCw sym ∧ cw.take pre.length = pre ∧ pre.length ≤ L ∧ L ≤ cw.length ∧
      (L < cw.length → cw.getD L 0 = 129) ∧ d.padAt = (if L = cw.length then none else some L) := by
  obtain ⟨d, L, a1, a2, a3, a4, a5, a6, a7, a8, a9, a10⟩ :=
    spec_frameB ABEm list pre body cw plan sym (RInv body)
      (stepB_abe ABEm (Or.inl rfl) (Or.inr (Or.inl rfl)) (Or.inr (Or.inr rfl)) list pre.length pre body hb)
      ⟨hok, fun _ => Or.inl ⟨rfl, rfl⟩, hplan, Or.inl rfl⟩ hpre h
  refine ⟨d, L, a1, a2, a3, a4, a5, a6, a7, a8, ?_, a10⟩
  intro l hl
  obtain ⟨b1, b2, b3⟩ := a9 l hl
  exact ⟨b1.resolve_left b2, b3⟩

/-! ### Non-vacuity (kernel evaluation of encoder and reference decoder) -/

/-- Two bytes in Base 256, then "ABCDEFG" in EDIFACT to the end: one complete group, the last group
"EFG" with the UNLATCH value in its fourth slot, one pad. -/
example : Enc.run (symbolList (List.range 30)) [] [200, 201, 65, 66, 67, 68, 69, 70, 71]
    [(9, .base256), (7, .edifact), (0, .edifact)] = .ok ([231, 46, 137, 32, 240, 4, 32, 196, 20, 97, 223, 129], 5) :=
  run_eq_of_check (by decide +kernel)
example : (decode [231, 46, 137, 32, 240, 4, 32, 196, 20, 97, 223, 129]).toOption.map
      (fun d => (d.body, d.padAt, d.latches, d.trace)) =
    some ([200, 201, 65, 66, 67, 68, 69, 70, 71], some 11, [(0, .base256), (4, .edifact)],
      [.base256, .base256, .edifact, .edifact, .edifact, .edifact, .edifact, .edifact, .edifact]) := by decide +kernel

/-- … and the theorem applied to that run. -/
example : ∃ d, decode [231, 46, 137, 32, 240, 4, 32, 196, 20, 97, 223, 129] = .ok d ∧
    d.body = [200, 201, 65, 66, 67, 68, 69, 70, 71] ∧ d.bytes = [200, 201, 65, 66, 67, 68, 69, 70, 71] ∧ d.ecis = [] ∧
    ∀ l ∈ d.latches, l.2 = .base256 ∨ l.2 = .edifact := by
  obtain ⟨d, L, h1, h2, h3, _, _, h6, _, _, h9, _⟩ :=
    spec_mixed_roundtrip_abe (symbolList (List.range 30)) [] [200, 201, 65, 66, 67, 68, 69, 70, 71] _
      [(9, .base256), (7, .edifact), (0, .edifact)] _ (Or.inl rfl) (by decide) (by decide)
      (planOKE_of_check _ _ (by decide))
      (run_eq_of_check (cw := [231, 46, 137, 32, 240, 4, 32, 196, 20, 97, 223, 129]) (sym := 5) (by decide +kernel))
  exact ⟨d, h1, h2, by simpa [macOf] using h3, h6, fun l hl => (h9 l hl).1⟩

/-- The ASCII end game: "ABCDEFGHI" in EDIFACT, the ninth character goes to ASCII without UNLATCH
(two codewords of the symbol are left behind the second group). -/
example : Enc.run (symbolList (List.range 30)) [] [200, 201, 65, 66, 67, 68, 69, 70, 71, 72, 73]
    [(11, .base256), (9, .edifact), (0, .edifact)] = .ok ([231, 46, 137, 32, 240, 4, 32, 196, 20, 97, 200, 74], 5) :=
  run_eq_of_check (by decide +kernel)
example : (decode [231, 46, 137, 32, 240, 4, 32, 196, 20, 97, 200, 74]).toOption.map
      (fun d => (d.body, d.padAt, d.latches)) =
    some ([200, 201, 65, 66, 67, 68, 69, 70, 71, 72, 73], none, [(0, .base256), (4, .edifact)]) := by decide +kernel

/-- The exact fit: the two groups fill the symbol, the decoder ends in EDIFACT mode. -/
example : Enc.run (symbolList (List.range 30)) [] [200, 65, 66, 67, 68, 69, 70, 71, 72]
    [(9, .base256), (8, .edifact), (0, .edifact)] = .ok ([231, 45, 137, 240, 4, 32, 196, 20, 97, 200], 4) :=
  run_eq_of_check (by decide +kernel)
example : (decode [231, 45, 137, 240, 4, 32, 196, 20, 97, 200]).toOption.map (fun d => (d.body, d.padAt, d.latches)) =
    some ([200, 65, 66, 67, 68, 69, 70, 71, 72], none, [(0, .base256), (3, .edifact)]) := by decide +kernel

/-- Complete groups up to two pads before the end of the symbol (no UNLATCH, no ASCII rest). -/
example : Enc.run (symbolList (List.range 30)) [] [200, 201, 65, 66, 67, 68, 69, 70, 71, 72, 73, 74, 75, 76]
    [(14, .base256), (12, .edifact), (0, .edifact)] =
    .ok ([231, 46, 137, 32, 240, 4, 32, 196, 20, 97, 200, 36, 162, 204, 129, 237], 6) := run_eq_of_check (by decide +kernel)
example : (decode [231, 46, 137, 32, 240, 4, 32, 196, 20, 97, 200, 36, 162, 204, 129, 237]).toOption.map
      (fun d => (d.body, d.padAt)) =
    some ([200, 201, 65, 66, 67, 68, 69, 70, 71, 72, 73, 74, 75, 76], some 14) := by decide +kernel

/-- The side condition on the characters is needed, and it is a condition on the message: "a" (97) in
a stretch planned for EDIFACT is written as `97 % 64 = 33` and read back as "!" — the encoder does not
check its characters. Hence no predicate `Q` of the control part alone makes `ModeStep P Q .edifact`
true unless it excludes EDIFACT. -/
example : Enc.run (symbolList (List.range 30)) [] [200, 201, 65, 66, 97, 68, 69, 70, 71]
    [(9, .base256), (7, .edifact), (0, .edifact)] = .ok ([231, 46, 137, 32, 240, 4, 40, 68, 20, 97, 223, 129], 5) :=
  run_eq_of_check (by decide +kernel)
example : (decode [231, 46, 137, 32, 240, 4, 40, 68, 20, 97, 223, 129]).toOption.map (fun d => d.body) =
    some [200, 201, 65, 66, 33, 68, 69, 70, 71] := by decide +kernel

end DM.Props.C02SpecMixedEdi
