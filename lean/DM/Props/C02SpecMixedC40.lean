import DM.Props.C02SpecMixed
import DM.Lemmas.SpecMainC40
/-!
# C02 — conformant output against the reference decoder: plans over ASCII, Base 256, C40 and Text

`spec_mixed_roundtrip_abc`: `C02SpecMixed.spec_frame` instantiated with the four mode encoders whose
`ModeStep` is proved (`SpecMain.step_ascii`, `SpecMain.step_b256`, `SpecMainC40.step_c40`,
`SpecMainC40.step_text`). Side condition on the plan (`C40Gen.PlanOK` restricted to the four modes):
every entry names one of the four modes, and no latch to a non-ASCII mode is planned for the last
four characters (a latch planned there behind a C40 / Text run is taken by the encoder after it has
already committed itself to ASCII: the stale-latch defects K-D…, see `C02SpecMixed`).
-/
namespace DM.Props.C02SpecMixedC40
open DM.Model DM.Lemmas DM.Lemmas.AsciiRT DM.Lemmas.SpecStep DM.Lemmas.SpecMain DM.Lemmas.MainRT DM.Lemmas.PlanProv
open DM.Lemmas.EncRT DM.Lemmas.C40Gen DM.Lemmas.SpecMainC40
open DM.Props.C02Spec (run_eq_of_check)
open DM.Props.C02SpecMixed (HdrOK spec_frame)
open DM.Spec.Stream (decode Decoded Mode macroHead macroTrail)

/-- the control part of the encoder state: an admissible plan (`PlanOK`) without X12; the current
mode is neither X12 nor EDIFACT -/
def NQ : Key → Prop := fun k => PlanOK k.1 ∧ (∀ x ∈ k.1, x.2 ≠ .x12) ∧ k.2.1 ≠ .x12 ∧ k.2.1 ≠ .edifact

theorem nq_closed : Closed NQ := by
  refine ⟨?_, ?_, ?_⟩
  · intro k _
    refine ⟨?_, ?_, by simp [asciiKey], by simp [asciiKey]⟩
    · intro e he
      simp only [asciiKey, List.mem_singleton] at he
      subst he
      simp
    · intro e he
      simp only [asciiKey, List.mem_singleton] at he
      subst he
      simp
  · intro s s1 b h hk
    obtain ⟨h1, h2, h3, h4⟩ := hk
    simp only [key] at h1 h2 h3 h4 ⊢
    obtain ⟨_, _, _, m4, m5, m6⟩ := maybeSwitch_spec s s1 b h
    refine ⟨fun x hx => h1 x (m4 x hx), fun x hx => h2 x (m4 x hx), ?_⟩
    cases b with
    | false => rw [(m5 rfl).1]; exact ⟨h3, h4⟩
    | true =>
      obtain ⟨_, _, ⟨p, hp⟩, _⟩ := m6 rfl
      exact ⟨h2 _ hp, (h1 _ hp).2⟩
  · intro k hk
    exact hk

/-- the carrying modes of such a message -/
def ABCT (m : Mode) : Prop := m = .ascii ∨ m = .base256 ∨ m = .c40 ∨ m = .text

theorem steps_ABCT : ∀ m, ModeStep ABCT NQ m := by
  intro m
  cases m with
  | ascii => exact step_ascii ABCT NQ (Or.inl rfl)
  | base256 => exact step_b256 ABCT NQ (Or.inr (Or.inl rfl))
  | c40 => exact step_c40 ABCT NQ (fun body _ h => planOKE_of_planOK body h.1) (Or.inr (Or.inr (Or.inl rfl)))
  | text => exact step_text ABCT NQ (fun body _ h => planOKE_of_planOK body h.1) (Or.inr (Or.inr (Or.inr rfl)))
  | x12 => intro _ _ _ _ s _ _ _ hq _ hm _; have := hq.2.2.1; simp only [key] at this; exact absurd hm this
  | edifact => intro _ _ _ _ s _ _ _ hq _ hm _; have := hq.2.2.2; simp only [key] at this; exact absurd hm this

/-- **Mixed ASCII / Base 256 / C40 / Text round trip through the reference decoder.** For every plan
whose entries name only these four modes and plan no latch to a non-ASCII mode for the last four
characters, every message of bytes, every symbol list and each of the headers none / FNC1 /
Macro 05 / Macro 06: whatever the encoder returns, the reference decoder accepts and returns the
message; every byte is carried by one of the four encodations, every latch is a Base 256, C40 or
Text latch standing among the encoder's own codewords, there is no ECI; the stream fills the symbol,
and the decoder meets the first pad codeword exactly where the encoder's own codewords end. -/
theorem spec_mixed_roundtrip_abc (list : List Sym) (pre body cw : List Nat) (plan : List (Nat × Enc.EMode)) (sym : Sym)
    (hpre : HdrOK pre) (hb : ∀ b ∈ body, b < 256)
    (hplan : ∀ e ∈ plan, (e.2 = .ascii ∨ e.2 = .base256 ∨ e.2 = .c40 ∨ e.2 = .text) ∧ (e.2 ≠ .ascii → e.1 = 0 ∨ e.1 > 4))
    (h : Enc.run list pre body plan = .ok (cw, sym)) :
    ∃ d L, decode cw = .ok d ∧ d.body = body ∧
      d.bytes = (if macOf pre = 0 then body else macroHead (macOf pre) ++ body ++ macroTrail) ∧
      d.fnc1 = (pre == [232]) ∧ d.macro = macOf pre ∧ d.ecis = [] ∧ d.trace.length = body.length ∧
      (∀ m ∈ d.trace, m = .ascii ∨ m = .base256 ∨ m = .c40 ∨ m = .text) ∧
      (∀ l ∈ d.latches, (l.2 = .base256 ∨ l.2 = .c40 ∨ l.2 = .text) ∧ pre.length ≤ l.1 ∧ l.1 < L) ∧
      cw.length = dataCw sym ∧ cw.take pre.length = pre ∧ pre.length ≤ L ∧ L ≤ cw.length ∧
      (L < cw.length → cw.getD L 0 = 129) ∧ d.padAt = (if L = cw.length then none else some L) := by
  have hq : NQ (plan, .ascii, none) := by
    refine ⟨fun e he => ⟨(hplan e he).2, ?_⟩, fun e he => ?_, by simp, by simp⟩
    · rcases (hplan e he).1 with h | h | h | h <;> rw [h] <;> simp
    · rcases (hplan e he).1 with h | h | h | h <;> rw [h] <;> simp
  obtain ⟨d, L, a1, a2, a3, a4, a5, a6, a7, a8, a9, a10⟩ :=
    spec_frame ABCT NQ nq_closed steps_ABCT list pre body cw plan sym hpre hb hq h
  refine ⟨d, L, a1, a2, a3, a4, a5, a6, a7, a8, ?_, a10⟩
  intro l hl
  obtain ⟨b1, b2, b3⟩ := a9 l hl
  exact ⟨b1.resolve_left b2, b3⟩

/-! ### Non-vacuity -/

/-- "1" in ASCII, two bytes in Base 256, "ABCDEF" in C40 (two triples, UNLATCH at a planned switch),
"abcdefg" in Text (two triples, UNLATCH + backup: the last character as one ASCII codeword that
fills the symbol); the kernel runs encoder and reference decoder. -/
example : Enc.run (symbolList (List.range 30)) [] [49, 200, 201, 65, 66, 67, 68, 69, 70, 97, 98, 99, 100, 101, 102, 103]
    [(16, .ascii), (15, .base256), (13, .c40), (7, .text), (0, .text)] =
    .ok ([50, 231, 195, 31, 181, 230, 89, 233, 109, 36, 254, 239, 89, 233, 109, 36, 254, 104], 7) :=
  run_eq_of_check (by decide +kernel)
example : (decode [50, 231, 195, 31, 181, 230, 89, 233, 109, 36, 254, 239, 89, 233, 109, 36, 254, 104]).toOption.map
    (fun d => (d.body, d.padAt, d.latches)) =
    some ([49, 200, 201, 65, 66, 67, 68, 69, 70, 97, 98, 99, 100, 101, 102, 103], none,
      [(1, .base256), (5, .c40), (11, .text)]) := by decide +kernel

/-- … and the theorem applied to that run. -/
example : ∃ d, decode [50, 231, 195, 31, 181, 230, 89, 233, 109, 36, 254, 239, 89, 233, 109, 36, 254, 104] = .ok d ∧
    d.body = [49, 200, 201, 65, 66, 67, 68, 69, 70, 97, 98, 99, 100, 101, 102, 103] ∧ d.ecis = [] ∧
    ∀ l ∈ d.latches, l.2 = .base256 ∨ l.2 = .c40 ∨ l.2 = .text := by
  obtain ⟨d, L, h1, h2, _, _, _, h6, _, _, h9, _⟩ :=
    spec_mixed_roundtrip_abc (symbolList (List.range 30)) [] [49, 200, 201, 65, 66, 67, 68, 69, 70, 97, 98, 99, 100, 101, 102, 103] _
      [(16, .ascii), (15, .base256), (13, .c40), (7, .text), (0, .text)] _ (Or.inl rfl) (by decide) (by decide)
      (run_eq_of_check (cw := [50, 231, 195, 31, 181, 230, 89, 233, 109, 36, 254, 239, 89, 233, 109, 36, 254, 104])
        (sym := 7) (by decide +kernel))
  exact ⟨d, h1, h2, h6, fun l hl => (h9 l hl).1⟩

/-- The ending without UNLATCH: behind the Text run one ASCII codeword ("2") fills the symbol. -/
example : Enc.run (symbolList (List.range 30)) [] [49, 65, 66, 67, 68, 69, 70, 71, 97, 98, 99, 100, 101, 102, 50]
    [(15, .ascii), (14, .c40), (7, .text), (1, .ascii), (0, .ascii)] =
    .ok ([50, 230, 89, 233, 109, 36, 125, 71, 254, 239, 89, 233, 109, 36, 254, 51], 6) := run_eq_of_check (by decide +kernel)
example : (decode [50, 230, 89, 233, 109, 36, 125, 71, 254, 239, 89, 233, 109, 36, 254, 51]).toOption.map
    (fun d => (d.body, d.padAt, d.latches)) =
    some ([49, 65, 66, 67, 68, 69, 70, 71, 97, 98, 99, 100, 101, 102, 50], none, [(1, .c40), (9, .text)]) := by decide +kernel

/-- The exact end behind FNC1: two values and the fill value 0 in the last pair, no UNLATCH; the
decoder stops in C40 mode. -/
example : Enc.run (symbolList (List.range 30)) [232] [65, 66, 67, 68, 69, 70, 71, 72] [(8, .c40), (0, .c40)] =
    .ok ([232, 230, 89, 233, 109, 36, 128, 73], 3) := run_eq_of_check (by decide +kernel)
example : ∃ d, decode [232, 230, 89, 233, 109, 36, 128, 73] = .ok d ∧ d.body = [65, 66, 67, 68, 69, 70, 71, 72] ∧
    d.fnc1 = true ∧ d.padAt = none := by
  obtain ⟨d, L, h1, h2, _, h4, _, _, _, _, _, h10, _, _, h13, _, h15⟩ :=
    spec_mixed_roundtrip_abc (symbolList (List.range 30)) [232] [65, 66, 67, 68, 69, 70, 71, 72] _
      [(8, .c40), (0, .c40)] _ (Or.inr (Or.inl rfl)) (by decide) (by decide)
      (run_eq_of_check (cw := [232, 230, 89, 233, 109, 36, 128, 73]) (sym := 3) (by decide +kernel))
  refine ⟨d, h1, h2, by rw [h4]; rfl, ?_⟩
  rw [h15]
  have hdec : (decode [232, 230, 89, 233, 109, 36, 128, 73]).toOption.map (fun d => d.padAt) = some none := by decide +kernel
  rw [h1] at hdec
  simp only [Except.toOption, Option.map_some, Option.some.injEq] at hdec
  rw [h15] at hdec
  exact hdec

/-- The side condition on the plan is needed (kernel-checked): "ABCDEFG12" in C40 with a latch to Text
or to Base 256 planned for the last two characters — the C40 encoder, two digits left, commits itself
to ASCII without UNLATCH, the main loop then writes the stale latch: the stream decodes to another
message, or is rejected. -/
example : Enc.run (symbolList (List.range 30)) [] [65, 66, 67, 68, 69, 70, 71, 49, 50] [(9, .c40), (2, .text), (0, .text)] =
    .ok ([230, 89, 233, 109, 36, 125, 71, 239, 142, 129], 4) := run_eq_of_check (by decide +kernel)
example : (decode [230, 89, 233, 109, 36, 125, 71, 239, 142, 129]).toOption.map (fun d => d.body) =
    some [65, 66, 67, 68, 69, 70, 71, 217, 57, 49] := by decide +kernel
example : Enc.run (symbolList (List.range 30)) [] [65, 66, 67, 68, 69, 70, 71, 49, 50] [(9, .c40), (2, .base256), (0, .base256)] =
    .ok ([230, 89, 233, 109, 36, 125, 71, 231, 142, 129], 4) := run_eq_of_check (by decide +kernel)
example : (decode [230, 89, 233, 109, 36, 125, 71, 231, 142, 129]).toOption.isNone = true := by decide +kernel

end DM.Props.C02SpecMixedC40
