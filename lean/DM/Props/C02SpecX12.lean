import DM.Lemmas.SpecX12
import DM.Props.C02Spec
/-!
# C02 — conformant output, against the reference decoder: X12 encodation

The round trip through the independent decoder `DM.Spec.Stream.decode` for a message planned
entirely in X12 (the planner's form of the plan, `[(body.length, .x12), (0, .x12)]`): the stream is
the latch 238, `body.length / 3` pairs of codewords (three Table 5 values each) and one of the three
endings `x12::encode` chooses:

* `exact`   — the triples end with the symbol (no UNLATCH; the decoder stops in X12 mode);
* `single`  — one ASCII codeword for the remaining one or two characters fills the symbol, written
              without UNLATCH (the decoder's rule "one codeword left: back to ASCII");
* `unlatch` — UNLATCH 254, the remaining characters in ASCII, then padding.

The reference decoder accepts it and reads the message: the bytes of the triples carried by X12,
the rest by ASCII, the single latch where the encoder put it, the first pad codeword exactly behind
the encoder's own codewords.

Side conditions: the bytes are < 256 (otherwise the ASCII rest is not decodable); nothing else — if a
character inside the triples is not one of the 40 native X12 characters the encoder model panics
("unreachable x12 enc"), so `Enc.run … = .ok …` already implies `X12Native` of the triple part
(it is part of the conclusion); the one or two characters behind the last triple may be any bytes.
-/
namespace DM.Props.C02SpecX12
open DM.Model DM.Lemmas DM.Lemmas.AsciiRT DM.Lemmas.SpecStep DM.Lemmas.SpecAscii DM.Lemmas.SpecX12
open DM.Lemmas.Complete (X12Native)
open DM.Spec.Build (packTriples x12Val)
open DM.Spec.Stream (decode Decoded macroHead macroTrail unrand253 Mode)
open DM.Props.C02Spec (run_eq_of_check hdrMacro)

/-- what `mkDecoded` makes of the final state of a pure X12 run -/
theorem x12_decoded (p size n mac : Nat) (f1 : Bool) (body : List Nat) (m : Mode) (pad : Option Nat)
    (hn : n = body.length / 3) (d : Decoded)
    (hd : d = mkDecoded (x12Final p size body n m pad) mac f1) :
    d.body = body ∧ d.fnc1 = f1 ∧ d.macro = mac ∧
    d.bytes = (if mac = 0 then body else macroHead mac ++ body ++ macroTrail) ∧ d.ecis = [] ∧
    d.latches = [(p, .x12)] ∧
    d.trace = List.replicate (3 * (body.length / 3)) .x12 ++ List.replicate (body.length % 3) .ascii ∧
    d.padAt = pad := by
  subst hd hn
  have : body.length - 3 * (body.length / 3) = body.length % 3 := by omega
  refine ⟨by simp [mkDecoded, x12Final], rfl, rfl, by simp [mkDecoded, x12Final], rfl,
    by simp [mkDecoded, x12Final], by simp [mkDecoded, x12Final, this], rfl⟩

/-- **X12 round trip through the reference decoder.** For a non-empty message of bytes planned
entirely in X12 and every symbol list: whatever the encoder returns, the reference decoder accepts;
it reads the message — the `3 · (len / 3)` characters of the triples carried by X12, the remaining
`len % 3` by ASCII — after the single latch at codeword 0, without ECI, FNC1 or Macro. The stream is
`T` = latch + packed triples followed by one of the three endings `e`; the first pad codeword is met
exactly behind UNLATCH + ASCII rest (`none` when they fill the symbol, and in the two endings
without UNLATCH, which always fill the symbol). -/
theorem spec_x12_roundtrip (list : List Sym) (body cw : List Nat) (sym : Sym) (hb : ∀ b ∈ body, b < 256)
    (hne : body ≠ []) (h : Enc.run list [] body [(body.length, .x12), (0, .x12)] = .ok (cw, sym)) :
    ∃ (d : Decoded) (e : X12Ending) (T rest : List Nat),
      decode cw = .ok d ∧ d.bytes = body ∧ d.body = body ∧ d.fnc1 = false ∧ d.macro = 0 ∧ d.ecis = [] ∧
      d.latches = [(0, .x12)] ∧
      d.trace = List.replicate (3 * (body.length / 3)) .x12 ++ List.replicate (body.length % 3) .ascii ∧
      X12Native (body.take (3 * (body.length / 3))) ∧ cw.length = dataCw sym ∧
      T = [238] ++ packTriples ((body.take (3 * (body.length / 3))).filterMap x12Val) ∧
      T.length = 1 + 2 * (body.length / 3) ∧ rest = asciiEnc (body.drop (3 * (body.length / 3))) ∧
      ((e = .exact ∧ body.length % 3 = 0 ∧ cw = T ∧ d.padAt = none) ∨
       (e = .single ∧ rest.length = 1 ∧ cw = T ++ rest ∧ d.padAt = none) ∨
       (e = .unlatch ∧ cw.take (T.length + 1 + rest.length) = T ++ [254] ++ rest ∧
          T.length + 1 + rest.length ≤ dataCw sym ∧
          d.padAt = (if T.length + 1 + rest.length = dataCw sym then none else some (T.length + 1 + rest.length)))) := by
  obtain ⟨n, e, m, pad, T, rest, hn, hnat, hlen, hT, hTl, hrest, hend, ⟨Y, hY⟩, hrun⟩ :=
    x12_core list [] body cw sym hb hne h
  subst hn
  simp only [List.length_nil, Nat.zero_add, List.nil_append] at hT hTl hrun
  have hhead : ∀ c ∈ cw.head?, c ≠ 232 ∧ c ≠ 236 ∧ c ≠ 237 := by
    intro c hc
    rw [hY, hT] at hc
    simp at hc
    omega
  have hd := decode_plain cw _ hhead hrun
  obtain ⟨a1, a2, a3, a4, a5, a6, a7, a8⟩ := x12_decoded 0 cw.length (body.length / 3) 0 false body m pad rfl _ rfl
  refine ⟨_, e, T, rest, hd, by simpa using a4, a1, a2, a3, a5, a6, a7, hnat, hlen, hT, hTl, hrest, ?_⟩
  rw [a8]
  rcases hend with ⟨h1, _, h3, h4, h5⟩ | ⟨h1, _, h3, h4, h5⟩ | ⟨h1, _, h3, h4, h5⟩
  · exact Or.inl ⟨h1, by omega, h5, h3⟩
  · exact Or.inr (Or.inl ⟨h1, h4, h5, h3⟩)
  · exact Or.inr (Or.inr ⟨h1, h3, h4, h5⟩)

/-- the empty message under the X12 plan is the empty ASCII message: padding only, no latch -/
theorem spec_x12_roundtrip_nil (list : List Sym) (cw : List Nat) (sym : Sym)
    (h : Enc.run list [] [] [(([] : List Nat).length, .x12), (0, .x12)] = .ok (cw, sym)) :
    ∃ d, decode cw = .ok d ∧ d.bytes = [] ∧ d.body = [] ∧ d.fnc1 = false ∧ d.macro = 0 ∧ d.ecis = [] ∧
      d.latches = [] ∧ d.trace = [] ∧ cw.length = dataCw sym ∧
      d.padAt = (if 0 = dataCw sym then none else some 0) := by
  have : Enc.run list [] [] [(([] : List Nat).length, Enc.EMode.x12), (0, .x12)] = Enc.run list [] [] [(0, .ascii)] := by
    unfold Enc.run
    simp only [List.length_nil]
    rw [Enc.mainLoop, Enc.mainLoop]
    simp [Enc.St.hasMore]
  rw [this] at h
  obtain ⟨d, h1, h2, h3, h4, h5, h6, h7, h8, _, h10, _, h12⟩ :=
    DM.Props.C02Spec.spec_ascii_roundtrip list [] cw sym _ (Or.inl rfl) (by simp) h
  exact ⟨d, h1, h2, h3, h4, h5, h6, h7, by simpa using h8, h10, by rw [h12]; simp only [asciiEnc, List.length_nil]; split <;> simp_all⟩

/-- **The statement of the task**, for every message of bytes (empty or not; native X12 characters
are bytes, and nativity of the triple part is implied by the success of the run) -/
theorem spec_x12_roundtrip_all (list : List Sym) (body cw : List Nat) (sym : Sym) (hb : ∀ b ∈ body, b < 256)
    (h : Enc.run list [] body [(body.length, .x12), (0, .x12)] = .ok (cw, sym)) :
    ∃ d, decode cw = .ok d ∧ d.bytes = body ∧ d.body = body ∧ d.fnc1 = false ∧ d.macro = 0 ∧ d.ecis = [] ∧
      d.latches = (if body = [] then [] else [(0, .x12)]) ∧
      d.trace = List.replicate (3 * (body.length / 3)) .x12 ++ List.replicate (body.length % 3) .ascii ∧
      cw.length = dataCw sym := by
  by_cases hne : body = []
  · subst hne
    obtain ⟨d, h1, h2, h3, h4, h5, h6, h7, h8, h9, _⟩ := spec_x12_roundtrip_nil list cw sym h
    exact ⟨d, h1, h2, h3, h4, h5, h6, by simpa using h7, by simpa using h8, h9⟩
  · obtain ⟨d, _, _, _, h1, h2, h3, h4, h5, h6, h7, h8, _, h9, _⟩ := spec_x12_roundtrip list body cw sym hb hne h
    exact ⟨d, h1, h2, h3, h4, h5, h6, by rw [if_neg hne]; exact h7, h8, h9⟩

/-- in particular for messages of native X12 characters (13, 42, 62, 32, digits, upper-case letters) -/
theorem spec_x12_roundtrip_native (list : List Sym) (body cw : List Nat) (sym : Sym) (hb : X12Native body)
    (h : Enc.run list [] body [(body.length, .x12), (0, .x12)] = .ok (cw, sym)) :
    ∃ d, decode cw = .ok d ∧ d.bytes = body ∧ d.body = body ∧ d.fnc1 = false ∧ d.macro = 0 ∧ d.ecis = [] := by
  have hbyte : ∀ b ∈ body, b < 256 := by
    intro b hmem
    have := hb b hmem
    unfold x12Val at this
    by_cases h1 : b < 256
    · exact h1
    · rw [if_neg (by omega), if_neg (by omega), if_neg (by omega), if_neg (by omega), if_neg (by omega),
        if_neg (by omega)] at this
      cases this
  obtain ⟨d, h1, h2, h3, h4, h5, h6, _⟩ := spec_x12_roundtrip_all list body cw sym hbyte h
  exact ⟨d, h1, h2, h3, h4, h5, h6⟩

/-! ### non-vacuity: the three endings -/

/-- `exact`: "ABC" fills the 3-codeword symbol; the decoder stops in X12 mode -/
example : Enc.run (symbolList (List.range 30)) [] [65, 66, 67] [(3, .x12), (0, .x12)] = .ok ([238, 89, 233], 0) :=
  run_eq_of_check (by decide +kernel)
/-- `single`: "ABCDEFGHI1" — three triples and the ASCII codeword 50 without UNLATCH fill 8 codewords;
also with the digit pair "12" as the single codeword (142) -/
example : Enc.run (symbolList (List.range 30)) [] [65, 66, 67, 68, 69, 70, 71, 72, 73, 49] [(10, .x12), (0, .x12)] =
    .ok ([238, 89, 233, 109, 36, 128, 95, 50], 3) := run_eq_of_check (by decide +kernel)
example : Enc.run (symbolList (List.range 30)) [] [65, 66, 67, 68, 69, 70, 71, 72, 73, 49, 50] [(11, .x12), (0, .x12)] =
    .ok ([238, 89, 233, 109, 36, 128, 95, 142], 3) := run_eq_of_check (by decide +kernel)
/-- `unlatch`: "ABCDé" — UNLATCH, ASCII rest with upper shift, one pad; "ABCD" — UNLATCH + rest fill the
symbol; all 9 kinds of native characters with UNLATCH as the last codeword of the symbol -/
example : Enc.run (symbolList (List.range 30)) [] [65, 66, 67, 68, 233] [(5, .x12), (0, .x12)] =
    .ok ([238, 89, 233, 254, 69, 235, 106, 129], 3) := run_eq_of_check (by decide +kernel)
example : Enc.run (symbolList (List.range 30)) [] [65, 66, 67, 68] [(4, .x12), (0, .x12)] =
    .ok ([238, 89, 233, 254, 69], 1) := run_eq_of_check (by decide +kernel)
example : Enc.run (symbolList (List.range 30)) [] [13, 42, 62, 32, 48, 57, 65, 90, 49] [(9, .x12), (0, .x12)] =
    .ok ([238, 0, 43, 19, 110, 93, 158, 254], 3) := run_eq_of_check (by decide +kernel)

/-- the kernel runs the reference decoder on these streams -/
example : (decode [238, 89, 233]).toOption.map (fun d => (d.body, d.padAt, d.latches, d.trace)) =
    some ([65, 66, 67], none, [(0, .x12)], [.x12, .x12, .x12]) := by decide +kernel
example : (decode [238, 89, 233, 109, 36, 128, 95, 50]).toOption.map (fun d => (d.body, d.padAt, d.latches)) =
    some ([65, 66, 67, 68, 69, 70, 71, 72, 73, 49], none, [(0, .x12)]) := by decide +kernel
example : (decode [238, 89, 233, 254, 69, 235, 106, 129]).toOption.map (fun d => (d.body, d.padAt, d.latches, d.trace)) =
    some ([65, 66, 67, 68, 233], some 7, [(0, .x12)], [.x12, .x12, .x12, .ascii, .ascii]) := by decide +kernel

/-- … and the theorem applied to the run with padding: ending `unlatch`, first pad at codeword 7 -/
example : ∃ d, decode [238, 89, 233, 254, 69, 235, 106, 129] = .ok d ∧ d.body = [65, 66, 67, 68, 233] ∧
    d.latches = [(0, .x12)] ∧ d.trace = [.x12, .x12, .x12, .ascii, .ascii] := by
  obtain ⟨d, _, _, _, h1, _, h3, _, _, _, h7, h8, _⟩ :=
    spec_x12_roundtrip (symbolList (List.range 30)) [65, 66, 67, 68, 233] _ _ (by decide) (by decide)
      (run_eq_of_check (cw := [238, 89, 233, 254, 69, 235, 106, 129]) (sym := 3) (by decide +kernel))
  exact ⟨d, h1, h3, h7, by rw [h8]; decide⟩

/-! ### counterexamples for the side conditions

* a "byte" ≥ 256 behind the triples: the encoder writes `235, 173`, which is no upper shift;
* a non-native character inside the triples: the encoder model panics (so the hypothesis that the
  run succeeds cannot be dropped, and nativity of the triple part need not be assumed). -/
example : Enc.run (symbolList (List.range 30)) [] [65, 66, 67, 300] [(4, .x12), (0, .x12)] =
    .ok ([238, 89, 233, 254, 235, 173, 129, 56], 3) := run_eq_of_check (by decide +kernel)
example : (decode [238, 89, 233, 254, 235, 173, 129, 56]).toOption.isNone = true := by decide +kernel
example : (match Enc.run (symbolList (List.range 30)) [] [65, 66, 97] [(3, .x12), (0, .x12)] with
    | .error (.panic site) => site == "unreachable x12 enc"
    | _ => false) = true := by decide +kernel

/-! ### behind a header codeword -/

/-- **X12 behind a header codeword** `c` = 232 (FNC1), 236 (Macro 05) or 237 (Macro 06): the latch
now stands at codeword 1; everything else as in `spec_x12_roundtrip`. -/
theorem spec_x12_roundtrip_header (c : Nat) (hc : c = 232 ∨ c = 236 ∨ c = 237) (list : List Sym) (body cw : List Nat)
    (sym : Sym) (hb : ∀ b ∈ body, b < 256) (hne : body ≠ [])
    (h : Enc.run list [c] body [(body.length, .x12), (0, .x12)] = .ok (cw, sym)) :
    ∃ (d : Decoded) (e : X12Ending) (T rest : List Nat),
      decode cw = .ok d ∧ d.body = body ∧ d.fnc1 = (c == 232) ∧ d.macro = hdrMacro c ∧
      d.bytes = (if c = 232 then body else macroHead (hdrMacro c) ++ body ++ macroTrail) ∧ d.ecis = [] ∧
      d.latches = [(1, .x12)] ∧
      d.trace = List.replicate (3 * (body.length / 3)) .x12 ++ List.replicate (body.length % 3) .ascii ∧
      X12Native (body.take (3 * (body.length / 3))) ∧ cw.length = dataCw sym ∧
      T = c :: 238 :: packTriples ((body.take (3 * (body.length / 3))).filterMap x12Val) ∧
      T.length = 2 + 2 * (body.length / 3) ∧ rest = asciiEnc (body.drop (3 * (body.length / 3))) ∧
      ((e = .exact ∧ body.length % 3 = 0 ∧ cw = T ∧ d.padAt = none) ∨
       (e = .single ∧ rest.length = 1 ∧ cw = T ++ rest ∧ d.padAt = none) ∨
       (e = .unlatch ∧ cw.take (T.length + 1 + rest.length) = T ++ [254] ++ rest ∧
          T.length + 1 + rest.length ≤ dataCw sym ∧
          d.padAt = (if T.length + 1 + rest.length = dataCw sym then none else some (T.length + 1 + rest.length)))) := by
  obtain ⟨n, e, m, pad, T, rest, hn, hnat, hlen, hT, hTl, hrest, hend, ⟨Y, hY⟩, hrun⟩ :=
    x12_core list [c] body cw sym hb hne h
  subst hn
  simp only [List.length_singleton, List.cons_append, List.nil_append] at hT hTl hrun
  have hTl' : T.length = 2 + 2 * (body.length / 3) := by omega
  obtain ⟨t, ht⟩ : ∃ t, cw = c :: t := ⟨_, by rw [hY, hT]; rfl⟩
  have hend' : ∀ d : Decoded, d.padAt = pad →
      ((e = .exact ∧ body.length % 3 = 0 ∧ cw = T ∧ d.padAt = none) ∨
       (e = .single ∧ rest.length = 1 ∧ cw = T ++ rest ∧ d.padAt = none) ∨
       (e = .unlatch ∧ cw.take (T.length + 1 + rest.length) = T ++ [254] ++ rest ∧
          T.length + 1 + rest.length ≤ dataCw sym ∧
          d.padAt = (if T.length + 1 + rest.length = dataCw sym then none else some (T.length + 1 + rest.length)))) := by
    intro d a8
    rw [a8]
    rcases hend with ⟨h1, _, h3, h4, h5⟩ | ⟨h1, _, h3, h4, h5⟩ | ⟨h1, _, h3, h4, h5⟩
    · exact Or.inl ⟨h1, by omega, h5, h3⟩
    · exact Or.inr (Or.inl ⟨h1, h4, h5, h3⟩)
    · exact Or.inr (Or.inr ⟨h1, h3, h4, h5⟩)
  rw [ht] at hrun
  rcases hc with rfl | rfl | rfl
  · have hd := decode_fnc1 t _ hrun
    rw [← ht] at hd
    obtain ⟨a1, a2, a3, a4, a5, a6, a7, a8⟩ := x12_decoded 1 cw.length (body.length / 3) 0 true body m pad rfl _ rfl
    exact ⟨_, e, T, rest, hd, a1, a2, a3, by simpa using a4, a5, a6, a7, hnat, hlen, hT, hTl', hrest, hend' _ a8⟩
  · have hd := decode_macro5 t _ hrun
    rw [← ht] at hd
    obtain ⟨a1, a2, a3, a4, a5, a6, a7, a8⟩ := x12_decoded 1 cw.length (body.length / 3) 5 false body m pad rfl _ rfl
    exact ⟨_, e, T, rest, hd, a1, a2, a3, by simpa [hdrMacro] using a4, a5, a6, a7, hnat, hlen, hT, hTl', hrest, hend' _ a8⟩
  · have hd := decode_macro6 t _ hrun
    rw [← ht] at hd
    obtain ⟨a1, a2, a3, a4, a5, a6, a7, a8⟩ := x12_decoded 1 cw.length (body.length / 3) 6 false body m pad rfl _ rfl
    exact ⟨_, e, T, rest, hd, a1, a2, a3, by simpa [hdrMacro] using a4, a5, a6, a7, hnat, hlen, hT, hTl', hrest, hend' _ a8⟩

/-- Non-vacuity: GS1 data behind FNC1 (`unlatch` with one pad; a single digit: no triple at all, the
`single` ending directly behind the latch), Macro 05 (`unlatch` filling the symbol), Macro 06
(`single`); the kernel runs the reference decoder on three of the streams. -/
example : Enc.run (symbolList (List.range 30)) [232] [65, 66, 67, 68, 69, 70] [(6, .x12), (0, .x12)] =
    .ok ([232, 238, 89, 233, 109, 36, 254, 129], 3) := run_eq_of_check (by decide +kernel)
example : Enc.run (symbolList (List.range 30)) [232] [49] [(1, .x12), (0, .x12)] = .ok ([232, 238, 50], 0) :=
  run_eq_of_check (by decide +kernel)
example : Enc.run (symbolList (List.range 30)) [236] [65, 66, 67, 68, 69, 70, 71, 72, 73, 49] [(10, .x12), (0, .x12)] =
    .ok ([236, 238, 89, 233, 109, 36, 128, 95, 254, 50], 4) := run_eq_of_check (by decide +kernel)
example : Enc.run (symbolList (List.range 30)) [237] [65, 66, 67, 68] [(4, .x12), (0, .x12)] =
    .ok ([237, 238, 89, 233, 69], 1) := run_eq_of_check (by decide +kernel)
example : (decode [232, 238, 89, 233, 109, 36, 254, 129]).toOption.map (fun d => (d.body, d.fnc1, d.padAt, d.latches)) =
    some ([65, 66, 67, 68, 69, 70], true, some 7, [(1, .x12)]) := by decide +kernel
example : (decode [232, 238, 50]).toOption.map (fun d => (d.body, d.fnc1, d.latches, d.trace)) =
    some ([49], true, [(1, .x12)], [.ascii]) := by decide +kernel
example : (decode [237, 238, 89, 233, 69]).toOption.map (fun d => (d.bytes, d.body, d.macro, d.trace)) =
    some ([91, 41, 62, 30, 48, 54, 29, 65, 66, 67, 68, 30, 4], [65, 66, 67, 68], 6, [.x12, .x12, .x12, .ascii]) := by
  decide +kernel

end DM.Props.C02SpecX12
