import DM.Lemmas.PathCheck
import DM.Model.Pixels
/-!
# C17 — the vector path renders exactly the dark modules

`checker_sound` (in `DM/Lemmas/PathCheck.lean`) is the certified part: whenever the
executable checker `pathOK` accepts the path returned by the implementation for a bitmap,
the path is well formed (axis-parallel non-zero segments, closed sub-paths, moves after a
close, inside the bounding box) and its even–odd fill is exactly the bitmap. The check runs
`pathOK` (compiled from the same definition) on every path the implementation returns.
`path_model_ok` (the Lean model of the implementation's Hierholzer walk always produces an
accepted path, for every bitmap with a dark top-left module) is proved in `DM/Props/C17b.lean`.
-/
namespace DM.Props.C17
open DM.Lemmas DM.Model DM.Spec.Fill

/-- **Certified checker** (restated): acceptance implies that filling the path with the
even–odd rule blackens exactly the dark modules. -/
theorem path_checker_sound (bits : List Bool) (w : Nat) (segs : List Seg)
    (hok : pathOK bits w segs = true) :
    ∃ ve he, edges w (if w = 0 then 0 else bits.length / w) segs = some (ve, he) ∧
      ∀ x y, x < w → y < (if w = 0 then 0 else bits.length / w) →
        dark ve x y = bits.getD (y * w + x) false :=
  checker_sound bits w segs hok

/-- An accepted path is well formed: it executes without leaving the box, with non-zero
axis-parallel lines only, and ends closed (this is what `edges … = some _` means). -/
theorem accepted_is_wellformed (bits : List Bool) (w : Nat) (segs : List Seg)
    (hok : pathOK bits w segs = true) :
    (edges w (if w = 0 then 0 else bits.length / w) segs).isSome = true := by
  obtain ⟨ve, he, h, _⟩ := checker_sound bits w segs hok
  simp [h]

/-- `pixels()` yields the coordinates of the dark modules and nothing else. -/
theorem pixels_exact (bits : List Bool) (w : Nat) (x y : Nat) :
    (x, y) ∈ pixels bits w ↔ ∃ i, i < bits.length ∧ bits.getD i false = true ∧ x = i % w ∧ y = i / w := by
  unfold pixels
  simp only [List.mem_map, List.mem_filter, Prod.mk.injEq]
  constructor
  · rintro ⟨⟨b, i⟩, ⟨hm, hb⟩, h1, h2⟩
    have := List.mem_zipIdx hm
    simp only [Nat.zero_add] at this
    refine ⟨i, ?_, ?_, h1.symm, h2.symm⟩
    · omega
    · simp only at hb
      have h3 := this.2.2
      simp only [Nat.sub_zero] at h3
      simp [List.getD_eq_getElem?_getD, List.getElem?_eq_getElem (show i < bits.length by omega), ← h3, hb]
  · rintro ⟨i, hi, hb, rfl, rfl⟩
    refine ⟨(true, i), ⟨?_, rfl⟩, rfl, rfl⟩
    rw [List.mem_iff_getElem]
    refine ⟨i, by simpa using hi, ?_⟩
    simp [List.getD_eq_getElem?_getD, List.getElem?_eq_getElem hi] at hb
    simp [hb]

/-- Non-vacuity: a 2×2 checker pattern with its two unit squares. -/
example : pathOK [true, false, false, true] 2
    [.h 1, .v 1, .h (-1), .z, .m 1 1, .h 1, .v 1, .h (-1), .z] = true := by decide +kernel

end DM.Props.C17
