import DM.Lemmas.Finder
import DM.Props.C12
import DM.Props.C08.P0
import DM.Props.C08.P1
import DM.Props.C08.P2
import DM.Props.C08.P3
import DM.Props.C08.P4
import DM.Props.C08.P5
import DM.Props.C08.P6
import DM.Props.C08.P7
/-!
# C08 — finder/alignment rendering and strict bitmap parsing are mutual inverses
-/
namespace DM.Props.C08
open DM.Gen DM.Model DM.Lemmas DM.Spec

theorem finder_ok (s : Sym) (hs : s < numSizes) : finderOK s = true := by
  have hcover : ∀ s, s < numSizes →
      s ∈ part0 ++ part1 ++ part2 ++ part3 ++ part4 ++ part5 ++ part6 ++ part7 := by decide +kernel
  have := hcover s hs
  simp only [List.mem_append] at this
  rcases this with ((((((h | h) | h) | h) | h) | h) | h) | h
  · exact List.all_eq_true.mp part0_ok s h
  · exact List.all_eq_true.mp part1_ok s h
  · exact List.all_eq_true.mp part2_ok s h
  · exact List.all_eq_true.mp part3_ok s h
  · exact List.all_eq_true.mp part4_ok s h
  · exact List.all_eq_true.mp part5_ok s h
  · exact List.all_eq_true.mp part6_ok s h
  · exact List.all_eq_true.mp part7_ok s h

theorem cellsPass_spec (n : Nat) (k : Nat → Nat → Bool) :
    ∀ (as bs cs : List Nat) (bits len : Nat), cellsPass n k as bs cs bits len = true →
      as = bs ∧ as = cs ∧ (∀ a ∈ as, a < n) ∧ as.Nodup ∧ (∀ a ∈ as, bits.testBit a = false) ∧
      k (setBits bits as) (len + as.length) = true := by
  intro as
  induction as with
  | nil =>
    intro bs cs bits len h
    cases bs <;> cases cs <;> simp_all [cellsPass, setBits]
  | cons a as ih =>
    intro bs cs bits len h
    cases bs with
    | nil => simp [cellsPass] at h
    | cons b bs =>
      cases cs with
      | nil => simp [cellsPass] at h
      | cons c cs =>
        simp only [cellsPass, Bool.and_eq_true, beq_iff_eq, decide_eq_true_eq, Bool.not_eq_true'] at h
        obtain ⟨⟨⟨⟨hab, hac⟩, han⟩, hbit⟩, hrest⟩ := h
        have := ih bs cs _ _ hrest
        obtain ⟨e1, e2, h3, h4, h5, h6⟩ := this
        subst hab hac e1
        refine ⟨rfl, by rw [← e2], ?_, ?_, ?_, ?_⟩
        · intro x hx
          rcases List.mem_cons.mp hx with rfl | hx
          · exact han
          · exact h3 x hx
        · refine List.nodup_cons.mpr ⟨?_, h4⟩
          intro hm
          have := h5 a hm
          rw [testBit_or_shift] at this
          simp at this
        · intro x hx
          rcases List.mem_cons.mp hx with rfl | hx
          · exact hbit
          · have := h5 x hx
            rw [testBit_or_shift] at this
            simp at this
            exact this.1
        · have e : setBits bits (a :: as) = setBits (bits ||| (1 <<< a)) as := rfl
          rw [e]
          have e' : len + (a :: as).length = len + 1 + as.length := by simp; omega
          rw [e']
          exact h6

structure FinderFacts (s : Sym) : Prop where
  takes_eq : takes s = cellPos s
  cells_spec : cellPos s = finderCells (toStdRow (row s))
  cells_lt : ∀ p ∈ cellPos s, p < (row s).height * (row s).width
  cells_nodup : (cellPos s).Nodup
  cells_len : (cellPos s).length = contentWidth s * contentHeight s
  checks : ∀ q ∈ alignChecks s, q.1 < (row s).height * (row s).width ∧ q.1 ∉ cellPos s ∧
    (constHigh s).testBit q.1 = q.2
  cover : ∀ p, p < (row s).height * (row s).width → p ∈ cellPos s ∨ p ∈ (alignChecks s).map Prod.fst
  dark_spec : constHigh s = finderDark (toStdRow (row s))
  lookup : sizeByDims (row s).width (row s).height = some s
  wpos : 0 < (row s).width

theorem finder_facts (s : Sym) (hs : s < numSizes) : FinderFacts s := by
  have h := finder_ok s hs
  unfold finderOK at h
  rw [forceNat_eq] at h
  simp only [Bool.and_eq_true, beq_iff_eq, decide_eq_true_eq] at h
  obtain ⟨⟨⟨hpass, hdark⟩, hlook⟩, hw⟩ := h
  have hp := cellsPass_spec _ _ _ _ _ _ _ hpass
  obtain ⟨e1, e2, h3, h4, _, h6⟩ := hp
  simp only [Bool.and_eq_true, beq_iff_eq, List.all_eq_true, decide_eq_true_eq, Bool.not_eq_true',
    Nat.zero_add] at h6
  obtain ⟨⟨hlen, hchk⟩, hcov⟩ := h6
  have hmemcells : ∀ p, (setBits 0 (cellPos s)).testBit p = (cellPos s).contains p := by
    intro p; rw [testBit_setBits]; simp
  refine ⟨e1.symm, e2, h3, h4, hlen, ?_, ?_, hdark, hlook, hw⟩
  · intro q hq
    have := hchk q hq
    refine ⟨this.1.1, ?_, this.2⟩
    have h2 := this.1.2
    rw [hmemcells] at h2
    simpa using h2
  · intro p hp
    have ht : (2 ^ ((fdims s).H * (fdims s).W) - 1).testBit p = true := by
      rw [Nat.testBit_two_pow_sub_one]; exact decide_eq_true (by simpa [fdims] using hp)
    rw [← hcov, testBit_setBits, hmemcells] at ht
    simp only [Bool.or_eq_true, List.contains_iff_mem] at ht
    exact ht

/-- `layout_eq_spec`: the rendered fixed modules and the content cells are where the
standard's region arithmetic puts them. -/
theorem layout_eq_spec (s : Sym) (hs : s < numSizes) :
    cellPos s = finderCells (toStdRow (row s)) ∧ constHigh s = finderDark (toStdRow (row s)) :=
  ⟨(finder_facts s hs).cells_spec, (finder_facts s hs).dark_spec⟩

theorem bitmapOf_eq (s : Sym) (entries : List Bool) :
    bitmapOf s entries = setAll ((List.range ((row s).height * (row s).width)).map fun p => (constHigh s).testBit p)
      ((cellPos s).zip entries) := rfl

theorem bitmapOf_length (s : Sym) (entries : List Bool) :
    (bitmapOf s entries).length = (row s).height * (row s).width := by
  rw [bitmapOf_eq, setAll_length]; simp

theorem base_getD (s : Sym) (p : Nat) (hp : p < (row s).height * (row s).width) :
    ((List.range ((row s).height * (row s).width)).map fun p => (constHigh s).testBit p).getD p false
      = (constHigh s).testBit p := by
  rw [List.getD_eq_getElem?_getD, List.getElem?_map, List.getElem?_range hp]; rfl

/-- pixel of a rendered bitmap at a fixed (non-content) position -/
theorem bitmapOf_fixed (s : Sym) (entries : List Bool) (p : Nat)
    (hp : p < (row s).height * (row s).width) (hn : p ∉ cellPos s) :
    (bitmapOf s entries).getD p false = (constHigh s).testBit p := by
  rw [bitmapOf_eq, setAll_getD_not_mem, base_getD s p hp]
  intro hm
  exact hn ((map_fst_zip_sublist _ _).subset hm)

/-- pixel of a rendered bitmap at the position of content cell `k` -/
theorem bitmapOf_cell (s : Sym) (F : FinderFacts s) (entries : List Bool) (k : Nat)
    (hk : k < (cellPos s).length) (hk' : k < entries.length) :
    (bitmapOf s entries).getD ((cellPos s)[k]) false = entries[k] := by
  rw [bitmapOf_eq]
  apply setAll_getD_mem
  · exact F.cells_nodup.sublist (map_fst_zip_sublist _ _)
  · rw [List.mem_iff_getElem]
    exact ⟨k, by rw [List.length_zip]; omega, by simp⟩
  · simp; exact F.cells_lt _ (List.getElem_mem hk)

/-- **`parse_render`** -/
theorem parse_render (s : Sym) (hs : s < numSizes) (content : List Bool)
    (hl : content.length = contentWidth s * contentHeight s)
    (hpad : (padChecks s).all (fun q => content.getD q.1 false == q.2) = true) :
    tryFromBits (bitmapOf s content) (row s).width = .ok (content, s) := by
  have F := finder_facts s hs
  have hlen := bitmapOf_length s content
  have hW0 : ¬ (row s).width = 0 := by have := F.wpos; omega
  have hmod : (bitmapOf s content).length % (row s).width = 0 := by rw [hlen]; exact Nat.mul_mod_left _ _
  have hdiv : (bitmapOf s content).length / (row s).width = (row s).height := by
    rw [hlen]; exact Nat.mul_div_cancel _ F.wpos
  have hA : (alignChecks s).all (fun q => (bitmapOf s content).getD q.1 false == q.2) = true := by
    rw [List.all_eq_true]
    intro q hq
    have := F.checks q hq
    rw [bitmapOf_fixed s content q.1 this.1 this.2.1, this.2.2]
    simp
  have hE : ((takes s).map fun p => (bitmapOf s content).getD p false) = content := by
    rw [F.takes_eq]
    apply List.ext_getElem
    · simp [F.cells_len, hl]
    · intro k h1 h2
      simp only [List.length_map] at h1
      rw [List.getElem_map]
      exact bitmapOf_cell s F content k h1 h2
  unfold tryFromBits
  rw [if_neg hW0, if_neg (by simpa using hmod)]
  simp only [hdiv, F.lookup, hA, hE, hpad, Bool.not_true, Bool.false_eq_true, if_false]

/-- **`render_parse`**: whatever pixel array the parser accepts is exactly the rendering of
what it returns (so every finder, clock, alignment and fixed-corner module was checked). -/
theorem render_parse (bits : List Bool) (W : Nat) (m : List Bool) (s : Sym)
    (h : tryFromBits bits W = .ok (m, s)) :
    s < numSizes ∧ (row s).width = W ∧ (row s).height * W = bits.length ∧ bitmapOf s m = bits ∧
      (padChecks s).all (fun q => m.getD q.1 false == q.2) = true := by
  unfold tryFromBits at h
  split at h
  · cases h
  rename_i hW0
  split at h
  · cases h
  rename_i hmod
  split at h
  · cases h
  rename_i s' hsz
  split at h
  · cases h
  rename_i hA
  simp only [] at h
  split at h
  · cases h
  rename_i hP
  simp only [Except.ok.injEq, Prod.mk.injEq] at h
  obtain ⟨hm, rfl⟩ := h
  -- the size found has the right dimensions
  have hfind := List.find?_some hsz
  have hmem := List.mem_of_find?_eq_some hsz
  have hs : s' < numSizes := (C12.mem_master s').mp hmem
  simp only [Bool.and_eq_true, beq_iff_eq] at hfind
  have F := finder_facts s' hs
  have hmod' : bits.length % W = 0 := by simpa using hmod
  have hlen : (row s').height * (row s').width = bits.length := by
    rw [hfind.1, hfind.2]; exact Nat.div_mul_cancel (Nat.dvd_of_mod_eq_zero hmod')
  simp only [Bool.not_eq_true', Bool.not_eq_false, Bool.not_eq_true] at hA hP
  refine ⟨hs, hfind.1, by rw [← hfind.1]; exact hlen, ?_, by rw [← hm]; exact hP⟩
  apply List.ext_getElem
  · rw [bitmapOf_length, hlen]
  · intro p h1 h2
    have hp : p < (row s').height * (row s').width := by rw [hlen]; exact h2
    have hgoal : (bitmapOf s' m).getD p false = bits.getD p false → (bitmapOf s' m)[p] = bits[p] := by
      intro hh
      simpa [List.getD_eq_getElem?_getD, List.getElem?_eq_getElem h1, List.getElem?_eq_getElem h2] using hh
    apply hgoal
    rcases F.cover p hp with hc | hc
    · -- a content pixel
      obtain ⟨k, hk, rfl⟩ := List.mem_iff_getElem.mp hc
      have hkm : k < m.length := by rw [← hm]; simp [F.takes_eq]; exact hk
      rw [bitmapOf_cell s' F m k hk hkm]
      have : m[k] = bits.getD ((takes s')[k]'(by rw [F.takes_eq]; exact hk)) false := by
        subst hm; simp
      rw [this]
      congr 1
      simp [F.takes_eq]
    · -- a fixed pixel: it was checked
      obtain ⟨q, hq, rfl⟩ := List.mem_map.mp hc
      have hc := F.checks q hq
      rw [bitmapOf_fixed s' m q.1 hc.1 hc.2.1, hc.2.2]
      have := List.all_eq_true.mp hA q hq
      simp only [beq_iff_eq] at this
      exact this.symm

/-- rejection of width 0 -/
theorem reject_zero_width (bits : List Bool) : tryFromBits bits 0 = .error .zeroWidth := by
  simp [tryFromBits]

/-- rejection of a length that is not a multiple of the width -/
theorem reject_data_size (bits : List Bool) (W : Nat) (hW : W ≠ 0) (h : bits.length % W ≠ 0) :
    tryFromBits bits W = .error .dataSize := by
  simp [tryFromBits, hW, h]

/-- rejection of dimensions matching no symbol -/
theorem reject_unknown_dims (bits : List Bool) (W : Nat) (hW : W ≠ 0) (h : bits.length % W = 0)
    (hno : ∀ s, s < numSizes → ¬ ((row s).width = W ∧ (row s).height = bits.length / W)) :
    tryFromBits bits W = .error .symbolSize := by
  have : sizeByDims W (bits.length / W) = none := by
    unfold sizeByDims
    rw [List.find?_eq_none]
    intro s hs
    have := hno s ((C12.mem_master s).mp hs)
    simpa using this
  simp [tryFromBits, hW, h, this]

/-- Non-vacuity: the rendering of an all-light 8x8 mapping matrix parses back (10x10). -/
example : (match tryFromBits (bitmapOf 0 (List.replicate 64 false)) 10 with
    | .ok (m, s) => m == List.replicate 64 false && s == 0
    | .error _ => false) = true := by
  decide +kernel

end DM.Props.C08
