import DM.Props.C13TailEnc
import DM.Props.C18Couple
/-!
# C13, second clause — the instrumented run on the optimiser's plan

`traceLoop_fst`: the instrumented loop is the main loop.  `trace_planned`: on the plan the optimiser
returns (within `planOK`) the recorded calls are the segments of the plan, one call per segment, except
that the last segment may be split into a call in the planned mode and one ASCII call for at most
`tailMax mode` characters.  The induction is that of `CoupleMain.arrive` / `mainLoop_planned` with the
recorded calls added to the invariant.
-/
namespace DM.Props.C13Tail
open DM.Model.PlanSide
open DM.Model DM.Model.Plan DM.Model.Enc DM.Lemmas.PlanInv DM.Lemmas.Couple DM.Lemmas.CoupleReach
open DM.Lemmas DM.Lemmas.AsciiRT DM.Lemmas.EncRT DM.Lemmas.CoupleMain

/-! ### the instrumented loop is the main loop -/

theorem latched_pos (s : St) : (latched s).pos = s.pos := by unfold latched; cases s.newMode <;> rfl
theorem latched_mode (s : St) : (latched s).mode = s.mode := by unfold latched; cases s.newMode <;> rfl

theorem traceLoop_unfold (f : Nat) (s : St) (nw : Nat) (tr : List Seg) (hm : s.hasMore = true) :
    traceLoop (f + 1) s nw tr =
      match encodeMode (latched s) with
      | .error e => .error e
      | .ok s' =>
        if s'.cw.length < (latched s).cw.length then .error (.panic "codewords.len() - len")
        else if s'.cw.length - (latched s).cw.length ≤ 1 then
          (if nw + 1 > 5 then .error (.panic "no progress in encoder")
           else traceLoop f s' (nw + 1) (tr ++ [((latched s).pos, s'.pos, (latched s).mode)]))
        else traceLoop f s' 0 (tr ++ [((latched s).pos, s'.pos, (latched s).mode)]) := by
  rw [traceLoop]
  simp only [hm, Bool.not_true, Bool.false_eq_true, ↓reduceIte]
  unfold latched
  cases s.newMode <;> rfl

theorem traceLoop_end (f : Nat) (s : St) (nw : Nat) (tr : List Seg) (h : s.hasMore = false) :
    traceLoop (f + 1) s nw tr = .ok (s, tr) := by
  rw [traceLoop]; simp [h]

/-- **The instrumented loop is the main loop**: it fails where `mainLoop` fails, with the same error,
and otherwise returns the state `mainLoop` returns. -/
theorem traceLoop_fst : ∀ (f : Nat) (s : St) (nw : Nat) (tr : List Seg),
    (traceLoop f s nw tr).map Prod.fst = mainLoop f s nw := by
  intro f
  induction f with
  | zero => intro s nw tr; rfl
  | succ f ih =>
    intro s nw tr
    by_cases hm : s.hasMore = true
    · rw [traceLoop_unfold f s nw tr hm, mainLoop_unfold f s nw hm]
      cases encodeMode (latched s) with
      | error e => rfl
      | ok s' =>
        simp only []
        split
        · rfl
        · split
          · split
            · rfl
            · exact ih _ _ _
          · exact ih _ _ _
    · have hm' : s.hasMore = false := by simpa using hm
      rw [traceLoop_end f s nw tr hm', mainLoop_end f s nw hm']
      rfl

theorem traceLoop_ok_main {f : Nat} {s sE : St} {nw : Nat} {tr out : List Seg}
    (h : traceLoop f s nw tr = .ok (sE, out)) : mainLoop f s nw = .ok sE := by
  rw [← traceLoop_fst f s nw tr, h]; rfl

theorem main_ok_traceLoop {f : Nat} {s sE : St} {nw : Nat} (tr : List Seg)
    (h : mainLoop f s nw = .ok sE) : ∃ out, traceLoop f s nw tr = .ok (sE, out) := by
  have := traceLoop_fst f s nw tr
  rw [h] at this
  cases ht : traceLoop f s nw tr with
  | error e => rw [ht] at this; cases this
  | ok p =>
    obtain ⟨a, b⟩ := p
    rw [ht] at this
    simp only [Except.map, Except.ok.injEq] at this
    subst this
    exact ⟨b, rfl⟩

theorem traceLoop_round (f : Nat) (s s' : St) (nw : Nat) (tr : List Seg) (hm : s.hasMore = true)
    (he : encodeMode (latched s) = .ok s') (hle : (latched s).cw.length ≤ s'.cw.length) (hnw : nw ≤ 4) :
    traceLoop (f + 1) s nw tr =
      traceLoop f s' (if s'.cw.length - (latched s).cw.length ≤ 1 then nw + 1 else 0) (tr ++ [(s.pos, s'.pos, s.mode)]) := by
  rw [traceLoop_unfold f s nw tr hm, he, latched_pos, latched_mode]
  simp only []
  rw [if_neg (by omega)]
  split
  · rw [if_neg (by omega)]
  · rfl

theorem traceLoop_round_err (f : Nat) (s : St) (nw : Nat) (tr : List Seg) (e : EErr) (hm : s.hasMore = true)
    (he : encodeMode (latched s) = .error e) : traceLoop (f + 1) s nw tr = .error e := by
  rw [traceLoop_unfold f s nw tr hm, he]

theorem traceLoop_pop (s : St) (r : Nat) (m' : EMode) (rest : List (Nat × EMode)) (hmode : s.mode = .ascii)
    (hnm : s.newMode = none) (hp : s.plan = (s.charsLeft, .ascii) :: (r, m') :: rest) (hr : r < s.charsLeft)
    (f nw : Nat) (tr : List Seg) : traceLoop f s nw tr = traceLoop f { s with plan := (r, m') :: rest } nw tr := by
  cases f with
  | zero => rfl
  | succ f =>
    have hm : s.hasMore = true := by
      unfold St.charsLeft at hr
      simp only [St.hasMore, decide_eq_true_eq]; omega
    have hm2 : ({ s with plan := (r, m') :: rest } : St).hasMore = true := hm
    have hl1 : latched s = s := by unfold latched; rw [hnm]
    have hl2 : latched { s with plan := (r, m') :: rest } = { s with plan := (r, m') :: rest } := by
      unfold latched; simp only [hnm]
    rw [traceLoop_unfold f s nw tr hm, traceLoop_unfold f _ nw tr hm2, hl1, hl2, ascii_pop s r m' rest hmode hp hr]

/-! ### the segments of the plan -/

/-- the plan `P` (for a message of `n` characters) assigns the stretch `[a, b)` to the mode `m`: two
consecutive entries `(n - a, m)`, `(n - b, _)`; or `a = 0`, `m` = ASCII and `P` begins with `(n - b, _)`
(the leading ASCII entry is not in the list when there are no prefix codewords) — in which case ASCII
is an enabled mode (`AsciiOn`) -/
def PlanSeg (AsciiOn : Prop) (P : List (Nat × EMode)) (n a b : Nat) (m : EMode) : Prop :=
  (∃ A m' t, P = A ++ (n - a, m) :: (n - b, m') :: t) ∨
  (a = 0 ∧ m = .ascii ∧ AsciiOn ∧ ∃ m' t, P = (n - b, m') :: t)

def SegsOK (AsciiOn : Prop) (P : List (Nat × EMode)) (n : Nat) (segs : List Seg) : Prop :=
  ∀ e ∈ segs, e.1 < e.2.1 → PlanSeg AsciiOn P n e.1 e.2.1 e.2.2

theorem planSeg_fin {AsciiOn : Prop} (W n a b : Nat) (m m' : EMode) (A t : List (Nat × EMode)) (hn : 0 < n)
    (hroot : (A ++ (n - a, m) :: (n - b, m') :: t).head? = some (n, .ascii) → AsciiOn) :
    PlanSeg AsciiOn (finPlan W n (A ++ (n - a, m) :: (n - b, m') :: t)) n a b m := by
  unfold finPlan
  split
  · rename_i hc
    cases A with
    | nil =>
      right
      have hh := hc.2
      simp only [List.nil_append, List.head?_cons, Option.some.injEq, Prod.mk.injEq] at hh
      exact ⟨by omega, hh.2, hroot hc.2, m', t, rfl⟩
    | cons x A' => left; exact ⟨A', m', t, rfl⟩
  · left; exact ⟨A, m', t, rfl⟩

theorem tiles_snoc : ∀ (segs : List Seg) (a b c : Nat) (m : EMode), Tiles a b segs → b ≤ c →
    Tiles a c (segs ++ [(b, c, m)]) := by
  intro segs
  induction segs with
  | nil =>
    intro a b c m h hbc
    simp only [Tiles] at h
    subst h
    exact ⟨rfl, hbc, rfl⟩
  | cons e t ih =>
    intro a b c m h hbc
    obtain ⟨x, y, mm⟩ := e
    obtain ⟨h1, h2, h3⟩ := h
    exact ⟨h1, h2, ih y b c m h3 hbc⟩

theorem segsOK_snoc {AsciiOn : Prop} {P : List (Nat × EMode)} {n : Nat} {segs : List Seg} {e : Seg}
    (h : SegsOK AsciiOn P n segs) (he : e.1 < e.2.1 → PlanSeg AsciiOn P n e.1 e.2.1 e.2.2) :
    SegsOK AsciiOn P n (segs ++ [e]) := by
  intro x hx
  rcases List.mem_append.mp hx with hx | hx
  · exact h x hx
  · simp only [List.mem_singleton] at hx
    subst hx
    exact he

/-! ### arrival at a segment, with the recorded calls -/

section
variable {body : List Nat} {list : List Sym} {W : Nat}

/-- `CoupleMain.Arrive` for the instrumented loop: the calls recorded so far (`segs`) tile `[0, p)` and
are segments of the plan -/
def TArrive (AsciiOn : Prop) (P : List (Nat × EMode)) (body : List Nat) (list : List Sym) (st : St) (p w : Nat)
    (m : EMode) (rest : List (Nat × EMode)) : Prop :=
  (∃ s used nw segs, PreAt body list s p w m rest ∧ used ≤ p + 1 ∧ nw ≤ 1 ∧ (m = .ascii → nw = 0) ∧
      Tiles 0 p segs ∧ SegsOK AsciiOn P body.length segs ∧
      ∀ f tr, traceLoop (used + f) st 0 tr = traceLoop f s nw (tr ++ segs)) ∨
  (∃ used, used ≤ p + 1 ∧ ∀ f tr, traceLoop (used + f) st 0 tr = .error .tooMuch) ∨
  (∃ s used nw segs, s.input = body ∧ s.list = list ∧ s.pos = p ∧ s.mode = .ascii ∧ s.plan = [(0, .ascii)] ∧
      s.newMode = none ∧ m = .ascii ∧ rest = [(0, .ascii)] ∧ used ≤ p + 1 ∧ nw ≤ 2 ∧
      Tiles 0 p segs ∧ SegsOK AsciiOn P body.length segs ∧
      ∀ f tr, traceLoop (used + f) st 0 tr = traceLoop f s nw (tr ++ segs))

theorem tarrive {AsciiOn : Prop} (pre : List Nat) (hW : W = pre.length) (hS : ∀ m, SwitchSegX m)
    (hL : ∀ m, LateSwitchSeg m) (hP : ∀ m, SegProgress m) (hb : ByteList body) (hpos : 0 < body.length)
    (L : List (Nat × EMode)) (hroot : L.head? = some (body.length, .ascii) → AsciiOn) (hok : planOK body L = true)
    {g0 : GPlan} {p w : Nat} {m : EMode} (hh : Hist body list W g0 p w m) :
    ∀ (r : Nat) (m' : EMode) (rest' : List (Nat × EMode)), r < body.length →
      L = g0.switches ++ (r, m') :: rest' →
      TArrive AsciiOn (finPlan W body.length L) body list (s0 list pre body (finPlan W body.length L)) p w m
        ((r, m') :: rest') := by
  induction hh with
  | start =>
    intro r m' rest' hr hLe
    left
    simp only [startPlan, List.cons_append, List.nil_append] at hLe
    rw [hLe]
    by_cases hw0 : W = 0
    · have : finPlan W body.length ((body.length, EMode.ascii) :: (r, m') :: rest') = (r, m') :: rest' := by
        unfold finPlan; rw [if_pos ⟨hw0, rfl⟩]; rfl
      rw [this]
      exact ⟨s0 list pre body ((r, m') :: rest'), 0, 0, [], ⟨rfl, rfl, rfl, by simp [s0, lcost_ascii, hW], rfl, rfl, rfl⟩,
        by omega, by omega, fun _ => rfl, rfl, (fun e he => nomatch he),
        fun f tr => by rw [Nat.zero_add, List.append_nil]⟩
    · have : finPlan W body.length ((body.length, EMode.ascii) :: (r, m') :: rest') =
          (body.length, EMode.ascii) :: (r, m') :: rest' := by
        unfold finPlan; rw [if_neg (fun h => hw0 h.1)]
      rw [this]
      refine ⟨s0 list pre body ((r, m') :: rest'), 0, 0, [], ⟨rfl, rfl, rfl, by simp [s0, lcost_ascii, hW], rfl, rfl, rfl⟩,
        by omega, by omega, fun _ => rfl, rfl, (fun e he => nomatch he), fun f tr => ?_⟩
      rw [Nat.zero_add, List.append_nil]
      exact traceLoop_pop (s0 list pre body ((body.length, EMode.ascii) :: (r, m') :: rest')) r m' rest' rfl rfl
        (by simp [s0, St.charsLeft]) (by simpa [s0, St.charsLeft] using hr) f 0 tr
  | first m hm =>
    intro r m' rest' hr hLe
    left
    simp only [List.cons_append, List.nil_append] at hLe
    rw [hLe, finPlan_first _ _ _ hm]
    have henc := ascii_first_switch (s0 list pre body ((body.length, m) :: (r, m') :: rest')) m ((r, m') :: rest') rfl
      (by simp [s0, St.charsLeft]) (by simpa [s0, St.charsLeft] using hpos) hm
    have hl : latched (s0 list pre body ((body.length, m) :: (r, m') :: rest')) =
        s0 list pre body ((body.length, m) :: (r, m') :: rest') := rfl
    have hmore : (s0 list pre body ((body.length, m) :: (r, m') :: rest')).hasMore = true := by
      simp [s0, St.hasMore, hpos]
    refine ⟨({ input := body, pos := 0, mode := m, plan := (r, m') :: rest', newMode := m.latch, cw := pre, list := list } : St),
      1, 1, [(0, 0, .ascii)], ⟨rfl, rfl, rfl, ?_, rfl, rfl, rfl⟩, by omega, by omega, fun h => absurd h hm,
      ⟨rfl, Nat.le_refl _, rfl⟩, ?_, fun f tr => ?_⟩
    · simp only []; omega
    · intro e he
      simp only [List.mem_singleton] at he
      subst he
      intro h
      exact absurd h (Nat.lt_irrefl _)
    · rw [Nat.add_comm 1 f, traceLoop_round f _ _ 0 tr hmore (by rw [hl]; exact henc) (by rw [hl]; exact Nat.le_refl _)
        (by omega)]
      rw [hl]
      simp [s0]
  | @switch g0 gk p w k ac m m' ctx' hh hlt hk hst hsp hsc hul hne ih =>
    intro r m'' rest' hr hLe
    simp only [List.append_assoc, List.cons_append, List.nil_append] at hLe
    have harr := ih (body.length - (p + k)) m' ((r, m'') :: rest') (by omega) hLe
    obtain ⟨A, hA⟩ := hist_last hh
    have hLA : L = A ++ (body.length - p, m) :: (body.length - (p + k), m') :: (r, m'') :: rest' := by
      rw [hLe, hA]; simp
    have hhead : headOK body (body.length - p, m) ((body.length - (p + k), m') :: (r, m'') :: rest') = true := by
      rw [hLA] at hok
      exact planOK_append body _ _ A hok
    have hseg : PlanSeg AsciiOn (finPlan W body.length L) body.length p (p + k) m := by
      rw [hLA]
      exact planSeg_fin W body.length p (p + k) m m' A _ hpos (by rw [← hLA]; exact hroot)
    rcases headOK_cases hhead with hside | ⟨hc40, hlate, hr2, hma, ht⟩
    · -- the regular case
      obtain ⟨hac, hwle⟩ := switch_planner_side hS hb hh hlt hk hside hst hsp hsc hul hne
      rcases harr with ⟨s, used, nw, segs, hpre, hused, hnw, hnwa, htil, hsok, hrun⟩ | ⟨used, hused, hrun⟩ |
        ⟨s, used, nw, segs, _, _, _, _, _, _, _, hrest, _⟩
      · have henc := preAt_latched hpre
        have hmore : s.hasMore = true := by
          obtain ⟨a, _, c, _⟩ := hpre
          simp only [St.hasMore, a, c, decide_eq_true_eq]; omega
        obtain ⟨_, _, hres⟩ := hS m body list p w k g0 gk ac ctx' m' ((r, m'') :: rest') (latched s) hb hlt (Or.inl hk)
          hside (hist_plan hh) hst hsp hsc hul hne henc
        rcases hres with ⟨s', e1, e2, e3, e4, e5, e6, e7, e8⟩ | ⟨e1, e2⟩
        · left
          have hlen : (latched s).cw.length = w := henc.2.2.2.1
          have hnw' : (if s'.cw.length - (latched s).cw.length ≤ 1 then nw + 1 else 0) ≤ 1 ∧
              (m' = .ascii → (if s'.cw.length - (latched s).cw.length ≤ 1 then nw + 1 else 0) = 0) := by
            rw [hlen, e5]
            by_cases hma : m = .ascii
            · have := hnwa hma
              subst this
              refine ⟨by split <;> omega, fun h => absurd (h.trans hma.symm) hne⟩
            · have := hP m body list p w k g0 gk ac ctx' hb hlt hk hma hside (hist_plan hh) hst hsp hsc hul
              rw [if_neg (by omega)]
              exact ⟨by omega, fun _ => rfl⟩
          refine ⟨s', used + 1, _, segs ++ [(p, p + k, m)], ⟨e2, e3, e4, by rw [e5], e6, e7, e8⟩, by omega, hnw'.1, hnw'.2,
            tiles_snoc segs 0 p (p + k) m htil (by omega), segsOK_snoc hsok (fun _ => hseg), fun f tr => ?_⟩
          rw [Nat.add_assoc, Nat.add_comm 1 f, hrun (f + 1)]
          rw [traceLoop_round f s s' nw _ hmore e1 (by rw [hlen, e5]; exact hwle) (by omega)]
          rw [hpre.2.2.1, hpre.2.2.2.2.1, e4, List.append_assoc]
        · right; left
          refine ⟨used + 1, by omega, fun f tr => ?_⟩
          rw [Nat.add_assoc, Nat.add_comm 1 f, hrun (f + 1)]
          exact traceLoop_round_err f s nw _ _ hmore e1
      · right; left
        exact ⟨used, by omega, hrun⟩
      · exfalso
        simp only [List.cons.injEq, Prod.mk.injEq] at hrest
        omega
    · -- C40 / Text, then ASCII for the two final digits
      simp only [] at hc40
      simp only [List.cons.injEq, Prod.mk.injEq] at ht
      obtain ⟨hr0, hm''⟩ := ht.1
      have hrest' : rest' = [] := ht.2
      subst hma hr0 hm'' hrest'
      have hlt2 : p + k + 2 = body.length := by omega
      rw [hr2] at hlate
      obtain ⟨hac, hwle⟩ := late_planner_side hL hb hh hlt2 hk hc40 hlate hst hsp hsc hul
      rw [hr2] at harr
      rcases harr with ⟨s, used, nw, segs, hpre, hused, hnw, hnwa, htil, hsok, hrun⟩ | ⟨used, hused, hrun⟩ |
        ⟨s, used, nw, segs, _, _, _, _, _, _, _, hrest, _⟩
      · have henc := preAt_latched hpre
        have hmore : s.hasMore = true := by
          obtain ⟨a, _, c, _⟩ := hpre
          simp only [St.hasMore, a, c, decide_eq_true_eq]; omega
        obtain ⟨_, _, hres⟩ := hL m body list p w k g0 gk ac ctx' (latched s) hb hlt2 hk hc40 hlate
          (hist_plan hh) hst hsp hsc hul henc
        have hlen : (latched s).cw.length = w := henc.2.2.2.1
        rcases hres with ⟨s', e1, e2, e3, e4, e5, e6, e7, e8, e9⟩ | ⟨e1, e2⟩
        · right; right
          refine ⟨s', used + 1, (if s'.cw.length - (latched s).cw.length ≤ 1 then nw + 1 else 0), segs ++ [(p, p + k, m)],
            e2, e3, e4, e5, e6, e7, rfl, rfl, by omega, ?_,
            tiles_snoc segs 0 p (p + k) m htil (by omega), segsOK_snoc hsok (fun _ => hseg), fun f tr => ?_⟩
          · split <;> omega
          · rw [Nat.add_assoc, Nat.add_comm 1 f, hrun (f + 1)]
            rw [traceLoop_round f s s' nw _ hmore e1 (by rw [hlen]; exact e8) (by omega)]
            rw [hpre.2.2.1, hpre.2.2.2.2.1, e4, List.append_assoc]
        · right; left
          refine ⟨used + 1, by omega, fun f tr => ?_⟩
          rw [Nat.add_assoc, Nat.add_comm 1 f, hrun (f + 1)]
          exact traceLoop_round_err f s nw _ _ hmore e1
      · right; left
        exact ⟨used, by omega, hrun⟩
      · exfalso
        simp only [List.cons.injEq, Prod.mk.injEq] at hrest
        omega

end

/-! ### the whole run -/

theorem ascii_tail_eq (s : St) (hmode : s.mode = .ascii) (hp : s.plan = [(0, .ascii)]) (hpos : s.pos ≤ s.input.length) :
    encodeMode s = .ok { s with pos := s.input.length, cw := s.cw ++ asciiEnc s.rest } := by
  have : encodeMode s = asciiLoop (s.charsLeft + 2) s := by unfold encodeMode; rw [hmode]
  rw [this]
  exact asciiLoop_spec (s.input.length - s.pos) (s.charsLeft + 2) s hp hmode hpos (Nat.le_refl _)
    (by unfold St.charsLeft; omega)

/-- what `trace_final` says about the recorded calls `tr` of a run on the plan `P` for `n` characters:
all calls but the last one or two are segments of the plan; the last segment `[p, n)` of the plan, of
mode `m`, is written by one call in mode `m` for `[p, q)` and, if `q < n`, one ASCII call for `[q, n)`,
which happens for C40 / Text / X12 / EDIFACT only and for at most `tailMax m` characters -/
def TraceShape (AsciiOn : Prop) (P : List (Nat × EMode)) (n : Nat) (tr : List Seg) : Prop :=
  ∃ segs p q m, tr = segs ++ (p, q, m) :: (if q < n then [(q, n, EMode.ascii)] else []) ∧
    Tiles 0 p segs ∧ SegsOK AsciiOn P n segs ∧ p ≤ q ∧ q ≤ n ∧ p < n ∧ PlanSeg AsciiOn P n p n m ∧
    (q < n → m ≠ .ascii ∧ m ≠ .base256 ∧ n - q ≤ tailMax m)

/-- **The instrumented main loop on the optimiser's plan.** -/
theorem trace_final {AsciiOn : Prop} {body : List Nat} {list : List Sym}
    (hS : ∀ m, SwitchSegX m) (hL : ∀ m, LateSwitchSeg m) (hE : ∀ m, EndSegSym m) (hP : ∀ m, SegProgress m)
    (hmono : ∀ s s' : St, encodeMode s = .ok s' → s.pos ≤ s'.pos)
    (pre : List Nat) (hb : ByteList body) (hne : body ≠ []) (best : GPlan)
    (hfin : Final body list pre.length best)
    (hroot : (best.switches ++ [(0, best.current)]).head? = some (body.length, .ascii) → AsciiOn)
    (hok : planOK body (finPlan pre.length body.length (best.switches ++ [(0, best.current)])) = true) :
    (∃ sE tr, traceLoop (2 * body.length + 8)
        (s0 list pre body (finPlan pre.length body.length (best.switches ++ [(0, best.current)]))) 0 [] = .ok (sE, tr) ∧
      TraceShape AsciiOn (finPlan pre.length body.length (best.switches ++ [(0, best.current)])) body.length tr) ∨
    traceLoop (2 * body.length + 8)
        (s0 list pre body (finPlan pre.length body.length (best.switches ++ [(0, best.current)]))) 0 [] = .error .tooMuch := by
  have hpos : 0 < body.length := List.length_pos_iff.mpr hne
  obtain ⟨g0, p, w, m, j, gk, r, hh, hst, hpj, hj, hs, hre⟩ := hfin
  obtain ⟨hck, hcur, hsw, _, _⟩ := stepsTo_core j p g0 gk hst (hist_core hh).1
  obtain ⟨bsw, _, bcur, _, _, _⟩ := step_some_spec hck hs
  have hm0 := (hist_core hh).2
  rw [bsw, hsw, bcur, hcur, hm0] at hroot hok ⊢
  generalize hLdef : g0.switches ++ [(0, m)] = L at hroot hok ⊢
  have harr := tarrive (AsciiOn := AsciiOn) pre rfl hS hL hP hb hpos L hroot (planOK_finPlan body _ _ _ hok) hh 0 m []
    hpos hLdef.symm
  obtain ⟨A, hA⟩ := hist_last hh
  have hplt : p < body.length := by omega
  have hseg : PlanSeg AsciiOn (finPlan pre.length body.length L) body.length p body.length m := by
    have hLA : L = A ++ (body.length - p, m) :: (body.length - body.length, m) :: [] := by
      rw [← hLdef, hA, Nat.sub_self]; simp
    rw [hLA]
    exact planSeg_fin _ body.length p body.length m m A [] hpos (by rw [← hLA]; exact hroot)
  rcases harr with ⟨s, used, nw, segs, hpre, hused, hnw, _, htil, hsok, hrun⟩ | ⟨used, hused, hrun⟩ |
    ⟨s, used, nw, segs, a1, a2, a3, a4, a5, a6, a7, _, hused, hnw, htil, hsok, hrun⟩
  · obtain ⟨f, hf⟩ : ∃ f, 2 * body.length + 8 = used + (f + 3) := ⟨2 * body.length + 8 - used - 3, by omega⟩
    rw [hf, hrun (f + 3) [], List.nil_append]
    have henc := preAt_latched hpre
    have hmore : s.hasMore = true := by
      obtain ⟨a, _, c, _⟩ := hpre
      simp only [St.hasMore, a, c, decide_eq_true_eq]; omega
    obtain ⟨_, hres⟩ := hE m body list p w j g0 gk best r (latched s) hb hpj (Or.inl hj) (hist_plan hh) hst hs hre henc
    have hlen : (latched s).cw.length = w := henc.2.2.2.1
    rcases hres with ⟨s', e1, e2, e3, e4, e5, e6, e7, e8⟩ | ⟨e1, e2⟩
    · left
      rw [traceLoop_round (f + 2) s s' nw segs hmore e1 (by rw [hlen]; exact e7) (by omega)]
      generalize hnw' : (if s'.cw.length - (latched s).cw.length ≤ 1 then nw + 1 else 0) = nw'
      have hnw2 : nw' ≤ 2 := by rw [← hnw']; split <;> omega
      have hps : s.pos = p := hpre.2.2.1
      have hms : s.mode = m := hpre.2.2.2.2.1
      have hpq : p ≤ s'.pos := by
        have := hmono _ _ e1
        rw [latched_pos, hps] at this
        exact this
      by_cases hm' : s'.hasMore = true
      · obtain ⟨a1, a2⟩ := e6 hm'
        have hqn : s'.pos < body.length := by
          simpa [St.hasMore, e2] using hm'
        have htl := encodeMode_tail (latched s) s' e1 hm'
        rw [henc.2.2.2.2.2.1, a2, latched_mode, hms] at htl
        rcases htl with htl | ⟨t1, t2, _, _, t5⟩
        · simp at htl
        have t5' : body.length - s'.pos ≤ tailMax m := by
          unfold St.charsLeft at t5; rw [e2] at t5; exact t5
        have htail := ascii_tail_eq s' a1 a2 (by rw [e2]; exact e4)
        have hl' : latched s' = s' := by unfold latched; rw [e5]
        rw [traceLoop_round (f + 1) s' _ nw' _ hm' (by rw [hl']; exact htail) (by rw [hl']; simp) (by omega)]
        rw [traceLoop_end _ _ _ _ (by simp [St.hasMore])]
        refine ⟨_, _, rfl, segs, p, s'.pos, m, ?_, htil, hsok, hpq, e4, hplt, hseg, fun _ => ⟨t1, t2, t5'⟩⟩
        rw [if_pos hqn, hps, hms, a1, e2]
        simp
      · have hm'' : s'.hasMore = false := by simpa using hm'
        have hqn : ¬ s'.pos < body.length := by
          simpa [St.hasMore, e2] using hm''
        rw [traceLoop_end _ _ _ _ hm'']
        refine ⟨_, _, rfl, segs, p, s'.pos, m, ?_, htil, hsok, hpq, e4, hplt, hseg, fun h => absurd h hqn⟩
        rw [if_neg hqn, hps, hms]
    · right
      rw [traceLoop_round_err (f + 2) s nw _ _ hmore e1]
  · right
    obtain ⟨f, hf⟩ : ∃ f, 2 * body.length + 8 = used + f := ⟨2 * body.length + 8 - used, by omega⟩
    rw [hf, hrun f]
  · left
    subst a7
    obtain ⟨f, hf⟩ : ∃ f, 2 * body.length + 8 = used + (f + 2) := ⟨2 * body.length + 8 - used - 2, by omega⟩
    rw [hf, hrun (f + 2) [], List.nil_append]
    have hmore : s.hasMore = true := by
      simp only [St.hasMore, a1, a3, decide_eq_true_eq]; omega
    have htail := ascii_tail_eq s a4 a5 (by rw [a1, a3]; omega)
    have hl' : latched s = s := by unfold latched; rw [a6]
    rw [traceLoop_round (f + 1) s _ nw _ hmore (by rw [hl']; exact htail) (by rw [hl']; simp) (by omega)]
    rw [traceLoop_end _ _ _ _ (by simp [St.hasMore])]
    refine ⟨_, _, rfl, segs, p, body.length, .ascii, ?_, htil, hsok, by omega, Nat.le_refl _, hplt, hseg,
      fun h => absurd h (Nat.lt_irrefl _)⟩
    rw [if_neg (Nat.lt_irrefl _), a3, a4, a1]

end DM.Props.C13Tail
