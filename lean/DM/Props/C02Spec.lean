import DM.Lemmas.SpecAscii
import DM.Lemmas.SpecB256
import DM.Lemmas.SpecFuel
/-!
# C02 — conformant output, against the reference decoder

The round trip through the *independent* decoder `DM.Spec.Stream.decode` (written from the
encodation rules of ISO/IEC 16022 §5.2, not from the crate): what the encoder model writes for a
message planned in ASCII — characters, digit pairs, upper shift, then the pad codeword 129 and the
253-state randomised pads — is read back by the standard's rules as exactly the message, every
byte carried by ASCII encodation, no latch, no ECI, and the first pad codeword is met exactly
where the encoder started padding. The same behind the header codewords FNC1 (232) and
Macro 05 / 06 (236 / 237).

`asciiEnc` (`DM.Lemmas.AsciiRT`) is the closed form of the ASCII encoder's codewords.
-/
namespace DM.Props.C02Spec
open DM.Model DM.Lemmas DM.Lemmas.AsciiRT DM.Lemmas.SpecStep DM.Lemmas.SpecAscii DM.Lemmas.MainRT
open DM.Lemmas.SpecB256 DM.Lemmas.Complete
open DM.Spec.Stream (decode Decoded macroHead macroTrail unrand253)

/-- for the non-vacuity examples: an encoder result checked by the kernel -/
theorem run_eq_of_check {r : Enc.R (List Nat × Sym)} {cw : List Nat} {sym : Sym}
    (h : (match r with | .ok (c, s) => c == cw && s == sym | .error _ => false) = true) : r = .ok (cw, sym) := by
  match r, h with
  | .ok (c, s), h =>
    simp only [Bool.and_eq_true, beq_iff_eq] at h
    rw [h.1, h.2]

/-- the two forms of the pure ASCII plan: "ASCII until the end", and the planner's form -/
def AsciiPlan (body : List Nat) (plan : List (Nat × Enc.EMode)) : Prop :=
  plan = [(0, .ascii)] ∨ plan = [(body.length, .ascii), (0, .ascii)]

/-- encoder and reference decoder on a pure ASCII plan behind the prefix codewords `pre` -/
theorem ascii_core (list : List Sym) (pre body cw : List Nat) (sym : Sym) (plan : List (Nat × Enc.EMode))
    (hplan : AsciiPlan body plan) (hb : ∀ b ∈ body, b < 256) (h : Enc.run list pre body plan = .ok (cw, sym)) :
    cw.length = dataCw sym ∧ pre.length + (asciiEnc body).length ≤ dataCw sym ∧
    cw.take (pre.length + (asciiEnc body).length) = pre ++ asciiEnc body ∧
    (pre.length + (asciiEnc body).length < dataCw sym → cw.getD (pre.length + (asciiEnc body).length) 0 = 129) ∧
    DM.Spec.Stream.run cw.toArray (3 * cw.length + 4) { i := pre.length } =
      .ok (asciiFinal cw.length body
        (if pre.length + (asciiEnc body).length = dataCw sym then none else some (pre.length + (asciiEnc body).length))) := by
  obtain ⟨sE', hmain', hsym, hpad⟩ := run_unfoldP list pre body cw plan sym h
  obtain ⟨sE, hmain, hcw, hmode⟩ := mainLoop_asciiP list pre body plan hplan
  have : sE' = sE := by
    have : Except.ok sE' = (Except.ok sE : Enc.R Enc.St) := by rw [← hmain', ← hmain]; rfl
    exact Except.ok.inj this
  subst this
  have hle := DM.Lemmas.X12RT.firstBigEnough_le list _ sym hsym
  obtain ⟨out, hout, hlen, htake, _, hrest⟩ := DM.Props.C02.padding_conformant sE'.cw (sE'.mode == .ascii) (dataCw sym) hle
  rw [hpad] at hout
  cases hout
  have hL : sE'.cw.length = pre.length + (asciiEnc body).length := by rw [hcw]; simp
  have hasc : (sE'.mode == Enc.EMode.ascii) = true := by rw [hmode]; decide
  obtain ⟨h129, hpads⟩ := hrest sE'.cw.length (by simp [hasc])
  rw [hL] at hle htake h129 hpads
  rw [hcw] at htake
  refine ⟨hlen, hle, htake, h129, ?_⟩
  have := spec_run_ascii cw pre body hb _ rfl (by omega) htake (by rw [hlen]; exact h129) (by rw [hlen]; exact hpads)
  rw [this, hlen]


/-- the first codeword of an ASCII stream with its padding is no header codeword -/
theorem ascii_head (body cw : List Nat) (cap : Nat) (hb : ∀ b ∈ body, b < 256) (hlen : cw.length = cap)
    (htake : cw.take (asciiEnc body).length = asciiEnc body)
    (h129 : (asciiEnc body).length < cap → cw.getD (asciiEnc body).length 0 = 129) :
    ∀ c ∈ cw.head?, c ≠ 232 ∧ c ≠ 236 ∧ c ≠ 237 := by
  intro c hc
  cases he : asciiEnc body with
  | nil =>
    rw [he] at h129
    simp only [List.length_nil] at h129
    match cw, hc with
    | x :: t, hc =>
      simp only [List.head?_cons, Option.mem_def, Option.some.injEq] at hc
      have := h129 (by rw [← hlen]; simp)
      simp at this
      omega
  | cons x xs =>
    rw [he] at htake
    match cw, htake, hc with
    | y :: t, htake, hc =>
      simp only [List.length_cons, List.take_succ_cons, List.cons.injEq] at htake
      simp only [List.head?_cons, Option.mem_def, Option.some.injEq] at hc
      have := asciiEnc_head body hb x (by rw [he]; simp)
      omega

/-- **ASCII round trip through the reference decoder.** For the pure ASCII plan (in either form),
every message of bytes and every symbol list: whatever the encoder returns, the reference decoder
accepts; it reads the message, all of it carried by ASCII encodation, without latch, ECI, FNC1 or
Macro; the stream is `asciiEnc body` followed by padding that fills the symbol, and the decoder
meets the first pad codeword exactly where the encoder's own codewords end (`none` when they fill
the symbol). -/
theorem spec_ascii_roundtrip (list : List Sym) (body cw : List Nat) (sym : Sym) (plan : List (Nat × Enc.EMode))
    (hplan : AsciiPlan body plan) (hb : ∀ b ∈ body, b < 256) (h : Enc.run list [] body plan = .ok (cw, sym)) :
    ∃ d, decode cw = .ok d ∧ d.bytes = body ∧ d.body = body ∧ d.fnc1 = false ∧ d.macro = 0 ∧ d.ecis = [] ∧
      d.latches = [] ∧ d.trace = List.replicate body.length .ascii ∧ (∀ m ∈ d.trace, m = .ascii) ∧
      cw.length = dataCw sym ∧ cw.take (asciiEnc body).length = asciiEnc body ∧
      d.padAt = (if (asciiEnc body).length = dataCw sym then none else some (asciiEnc body).length) := by
  obtain ⟨hlen, _, htake, h129, hrun⟩ := ascii_core list [] body cw sym plan hplan hb h
  simp only [List.length_nil, Nat.zero_add, List.nil_append] at htake h129 hrun
  have hd := decode_plain cw _ (ascii_head body cw (dataCw sym) hb hlen htake h129) hrun
  refine ⟨_, hd, ?_, ?_, rfl, rfl, rfl, rfl, ?_, ?_, hlen, htake, rfl⟩
  · simp [mkDecoded, asciiFinal]
  · simp [mkDecoded, asciiFinal]
  · simp [mkDecoded, asciiFinal]
  · intro m hm
    simp [mkDecoded, asciiFinal] at hm
    exact hm.2


/-- Non-vacuity: "A1234é" fills the 5-codeword symbol exactly (planner's form of the plan), "A1234éé"
needs padding; the kernel also runs the reference decoder on the second stream: it returns the
message and meets the first pad at codeword 7. -/
example : Enc.run (symbolList (List.range 30)) [] [65, 49, 50, 51, 52, 233] [(6, .ascii), (0, .ascii)] =
    .ok ([66, 142, 164, 235, 106], 1) := run_eq_of_check (by decide +kernel)
example : Enc.run (symbolList (List.range 30)) [] [65, 49, 50, 51, 52, 233, 233] [(0, .ascii)] =
    .ok ([66, 142, 164, 235, 106, 235, 106, 129], 3) := run_eq_of_check (by decide +kernel)
example : (decode [66, 142, 164, 235, 106, 235, 106, 129]).toOption.map (fun d => (d.body, d.padAt, d.latches)) =
    some ([65, 49, 50, 51, 52, 233, 233], some 7, []) := by decide +kernel

/-- … and the theorem applied to that run. -/
example : ∃ d, decode [66, 142, 164, 235, 106, 235, 106, 129] = .ok d ∧ d.body = [65, 49, 50, 51, 52, 233, 233] ∧
    d.padAt = some 7 := by
  obtain ⟨d, h1, _, h3, _, _, _, _, _, _, _, _, h12⟩ :=
    spec_ascii_roundtrip (symbolList (List.range 30)) [65, 49, 50, 51, 52, 233, 233] _ _ _ (Or.inl rfl) (by decide)
      (run_eq_of_check (cw := [66, 142, 164, 235, 106, 235, 106, 129]) (sym := 3) (by decide +kernel))
  exact ⟨d, h1, h3, by rw [h12]; decide +kernel⟩

/-- behind a one-codeword header: the shape of the stream and the decoder's run -/
theorem ascii_header_core (c : Nat) (list : List Sym) (body cw : List Nat) (sym : Sym) (plan : List (Nat × Enc.EMode))
    (hplan : AsciiPlan body plan) (hb : ∀ b ∈ body, b < 256) (h : Enc.run list [c] body plan = .ok (cw, sym)) :
    ∃ t, cw = c :: t ∧ cw.length = dataCw sym ∧ cw.take (1 + (asciiEnc body).length) = c :: asciiEnc body ∧
      DM.Spec.Stream.run (c :: t).toArray (3 * (c :: t).length + 4) { i := 1 } =
        .ok (asciiFinal cw.length body
          (if 1 + (asciiEnc body).length = dataCw sym then none else some (1 + (asciiEnc body).length))) := by
  obtain ⟨hlen, _, htake, _, hrun⟩ := ascii_core list [c] body cw sym plan hplan hb h
  simp only [List.length_singleton, List.singleton_append] at htake hrun
  match cw, htake with
  | y :: t, htake' =>
    have hy : y = c := by
      rw [Nat.add_comm, List.take_succ_cons] at htake'
      exact (List.cons.inj htake').1
    subst hy
    exact ⟨t, rfl, hlen, htake', hrun⟩

/-- **The same behind FNC1** (GS1: first codeword 232). -/
theorem spec_ascii_roundtrip_fnc1 (list : List Sym) (body cw : List Nat) (sym : Sym) (plan : List (Nat × Enc.EMode))
    (hplan : AsciiPlan body plan) (hb : ∀ b ∈ body, b < 256) (h : Enc.run list [232] body plan = .ok (cw, sym)) :
    ∃ d, decode cw = .ok d ∧ d.bytes = body ∧ d.body = body ∧ d.fnc1 = true ∧ d.macro = 0 ∧ d.ecis = [] ∧
      d.latches = [] ∧ d.trace = List.replicate body.length .ascii ∧ (∀ m ∈ d.trace, m = .ascii) ∧
      cw.length = dataCw sym ∧ cw.take (1 + (asciiEnc body).length) = 232 :: asciiEnc body ∧
      d.padAt = (if 1 + (asciiEnc body).length = dataCw sym then none else some (1 + (asciiEnc body).length)) := by
  obtain ⟨t, hcw, hlen, htake, hrun⟩ := ascii_header_core 232 list body cw sym plan hplan hb h
  have hd := decode_fnc1 t _ hrun
  rw [← hcw] at hd
  refine ⟨_, hd, ?_, ?_, rfl, rfl, rfl, rfl, ?_, ?_, hlen, htake, rfl⟩
  · simp [mkDecoded, asciiFinal]
  · simp [mkDecoded, asciiFinal]
  · simp [mkDecoded, asciiFinal]
  · intro m hm
    simp [mkDecoded, asciiFinal] at hm
    exact hm.2

/-- Non-vacuity: GS1 data "012345A" behind FNC1. -/
example : Enc.run (symbolList (List.range 30)) [232] [48, 49, 50, 51, 52, 53, 65] [(0, .ascii)] =
    .ok ([232, 131, 153, 175, 66], 1) := run_eq_of_check (by decide +kernel)
example : (decode [232, 131, 153, 175, 66]).toOption.map (fun d => (d.body, d.fnc1, d.padAt)) =
    some ([48, 49, 50, 51, 52, 53, 65], true, none) := by decide +kernel

/-- **The same behind Macro 05** (first codeword 236): the decoder supplies header and trailer. -/
theorem spec_ascii_roundtrip_macro05 (list : List Sym) (body cw : List Nat) (sym : Sym) (plan : List (Nat × Enc.EMode))
    (hplan : AsciiPlan body plan) (hb : ∀ b ∈ body, b < 256) (h : Enc.run list [236] body plan = .ok (cw, sym)) :
    ∃ d, decode cw = .ok d ∧ d.bytes = macroHead 5 ++ body ++ macroTrail ∧ d.body = body ∧ d.fnc1 = false ∧
      d.macro = 5 ∧ d.ecis = [] ∧
      d.latches = [] ∧ d.trace = List.replicate body.length .ascii ∧ (∀ m ∈ d.trace, m = .ascii) ∧
      cw.length = dataCw sym ∧ cw.take (1 + (asciiEnc body).length) = 236 :: asciiEnc body ∧
      d.padAt = (if 1 + (asciiEnc body).length = dataCw sym then none else some (1 + (asciiEnc body).length)) := by
  obtain ⟨t, hcw, hlen, htake, hrun⟩ := ascii_header_core 236 list body cw sym plan hplan hb h
  have hd := decode_macro5 t _ hrun
  rw [← hcw] at hd
  refine ⟨_, hd, ?_, ?_, rfl, rfl, rfl, rfl, ?_, ?_, hlen, htake, rfl⟩
  · simp [mkDecoded, asciiFinal]
  · simp [mkDecoded, asciiFinal]
  · simp [mkDecoded, asciiFinal]
  · intro m hm
    simp [mkDecoded, asciiFinal] at hm
    exact hm.2

/-- Non-vacuity: body "AÈ" behind the Macro 05 codeword, one pad. -/
example : Enc.run (symbolList (List.range 30)) [236] [65, 200] [(0, .ascii)] = .ok ([236, 66, 235, 73, 129], 1) := by
  exact run_eq_of_check (by decide +kernel)
example : (decode [236, 66, 235, 73, 129]).toOption.map (fun d => (d.bytes, d.body, d.macro, d.padAt)) =
    some ([91, 41, 62, 30, 48, 53, 29, 65, 200, 30, 4], [65, 200], 5, some 4) := by decide +kernel

/-- **The same behind Macro 06** (first codeword 237). -/
theorem spec_ascii_roundtrip_macro06 (list : List Sym) (body cw : List Nat) (sym : Sym) (plan : List (Nat × Enc.EMode))
    (hplan : AsciiPlan body plan) (hb : ∀ b ∈ body, b < 256) (h : Enc.run list [237] body plan = .ok (cw, sym)) :
    ∃ d, decode cw = .ok d ∧ d.bytes = macroHead 6 ++ body ++ macroTrail ∧ d.body = body ∧ d.fnc1 = false ∧
      d.macro = 6 ∧ d.ecis = [] ∧
      d.latches = [] ∧ d.trace = List.replicate body.length .ascii ∧ (∀ m ∈ d.trace, m = .ascii) ∧
      cw.length = dataCw sym ∧ cw.take (1 + (asciiEnc body).length) = 237 :: asciiEnc body ∧
      d.padAt = (if 1 + (asciiEnc body).length = dataCw sym then none else some (1 + (asciiEnc body).length)) := by
  obtain ⟨t, hcw, hlen, htake, hrun⟩ := ascii_header_core 237 list body cw sym plan hplan hb h
  have hd := decode_macro6 t _ hrun
  rw [← hcw] at hd
  refine ⟨_, hd, ?_, ?_, rfl, rfl, rfl, rfl, ?_, ?_, hlen, htake, rfl⟩
  · simp [mkDecoded, asciiFinal]
  · simp [mkDecoded, asciiFinal]
  · simp [mkDecoded, asciiFinal]
  · intro m hm
    simp [mkDecoded, asciiFinal] at hm
    exact hm.2

/-- Non-vacuity: Macro 06, exact fit (planner's form) and one pad. -/
example : Enc.run (symbolList (List.range 30)) [237] [65, 200, 66, 66, 66, 66] [(6, .ascii), (0, .ascii)] =
    .ok ([237, 66, 235, 73, 67, 67, 67, 67], 3) := run_eq_of_check (by decide +kernel)
example : Enc.run (symbolList (List.range 30)) [237] [65, 200, 66, 66, 66] [(5, .ascii), (0, .ascii)] =
    .ok ([237, 66, 235, 73, 67, 67, 67, 129], 3) := run_eq_of_check (by decide +kernel)

/-- the macro prefix model (`DM.Model.macroPrefix`) and the reference decoder agree on header and trailer -/
example : macroHead 5 = HEAD05 ∧ macroHead 6 = HEAD06 ∧ macroTrail = TRAIL := by decide


/-! ## Base 256

`b256Hdr body toEnd` is the length field (`[0]` = "to the end of the symbol", one codeword up to
249 bytes, two codewords up to 1555), `randFrom 2 F` the 255-state randomisation of the field `F`
standing at codeword positions 2, 3, … (`DM.Lemmas.Complete`). -/

/-- encoder and reference decoder on the pure Base 256 plan behind the prefix codewords `pre` -/
theorem b256_core (list : List Sym) (pre body cw : List Nat) (sym : Sym) (hb : ∀ b ∈ body, b < 256) (hne : body ≠ [])
    (h : Enc.run list pre body [(body.length, .base256), (0, .base256)] = .ok (cw, sym)) :
    ∃ toEnd L, L = pre.length + 1 + (b256Hdr body toEnd).length + body.length ∧ cw.length = dataCw sym ∧
      cw.take L = pre ++ [231] ++ randFrom (pre.length + 2) (b256Hdr body toEnd ++ body) ∧
      (toEnd = true → L = dataCw sym) ∧ (toEnd = false → body.length ≤ 1555) ∧
      DM.Spec.Stream.run cw.toArray (3 * cw.length + 4) { i := pre.length } =
        .ok (b256Final pre.length cw.length body (if L = dataCw sym then none else some L)) := by
  obtain ⟨toEnd, L, hL, hlen, hle, htake, hend, hmax, h129, hpads⟩ := run_b256_shape list pre body cw sym hb hne h
  have hpos : 0 < body.length := List.length_pos_iff.mpr hne
  have hrun := spec_run_b256 cw pre body toEnd hb L hL (by omega) htake (by rw [hlen]; exact hend)
    (fun ht => ⟨hpos, hmax ht⟩) (by rw [hlen]; exact h129) (by rw [hlen]; exact hpads)
  rw [hlen] at hrun
  exact ⟨toEnd, L, hL, hlen, htake, hend, hmax, by rw [hlen]; exact hrun⟩

/-- **Base 256 round trip through the reference decoder.** For a non-empty message planned entirely
in Base 256: the reference decoder accepts what the encoder returns and reads the message, every
byte carried by Base 256, after the single latch at codeword 0; the stream is the latch, the
randomised field (length in one of its three forms, then the data) and padding; the "to the end
of the symbol" form is used only when the field fills the symbol; the first pad codeword is met
exactly behind the field. -/
theorem spec_b256_roundtrip (list : List Sym) (body cw : List Nat) (sym : Sym) (hb : ∀ b ∈ body, b < 256)
    (hne : body ≠ []) (h : Enc.run list [] body [(body.length, .base256), (0, .base256)] = .ok (cw, sym)) :
    ∃ d toEnd L, L = 1 + (b256Hdr body toEnd).length + body.length ∧
      decode cw = .ok d ∧ d.bytes = body ∧ d.body = body ∧ d.fnc1 = false ∧ d.macro = 0 ∧ d.ecis = [] ∧
      d.latches = [(0, .base256)] ∧ d.trace = List.replicate body.length .base256 ∧ (∀ m ∈ d.trace, m = .base256) ∧
      cw.length = dataCw sym ∧ cw.take L = [231] ++ randFrom 2 (b256Hdr body toEnd ++ body) ∧
      (toEnd = true → L = dataCw sym) ∧ (toEnd = false → body.length ≤ 1555) ∧
      d.padAt = (if L = dataCw sym then none else some L) := by
  obtain ⟨toEnd, L, hL, hlen, htake, hend, hmax, hrun⟩ := b256_core list [] body cw sym hb hne h
  simp only [List.length_nil, Nat.zero_add, List.nil_append] at hL htake hrun
  have hpos : 0 < body.length := List.length_pos_iff.mpr hne
  have hhead : ∀ c ∈ cw.head?, c ≠ 232 ∧ c ≠ 236 ∧ c ≠ 237 := by
    intro c hc
    match cw, htake, hc with
    | [], htake, _ =>
      have : L = (0 + 1) + ((b256Hdr body toEnd).length + body.length - 1 + 1) := by omega
      rw [this] at htake
      simp at htake
    | y :: t, htake, hc =>
      have : L = ((b256Hdr body toEnd).length + body.length) + 1 := by omega
      rw [this, List.take_succ_cons] at htake
      simp only [List.head?_cons, Option.mem_def, Option.some.injEq] at hc
      have := (List.cons.inj htake).1
      omega
  have hd := decode_plain cw _ hhead hrun
  refine ⟨_, toEnd, L, hL, hd, ?_, ?_, rfl, rfl, rfl, ?_, ?_, ?_, hlen, htake, hend, hmax, rfl⟩
  · simp [mkDecoded, b256Final]
  · simp [mkDecoded, b256Final]
  · simp [mkDecoded, b256Final]
  · simp [mkDecoded, b256Final]
  · intro m hm
    simp [mkDecoded, b256Final] at hm
    exact hm.2

/-- the header codewords and what the reference decoder reports for them -/
def hdrMacro (c : Nat) : Nat := if c = 236 then 5 else if c = 237 then 6 else 0

/-- **Base 256 behind a header codeword** `c` = 232 (FNC1), 236 (Macro 05) or 237 (Macro 06): the
latch now stands at codeword 1 and the randomisation starts at position 3. -/
theorem spec_b256_roundtrip_header (c : Nat) (hc : c = 232 ∨ c = 236 ∨ c = 237) (list : List Sym) (body cw : List Nat)
    (sym : Sym) (hb : ∀ b ∈ body, b < 256) (hne : body ≠ [])
    (h : Enc.run list [c] body [(body.length, .base256), (0, .base256)] = .ok (cw, sym)) :
    ∃ d toEnd L, L = 2 + (b256Hdr body toEnd).length + body.length ∧
      decode cw = .ok d ∧ d.body = body ∧ d.fnc1 = (c == 232) ∧ d.macro = hdrMacro c ∧
      d.bytes = (if c = 232 then body else macroHead (hdrMacro c) ++ body ++ macroTrail) ∧ d.ecis = [] ∧
      d.latches = [(1, .base256)] ∧ d.trace = List.replicate body.length .base256 ∧ (∀ m ∈ d.trace, m = .base256) ∧
      cw.length = dataCw sym ∧ cw.take L = c :: 231 :: randFrom 3 (b256Hdr body toEnd ++ body) ∧
      (toEnd = true → L = dataCw sym) ∧ (toEnd = false → body.length ≤ 1555) ∧
      d.padAt = (if L = dataCw sym then none else some L) := by
  obtain ⟨toEnd, L, hL, hlen, htake, hend, hmax, hrun⟩ := b256_core list [c] body cw sym hb hne h
  simp only [List.length_singleton, List.cons_append, List.nil_append] at hL htake hrun
  have hL' : L = 2 + (b256Hdr body toEnd).length + body.length := by omega
  match cw, htake, hrun, hlen with
  | y :: t, htake, hrun, hlen =>
    have hy : y = c := by
      have : L = (1 + (b256Hdr body toEnd).length + body.length) + 1 := by omega
      rw [this, List.take_succ_cons] at htake
      exact (List.cons.inj htake).1
    subst hy
    have hfin : ∀ d : Decoded, d = mkDecoded (b256Final 1 (y :: t).length body (if L = dataCw sym then none else some L))
        (hdrMacro y) (y == 232) →
        d.body = body ∧ d.fnc1 = (y == 232) ∧ d.macro = hdrMacro y ∧
        d.bytes = (if y = 232 then body else macroHead (hdrMacro y) ++ body ++ macroTrail) ∧ d.ecis = [] ∧
        d.latches = [(1, .base256)] ∧ d.trace = List.replicate body.length .base256 ∧ (∀ m ∈ d.trace, m = .base256) ∧
        d.padAt = (if L = dataCw sym then none else some L) := by
      intro d hd
      subst hd
      refine ⟨by simp [mkDecoded, b256Final], rfl, rfl, ?_, rfl, by simp [mkDecoded, b256Final],
        by simp [mkDecoded, b256Final], ?_, rfl⟩
      · rcases hc with rfl | rfl | rfl <;> simp [mkDecoded, b256Final, hdrMacro]
      · intro m hm
        simp [mkDecoded, b256Final] at hm
        exact hm.2
    rcases hc with rfl | rfl | rfl
    · have hd := decode_fnc1 t _ hrun
      obtain ⟨a1, a2, a3, a4, a5, a6, a7, a8, a9⟩ := hfin _ rfl
      exact ⟨_, toEnd, L, hL', hd, a1, a2, a3, a4, a5, a6, a7, a8, hlen, htake, hend, hmax, a9⟩
    · have hd := decode_macro5 t _ hrun
      obtain ⟨a1, a2, a3, a4, a5, a6, a7, a8, a9⟩ := hfin _ rfl
      exact ⟨_, toEnd, L, hL', hd, a1, a2, a3, a4, a5, a6, a7, a8, hlen, htake, hend, hmax, a9⟩
    · have hd := decode_macro6 t _ hrun
      obtain ⟨a1, a2, a3, a4, a5, a6, a7, a8, a9⟩ := hfin _ rfl
      exact ⟨_, toEnd, L, hL', hd, a1, a2, a3, a4, a5, a6, a7, a8, hlen, htake, hend, hmax, a9⟩

/-- Non-vacuity: the "to the end of the symbol" form, an explicit one-codeword length with padding,
and a 250-byte message (two-codeword length, filling the 280-codeword symbol); the kernel runs
the reference decoder on the first two streams. -/
example : Enc.run (symbolList (List.range 30)) [] [200, 201, 202] [(3, .base256), (0, .base256)] =
    .ok ([231, 44, 137, 32, 182], 1) := run_eq_of_check (by decide +kernel)
example : Enc.run (symbolList (List.range 30)) [] [200, 201] [(2, .base256), (0, .base256)] =
    .ok ([231, 46, 137, 32, 129], 1) := run_eq_of_check (by decide +kernel)
example : (decode [231, 44, 137, 32, 182]).toOption.map (fun d => (d.body, d.padAt, d.latches, d.trace)) =
    some ([200, 201, 202], none, [(0, .base256)], [.base256, .base256, .base256]) := by decide +kernel
example : (decode [231, 46, 137, 32, 129]).toOption.map (fun d => (d.body, d.padAt, d.latches)) =
    some ([200, 201], some 4, [(0, .base256)]) := by decide +kernel
example : (match Enc.run master [] (List.replicate 250 7) [(250, .base256), (0, .base256)] with
    | .ok (cw, sym) => cw.take 3 == [231, 38, 193] && cw.length == 280 && sym == 39
    | .error _ => false) = true := by decide +kernel

/-- Non-vacuity: two bytes behind FNC1 ("to the end of the symbol" form at position 3) and five
bytes behind Macro 06; the kernel runs the reference decoder on the first stream. -/
example : Enc.run (symbolList (List.range 30)) [232] [200, 201] [(2, .base256), (0, .base256)] =
    .ok ([232, 231, 193, 31, 181], 1) := run_eq_of_check (by decide +kernel)
example : Enc.run (symbolList (List.range 30)) [237] [200, 201, 202, 203, 204] [(5, .base256), (0, .base256)] =
    .ok ([237, 231, 193, 31, 181, 76, 227, 121], 3) := run_eq_of_check (by decide +kernel)
example : (decode [232, 231, 193, 31, 181]).toOption.map (fun d => (d.body, d.fnc1, d.padAt, d.latches)) =
    some ([200, 201], true, none, [(1, .base256)]) := by decide +kernel

/-- the empty message under the Base 256 plan is the empty ASCII message: padding only -/
theorem spec_b256_roundtrip_nil (list : List Sym) (cw : List Nat) (sym : Sym)
    (h : Enc.run list [] [] [(([] : List Nat).length, .base256), (0, .base256)] = .ok (cw, sym)) :
    ∃ d, decode cw = .ok d ∧ d.bytes = [] ∧ d.body = [] ∧ d.fnc1 = false ∧ d.macro = 0 ∧ d.ecis = [] ∧
      d.latches = [] ∧ d.trace = [] ∧ cw.length = dataCw sym ∧
      d.padAt = (if 0 = dataCw sym then none else some 0) := by
  have : Enc.run list [] [] [(([] : List Nat).length, Enc.EMode.base256), (0, .base256)] = Enc.run list [] [] [(0, .ascii)] := by
    unfold Enc.run
    simp only [List.length_nil]
    rw [Enc.mainLoop, Enc.mainLoop]
    simp [Enc.St.hasMore]
  rw [this] at h
  obtain ⟨d, h1, h2, h3, h4, h5, h6, h7, h8, _, h10, _, h12⟩ :=
    spec_ascii_roundtrip list [] cw sym _ (Or.inl rfl) (by simp) h
  exact ⟨d, h1, h2, h3, h4, h5, h6, h7, by simpa using h8, h10, by rw [h12]; simp only [asciiEnc, List.length_nil]; split <;> simp_all⟩

/-- Non-vacuity: the empty message in the 3-codeword symbol (the repository's `test_empty`). -/
example : Enc.run (symbolList (List.range 30)) [] [] [(([] : List Nat).length, .base256), (0, .base256)] =
    .ok ([129, 175, 70], 0) := run_eq_of_check (by decide +kernel)

/-! ## The reference decoder itself: its fuel always suffices

`DM.Spec.Stream.run` takes fuel and returns its current state when the fuel is used up. Every step
decreases `2 · (codewords left) + [mode ≠ ASCII]` (`SpecStep.step_measure`), so with the fuel
`decode` supplies this never happens: every result of the reference decoder — on any codeword
stream, not only on encoder output — comes from a run that reached the end of the stream. -/

theorem spec_decode_finished (cwl : List Nat) (d : Decoded) (h : decode cwl = .ok d) :
    ∃ s i0, i0 ≤ 1 ∧ DM.Spec.Stream.run cwl.toArray (3 * cwl.length + 4) { i := i0 } = .ok s ∧
      DM.Spec.Stream.step cwl.toArray s = .ok none ∧
      d.body = s.out.toList ∧ d.trace = s.trace.toList ∧ d.latches = s.latches.toList ∧ d.ecis = s.ecis.toList ∧
      d.padAt = s.padAt :=
  decode_finished cwl d h

/-- Non-vacuity: a stream the reference decoder accepts (C40 "AIM", unlatch, padding). -/
example : (decode [230, 91, 11, 254, 129]).toOption.map (fun d => (d.body, d.padAt)) = some ([65, 73, 77], some 4) := by
  decide +kernel

end DM.Props.C02Spec
