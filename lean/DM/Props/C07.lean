import DM.Lemmas.WriteRead
import DM.Props.C07.P0
import DM.Props.C07.P1
import DM.Props.C07.P2
import DM.Props.C07.P3
import DM.Props.C07.P4
import DM.Props.C07.P5
import DM.Props.C07.P6
import DM.Props.C07.P7
/-!
# C07 — module placement conforms to ISO/IEC 16022 Annex F and ISO/IEC 21471

Per size the kernel evaluates the model of `IndexTraversal::run` and the transcription of
Annex F and checks (`placementOK`): same ordered (codeword, bit) → module map, a bijection
onto all modules of the mapping matrix except exactly the four lower-right modules of
12/16/20/24, which carry the fixed pattern. The general theorem lifts this to every
codeword vector: writing stores bit `j` of codeword `i` in the Annex F module, and reading
back inverts writing.
-/
namespace DM.Props.C07
open DM.Gen DM.Model DM.Lemmas DM.Spec

/-- The model of the traversal equals Annex F and is a bijection, for all 48 sizes. -/
theorem placement_ok (s : Sym) (hs : s < numSizes) : placementOK s = true := by
  have hcover : ∀ s, s < numSizes →
      s ∈ part0 ++ part1 ++ part2 ++ part3 ++ part4 ++ part5 ++ part6 ++ part7 := by decide +kernel
  have := hcover s hs
  simp only [List.mem_append] at this
  rcases this with ((((((h | h) | h) | h) | h) | h) | h) | h
  · exact List.all_eq_true.mp part0_ok s h
  · exact List.all_eq_true.mp part1_ok s h
  · exact List.all_eq_true.mp part2_ok s h
  · exact List.all_eq_true.mp part3_ok s h
  · exact List.all_eq_true.mp part4_ok s h
  · exact List.all_eq_true.mp part5_ok s h
  · exact List.all_eq_true.mp part6_ok s h
  · exact List.all_eq_true.mp part7_ok s h

theorem not_mem_of_contains {l : List Nat} {q : Nat} (h : (!l.contains q) = true) : q ∉ l := by
  simpa using h

structure LayoutFacts (s : Sym) : Prop where
  eqAnnexF : layoutOf s = (AnnexF.ecc200 (contentHeight s) (contentWidth s)).chars
  len : (layoutOf s).length = totalCw s
  octets : ∀ o ∈ layoutOf s, o.length = 8 ∧ ∀ p ∈ o, p < contentHeight s * contentWidth s
  nodup : (layoutOf s).flatten.Nodup
  fixed : (AnnexF.ecc200 (contentHeight s) (contentWidth s)).fixedDark
    = if (row s).padding then [contentHeight s * contentWidth s - 1,
        contentHeight s * contentWidth s - contentWidth s - 2] else []
  count : 8 * (layoutOf s).length + (if (row s).padding then 4 else 0) = contentHeight s * contentWidth s
  corner : (row s).padding = true →
    (contentHeight s - 2) * contentWidth s + (contentWidth s - 2) ∉ (layoutOf s).flatten ∧
    (contentHeight s - 2) * contentWidth s + (contentWidth s - 1) ∉ (layoutOf s).flatten ∧
    (contentHeight s - 1) * contentWidth s + (contentWidth s - 2) ∉ (layoutOf s).flatten ∧
    (contentHeight s - 1) * contentWidth s + (contentWidth s - 1) ∉ (layoutOf s).flatten

/-- `traverse_eq_annexF`, `traverse_bijective`, `fixed_pattern` in Prop form. -/
theorem layout_facts (s : Sym) (hs : s < numSizes) : LayoutFacts s := by
  have h := placement_ok s hs
  unfold placementOK at h
  simp only [Bool.and_eq_true, beq_iff_eq, List.all_eq_true, decide_eq_true_eq] at h
  obtain ⟨⟨⟨⟨⟨⟨h1, h2⟩, h3⟩, h4⟩, h5⟩, h6⟩, h7⟩ := h
  refine ⟨h1, h2, ?_, (nodupBits_spec _ _ h4).1, h5, h6, ?_⟩
  · intro o ho
    have := h3 o ho
    exact ⟨this.1, this.2⟩
  · intro hp
    rw [hp] at h7
    simp only [if_true, Bool.and_eq_true] at h7
    obtain ⟨⟨⟨a, b⟩, c⟩, d⟩ := h7
    exact ⟨not_mem_of_contains a, not_mem_of_contains b, not_mem_of_contains c, not_mem_of_contains d⟩

theorem getD_set_ne (e : List Bool) (p q : Nat) (v : Bool) (h : p ≠ q) :
    (e.set p v).getD q false = e.getD q false := by
  simp [List.getD_eq_getElem?_getD, List.getElem?_set, h]

theorem mem_assigns (lay : List (List Nat)) (c : List Nat) (i k : Nat)
    (hi : i < lay.length) (hc : i < c.length) (hk : k < lay[i].length) (hk8 : k < 8) :
    (lay[i][k], (c[i]).testBit (7 - k)) ∈ assigns lay c := by
  unfold assigns
  rw [List.mem_flatMap]
  refine ⟨(lay[i], c[i]), ?_, ?_⟩
  · rw [List.mem_iff_getElem]
    exact ⟨i, by rw [List.length_zip]; omega, by simp⟩
  · rw [List.mem_iff_getElem]
    refine ⟨k, by simp only [List.length_zip, bitsMsb_length]; omega, ?_⟩
    simp [bitsMsb]

/-- **C07, full statement**: for every size and every codeword vector of the size's length,
`new_with_codewords` succeeds; the module that Annex F assigns to bit `k+1` of character `i+1`
holds bit `7-k` (MSB first) of codeword `i`; the fixed corner pattern is dark/light/light/dark;
and `codewords()` reads the vector back. -/
theorem placement_conformant (s : Sym) (hs : s < numSizes) (c : List Nat)
    (hc : Bytes c) (hl : c.length = totalCw s) :
    ∃ e, newWithCodewords s c = some e ∧
      e.length = contentWidth s * contentHeight s ∧
      (∀ i k, (hi : i < (AnnexF.ecc200 (contentHeight s) (contentWidth s)).chars.length) →
        (hk : k < ((AnnexF.ecc200 (contentHeight s) (contentWidth s)).chars[i]).length) →
        e.getD (((AnnexF.ecc200 (contentHeight s) (contentWidth s)).chars[i])[k]) false
          = (c.getD i 0).testBit (7 - k)) ∧
      ((row s).padding = true →
        e.getD ((contentHeight s - 2) * contentWidth s + (contentWidth s - 2)) false = true ∧
        e.getD ((contentHeight s - 2) * contentWidth s + (contentWidth s - 1)) false = false ∧
        e.getD ((contentHeight s - 1) * contentWidth s + (contentWidth s - 2)) false = false ∧
        e.getD ((contentHeight s - 1) * contentWidth s + (contentWidth s - 1)) false = true) ∧
      readCodewords e (layoutOf s) = c := by
  have F := layout_facts s hs
  have hlen : (layoutOf s).length = c.length := by rw [F.len, hl]
  -- entries before padding
  let e0 := setAll (List.replicate (contentWidth s * contentHeight s) false) (assigns (layoutOf s) c)
  have he0len : e0.length = contentWidth s * contentHeight s := by
    simp [e0, setAll_length]
  have hnd : ((assigns (layoutOf s) c).map Prod.fst).Nodup :=
    F.nodup.sublist (assigns_fst_sublist _ _)
  -- value at a layout position, before padding
  have hval0 : ∀ i k, (hi : i < (layoutOf s).length) → (hk : k < ((layoutOf s)[i]).length) →
      e0.getD ((layoutOf s)[i][k]) false = (c.getD i 0).testBit (7 - k) := by
    intro i k hi hk
    have hic : i < c.length := by omega
    have ho := F.octets _ (List.getElem_mem hi)
    have hk8 : k < 8 := by rw [← ho.1]; exact hk
    have hm := mem_assigns (layoutOf s) c i k hi hic hk hk8
    have hp : (layoutOf s)[i][k] < (List.replicate (contentWidth s * contentHeight s) false).length := by
      have := ho.2 _ (List.getElem_mem hk)
      simp; rw [Nat.mul_comm]; exact this
    have := setAll_getD_mem _ _ hnd _ _ hm hp
    rw [this, List.getD_eq_getElem?_getD, List.getElem?_eq_getElem hic]
    rfl
  -- after padding
  let e := writePadding e0 (contentHeight s) (contentWidth s) (row s).padding
  have hmemflat : ∀ i k, (hi : i < (layoutOf s).length) → (hk : k < ((layoutOf s)[i]).length) →
      (layoutOf s)[i][k] ∈ (layoutOf s).flatten := by
    intro i k hi hk
    exact List.mem_flatten.mpr ⟨_, List.getElem_mem hi, List.getElem_mem hk⟩
  have hval : ∀ i k, (hi : i < (layoutOf s).length) → (hk : k < ((layoutOf s)[i]).length) →
      e.getD ((layoutOf s)[i][k]) false = (c.getD i 0).testBit (7 - k) := by
    intro i k hi hk
    rw [← hval0 i k hi hk]
    show (writePadding e0 _ _ _).getD _ false = _
    unfold writePadding
    split
    · rename_i hp
      have hc4 := F.corner hp
      have hin := hmemflat i k hi hk
      rw [getD_set_ne, getD_set_ne]
      · intro heq; exact hc4.1 (heq ▸ hin)
      · intro heq; exact hc4.2.2.2 (heq ▸ hin)
    · rfl
  refine ⟨e, ?_, ?_, ?_, ?_, ?_⟩
  · unfold newWithCodewords
    simp only [hlen, Nat.lt_irrefl, if_false, writeCodewords_eq]
    rfl
  · show (writePadding e0 _ _ _).length = _
    unfold writePadding
    split <;> simp [he0len]
  · intro i k hi hk
    have heq := F.eqAnnexF
    have hi' : i < (layoutOf s).length := by rw [heq]; exact hi
    have hk' : k < ((layoutOf s)[i]).length := by simp only [heq]; exact hk
    have := hval i k hi' hk'
    simp only [heq] at this
    exact this
  · intro hp
    have hc4 := F.corner hp
    -- the mapping matrix is at least 2x2 with w,h >= 2 for the padded sizes: cells are in range
    have hdim : ∀ s, s < numSizes → (row s).padding = true →
        2 ≤ contentHeight s ∧ 2 ≤ contentWidth s := by decide +kernel
    obtain ⟨hh, hw⟩ := hdim s hs hp
    have hnot : ∀ q, q ∉ (layoutOf s).flatten → e0.getD q false = false := by
      intro q hq
      have : q ∉ (assigns (layoutOf s) c).map Prod.fst :=
        fun hm => hq ((assigns_fst_sublist _ _).subset hm)
      rw [setAll_getD_not_mem _ _ _ this]
      simp [List.getD_eq_getElem?_getD, List.getElem?_replicate]
      split <;> rfl
    have hw1 : contentWidth s - 1 < contentWidth s := by omega
    have hrange : ∀ a b, a < contentHeight s → b < contentWidth s →
        a * contentWidth s + b < e0.length := by
      intro a b ha hb
      rw [he0len]
      calc a * contentWidth s + b < a * contentWidth s + contentWidth s := by omega
        _ = (a + 1) * contentWidth s := by rw [Nat.add_mul, Nat.one_mul]
        _ ≤ contentHeight s * contentWidth s := Nat.mul_le_mul_right _ ha
        _ = contentWidth s * contentHeight s := Nat.mul_comm _ _
    show (writePadding e0 _ _ _).getD _ false = true ∧ (writePadding e0 _ _ _).getD _ false = false ∧
      (writePadding e0 _ _ _).getD _ false = false ∧ (writePadding e0 _ _ _).getD _ false = true
    unfold writePadding
    simp only [hp, if_true]
    have ne1 : (contentHeight s - 2) * contentWidth s + (contentWidth s - 2)
        ≠ (contentHeight s - 1) * contentWidth s + (contentWidth s - 1) := by
      have : (contentHeight s - 1) * contentWidth s = (contentHeight s - 2) * contentWidth s + contentWidth s := by
        have : contentHeight s - 1 = (contentHeight s - 2) + 1 := by omega
        rw [this, Nat.add_mul, Nat.one_mul]
      omega
    have hr1 := hrange (contentHeight s - 2) (contentWidth s - 2) (by omega) (by omega)
    have hr4 := hrange (contentHeight s - 1) (contentWidth s - 1) (by omega) (by omega)
    refine ⟨?_, ?_, ?_, ?_⟩
    · rw [getD_set_ne _ _ _ _ ne1.symm]
      simp [List.getD_eq_getElem?_getD, List.getElem?_set, hr1]
    · rw [getD_set_ne, getD_set_ne]
      · exact hnot _ hc4.2.1
      · omega
      · have : (contentHeight s - 1) * contentWidth s = (contentHeight s - 2) * contentWidth s + contentWidth s := by
          have : contentHeight s - 1 = (contentHeight s - 2) + 1 := by omega
          rw [this, Nat.add_mul, Nat.one_mul]
        omega
    · rw [getD_set_ne, getD_set_ne]
      · exact hnot _ hc4.2.2.1
      · have : (contentHeight s - 1) * contentWidth s = (contentHeight s - 2) * contentWidth s + contentWidth s := by
          have : contentHeight s - 1 = (contentHeight s - 2) + 1 := by omega
          rw [this, Nat.add_mul, Nat.one_mul]
        omega
      · omega
    · simp [List.getD_eq_getElem?_getD, List.getElem?_set, hr4]
  · unfold readCodewords
    apply List.ext_getElem
    · simp [hlen]
    · intro i h1 h2
      simp only [List.length_map] at h1
      rw [List.getElem_map, readCodeword_eq]
      have ho := F.octets _ (List.getElem_mem h1)
      have hb : ((layoutOf s)[i].map fun p => e.getD p false) = bitsMsb c[i] := by
        apply List.ext_getElem
        · simp [ho.1, bitsMsb]
        · intro k hk1 hk2
          simp only [List.length_map] at hk1
          rw [List.getElem_map, hval i k h1 hk1, List.getD_eq_getElem?_getD, List.getElem?_eq_getElem h2]
          simp [bitsMsb]
      rw [hb]
      exact byte_bits_roundtrip _ (hc _ (List.getElem_mem h2))

/-- `MatrixMap::codewords()` inverts `new_with_codewords` (corollary, the form used by C01). -/
theorem write_read_inverse (s : Sym) (hs : s < numSizes) (c : List Nat)
    (hc : Bytes c) (hl : c.length = totalCw s) :
    (newWithCodewords s c).map (fun e => readCodewords e (layoutOf s)) = some c := by
  obtain ⟨e, h1, _, _, _, h5⟩ := placement_conformant s hs c hc hl
  rw [h1]; simp [h5]

end DM.Props.C07
