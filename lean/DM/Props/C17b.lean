import DM.Lemmas.PathWalk
import DM.Lemmas.PathCompress
import DM.Lemmas.PathGraphImp
import DM.Lemmas.PathCheck
/-!
# C17 (second part) — the model of `Bitmap::path()` always produces an accepted path

`path_model_ok`: for every bitmap with positive width, complete rows, dimensions that fit `i16`
and a dark top-left module, the model `DM.Model.Path.path` returns a path (it never reaches the
`expect`, never runs out of fuel) and the certified checker `pathOK` accepts it; with
`checker_sound` the even–odd fill of the returned path is exactly the bitmap
(`path_model_fill`).

The top-left module has to be dark: the path is drawn from the corner (0, 0) and the first
sub-path starts at the first dark module in row-major order without a leading `Move`; for
`[false, true, true, true]` (width 2) the model (like the implementation) returns
`h2 v2 h-2 v-1 h1 z`, which `pathOK` rejects (see the `example` at the end).
-/
namespace DM.Props.C17
open DM.Lemmas DM.Lemmas.PathP DM.Model.Path

theorem height_pos (bits : List Bool) (w : Nat) (hlen : bits.length % w = 0)
    (htl : bits.head? = some true) : 0 < bits.length / w := by
  have hl : 0 < bits.length := by
    cases bits with
    | nil => simp at htl
    | cons b r => simp
  have := Nat.div_add_mod bits.length w
  rw [hlen] at this
  rcases Nat.eq_zero_or_pos (bits.length / w) with h0 | h0
  · rw [h0] at this; simp at this; omega
  · exact h0

theorem g0_top00 (bits : List Bool) (w h : Nat) (hw : 0 < w) (hh : 0 < h) (htl : bits.head? = some true) :
    has (bitsToEdgeGraph bits.toArray w h) (false, 0, 0) = true := by
  show (bitsToEdgeGraph bits.toArray w h).top 0 0 = true
  rw [g0_top]
  cases bits with
  | nil => simp at htl
  | cons b r =>
    simp at htl
    subst htl
    simp [DM.Lemmas.bmGet, hw, hh]

/-- the outer loop on the graph of an admissible bitmap: it terminates normally, the micro steps
are a sequence of closed walks and no edge is left -/
theorem tours_main (bits : List Bool) (w : Nat) (hw : 0 < w) (hlen : bits.length % w = 0)
    (htl : bits.head? = some true) :
    ∃ els g', tours (2 * (w + 1) * (bits.length / w + 1) + 2) (2 * (w + 1) * (bits.length / w + 1) + 2)
        { bitsToEdgeGraph bits.toArray w (bits.length / w) with hint := 0 }
        { i := 0, j := 0, dir := .right } 0 #[] = .ok els ∧
      EInv w (bits.length / w) (bitsToEdgeGraph bits.toArray w (bits.length / w)) g' els.toList ∧
      ∀ e, has g' e = false := by
  have hh := height_pos bits w hlen htl
  generalize bits.length / w = h at hh ⊢
  have hinv : EInv w h (bitsToEdgeGraph bits.toArray w h)
      { bitsToEdgeGraph bits.toArray w h with hint := 0 } (#[] : Array Micro).toList := by
    refine ⟨⟨g0_WF _ w h, g0_InBoxG bits w h, rfl, rfl, fun m hm => by simp at hm⟩,
      even_degree bits w h, trivial, trivial, rfl, fun m hm => by simp at hm, fun e => ?_⟩
    show 0 + (has (bitsToEdgeGraph bits.toArray w h) e).toNat = _
    omega
  have hc := cnt_le (bitsToEdgeGraph bits.toArray w h) (g0_WF _ w h)
  have hc' : cnt { bitsToEdgeGraph bits.toArray w h with hint := 0 } < 2 * (w + 1) * (h + 1) + 2 := by
    show cnt (bitsToEdgeGraph bits.toArray w h) < _
    have : (bitsToEdgeGraph bits.toArray w h).width = w := rfl
    have : (bitsToEdgeGraph bits.toArray w h).height = h := rfl
    rw [Nat.mul_assoc]
    simp_all
    omega
  obtain ⟨els, he, g', hinv', hno⟩ := tours_spec w h (bitsToEdgeGraph bits.toArray w h) _ _
    { bitsToEdgeGraph bits.toArray w h with hint := 0 } { i := 0, j := 0, dir := .right } 0 #[]
    hinv rfl rfl (g0_top00 bits w h hw hh htl) hc' hc'
  exact ⟨els, g', he, hinv', hno⟩

/-- **(d)** the model never reaches the `expect` and never runs out of fuel -/
theorem path_total (bits : List Bool) (w : Nat) (hw : 0 < w) (hlen : bits.length % w = 0)
    (hdims : w + 1 ≤ 32767 ∧ bits.length / w + 1 ≤ 32767) (htl : bits.head? = some true) :
    ∃ segs, path bits w = .ok segs := by
  obtain ⟨els, g', he, _, _⟩ := tours_main bits w hw hlen htl
  rw [path_eq bits w hw hdims, g0_edgeLeft bits w _ hw (height_pos bits w hlen htl) htl]
  simp only [he]
  exact ⟨_, rfl⟩

theorem toNat_ite (b : Bool) : b.toNat = if b then 1 else 0 := by cases b <;> rfl

/-- **(e)** the returned path passes the certified checker -/
theorem path_model_ok (bits : List Bool) (w : Nat) (hw : 0 < w) (hlen : bits.length % w = 0)
    (hdims : w + 1 ≤ 32767 ∧ bits.length / w + 1 ≤ 32767) (htl : bits.head? = some true) :
    ∃ segs, path bits w = .ok segs ∧ pathOK bits w (segs.map toFillSeg) = true := by
  obtain ⟨els, g', he, hinv, hno⟩ := tours_main bits w hw hlen htl
  refine ⟨compress els.toList, ?_, ?_⟩
  · rw [path_eq bits w hw hdims, g0_edgeLeft bits w _ hw (height_pos bits w hlen htl) htl]
    simp only [he]
  have h0 : w ≠ 0 := by omega
  generalize hh : bits.length / w = h at hinv
  have hacc : ∀ e, (medges O els.toList).count e = (has (bitsToEdgeGraph bits.toArray w h) e).toNat := by
    intro e
    have := hinv.acc e
    rw [hno e] at this
    simpa using this
  have hnodup : (medges (0, 0) els.toList).Nodup := by
    rw [List.nodup_iff_count]
    intro e
    have := hacc e
    have h2 : (has (bitsToEdgeGraph bits.toArray w h) e).toNat ≤ 1 := Bool.toNat_le _
    show (medges O els.toList).count e ≤ 1
    omega
  obtain ⟨st, hrun, hclosed, hv, hhz⟩ := compress_spec w h els.toList hinv.chain hinv.jumps hinv.closed
    hinv.box hnodup
  have hbox := g0_InBoxG bits w h
  have hgw : (bitsToEdgeGraph bits.toArray w h).width = w := rfl
  have hgh : (bitsToEdgeGraph bits.toArray w h).height = h := rfl
  unfold pathOK
  simp only [h0, if_false, hh, DM.Spec.Fill.edges, hrun, hclosed, if_true]
  simp only [Bool.and_eq_true, List.all_eq_true, List.mem_range, beq_iff_eq, decide_eq_true_eq]
  refine ⟨⟨⟨?_, ?_⟩, ?_⟩, ?_⟩
  · intro x _ y _
    rw [hv x y]
    have := hacc (true, (y : Int), (x : Int))
    rw [show (medges O els.toList) = medges (0, 0) els.toList from rfl] at this
    rw [this, toNat_ite]
    have hs := (bitsToEdgeGraph_spec bits w h x y).1
    show (if (bitsToEdgeGraph bits.toArray w h).left y x = true then 1 else 0) = _
    rw [hs]
  · intro x _ y _
    rw [hhz x y]
    have := hacc (false, (y : Int), (x : Int))
    rw [show (medges O els.toList) = medges (0, 0) els.toList from rfl] at this
    rw [this, toNat_ite]
    have hs := (bitsToEdgeGraph_spec bits w h x y).2
    show (if (bitsToEdgeGraph bits.toArray w h).top y x = true then 1 else 0) = _
    rw [hs]
  · intro e he
    have hpos : 0 < st.vEdges.count e := List.count_pos_iff.mpr he
    obtain ⟨x, y⟩ := e
    rw [hv x y] at hpos
    have := hacc (true, (y : Int), (x : Int))
    rw [show (medges O els.toList) = medges (0, 0) els.toList from rfl] at this
    have hb : has (bitsToEdgeGraph bits.toArray w h) (true, (y : Int), (x : Int)) = true := by
      cases hb : has (bitsToEdgeGraph bits.toArray w h) (true, (y : Int), (x : Int))
      · rw [hb] at this; simp at this; omega
      · rfl
    have := (hbox y x).1 hb
    rw [hgw, hgh] at this
    simp only []
    omega
  · intro e he
    have hpos : 0 < st.hEdges.count e := List.count_pos_iff.mpr he
    obtain ⟨x, y⟩ := e
    rw [hhz x y] at hpos
    have := hacc (false, (y : Int), (x : Int))
    rw [show (medges O els.toList) = medges (0, 0) els.toList from rfl] at this
    have hb : has (bitsToEdgeGraph bits.toArray w h) (false, (y : Int), (x : Int)) = true := by
      cases hb : has (bitsToEdgeGraph bits.toArray w h) (false, (y : Int), (x : Int))
      · rw [hb] at this; simp at this; omega
      · rfl
    have := (hbox y x).2 hb
    rw [hgw, hgh] at this
    simp only []
    omega

/-- **C17 for the model**: drawing the returned path from the top-left corner and filling it
with the even–odd rule blackens exactly the dark modules; the path is well formed (this is what
`edges … = some _` says: axis-parallel non-zero segments, closed sub-paths, moves only after a
close, inside the bounding box). -/
theorem path_model_fill (bits : List Bool) (w : Nat) (hw : 0 < w) (hlen : bits.length % w = 0)
    (hdims : w + 1 ≤ 32767 ∧ bits.length / w + 1 ≤ 32767) (htl : bits.head? = some true) :
    ∃ segs ve he, path bits w = .ok segs ∧
      DM.Spec.Fill.edges w (bits.length / w) (segs.map toFillSeg) = some (ve, he) ∧
      ∀ x y, x < w → y < bits.length / w → DM.Spec.Fill.dark ve x y = bits.getD (y * w + x) false := by
  obtain ⟨segs, hp, hok⟩ := path_model_ok bits w hw hlen hdims htl
  obtain ⟨ve, he, h1, h2⟩ := checker_sound bits w _ hok
  have h0 : w ≠ 0 := by omega
  simp only [h0, if_false] at h1 h2
  exact ⟨segs, ve, he, hp, h1, h2⟩

/-- the graph the model works on is the one the loops of the Rust code build -/
theorem graph_is_imperative (bits : Array Bool) (width height : Nat) :
    bitsToEdgeGraphImp bits width height = bitsToEdgeGraph bits width height :=
  bitsToEdgeGraphImp_eq bits width height

/-- why the top-left module has to be dark: otherwise the first sub-path is drawn from the
corner (0, 0) although it starts elsewhere, and the checker rejects the result -/
example : (path [false, true, true, true] 2).toOption = some [.h 2, .v 2, .h (-2), .v (-1), .h 1, .z] ∧
    pathOK [false, true, true, true] 2
      ([Seg.h 2, .v 2, .h (-2), .v (-1), .h 1, .z].map toFillSeg) = false := by
  constructor <;> decide +kernel

end DM.Props.C17

