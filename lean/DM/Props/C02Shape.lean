import DM.Props.C02
import DM.Lemmas.MainRT
namespace DM.Props.C02
open DM.Gen DM.Model DM.Model.Enc DM.Lemmas DM.Lemmas.MainRT DM.Spec.Stream

/-- **Shape of every successful encoding** (any plan, any prefix): the symbol is a member of the
supplied list, it is the first one of the list that is large enough for the codewords the mode
encoders wrote, the result has exactly that symbol's number of data codewords, it starts with the
encoders' codewords, and what follows is exactly the standard's padding. -/
theorem run_shape (list : List Sym) (pre body cw : List Nat) (plan : List (Nat × EMode)) (sym : Sym)
    (h : run list pre body plan = .ok (cw, sym)) :
    sym ∈ list ∧ cw.length = dataCw sym ∧
    ∃ sE : Enc.St, firstBigEnough list sE.cw.length = some sym ∧ cw.take sE.cw.length = sE.cw ∧
      ∀ start, start = sE.cw.length + (if (sE.mode == EMode.ascii) = false ∧ sE.cw.length < dataCw sym then 1 else 0) →
        (start < dataCw sym → cw.getD start 0 = 129) ∧
        ∀ i, start < i → i < dataCw sym → unrand253 (cw.getD i 0) (i + 1) = 129 := by
  obtain ⟨sE, _, hsym, hpad⟩ := run_unfoldP list pre body cw plan sym h
  have hmem : sym ∈ list := by
    unfold firstBigEnough at hsym
    exact List.mem_of_find?_eq_some hsym
  have hle := DM.Lemmas.X12RT.firstBigEnough_le list _ sym hsym
  obtain ⟨out, hout, hlen, htake, _, hrest⟩ := padding_conformant sE.cw (sE.mode == EMode.ascii) (dataCw sym) hle
  rw [hpad] at hout
  cases hout
  exact ⟨hmem, hlen, sE, hsym, htake, hrest⟩

end DM.Props.C02
