import DM.Lemmas.Complete
/-!
# C04 — the decoder accepts every standard-conformant codeword stream

`decoder_complete`: for **every** script of the independent reference builder
(`DM/Spec/Build.lean`: any sequence of ASCII / C40 / Text / X12 / EDIFACT / Base 256 runs with
every legal termination form, optional Macro 05/06 or FNC1 header, any amount of padding) that
is well formed (`WFScript`: each run is legal in front of the codewords that follow it), the data
decoder model returns exactly the bytes the script stands for.

The builder is the definition of "built according to ISO/IEC 16022" used by the C04 check: the
streams the check feeds to the real decoder are produced by this very builder; the decoder model
is tied to `decode_data` by correspondence on those streams and on exhaustive / mutated ones.
-/
namespace DM.Props.C04
open DM.Model.Dec DM.Gen DM.Lemmas DM.Lemmas.DecRun DM.Spec.Build DM.Lemmas.AsciiRT DM.Lemmas.Complete
open DM.Props.C02 (padAt padFold)

/-- the padding area after `len` codewords: nothing, or 129 and `pad - 1` randomised pads -/
def padsOf (len pad : Nat) : List Nat := if pad = 0 then [] else 129 :: padsFrom (len + 2) (pad - 1)

def headerCw (h : Nat) : List Nat := match h with | 5 => [236] | 6 => [237] | 1 => [232] | _ => []

/-- well-formed scripts -/
structure WFScript (s : Script) : Prop where
  header : s.header = 0 ∨ s.header = 1 ∨ s.header = 5 ∨ s.header = 6
  /-- every run is legal in front of what follows it -/
  items : ItemsOK (headerCw s.header).length s.items
    (padsOf ((headerCw s.header).length + (emitAll (headerCw s.header).length s.items).length) s.pad)
  /-- the codeword after the header position is not itself a header codeword -/
  first : ∀ c ∈ (emitAll (headerCw s.header).length s.items ++
      padsOf ((headerCw s.header).length + (emitAll (headerCw s.header).length s.items).length) s.pad).head?,
    c ≠ 232 ∧ c ≠ 236 ∧ c ≠ 237

theorem randomize253_eq (pos : Nat) : randomize253 pos = padAt pos := rfl

theorem build_with (hdr : List Nat) (items : List Item) (pad : Nat)
    (h : ItemsOK hdr.length items (padsOf (hdr.length + (emitAll hdr.length items).length) pad)) :
    (let body := items.foldl emit hdr
     if pad = 0 then body
     else (List.range (pad - 1)).foldl (fun acc _ => acc ++ [randomize253 (acc.length + 1)]) (body ++ [129])) =
    hdr ++ emitAll hdr.length items ++ padsOf (hdr.length + (emitAll hdr.length items).length) pad := by
  have hf := foldl_emit items hdr _ h
  simp only [hf]
  unfold padsOf
  by_cases hp : pad = 0
  · simp [hp]
  · rw [if_neg hp, if_neg hp]
    have := padFold_eq (pad - 1) (hdr ++ emitAll hdr.length items ++ [129])
    unfold padFold at this
    simp only [randomize253_eq]
    rw [this]
    simp [List.append_assoc]
    congr 1

theorem build_eq (s : Script) (h : WFScript s) :
    build s = headerCw s.header ++ emitAll (headerCw s.header).length s.items ++
      padsOf ((headerCw s.header).length + (emitAll (headerCw s.header).length s.items).length) s.pad := by
  obtain ⟨hd, items, pad⟩ := s
  have hi := h.items
  simp only [] at hi ⊢
  rcases h.header with h0 | h0 | h0 | h0 <;> simp only [] at h0 <;> subst h0 <;>
    exact build_with _ items pad hi

/-- the decoder's ASCII loop accepts the padding area -/
theorem decRun_pads (len pad : Nat) (out : List Nat) (ecis : List (Nat × Nat)) :
    ∃ e, decRun .ascii { rest := padsOf len pad, eaten := len, out := out, ecis := ecis } =
      .ok { rest := [], eaten := e, out := out, ecis := ecis } := by
  unfold padsOf
  split
  · exact ⟨len, decRun_nil _ _ rfl⟩
  · refine ⟨len + 1 + (pad - 1), ?_⟩
    rw [decRun_ascii _ (by simp)]
    simp only []
    rw [decodeAscii]
    simp only [ne_eq, not_true_eq_false, ↓reduceIte, Bool.false_eq_true, false_and, Nat.reduceLeDiff, and_false]
    rw [checkPads_pads]
    simp only []
    rw [decRun_nil _ _ rfl]

/-- the main loop on the items and the padding of a well-formed script -/
theorem run_items (s : Script) (h : WFScript s) (out0 : List Nat) :
    ∃ e, mainLoop (2 * (emitAll (headerCw s.header).length s.items ++
        padsOf ((headerCw s.header).length + (emitAll (headerCw s.header).length s.items).length) s.pad).length + 2) .ascii
      { rest := emitAll (headerCw s.header).length s.items ++
          padsOf ((headerCw s.header).length + (emitAll (headerCw s.header).length s.items).length) s.pad,
        eaten := (headerCw s.header).length, out := out0, ecis := [] } =
      .ok { rest := [], eaten := e, out := out0 ++ s.items.flatMap Item.bytes, ecis := [] } := by
  obtain ⟨e, he⟩ := decRun_pads ((headerCw s.header).length + (emitAll (headerCw s.header).length s.items).length)
    s.pad (out0 ++ s.items.flatMap Item.bytes) []
  refine ⟨e, ?_⟩
  have := items_seg s.items (headerCw s.header).length _ out0 [] h.items
  unfold decRun at this he
  simp only [] at this he
  rw [this, he]

theorem macro_heads : macroHead05 = DM.Spec.Stream.macroHead 5 ∧ macroHead06 = DM.Spec.Stream.macroHead 6 ∧
    macroTrail = DM.Spec.Stream.macroTrail := ⟨rfl, rfl, rfl⟩

/-- **The decoder accepts every standard-conformant codeword stream** and returns exactly the
bytes that were encoded. -/
theorem decoder_complete (s : Script) (h : WFScript s) : decodeData (build s) = .ok (meaning s) := by
  rw [build_eq s h]
  have hrun := run_items s h
  have hfirst := h.first
  generalize hD : emitAll (headerCw s.header).length s.items ++
    padsOf ((headerCw s.header).length + (emitAll (headerCw s.header).length s.items).length) s.pad = D at *
  have hno : ∀ t, D ≠ 232 :: t := fun t ht => (hfirst 232 (by rw [ht]; simp)).1 rfl
  have hno6 : ∀ t, D ≠ 236 :: t := fun t ht => (hfirst 236 (by rw [ht]; simp)).2.1 rfl
  have hno7 : ∀ t, D ≠ 237 :: t := fun t ht => (hfirst 237 (by rw [ht]; simp)).2.2 rfl
  unfold decodeData meaning
  rw [List.append_assoc, hD]
  rcases h.header with h0 | h0 | h0 | h0
  · -- no header
    rw [h0] at hrun ⊢
    simp only [headerCw, List.nil_append, List.length_nil] at hrun ⊢
    rw [decodeParts_other D true (fun t => ⟨hno6 t, hno7 t⟩), partsBody_no232 true [] D 0 false hno]
    obtain ⟨e, this⟩ := hrun []
    simp only [List.nil_append] at this
    simp only [Bool.not_true, Bool.false_and, Bool.false_eq_true, ↓reduceIte]
    rw [this]
    simp [partsFinish]
  · -- FNC1 in first position
    rw [h0] at hrun ⊢
    simp only [headerCw, List.length_singleton, List.singleton_append] at hrun ⊢
    rw [decodeParts_other (232 :: D) true (fun t => ⟨by simp, by simp⟩), partsBody_232]
    obtain ⟨e, this⟩ := hrun []
    simp only [List.nil_append] at this
    simp only [Bool.not_true, Bool.false_and, Bool.false_eq_true, ↓reduceIte, Nat.zero_add]
    rw [this]
    simp [partsFinish]
  · -- Macro 05
    rw [h0] at hrun ⊢
    simp only [headerCw, List.length_singleton, List.singleton_append] at hrun ⊢
    rw [decodeParts_236, partsBody_no232 true macroHead05 D 1 true hno]
    obtain ⟨e, this⟩ := hrun macroHead05
    simp only [Bool.not_true, Bool.false_and, Bool.false_eq_true, ↓reduceIte]
    rw [this]
    simp [partsFinish, macro_heads.1, macro_heads.2.2]
  · -- Macro 06
    rw [h0] at hrun ⊢
    simp only [headerCw, List.length_singleton, List.singleton_append] at hrun ⊢
    rw [decodeParts_237, partsBody_no232 true macroHead06 D 1 true hno]
    obtain ⟨e, this⟩ := hrun macroHead06
    simp only [Bool.not_true, Bool.false_and, Bool.false_eq_true, ↓reduceIte]
    rw [this]
    simp [partsFinish, macro_heads.2.1, macro_heads.2.2]

/-! ### `WFScript` is decidable: the check evaluates it on every script it generates -/

instance (l : List Nat) : Decidable (ByteList l) := by unfold ByteList; infer_instance
instance (l : List Nat) : Decidable (X12Native l) := by unfold X12Native; infer_instance
instance (l : List Nat) : Decidable (EdiChars l) := by unfold EdiChars; infer_instance
instance (un : Bool) (t : List Nat) : Decidable (TripleTail un t) := by unfold TripleTail; infer_instance
instance (text : Bool) (b : List Nat) (un : Bool) (t : List Nat) : Decidable (C40OK text b un t) := by
  unfold C40OK; infer_instance
instance (b : List Nat) (un : Bool) (t : List Nat) : Decidable (EdiOK b un t) := by
  unfold EdiOK; cases un <;> simp only [Bool.false_eq_true, ↓reduceIte] <;> infer_instance
instance (b : List Nat) (toEnd : Bool) (t : List Nat) : Decidable (B256OK b toEnd t) := by
  unfold B256OK; cases toEnd <;> simp only [Bool.false_eq_true, ↓reduceIte] <;> infer_instance
instance (it : Item) (t : List Nat) : Decidable (ItemOK it t) := by
  cases it <;> unfold ItemOK <;> simp only [] <;> infer_instance

def decItemsOK : (pos : Nat) → (items : List Item) → (pads : List Nat) → Decidable (ItemsOK pos items pads)
  | _, [], _ => isTrue trivial
  | pos, it :: rest, pads =>
    have := decItemsOK (pos + (emitAt pos it).length) rest pads
    by unfold ItemsOK; infer_instance

instance (pos : Nat) (items : List Item) (pads : List Nat) : Decidable (ItemsOK pos items pads) := decItemsOK pos items pads

theorem wfScript_iff (s : Script) : WFScript s ↔
    (s.header = 0 ∨ s.header = 1 ∨ s.header = 5 ∨ s.header = 6) ∧
    ItemsOK (headerCw s.header).length s.items
      (padsOf ((headerCw s.header).length + (emitAll (headerCw s.header).length s.items).length) s.pad) ∧
    (∀ c ∈ (emitAll (headerCw s.header).length s.items ++
        padsOf ((headerCw s.header).length + (emitAll (headerCw s.header).length s.items).length) s.pad).head?,
      c ≠ 232 ∧ c ≠ 236 ∧ c ≠ 237) :=
  ⟨fun h => ⟨h.header, h.items, h.first⟩, fun h => ⟨h.1, h.2.1, h.2.2⟩⟩

instance (s : Script) : Decidable (WFScript s) := decidable_of_iff _ (wfScript_iff s).symm

/-- Non-vacuity: a script with a macro header, all six kinds of run and padding is well formed,
and so is one that ends in C40 without UNLATCH followed by a single ASCII codeword. -/
def exampleScript1 : Script :=
  Script.mk 5 [Item.ascii true [49, 50, 200], Item.c40 false [65, 66, 67] true, Item.c40 true [97, 33, 200, 98, 99] true,
    Item.x12 [65, 13, 42] true, Item.edifact [64, 65, 66, 67, 68] true, Item.base256 [0, 255, 7] false] 3

def exampleScript2 : Script := Script.mk 0 [Item.c40 false [65, 66, 67] false, Item.ascii false [66]] 0

example : WFScript exampleScript1 := by decide +kernel
example : WFScript exampleScript2 := by decide +kernel

end DM.Props.C04
