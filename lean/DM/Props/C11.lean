import Batteries.Lean.Except
import DM.Lemmas.NoLE
/-!
# C11 — the error classification of the encoder

`run_listEmpty_iff`: the encoder model answers `SymbolListEmpty` if and only if the supplied symbol
list is empty.  The "only if" half needs that none of the ~25 functions below `run` (main loop, the
six mode encoders, their end-of-data handlers) can produce that error: `Lemmas/NoLE.lean`.
Hence every other refusal of the model is `TooMuchOrIllegalData`, a modelled panic site or fuel
exhaustion; that the last two never occur is what the sweeps of C11 test on the code (and what
`optimize_total` proves for the planner).
-/
namespace DM.Props.C11
open DM.Model DM.Model.Enc DM.Gen DM.Lemmas.NoLE

/-- **C11, classification.** The encoder answers `SymbolListEmpty` if and only if the supplied
symbol list is empty (every other refusal is `TooMuchOrIllegalData`, a panic or fuel being excluded
by the sweeps / the planner theorems). -/
theorem run_listEmpty_iff (list : List Sym) (pre body : List Nat) (plan : List (Nat × EMode)) :
    run list pre body plan = .error .listEmpty ↔ list.isEmpty = true := by
  constructor
  · intro h
    by_cases hne : list.isEmpty = true
    · exact hne
    exfalso
    unfold run at h
    rw [if_neg hne] at h
    repeat' (split at h <;> try dsimp only at h)
    all_goals first
      | (cases h; done)
      | (cases h; exact nole_mainLoop _ _ _ (by assumption))
  · intro h
    unfold run
    rw [if_pos h]


/-- every refusal other than `SymbolListEmpty` on a non-empty list -/
theorem run_error_nonempty (list : List Sym) (pre body : List Nat) (plan : List (Nat × EMode)) (e : EErr)
    (hne : list.isEmpty = false) (h : run list pre body plan = .error e) : e ≠ .listEmpty := by
  intro he
  subst he
  have := (run_listEmpty_iff list pre body plan).mp h
  rw [hne] at this
  cases this

example : run [] [] [65] [(0, .ascii)] = .error .listEmpty := by decide +kernel

end DM.Props.C11
