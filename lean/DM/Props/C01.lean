import DM.Lemmas.RSClean
import DM.Props.C06
import DM.Props.C07
import DM.Props.C08
import DM.Lemmas.AsciiRT
import DM.Lemmas.X12RT
import DM.Lemmas.B256RT
import DM.Lemmas.EdiRT
import DM.Lemmas.C40RT
import DM.Lemmas.MainRT
/-!
# C01 — the symbol-level half of the round trip, for all sizes and all contents

`pipeline_roundtrip`: for every symbol size and every vector of data codewords of the size's
capacity, appending the error codewords (`encode_error`), placing the codewords
(`new_with_codewords`), rendering (`bitmap`), parsing (`try_from_bits`), reading the codewords
back (`codewords`) and running the Reed–Solomon decoder (`decode_error`) returns exactly the
data codewords and the size. Hence `DataMatrix::decode(bitmap)` and `decode_data(data codewords)`
are the same computation from there on: the two decoding paths of property C01 agree for every
encoder output. (That `decode_data` inverts the mode encoders is decided by the sweep.)
-/
namespace DM.Props.C01
open DM.Gen DM.Model DM.Model.RS DM.Lemmas DM.Spec

inductive PErr where
  | pixel (e : ConvErr)
  | rs (e : RErr)

/-- `DataMatrix::decode` up to (not including) the data decoder: the data codewords and the size -/
def decodePixels (bits : List Bool) (width : Nat) : Except PErr (List Nat × Sym) :=
  match tryFromBits bits width with
  | .error e => .error (.pixel e)
  | .ok (m, s) =>
    match RS.decode s (readCodewords m (layoutOf s)) with
    | .error e => .error (.rs e)
    | .ok cw => .ok (cw.take (dataCw s), s)

theorem strided_length_pos (l : List Nat) (b B : Nat) (hB : 0 < B) (hb : b < l.length) :
    1 ≤ (strided l b B).length := by
  rw [C06.strided_length]
  have : B ≤ l.length - b + B - 1 := by omega
  exact Nat.div_pos this hB

theorem strided_length_full (l : List Nat) (b B k : Nat) (hb : b < B) (hl : l.length = B * k) :
    (strided l b B).length = k := by
  rw [C06.strided_length, hl]
  have hB : 0 < B := by omega
  cases k with
  | zero =>
    simp only [Nat.mul_zero, Nat.zero_sub, Nat.zero_add]
    exact Nat.div_eq_of_lt (by omega)
  | succ k =>
    have e0 : B * (k + 1) = (k + 1) * B := Nat.mul_comm _ _
    have e1 : (k + 1) * B = k * B + B := by rw [Nat.add_mul, Nat.one_mul]
    have h1 : B * (k + 1) - b + B - 1 = (B - 1 - b) + (k + 1) * B := by omega
    rw [h1, Nat.add_mul_div_right _ _ hB]
    have : (B - 1 - b) / B = 0 := Nat.div_eq_of_lt (by omega)
    omega

/-- every block of a word whose blocks are codewords passes the block loop unchanged -/
theorem decodeBlocks_clean (B k : Nat) (data ecc : List Nat) (hd : Bytes data) (he : Bytes ecc)
    (hk1 : 1 ≤ k) (hk : k < 254) (hB : 0 < B) (hBd : B ≤ data.length) (hel : ecc.length = B * k)
    (hcw : ∀ b, b < B → isCodeword (strided data b B ++ strided ecc b B) k = true) :
    ∀ bs : List Nat, (∀ b ∈ bs, b < B) → decodeBlocks B k bs data ecc = .ok (data, ecc) := by
  intro bs
  induction bs with
  | nil => intro _; rfl
  | cons b bs ih =>
    intro hbs
    have hb : b < B := hbs b (List.mem_cons_self ..)
    unfold decodeBlocks
    have hkB : B ≤ B * k := Nat.le_mul_of_pos_right B hk1
    rw [if_neg (by rw [hel]; omega)]
    have hclean := decodeBlock_clean (strided data b B) (strided ecc b B) k
      ((C06.strided_bytes hd b B).append (C06.strided_bytes he b B)) hk1 hk
      (by
        have h1 := strided_length_pos data b B hB (by omega)
        have h2 := strided_length_full ecc b B k hb hel
        omega)
      (hcw b hb)
    rw [hclean]
    simp only [scatter_strided]
    exact ih (fun x hx => hbs x (List.mem_cons_of_mem _ hx))

/-- the Reed–Solomon decoder leaves `data ++ encode_error(data)` untouched -/
theorem clean_word_unchanged (s : Sym) (hs : s < numSizes) (data ecc : List Nat)
    (hd : Bytes data) (hl : data.length = dataCw s) (he : Bytes ecc)
    (hel : ecc.length = (row s).blocks * (row s).eccPer)
    (hcw : ∀ b, b < (row s).blocks →
      isCodeword (strided data b (row s).blocks ++ strided ecc b (row s).blocks) (row s).eccPer = true) :
    RS.decode s (data ++ ecc) = .ok (data ++ ecc) := by
  obtain ⟨_, hk, hk254, hB, hBd⟩ := C06.gen_monic_roots s hs
  unfold RS.decode
  have hlen : ¬ (data ++ ecc).length < (row s).dataCw := by
    rw [List.length_append, hl]; simp [dataCw]
  simp only [hlen, if_false]
  have ht : (data ++ ecc).take (row s).dataCw = data := by
    have : (row s).dataCw = data.length := by rw [hl]; rfl
    rw [this]; simp
  have hdr : (data ++ ecc).drop (row s).dataCw = ecc := by
    have : (row s).dataCw = data.length := by rw [hl]; rfl
    rw [this]; simp
  rw [ht, hdr]
  rw [decodeBlocks_clean (row s).blocks (row s).eccPer data ecc hd he hk hk254 hB
    (by rw [hl]; exact hBd) hel hcw (List.range (row s).blocks) (fun b hb => List.mem_range.mp hb)]

/-- **Symbol-level round trip for every size and every data codeword vector.** -/
theorem pipeline_roundtrip (s : Sym) (hs : s < numSizes) (data : List Nat)
    (hb : Bytes data) (hl : data.length = dataCw s) :
    ∃ ecc e, encodeError s data = .ok ecc ∧ newWithCodewords s (data ++ ecc) = some e ∧
      decodePixels (bitmapOf s e) (row s).width = .ok (data, s) := by
  obtain ⟨ecc, henc, hecclen, heccb, hcw⟩ := C06.encode_error_conformant s hs data hb hl
  have hecclen' : ecc.length = (row s).blocks * (row s).eccPer := by
    rw [hecclen]; simp [C12.toStd]
  have hc : Bytes (data ++ ecc) := hb.append heccb
  have hclen : (data ++ ecc).length = totalCw s := by
    rw [List.length_append, hl, hecclen']; rfl
  obtain ⟨e, hnew, helen, _, hcorner, hread⟩ := C07.placement_conformant s hs (data ++ ecc) hc hclen
  refine ⟨ecc, e, henc, hnew, ?_⟩
  -- the fixed corner pattern is what the parser's padding check asks for
  have hpad : (padChecks s).all (fun q => e.getD q.1 false == q.2) = true := by
    unfold padChecks
    split
    · rename_i hp
      have hdim : ∀ s, s < numSizes → (row s).padding = true →
          2 ≤ contentHeight s ∧ 2 ≤ contentWidth s := by decide +kernel
      obtain ⟨hh, hw⟩ := hdim s hs hp
      obtain ⟨c1, c2, c3, c4⟩ := hcorner hp
      have e1 : (fdims s).w * (fdims s).h - 2 = (contentHeight s - 1) * contentWidth s + (contentWidth s - 2) := by
        simp only [fdims]
        have : contentHeight s = (contentHeight s - 1) + 1 := by omega
        conv => lhs; rw [this, Nat.mul_add, Nat.mul_one, Nat.mul_comm]
        omega
      have e2 : (fdims s).w * (fdims s).h - 1 = (contentHeight s - 1) * contentWidth s + (contentWidth s - 1) := by
        simp only [fdims]
        have : contentHeight s = (contentHeight s - 1) + 1 := by omega
        conv => lhs; rw [this, Nat.mul_add, Nat.mul_one, Nat.mul_comm]
        omega
      have e3 : (fdims s).w * (fdims s).h - (fdims s).w - 2 = (contentHeight s - 2) * contentWidth s + (contentWidth s - 2) := by
        simp only [fdims]
        have : contentHeight s = (contentHeight s - 2) + 2 := by omega
        conv => lhs; rw [this, Nat.mul_add, Nat.mul_comm]
        omega
      have e4 : (fdims s).w * (fdims s).h - (fdims s).w - 1 = (contentHeight s - 2) * contentWidth s + (contentWidth s - 1) := by
        simp only [fdims]
        have : contentHeight s = (contentHeight s - 2) + 2 := by omega
        conv => lhs; rw [this, Nat.mul_add, Nat.mul_comm]
        omega
      simp only [List.all_cons, List.all_nil, Bool.and_true, Bool.and_eq_true, beq_iff_eq]
      rw [e1, e2, e3, e4]
      exact ⟨c3, c4, c1, c2⟩
    · rfl
  have hparse := C08.parse_render s hs e helen hpad
  unfold decodePixels
  rw [hparse]
  simp only [hread]
  rw [clean_word_unchanged s hs data ecc hb hl heccb hecclen' hcw]
  simp only
  have : dataCw s = data.length := hl.symm
  rw [this]; simp

/-- Non-vacuity: the 10×10 symbol for the data codewords of "Foo" (kernel-computed). -/
example : (match encodeError 0 [71, 112, 112] with
    | .ok ecc => match newWithCodewords 0 ([71, 112, 112] ++ ecc) with
      | some e => match decodePixels (bitmapOf 0 e) 10 with
        | .ok (d, s) => d == [71, 112, 112] && s == 0
        | .error _ => false
      | none => false
    | .error _ => false) = true := by decide +kernel

/-! ## The data-level half for ASCII encodation

`ascii_roundtrip`: whenever the encoder model, following the plan "ASCII until the end" (the plan
the optimiser returns when only ASCII is enabled, and for every message it decides to keep in
ASCII), produces the data codewords of a symbol, the data decoder model returns exactly the
message — for every message, every symbol list and whatever amount of padding the chosen symbol
needs (digit pairs, upper shift, the pad codeword and the 253-state randomised pads included). -/

theorem ascii_roundtrip (list : List Sym) (body cw : List Nat) (sym : Sym) (hb : ∀ b ∈ body, b < 256)
    (h : DM.Model.Enc.run list [] body [(0, .ascii)] = .ok (cw, sym)) :
    DM.Model.Dec.decodeData cw = .ok body ∧ cw.length = dataCw sym := by
  obtain ⟨hle, hcw⟩ := DM.Lemmas.AsciiRT.run_ascii list body cw sym h
  refine ⟨?_, ?_⟩
  · rw [hcw]
    exact DM.Lemmas.AsciiRT.decodeData_ascii body hb (dataCw sym) hle
  · rw [hcw]
    split
    · simp; omega
    · rename_i hne
      have : ∀ p n, (DM.Lemmas.AsciiRT.padsFrom p n).length = n := by
        intro p n
        induction n generalizing p with
        | zero => rfl
        | succ n ih => simp [DM.Lemmas.AsciiRT.padsFrom, ih]
      simp [this]
      omega

/-- Non-vacuity: "A1234é" fills the 5-codeword symbol exactly, "A1234éé" needs padding; the runs succeed. -/
example : (match DM.Model.Enc.run (symbolList (List.range 30)) [] [65, 49, 50, 51, 52, 233] [(0, .ascii)] with
    | .ok (cw, sym) => cw == [66, 142, 164, 235, 106] && sym == 1
    | .error _ => false) = true := by decide +kernel
example : (match DM.Model.Enc.run (symbolList (List.range 30)) [] [65, 49, 50, 51, 52, 233, 233] [(0, .ascii)] with
    | .ok (cw, sym) => cw == [66, 142, 164, 235, 106, 235, 106, 129] && sym == 3
    | .error _ => false) = true := by decide +kernel

/-! ## The data-level half for a message planned entirely in X12

`x12_roundtrip`: with the plan "latch to X12 at the start, stay there" (the optimiser's plan for
X12 messages), whatever the encoder model returns decodes to the message — including the three
end-of-data forms `x12::encode` chooses between by looking at the space left in the symbol: the
run ends with the symbol (no UNLATCH), a single trailing ASCII codeword without UNLATCH when
exactly one codeword is left, or UNLATCH followed by the rest in ASCII and padding. (For arbitrary
injected plans the round trip does *not* hold — see DESIGN.md §0.6, "stale latch" — so the
statement is per plan shape.) -/

theorem x12_roundtrip (list : List Sym) (body cw : List Nat) (sym : Sym) (hb : ∀ b ∈ body, b < 256)
    (h : DM.Model.Enc.run list [] body [(body.length, .x12), (0, .x12)] = .ok (cw, sym)) :
    DM.Model.Dec.decodeData cw = .ok body :=
  DM.Lemmas.X12RT.pure_x12_roundtrip list body cw sym hb h

/-- Non-vacuity: the three endings (exact fit, single ASCII codeword without UNLATCH, UNLATCH + ASCII). -/
example : DM.Model.Enc.run (symbolList (List.range 30)) [] [65, 65, 65] [(3, .x12), (0, .x12)] =
    .ok ([238, 89, 191], 0) := by decide +kernel
example : DM.Model.Enc.run (symbolList (List.range 30)) [] [65, 65, 65, 65, 65, 65, 65, 65, 65, 66] [(10, .x12), (0, .x12)] =
    .ok ([238, 89, 191, 89, 191, 89, 191, 67], 3) := by decide +kernel
example : DM.Model.Enc.run (symbolList (List.range 30)) [] [65, 65, 65, 65] [(4, .x12), (0, .x12)] =
    .ok ([238, 89, 191, 254, 66], 1) := by decide +kernel

/-! ## The data-level half for a message planned entirely in Base 256

`b256_roundtrip`: latch, length field, 255-state randomisation by codeword position. `write_length`
chooses the one-codeword length (≤ 249 bytes), the two-codeword length (≤ 1555 bytes) or, when the
data ends exactly with the symbol, length 0 = "to the end of the symbol"; all three decode to the message. -/

theorem b256_roundtrip (list : List Sym) (body cw : List Nat) (sym : Sym) (hb : ∀ b ∈ body, b < 256)
    (h : DM.Model.Enc.run list [] body [(body.length, .base256), (0, .base256)] = .ok (cw, sym)) :
    DM.Model.Dec.decodeData cw = .ok body :=
  DM.Lemmas.B256RT.pure_b256_roundtrip list body cw sym hb h

/-- Non-vacuity: the "to the end of the symbol" form and an explicit length with padding. -/
example : DM.Model.Enc.run (symbolList (List.range 30)) [] [200, 201, 202] [(3, .base256), (0, .base256)] =
    .ok ([231, 44, 137, 32, 182], 1) := by decide +kernel
example : DM.Model.Enc.run (symbolList (List.range 30)) [] [200, 201] [(2, .base256), (0, .base256)] =
    .ok ([231, 46, 137, 32, 129], 1) := by decide +kernel

/-! ## The data-level half for a message planned entirely in EDIFACT

`edifact_roundtrip` (all characters in the EDIFACT range 32..94): complete quadruples, then one of the
end-of-data forms `edifact::encode` chooses from the space left in the symbol — the rest (≤ 4
characters) as ≤ 2 ASCII codewords without UNLATCH when the symbol has ≤ 2 codewords left
(`try_ascii_end`, at a group boundary or with characters already buffered), the UNLATCH value in the
next free slot of a last group (which needs three codewords in the symbol to be read as EDIFACT: the
proof shows the encoder's space tests guarantee them), or the exact end of the symbol. The branch
"write the buffered characters without UNLATCH" of `handle_end` is shown unreachable: whenever its
condition holds, `try_ascii_end` has already succeeded. -/

theorem edifact_roundtrip (list : List Sym) (body cw : List Nat) (sym : Sym) (hc : ∀ x ∈ body, 32 ≤ x ∧ x ≤ 94)
    (h : DM.Model.Enc.run list [] body [(body.length, .edifact), (0, .edifact)] = .ok (cw, sym)) :
    DM.Model.Dec.decodeData cw = .ok body :=
  DM.Lemmas.EdiRT.pure_edifact_roundtrip list body cw sym hc h

/-- Non-vacuity: ASCII end with nothing left, ASCII end with one character, UNLATCH in the third slot
with the symbol exactly full, UNLATCH in the first slot followed by padding. -/
example : DM.Model.Enc.run (symbolList (List.range 30)) [] [65, 66, 67, 68] [(4, .edifact), (0, .edifact)] =
    .ok ([240, 4, 32, 196, 129], 1) := by decide +kernel
example : DM.Model.Enc.run (symbolList (List.range 30)) [] [65, 66, 67, 68, 69] [(5, .edifact), (0, .edifact)] =
    .ok ([240, 4, 32, 196, 70], 1) := by decide +kernel
example : DM.Model.Enc.run (symbolList (List.range 30)) [] [65, 66, 67, 68, 69, 70, 71, 72, 73, 74]
    [(10, .edifact), (0, .edifact)] = .ok ([240, 4, 32, 196, 20, 97, 200, 36, 167, 192], 4) := by decide +kernel
example : DM.Model.Enc.run (symbolList [5]) [] [65, 66, 67, 68, 69, 70, 71, 72] [(8, .edifact), (0, .edifact)] =
    .ok ([240, 4, 32, 196, 20, 97, 200, 124, 129, 101, 251, 147], 5) := by decide +kernel

/-! ## The data-level half for a message planned entirely in C40 or in Text

`c40_roundtrip`, `text_roundtrip`: every byte value (basic set, the three shift sets, upper shift),
triples flushed as they fill, and every end-of-data branch of `c40::handle_end`: two values left and
exactly two codewords of room (fill value 0, no UNLATCH); one value left and room for UNLATCH + one
codeword (the value is dropped, UNLATCH, the last character again in ASCII); one value left, exactly
one codeword of room and a one-codeword character (no UNLATCH, single trailing ASCII codeword); the
general case (fill with Shift 2 / Shift 2 + Upper Shift, UNLATCH if there is room); and the
"two digits left with an empty buffer" case (UNLATCH if there is room, digit pair in ASCII). The
encoder's value function is identified with the reference builder's on all 512 (charset, byte)
pairs and the decoder's value automaton is run on every proper prefix of every value sequence by
kernel evaluation. -/

theorem c40_roundtrip (list : List Sym) (body cw : List Nat) (sym : Sym) (hb : ∀ b ∈ body, b < 256)
    (h : DM.Model.Enc.run list [] body [(body.length, .c40), (0, .c40)] = .ok (cw, sym)) :
    DM.Model.Dec.decodeData cw = .ok body :=
  DM.Lemmas.C40RT.pure_c40_roundtrip false list body cw sym hb h

theorem text_roundtrip (list : List Sym) (body cw : List Nat) (sym : Sym) (hb : ∀ b ∈ body, b < 256)
    (h : DM.Model.Enc.run list [] body [(body.length, .text), (0, .text)] = .ok (cw, sym)) :
    DM.Model.Dec.decodeData cw = .ok body :=
  DM.Lemmas.C40RT.pure_c40_roundtrip true list body cw sym hb h

/-- Non-vacuity: exact fit, dropped value + UNLATCH + ASCII, fill value 0, two trailing digits,
Text with upper shift, fill with Shift 2 + Upper Shift. -/
example : DM.Model.Enc.run (symbolList (List.range 30)) [] [65, 66, 67] [(3, .c40), (0, .c40)] =
    .ok ([230, 89, 233], 0) := by decide +kernel
example : DM.Model.Enc.run (symbolList (List.range 30)) [] [65, 66, 67, 68] [(4, .c40), (0, .c40)] =
    .ok ([230, 89, 233, 254, 69], 1) := by decide +kernel
example : DM.Model.Enc.run (symbolList (List.range 30)) [] [65, 66, 67, 68, 69] [(5, .c40), (0, .c40)] =
    .ok ([230, 89, 233, 109, 17], 1) := by decide +kernel
example : DM.Model.Enc.run (symbolList (List.range 30)) [] [65, 66, 67, 49, 50] [(5, .c40), (0, .c40)] =
    .ok ([230, 89, 233, 254, 142], 1) := by decide +kernel
example : DM.Model.Enc.run (symbolList (List.range 30)) [] [97, 98, 99, 200] [(4, .text), (0, .text)] =
    .ok ([239, 89, 233, 10, 243, 50, 71, 254], 3) := by decide +kernel
example : DM.Model.Enc.run (symbolList (List.range 30)) [] [65, 66, 67, 68, 69, 70, 33] [(7, .c40), (0, .c40)] =
    .ok ([230, 89, 233, 109, 36, 6, 66, 254], 3) := by decide +kernel

/-! ## The data-level half for mixed plans

`mixed_roundtrip`: for **every plan** over ASCII, C40, Text, X12 and Base 256 in which no latch to a
non-ASCII mode is scheduled for the last four characters (`PlanOK`, decidable; EDIFACT segments are
covered by `edifact_roundtrip` for pure plans only), whatever the encoder model returns decodes to
the message. Proof: an invariant of `GenericDataEncoder::codewords`' main loop (`MainRT.MI`: the
decoder model, run on the codewords written so far followed by any legal continuation, has consumed
exactly those codewords, is back in ASCII mode and has produced the characters consumed so far; or
the end game "one more ASCII codeword fills the symbol"; or "done, exact fit"), preserved by each
mode encoder started at any position with any plan (`asciiLoop_gen`, `c40Loop_gen`, `x12Encode_gen`,
`b256Loop_gen`), including planned switches inside `handle_end` / `write_length`.
The side condition excludes the plans for which the round trip is false (stale latch after
`set_ascii_until_end`, DESIGN.md §0.6); the check reports how many of the optimiser's plans in the
sweep satisfy it. -/

open DM.Lemmas.C40Gen in
theorem mixed_roundtrip (list : List Sym) (body cw : List Nat) (plan : List (Nat × DM.Model.Enc.EMode)) (sym : Sym)
    (hb : ∀ b ∈ body, b < 256)
    (hplan : ∀ e ∈ plan, (e.2 ≠ .ascii → e.1 = 0 ∨ e.1 > 4) ∧ e.2 ≠ .edifact)
    (h : DM.Model.Enc.run list [] body plan = .ok (cw, sym)) :
    DM.Model.Dec.decodeData cw = .ok body :=
  DM.Lemmas.MainRT.general_roundtrip list body cw plan sym hb hplan h

/-- Non-vacuity: C40, then ASCII digit pairs, then Base 256, then X12 — the plan satisfies the side
condition and the run succeeds. -/
example : (∀ e ∈ [(26, DM.Model.Enc.EMode.c40), (20, .ascii), (12, .base256), (6, .x12), (0, .x12)],
    (e.2 ≠ DM.Model.Enc.EMode.ascii → e.1 = 0 ∨ e.1 > 4) ∧ e.2 ≠ .edifact) := by decide
example : DM.Model.Enc.run (symbolList (List.range 30)) []
    [65, 66, 67, 68, 69, 70, 49, 50, 51, 52, 53, 54, 55, 56, 200, 201, 202, 203, 204, 205, 65, 66, 67, 13, 42, 62]
    [(26, .c40), (20, .ascii), (12, .base256), (6, .x12), (0, .x12)] =
    .ok ([230, 89, 233, 109, 36, 254, 142, 164, 186, 208, 231, 10, 97, 248, 142, 37, 187, 82, 238, 89, 233, 0, 43, 254], 11) := by
  decide +kernel

/-! ## Mixed plans with EDIFACT as the final stretch

`mixed_roundtrip_E` extends `mixed_roundtrip` to plans `front ++ edis` in which the front part is as
above (no EDIFACT) and `edis` names EDIFACT only — the shape `…, (p, E), (0, E)` the optimiser
produces when it finishes a message in EDIFACT. Side conditions: as before no latch to a non-ASCII
mode (EDIFACT included) is scheduled for the last four characters, and the characters an EDIFACT
entry covers are EDIFACT characters (32 … 94; the encoder model does not check this, and the round
trip is false otherwise). Proof: `EdiGen.ediLoop_gen` (the EDIFACT encoder started at any position
after any codewords with an EDIFACT-only rest plan ends in one of the three ways of `EdiRT.EdiEnd`),
and two further situations of the main-loop invariant `MainRT.MI true` behind an EDIFACT run
(`ediAscii`: at most two ASCII codewords still fit, the decoder leaves EDIFACT mode without UNLATCH;
`final`: everything written, the padding the symbol needs is long enough for the decoder to see the
group with the UNLATCH value). `C40Gen.planOKEb` is an executable check of the side condition. -/

open DM.Lemmas.C40Gen in
theorem mixed_roundtrip_E (list : List Sym) (body cw : List Nat) (plan : List (Nat × DM.Model.Enc.EMode)) (sym : Sym)
    (hb : ∀ b ∈ body, b < 256)
    (hplan : ∃ front edis, plan = front ++ edis ∧
      (∀ e ∈ front, (e.2 ≠ .ascii → e.1 = 0 ∨ e.1 > 4) ∧ e.2 ≠ .edifact) ∧
      (∀ e ∈ edis, e.2 = .edifact ∧ (e.1 = 0 ∨ e.1 > 4) ∧ ∀ x ∈ body.drop (body.length - e.1), 32 ≤ x ∧ x ≤ 94))
    (h : DM.Model.Enc.run list [] body plan = .ok (cw, sym)) :
    DM.Model.Dec.decodeData cw = .ok body :=
  DM.Lemmas.MainRT.general_roundtrip_E list body cw plan sym hb hplan h

/-- the same with the executable side condition -/
theorem mixed_roundtrip_Eb (list : List Sym) (body cw : List Nat) (plan : List (Nat × DM.Model.Enc.EMode)) (sym : Sym)
    (hb : ∀ b ∈ body, b < 256) (hplan : DM.Lemmas.C40Gen.planOKEb body plan = true)
    (h : DM.Model.Enc.run list [] body plan = .ok (cw, sym)) :
    DM.Model.Dec.decodeData cw = .ok body :=
  DM.Lemmas.MainRT.general_roundtrip_E list body cw plan sym hb (DM.Lemmas.C40Gen.planOKE_of_check body plan hplan) h

/-- Non-vacuity: the side condition holds and the run succeeds for Base 256 / Text followed by
EDIFACT, with each of the four endings of the EDIFACT run (UNLATCH in the last group; complete
quadruples filling the symbol, no UNLATCH; the last character handed to ASCII; two quadruples, two
characters and the UNLATCH value followed by padding). -/
example : DM.Lemmas.C40Gen.planOKEb [200, 201, 202, 203, 204, 205, 206, 65, 66, 67, 68, 69, 70]
    [(13, .base256), (6, .edifact), (0, .edifact)] = true := by decide
example : DM.Model.Enc.run (symbolList (List.range 30)) [] [200, 201, 202, 203, 204, 205, 206, 65, 66, 67, 68, 69, 70]
    [(13, .base256), (6, .edifact), (0, .edifact)] =
    .ok ([231, 51, 137, 32, 182, 77, 228, 122, 17, 240, 4, 32, 196, 20, 103, 192], 6) := by decide +kernel
example : DM.Lemmas.C40Gen.planOKEb [200, 201, 202, 203, 204, 205, 206, 65, 66, 67, 68, 69, 70, 71, 72]
    [(15, .base256), (8, .edifact), (0, .edifact)] = true := by decide
example : DM.Model.Enc.run (symbolList (List.range 30)) [] [200, 201, 202, 203, 204, 205, 206, 65, 66, 67, 68, 69, 70, 71, 72]
    [(15, .base256), (8, .edifact), (0, .edifact)] =
    .ok ([231, 51, 137, 32, 182, 77, 228, 122, 17, 240, 4, 32, 196, 20, 97, 200], 6) := by decide +kernel
example : DM.Lemmas.C40Gen.planOKEb [97, 98, 99, 100, 101, 102, 103, 65, 66, 67, 68, 69, 70, 71, 72, 73]
    [(16, .text), (9, .edifact), (0, .edifact)] = true := by decide
example : DM.Model.Enc.run (symbolList (List.range 30)) [] [97, 98, 99, 100, 101, 102, 103, 65, 66, 67, 68, 69, 70, 71, 72, 73]
    [(16, .text), (9, .edifact), (0, .edifact)] =
    .ok ([239, 89, 233, 109, 36, 125, 71, 254, 240, 4, 32, 196, 20, 97, 200, 74], 6) := by decide +kernel
example : DM.Model.Enc.run (symbolList (List.range 30)) [] [49, 50, 51, 52, 65, 66, 67, 68, 69, 70, 71, 72, 73, 74]
    [(10, .edifact), (0, .edifact)] =
    .ok ([142, 164, 240, 4, 32, 196, 20, 97, 200, 36, 167, 192], 5) := by decide +kernel

end DM.Props.C01
