import DM.Props.C13TailDefs
/-!
# C13, second clause — the end-of-data ASCII fallback covers at most four characters

Plan-independent facts about the six mode encoders of `Model/Encode.lean`: whatever the plan, a call
of a mode encoder that returns with characters left has either consumed an entry of the plan (a planned
switch: the list of planned switches got shorter), or it has called `set_ascii_until_end` with at most
`tailMax mode` characters left: 0 for ASCII and Base 256, 2 for C40 / Text / X12, 4 for EDIFACT
(`encodeMode_tail`).
-/
namespace DM.Props.C13Tail
open DM.Model DM.Model.Enc

/-- the state `set_ascii_until_end` leaves, with at most `n` characters left -/
def TailSet (s' : St) (n : Nat) : Prop := s'.mode = .ascii ∧ s'.plan = [(0, .ascii)] ∧ s'.charsLeft ≤ n

/-- only codewords differ -/
def Same (s t : St) : Prop := t.input = s.input ∧ t.pos = s.pos ∧ t.mode = s.mode ∧ t.plan = s.plan

theorem Same.refl (s : St) : Same s s := ⟨rfl, rfl, rfl, rfl⟩
theorem Same.trans {a b c : St} (h1 : Same a b) (h2 : Same b c) : Same a c :=
  ⟨h2.1.trans h1.1, h2.2.1.trans h1.2.1, h2.2.2.1.trans h1.2.2.1, h2.2.2.2.trans h1.2.2.2⟩

theorem same_push (s : St) (c : Nat) : Same s (s.push c) := ⟨rfl, rfl, rfl, rfl⟩
theorem same_writeThree (s : St) (a b c : Nat) : Same s (writeThree s a b c) := ⟨rfl, rfl, rfl, rfl⟩

theorem same_write4 (s : St) (sym : List Nat) : Same s (write4 s sym) := by
  unfold write4
  simp only []
  split
  · split
    · exact ⟨rfl, rfl, rfl, rfl⟩
    · exact ⟨rfl, rfl, rfl, rfl⟩
  · exact ⟨rfl, rfl, rfl, rfl⟩

theorem Same.hasMore {s t : St} (h : Same s t) : t.hasMore = s.hasMore := by
  unfold St.hasMore; rw [h.1, h.2.1]

theorem Same.charsLeft {s t : St} (h : Same s t) : t.charsLeft = s.charsLeft := by
  unfold St.charsLeft; rw [h.1, h.2.1]

theorem hasMore_charsLeft (s : St) : s.hasMore = true ↔ 0 < s.charsLeft := by
  unfold St.hasMore St.charsLeft
  simp only [decide_eq_true_eq]
  omega

theorem maybeSwitch_spec (s t : St) (b : Bool) (h : s.maybeSwitch = .ok (b, t)) :
    t.input = s.input ∧ t.pos = s.pos ∧ t.plan.length ≤ s.plan.length ∧
      (b = true → t.plan.length < s.plan.length) ∧ (b = false → t.mode = s.mode) := by
  unfold St.maybeSwitch at h
  split at h
  · cases h
  · rename_i at_ m restPlan hp
    simp only [] at h
    split at h
    · cases h
    · by_cases hc : s.charsLeft > 0 ∧ s.charsLeft = at_
      · rw [if_pos hc] at h
        simp only [] at h
        split at h
        · simp only [Except.ok.injEq, Prod.mk.injEq] at h
          obtain ⟨rfl, rfl⟩ := h
          refine ⟨rfl, rfl, ?_, ?_, ?_⟩ <;> simp_all
        · simp only [Except.ok.injEq, Prod.mk.injEq] at h
          obtain ⟨rfl, rfl⟩ := h
          refine ⟨rfl, rfl, ?_, ?_, ?_⟩ <;> simp_all
      · rw [if_neg hc] at h
        simp only [ne_eq, not_true_eq_false, ↓reduceIte] at h
        simp only [Except.ok.injEq, Prod.mk.injEq] at h
        obtain ⟨rfl, rfl⟩ := h
        exact ⟨rfl, rfl, Nat.le_refl _, fun h => Bool.noConfusion h, fun _ => rfl⟩

theorem eat_some (s t : St) (ch : Nat) (h : s.eat = some (ch, t)) :
    t = { s with pos := s.pos + 1 } ∧ s.hasMore = true := by
  unfold St.eat at h
  split at h
  · rename_i c hc
    simp only [Option.some.injEq, Prod.mk.injEq] at h
    obtain ⟨_, h2⟩ := List.getElem?_eq_some_iff.mp hc
    exact ⟨h.2.symm, by simp only [St.hasMore, decide_eq_true_eq]; omega⟩
  · cases h

theorem eat_none (s : St) (h : s.eat = none) : s.hasMore = false := by
  unfold St.eat at h
  split at h
  · cases h
  · rename_i hc
    have := List.getElem?_eq_none_iff.mp hc
    simp only [St.hasMore, decide_eq_false_iff_not]
    omega

/-! ### ASCII: no fallback -/

theorem asciiLoop_tail : ∀ (f : Nat) (s s' : St), asciiLoop f s = .ok s' → s'.hasMore = true →
    s'.plan.length < s.plan.length := by
  intro f
  induction f with
  | zero => intro s s' h; cases h
  | succ f ih =>
    intro s s' h hm
    unfold asciiLoop at h
    cases hsw : s.maybeSwitch with
    | error e => rw [hsw] at h; cases h
    | ok bt =>
      obtain ⟨b, t⟩ := bt
      obtain ⟨_, _, hle, hlt, _⟩ := maybeSwitch_spec s t b hsw
      rw [hsw] at h
      cases b with
      | true =>
        simp only [Except.ok.injEq] at h
        subst h
        exact hlt rfl
      | false =>
        simp only [] at h
        split at h
        · split at h
          · have := ih _ s' h hm
            exact Nat.lt_of_lt_of_le this hle
          · cases h
        · split at h
          · rename_i he
            simp only [Except.ok.injEq] at h
            subst h
            rw [eat_none t he] at hm
            cases hm
          · rename_i ch t2 he
            obtain ⟨rfl, _⟩ := eat_some t t2 ch he
            split at h
            · exact Nat.lt_of_lt_of_le (ih _ s' h hm) hle
            · exact Nat.lt_of_lt_of_le (ih _ s' h hm) hle

/-! ### Base 256: no fallback -/

theorem b256WriteLength_same (s t : St) (start : Nat) (h : b256WriteLength s start = .ok t) : Same s t := by
  unfold b256WriteLength at h
  split at h
  · cases h
  · split at h
    · cases h
    · simp only [] at h
      split at h
      · cases h
      · simp only [Except.ok.injEq] at h
        subst h
        exact ⟨rfl, rfl, rfl, rfl⟩

/-- the body of `b256Loop` after the first `eat` -/
def b256Rest (start f : Nat) (s : St) : R St :=
  if !s.hasMore then
    match b256WriteLength s start with
    | .error e => .error e
    | .ok s => .ok s.setAscii
  else
    match s.maybeSwitch with
    | .error e => .error e
    | .ok (true, s) =>
      match b256WriteLength s start with
      | .error e => .error e
      | .ok s => .ok (if !s.hasMore then s.setAscii else s)
    | .ok (false, s) => b256Loop start f s

theorem b256Loop_succ (start f : Nat) (s : St) :
    b256Loop start (f + 1) s = b256Rest start f (match s.eat with | some (ch, s') => s'.push ch | none => s) := by
  rw [b256Loop]; rfl

theorem b256Loop_tail (start : Nat) : ∀ (f : Nat) (s s' : St), b256Loop start f s = .ok s' → s'.hasMore = true →
    s'.plan.length < s.plan.length := by
  intro f
  induction f with
  | zero => intro s s' h; cases h
  | succ f ih =>
    intro s s' h hm
    rw [b256Loop_succ] at h
    obtain ⟨s1, hs1, hpl⟩ : ∃ s1, (match s.eat with | some (ch, s') => s'.push ch | none => s) = s1 ∧
        s1.plan = s.plan := by
      cases he : s.eat with
      | none => exact ⟨s, rfl, rfl⟩
      | some p =>
        obtain ⟨ch, t⟩ := p
        obtain ⟨rfl, _⟩ := eat_some s t ch he
        exact ⟨_, rfl, rfl⟩
    rw [hs1] at h
    unfold b256Rest at h
    split at h
    · split at h
      · cases h
      · rename_i hno _ s2 hw
        simp only [Except.ok.injEq] at h
        subst h
        have hs := b256WriteLength_same s1 s2 start hw
        have : s2.setAscii.hasMore = s1.hasMore := hs.hasMore
        rw [this] at hm
        rw [hm] at hno
        cases hno
    · cases hsw : s1.maybeSwitch with
      | error e => rw [hsw] at h; cases h
      | ok bt =>
        obtain ⟨b, t⟩ := bt
        obtain ⟨_, _, hle, hlt, _⟩ := maybeSwitch_spec s1 t b hsw
        rw [hsw] at h
        cases b with
        | true =>
          simp only [] at h
          split at h
          · cases h
          · rename_i s2 hw
            have hs := b256WriteLength_same t s2 start hw
            simp only [Except.ok.injEq] at h
            subst h
            split at hm
            · rename_i hno
              have : s2.setAscii.hasMore = s2.hasMore := rfl
              rw [this] at hm
              rw [hm] at hno
              cases hno
            · rename_i hno
              rw [if_neg hno, hs.2.2.2, ← hpl]
              exact hlt rfl
        | false =>
          simp only [] at h
          have := ih t s' h hm
          rw [← hpl]
          omega

theorem b256Encode_tail (s s' : St) (h : b256Encode s = .ok s') (hm : s'.hasMore = true) :
    s'.plan.length < s.plan.length :=
  b256Loop_tail _ _ (s.push 0) s' h hm

/-! ### X12: at most two characters -/

theorem x12Loop_spec : ∀ (f : Nat) (s t : St) (sw : Bool), x12Loop f s = .ok (t, sw) →
    t.plan.length ≤ s.plan.length ∧ (sw = true → t.plan.length < s.plan.length) ∧ (sw = false → t.charsLeft < 3) := by
  intro f
  induction f with
  | zero => intro s t sw h; cases h
  | succ f ih =>
    intro s t sw h
    unfold x12Loop at h
    split at h
    · split at h
      · split at h
        · simp only [] at h
          split at h
          · cases h
          · rename_i t1 hsw
            simp only [Except.ok.injEq, Prod.mk.injEq] at h
            obtain ⟨rfl, rfl⟩ := h
            obtain ⟨_, _, hle, hlt, _⟩ := maybeSwitch_spec _ _ _ hsw
            exact ⟨hle, fun _ => hlt rfl, fun h => Bool.noConfusion h⟩
          · rename_i t1 hsw
            obtain ⟨_, _, hle, _, _⟩ := maybeSwitch_spec _ _ _ hsw
            obtain ⟨a, b, c⟩ := ih t1 t sw h
            exact ⟨Nat.le_trans a hle, fun h => Nat.lt_of_lt_of_le (b h) hle, c⟩
        · cases h
        · cases h
        · cases h
      · cases h
    · rename_i hc
      simp only [Except.ok.injEq, Prod.mk.injEq] at h
      obtain ⟨rfl, rfl⟩ := h
      exact ⟨Nat.le_refl _, fun h => Bool.noConfusion h, fun _ => by omega⟩

theorem x12Encode_tail (s s' : St) (h : x12Encode s = .ok s') (hm : s'.hasMore = true) :
    s'.plan.length < s.plan.length ∨ TailSet s' 2 := by
  unfold x12Encode at h
  split at h
  · cases h
  · rename_i t sw hl
    obtain ⟨hle, hlt, hcl⟩ := x12Loop_spec _ s t sw hl
    simp only [] at h
    split at h
    · cases h
    · -- early: one ASCII codeword fits exactly
      rename_i hearly
      simp only [Except.ok.injEq] at h
      subst h
      right
      split at hearly
      · rename_i hone
        exact ⟨rfl, rfl, hone.1⟩
      · cases hearly
    · split at h
      · cases h
      · simp only [Except.ok.injEq] at h
        subst h
        cases sw with
        | true => left; exact hlt rfl
        | false => right; exact ⟨rfl, rfl, by have := hcl rfl; show t.charsLeft ≤ 2; omega⟩
      · rename_i hneed
        simp only [Except.ok.injEq] at h
        subst h
        split at hneed
        · cases hneed
        · rename_i hno
          rw [hm] at hno
          exact absurd rfl hno

/-! ### EDIFACT: at most four characters -/

theorem backup_ok (s t : St) (n : Nat) (h : s.backup n = .ok t) : t = { s with pos := s.pos - n } ∧ n ≤ s.pos := by
  unfold St.backup at h
  split at h
  · simp only [Except.ok.injEq] at h
    exact ⟨h.symm, by assumption⟩
  · cases h

theorem tryAsciiEnd_some (s t : St) (sym : List Nat) (h : edifactTryAsciiEnd s sym = .ok (some t)) :
    TailSet t 4 := by
  unfold edifactTryAsciiEnd at h
  simp only [] at h
  split at h
  · rename_i hr
    split at h
    · split at h
      · split at h
        · split at h
          · rename_i s1 hb
            simp only [Except.ok.injEq, Option.some.injEq] at h
            subst h
            obtain ⟨rfl, hn⟩ := backup_ok s s1 _ hb
            refine ⟨rfl, rfl, ?_⟩
            show s.input.length - (s.pos - sym.length) ≤ 4
            unfold St.charsLeft at hr
            omega
          · cases h
        · cases h
      · cases h
    · cases h
  · cases h

theorem tailSet_of_noMore (s : St) (n : Nat) (h1 : s.mode = .ascii) (h2 : s.plan = [(0, .ascii)])
    (h3 : s.hasMore = false) : TailSet s n := by
  refine ⟨h1, h2, ?_⟩
  unfold St.hasMore at h3
  unfold St.charsLeft
  simp only [decide_eq_false_iff_not] at h3
  omega

theorem edifactHandleEnd_spec (s s' : St) (sym : List Nat) (h : edifactHandleEnd s sym = .ok s') :
    TailSet s' 4 ∨ Same s s' := by
  unfold edifactHandleEnd at h
  split at h
  · cases h
  · rename_i t ht
    simp only [Except.ok.injEq] at h
    subst h
    exact Or.inl (tryAsciiEnd_some s _ sym ht)
  · split at h
    · split at h
      · rename_i hno
        have hno' : s.hasMore = false := by simpa using hno
        split at h
        · cases h
        · split at h
          · split at h
            · cases h
            · simp only [Except.ok.injEq] at h
              subst h
              exact Or.inl (tailSet_of_noMore _ 4 rfl rfl hno')
          · simp only [Except.ok.injEq] at h
            subst h
            exact Or.inr (Same.refl _)
      · simp only [Except.ok.injEq] at h
        subst h
        exact Or.inr (same_push _ _)
    · split at h
      · cases h
      · split at h
        · rename_i hno
          have hno' : s.hasMore = false := by simpa using hno
          split at h
          · cases h
          · split at h
            · simp only [Except.ok.injEq] at h
              subst h
              left
              have hs := same_write4 s.setAscii (sym ++ [31])
              exact tailSet_of_noMore _ 4 hs.2.2.1 hs.2.2.2 (by rw [hs.hasMore]; exact hno')
            · simp only [Except.ok.injEq] at h
              subst h
              exact Or.inr (same_write4 _ _)
        · simp only [Except.ok.injEq] at h
          subst h
          exact Or.inr (same_write4 _ _)

/-- the body of `edifactLoop` after the early `try_ascii_end` -/
def ediRest (f : Nat) (s : St) (sym : List Nat) : R St :=
  match s.eat with
  | none => edifactHandleEnd s sym
  | some (ch, s1) =>
    let sym1 := sym ++ [ch]
    let (s2, sym2) := if sym1.length = 4 then (write4 s1 sym1, []) else (s1, sym1)
    match s2.maybeSwitch with
    | .error e => .error e
    | .ok (true, s3) => edifactHandleEnd s3 sym2
    | .ok (false, s3) => edifactLoop f s3 sym2

theorem edifactLoop_succ (f : Nat) (s : St) (sym : List Nat) :
    edifactLoop (f + 1) s sym =
      match (if sym.isEmpty ∧ s.hasMore then edifactTryAsciiEnd s sym else .ok none : R (Option St)) with
      | .error e => .error e
      | .ok (some s') => .ok s'
      | .ok none => ediRest f s sym := by
  rw [edifactLoop]; rfl

theorem edifactLoop_tail : ∀ (f : Nat) (s s' : St) (sym : List Nat), edifactLoop f s sym = .ok s' →
    s'.hasMore = true → s'.plan.length < s.plan.length ∨ TailSet s' 4 := by
  intro f
  induction f with
  | zero => intro s s' sym h; cases h
  | succ f ih =>
    intro s s' sym h hm
    rw [edifactLoop_succ] at h
    generalize he : (if sym.isEmpty ∧ s.hasMore then edifactTryAsciiEnd s sym else .ok none : R (Option St)) = early at h
    cases early with
    | error e => cases h
    | ok o =>
      cases o with
      | some t =>
        simp only [Except.ok.injEq] at h
        subst h
        right
        split at he
        · exact tryAsciiEnd_some s _ sym he
        · cases he
      | none =>
        simp only [] at h
        unfold ediRest at h
        cases hea : s.eat with
        | none =>
          rw [hea] at h
          simp only [] at h
          rcases edifactHandleEnd_spec s s' sym h with ht | hs
          · exact Or.inr ht
          · rw [hs.hasMore, eat_none s hea] at hm
            cases hm
        | some p =>
          obtain ⟨ch, s1⟩ := p
          obtain ⟨rfl, _⟩ := eat_some s s1 ch hea
          rw [hea] at h
          simp only [] at h
          obtain ⟨s2, sym2, hpair, hpl⟩ : ∃ s2 sym2,
              (if (sym ++ [ch]).length = 4 then (write4 { s with pos := s.pos + 1 } (sym ++ [ch]), ([] : List Nat))
                else ({ s with pos := s.pos + 1 }, sym ++ [ch])) = (s2, sym2) ∧ s2.plan = s.plan := by
            split
            · exact ⟨_, _, rfl, (same_write4 _ _).2.2.2⟩
            · exact ⟨_, _, rfl, rfl⟩
          rw [hpair] at h
          simp only [] at h
          cases hsw : s2.maybeSwitch with
          | error e => rw [hsw] at h; cases h
          | ok bt =>
            obtain ⟨b, s3⟩ := bt
            obtain ⟨_, _, hle, hlt, _⟩ := maybeSwitch_spec s2 s3 b hsw
            rw [hsw] at h
            cases b with
            | true =>
              simp only [] at h
              rcases edifactHandleEnd_spec s3 s' sym2 h with ht | hs
              · exact Or.inr ht
              · left
                rw [hs.2.2.2, ← hpl]
                exact hlt rfl
            | false =>
              simp only [] at h
              rcases ih s3 s' sym2 h hm with h1 | h1
              · left; rw [← hpl]; omega
              · exact Or.inr h1

theorem edifactEncode_tail (s s' : St) (h : edifactEncode s = .ok s') (hm : s'.hasMore = true) :
    s'.plan.length < s.plan.length ∨ TailSet s' 4 :=
  edifactLoop_tail _ s s' [] h hm

/-! ### C40 / Text: at most two characters -/

/-- `handle_end`, first part: the three exact-fit cases at the end of the data -/
def c40Early (s : St) (lastCh : Nat) (buf : List Nat) : R (Option St) :=
  if !s.hasMore then
    match s.sizeLeftE buf.length with
    | .error e => .error e
    | .ok sizeLeft =>
      if sizeLeft + buf.length = 2 ∧ buf.length = 2 then
        .ok (some (writeThree s (buf.getD 0 0) (buf.getD 1 0) 0))
      else if sizeLeft + buf.length = 2 ∧ buf.length = 1 then
        match ((s.push 254).setAscii).backup 1 with
        | .ok s' => .ok (some s')
        | .error e => .error e
      else if sizeLeft + buf.length = 1 ∧ buf.length = 1 ∧ asciiSize [lastCh] = 1 then
        match s.setAscii.backup 1 with
        | .ok s' => .ok (some s')
        | .error e => .error e
      else .ok none
  else .ok none

/-- `handle_end`, second part: the rest of the buffer is padded and written -/
def c40Mid (s : St) (buf : List Nat) : St :=
  if !buf.isEmpty then
    let buf := buf ++ [1]
    let buf := if buf.length = 2 then buf ++ [30] else buf
    let s' := writeThree s (buf.getD 0 0) (buf.getD 1 0) (buf.getD 2 0)
    if !s.hasMore then s'.setAscii else s'
  else s

/-- `handle_end`, third part: the unlatch -/
def c40Fin (s : St) (modeSwitch : Bool) : R St :=
  if s.charsLeft > 0 then
    if s.charsLeft = 2 ∧ twoDigitsComing s.rest then
      match s.sizeLeftE 1 with
      | .error e => .error e
      | .ok spaceLeft =>
        let s := s.setAscii
        .ok (if spaceLeft ≥ 1 then s.push 254 else s)
    else .ok (s.push 254)
  else
    match s.sizeLeftE 0 with
    | .error e => .error e
    | .ok left =>
      if left > 0 then
        let s := s.push 254
        .ok (if !modeSwitch then s.setAscii else s)
      else .ok s

theorem c40HandleEnd_eq (s : St) (lastCh : Nat) (buf : List Nat) :
    c40HandleEnd s lastCh buf =
      if buf.length > 2 then .error (.panic "assert buf.len() <= 2") else
      match c40Early s lastCh buf with
      | .error e => .error e
      | .ok (some s') => .ok s'
      | .ok none => c40Fin (c40Mid s buf) s.hasMore := by
  rfl

theorem c40Early_spec (s t : St) (l : Nat) (buf : List Nat) (h : c40Early s l buf = .ok (some t)) :
    s.hasMore = false ∧ (TailSet t 2 ∨ Same s t) := by
  unfold c40Early at h
  split at h
  · rename_i hno
    have hno' : s.hasMore = false := by simpa using hno
    refine ⟨hno', ?_⟩
    have hcl : s.input.length ≤ s.pos := by
      unfold St.hasMore at hno'
      simp only [decide_eq_false_iff_not] at hno'
      omega
    split at h
    · cases h
    · split at h
      · simp only [Except.ok.injEq, Option.some.injEq] at h
        subst h
        exact Or.inr (same_writeThree _ _ _ _)
      · split at h
        · split at h
          · rename_i s1 hb
            simp only [Except.ok.injEq, Option.some.injEq] at h
            subst h
            obtain ⟨rfl, _⟩ := backup_ok _ _ _ hb
            left
            refine ⟨rfl, rfl, ?_⟩
            show s.input.length - (s.pos - 1) ≤ 2
            omega
          · cases h
        · split at h
          · split at h
            · rename_i s1 hb
              simp only [Except.ok.injEq, Option.some.injEq] at h
              subst h
              obtain ⟨rfl, _⟩ := backup_ok _ _ _ hb
              left
              refine ⟨rfl, rfl, ?_⟩
              show s.input.length - (s.pos - 1) ≤ 2
              omega
            · cases h
          · cases h
  · cases h

theorem c40Mid_spec (s : St) (buf : List Nat) :
    (c40Mid s buf).input = s.input ∧ (c40Mid s buf).pos = s.pos ∧ (s.hasMore = true → Same s (c40Mid s buf)) := by
  unfold c40Mid
  split
  · simp only []
    split
    · rename_i hno
      refine ⟨rfl, rfl, fun h => ?_⟩
      rw [h] at hno
      cases hno
    · exact ⟨rfl, rfl, fun _ => same_writeThree _ _ _ _⟩
  · exact ⟨rfl, rfl, fun _ => Same.refl _⟩

theorem c40Fin_spec (s s' : St) (ms : Bool) (h : c40Fin s ms = .ok s') (hm : s'.hasMore = true) :
    TailSet s' 2 ∨ (Same s s' ∧ ¬ (s.charsLeft = 2 ∧ twoDigitsComing s.rest = true)) := by
  unfold c40Fin at h
  split at h
  · split at h
    · rename_i hc
      split at h
      · cases h
      · simp only [Except.ok.injEq] at h
        subst h
        left
        split
        · exact ⟨rfl, rfl, by show s.charsLeft ≤ 2; omega⟩
        · exact ⟨rfl, rfl, by show s.charsLeft ≤ 2; omega⟩
    · rename_i hc
      simp only [Except.ok.injEq] at h
      subst h
      exact Or.inr ⟨same_push _ _, hc⟩
  · rename_i hc
    have hs' : s'.hasMore = s.hasMore := by
      split at h
      · cases h
      · split at h
        · simp only [Except.ok.injEq] at h
          subst h
          split <;> rfl
        · simp only [Except.ok.injEq] at h
          subst h
          rfl
    rw [hs'] at hm
    have := (hasMore_charsLeft s).mp hm
    omega

theorem c40HandleEnd_spec (s s' : St) (l : Nat) (buf : List Nat) (h : c40HandleEnd s l buf = .ok s')
    (hm : s'.hasMore = true) :
    TailSet s' 2 ∨ (Same s s' ∧ ¬ (s.charsLeft = 2 ∧ twoDigitsComing s.rest = true)) := by
  rw [c40HandleEnd_eq] at h
  split at h
  · cases h
  · split at h
    · cases h
    · rename_i t ht
      simp only [Except.ok.injEq] at h
      subst h
      obtain ⟨hno, ht | hs⟩ := c40Early_spec s _ l buf ht
      · exact Or.inl ht
      · rw [hs.hasMore, hno] at hm
        cases hm
    · obtain ⟨m1, m2, m3⟩ := c40Mid_spec s buf
      rcases c40Fin_spec _ s' _ h hm with ht | ⟨hs, hc⟩
      · exact Or.inl ht
      · right
        have hsm : s.hasMore = true := by
          rw [hs.hasMore] at hm
          unfold St.hasMore at hm ⊢
          rw [m1, m2] at hm
          exact hm
        refine ⟨(m3 hsm).trans hs, ?_⟩
        have e1 : (c40Mid s buf).charsLeft = s.charsLeft := by unfold St.charsLeft; rw [m1, m2]
        have e2 : (c40Mid s buf).rest = s.rest := by unfold St.rest; rw [m1, m2]
        rw [e1, e2] at hc
        exact hc

theorem flushTriples_same : ∀ (n : Nat) (s : St) (buf : List Nat), Same s (flushTriples n s buf).1 := by
  intro n
  induction n with
  | zero => intro s buf; exact Same.refl _
  | succ n ih =>
    intro s buf
    unfold flushTriples
    split
    · exact (same_writeThree _ _ _ _).trans (ih _ _)
    · exact Same.refl _

/-- the body of `c40Loop` for a character `ch` that is not one of two final digits -/
def c40Rest (text : Bool) (f : Nat) (s1 : St) (buf : List Nat) (ch : Nat) : R St :=
  match toVals text buf ch with
  | .error e => .error e
  | .ok buf1 =>
    let (s2, buf2) := flushTriples 3 s1 buf1
    match s2.maybeSwitch with
    | .error e => .error e
    | .ok (true, s3) => c40HandleEnd s3 ch buf2
    | .ok (false, s3) => c40Loop text f s3 buf2 ch

/-- exactly one character is left, a digit -/
def oneDigitLeft (s1 : St) : Bool :=
  match s1.rest with
  | [d] => isDigit d
  | _ => false

theorem c40Loop_succ (text : Bool) (f : Nat) (s : St) (buf : List Nat) (lastCh : Nat) :
    c40Loop text (f + 1) s buf lastCh =
      match s.eat with
      | none => c40HandleEnd s lastCh buf
      | some (ch, s1) =>
        if buf.isEmpty && isDigit ch && oneDigitLeft s1 then
          match s1.backup 1 with
          | .error e => .error e
          | .ok s2 => c40HandleEnd s2 lastCh buf
        else c40Rest text f s1 buf ch := by
  rw [c40Loop]; rfl

theorem c40Loop_tail (text : Bool) : ∀ (f : Nat) (s s' : St) (buf : List Nat) (l : Nat),
    c40Loop text f s buf l = .ok s' → s'.hasMore = true → s'.plan.length < s.plan.length ∨ TailSet s' 2 := by
  intro f
  induction f with
  | zero => intro s s' buf l h; cases h
  | succ f ih =>
    intro s s' buf l h hm
    rw [c40Loop_succ] at h
    cases hea : s.eat with
    | none =>
      rw [hea] at h
      simp only [] at h
      rcases c40HandleEnd_spec s s' l buf h hm with ht | ⟨hs, _⟩
      · exact Or.inr ht
      · rw [hs.hasMore, eat_none s hea] at hm
        cases hm
    | some p =>
      obtain ⟨ch, s1⟩ := p
      have hea' := hea
      unfold St.eat at hea'
      obtain ⟨rfl, hsm⟩ := eat_some s s1 ch hea
      rw [hea] at h
      simp only [] at h
      by_cases hc : (buf.isEmpty && isDigit ch && oneDigitLeft ({ s with pos := s.pos + 1 } : St)) = true
      · rw [if_pos hc] at h
        cases hb : ({ s with pos := s.pos + 1 } : St).backup 1 with
        | error e => rw [hb] at h; cases h
        | ok s2 =>
          rw [hb] at h
          simp only [] at h
          obtain ⟨rfl, _⟩ := backup_ok _ _ _ hb
          rcases c40HandleEnd_spec _ s' l buf h hm with ht | ⟨_, hn⟩
          · exact Or.inr ht
          · exfalso
            apply hn
            simp only [Bool.and_eq_true] at hc
            obtain ⟨⟨_, hd1⟩, hd2⟩ := hc
            have hlt : s.pos < s.input.length := by
              simpa [St.hasMore] using hsm
            have hch : s.input[s.pos] = ch := by
              rw [List.getElem?_eq_getElem hlt] at hea'
              simpa using hea'
            have hrest1 : ({ s with pos := s.pos + 1 } : St).rest = s.input.drop (s.pos + 1) := rfl
            unfold oneDigitLeft at hd2
            rw [hrest1] at hd2
            have hdrop : s.input.drop s.pos = ch :: s.input.drop (s.pos + 1) := by
              rw [List.drop_eq_getElem_cons hlt, hch]
            show (s.input.length - (s.pos + 1 - 1) = 2) ∧ twoDigitsComing (s.input.drop (s.pos + 1 - 1)) = true
            rw [Nat.add_sub_cancel, hdrop]
            cases hd : s.input.drop (s.pos + 1) with
            | nil => rw [hd] at hd2; cases hd2
            | cons d t =>
              rw [hd] at hd2
              cases t with
              | cons _ _ => cases hd2
              | nil =>
                simp only [] at hd2
                have hlen : (s.input.drop (s.pos + 1)).length = 1 := by rw [hd]; rfl
                rw [List.length_drop] at hlen
                refine ⟨by omega, ?_⟩
                simp only [twoDigitsComing, hd1, hd2, Bool.and_self]
      · rw [if_neg hc] at h
        unfold c40Rest at h
        split at h
        · cases h
        · rename_i buf1 _
          obtain ⟨s2, buf2, hpair, hsame⟩ : ∃ s2 buf2,
              flushTriples 3 ({ s with pos := s.pos + 1 } : St) buf1 = (s2, buf2) ∧ s2.plan = s.plan := by
            have := flushTriples_same 3 ({ s with pos := s.pos + 1 } : St) buf1
            exact ⟨_, _, rfl, this.2.2.2⟩
          rw [hpair] at h
          simp only [] at h
          cases hsw : s2.maybeSwitch with
          | error e => rw [hsw] at h; cases h
          | ok bt =>
            obtain ⟨b, s3⟩ := bt
            obtain ⟨_, _, hle, hlt, _⟩ := maybeSwitch_spec s2 s3 b hsw
            rw [hsw] at h
            cases b with
            | true =>
              simp only [] at h
              rcases c40HandleEnd_spec s3 s' ch buf2 h hm with ht | ⟨hs, _⟩
              · exact Or.inr ht
              · left
                rw [hs.2.2.2, ← hsame]
                exact hlt rfl
            | false =>
              simp only [] at h
              rcases ih s3 s' buf2 ch h hm with h1 | h1
              · left; rw [← hsame]; omega
              · exact Or.inr h1

theorem c40Encode_tail (text : Bool) (s s' : St) (h : c40Encode text s = .ok s') (hm : s'.hasMore = true) :
    s'.plan.length < s.plan.length ∨ TailSet s' 2 :=
  c40Loop_tail text _ s s' [] 0 h hm

/-! ### all six encoders -/

/-- **The end-of-data ASCII fallback covers at most four characters** (whatever the plan): a call of
a mode encoder that returns with characters left either has consumed an entry of the list of planned
switches, or it has called `set_ascii_until_end` with at most `tailMax mode` characters left — none for
ASCII and Base 256, at most 2 for C40, Text and X12, at most 4 for EDIFACT. -/
theorem encodeMode_tail (s s' : St) (h : encodeMode s = .ok s') (hm : s'.hasMore = true) :
    s'.plan.length < s.plan.length ∨
    (s.mode ≠ .ascii ∧ s.mode ≠ .base256 ∧ s'.mode = .ascii ∧ s'.plan = [(0, .ascii)] ∧
      s'.charsLeft ≤ tailMax s.mode) := by
  unfold encodeMode at h
  cases hmode : s.mode <;> rw [hmode] at h <;> simp only [] at h
  · exact Or.inl (asciiLoop_tail _ s s' h hm)
  · rcases c40Encode_tail false s s' h hm with h1 | ⟨a, b, c⟩
    · exact Or.inl h1
    · exact Or.inr ⟨by decide, by decide, a, b, c⟩
  · rcases c40Encode_tail true s s' h hm with h1 | ⟨a, b, c⟩
    · exact Or.inl h1
    · exact Or.inr ⟨by decide, by decide, a, b, c⟩
  · rcases x12Encode_tail s s' h hm with h1 | ⟨a, b, c⟩
    · exact Or.inl h1
    · exact Or.inr ⟨by decide, by decide, a, b, c⟩
  · rcases edifactEncode_tail s s' h hm with h1 | ⟨a, b, c⟩
    · exact Or.inl h1
    · exact Or.inr ⟨by decide, by decide, a, b, c⟩
  · exact Or.inl (b256Encode_tail s s' h hm)

theorem tailMax_le_four (m : EMode) : tailMax m ≤ 4 := by cases m <;> decide

/-! ### a mode encoder never leaves the read position in front of where it started

(`backup` only takes back characters read in the same call: the C40 / Text buffer, the EDIFACT symbol
buffer.) -/

theorem asciiLoop_pos : ∀ (f : Nat) (s s' : St), asciiLoop f s = .ok s' → s.pos ≤ s'.pos := by
  intro f
  induction f with
  | zero => intro s s' h; cases h
  | succ f ih =>
    intro s s' h
    unfold asciiLoop at h
    cases hsw : s.maybeSwitch with
    | error e => rw [hsw] at h; cases h
    | ok bt =>
      obtain ⟨b, t⟩ := bt
      obtain ⟨_, hp, _, _, _⟩ := maybeSwitch_spec s t b hsw
      rw [hsw] at h
      cases b with
      | true =>
        simp only [Except.ok.injEq] at h
        subst h
        omega
      | false =>
        simp only [] at h
        split at h
        · split at h
          · have := ih _ s' h
            have e : (({ t with pos := t.pos + 2 } : St).push 0).pos = t.pos + 2 := rfl
            simp only [St.push] at this
            omega
          · cases h
        · split at h
          · simp only [Except.ok.injEq] at h
            subst h
            omega
          · rename_i ch t2 he
            obtain ⟨rfl, _⟩ := eat_some t t2 ch he
            split at h
            · have := ih _ s' h
              simp only [St.push] at this
              omega
            · have := ih _ s' h
              simp only [St.push] at this
              omega

theorem b256Loop_pos (start : Nat) : ∀ (f : Nat) (s s' : St), b256Loop start f s = .ok s' → s.pos ≤ s'.pos := by
  intro f
  induction f with
  | zero => intro s s' h; cases h
  | succ f ih =>
    intro s s' h
    rw [b256Loop_succ] at h
    obtain ⟨s1, hs1, hpl⟩ : ∃ s1, (match s.eat with | some (ch, s') => s'.push ch | none => s) = s1 ∧
        s.pos ≤ s1.pos := by
      cases he : s.eat with
      | none => exact ⟨s, rfl, Nat.le_refl _⟩
      | some p =>
        obtain ⟨ch, t⟩ := p
        obtain ⟨rfl, _⟩ := eat_some s t ch he
        exact ⟨_, rfl, Nat.le_succ _⟩
    rw [hs1] at h
    unfold b256Rest at h
    split at h
    · split at h
      · cases h
      · rename_i _ s2 hw
        simp only [Except.ok.injEq] at h
        subst h
        have hs := b256WriteLength_same s1 s2 start hw
        show s.pos ≤ s2.pos
        rw [hs.2.1]; exact hpl
    · cases hsw : s1.maybeSwitch with
      | error e => rw [hsw] at h; cases h
      | ok bt =>
        obtain ⟨b, t⟩ := bt
        obtain ⟨_, hp, _, _, _⟩ := maybeSwitch_spec s1 t b hsw
        rw [hsw] at h
        cases b with
        | true =>
          simp only [] at h
          split at h
          · cases h
          · rename_i s2 hw
            have hs := b256WriteLength_same t s2 start hw
            simp only [Except.ok.injEq] at h
            subst h
            have : (if (!s2.hasMore) = true then s2.setAscii else s2).pos = s2.pos := by split <;> rfl
            rw [this, hs.2.1]
            omega
        | false =>
          simp only [] at h
          have := ih t s' h
          omega

theorem x12Loop_pos : ∀ (f : Nat) (s t : St) (sw : Bool), x12Loop f s = .ok (t, sw) → s.pos ≤ t.pos := by
  intro f
  induction f with
  | zero => intro s t sw h; cases h
  | succ f ih =>
    intro s t sw h
    unfold x12Loop at h
    split at h
    · split at h
      · split at h
        · simp only [] at h
          split at h
          · cases h
          · rename_i t1 hsw
            simp only [Except.ok.injEq, Prod.mk.injEq] at h
            obtain ⟨rfl, rfl⟩ := h
            obtain ⟨_, hp, _⟩ := maybeSwitch_spec _ _ _ hsw
            rw [hp]
            show s.pos ≤ s.pos + 3
            omega
          · rename_i t1 hsw
            obtain ⟨_, hp, _⟩ := maybeSwitch_spec _ _ _ hsw
            have := ih t1 t sw h
            have e : t1.pos = s.pos + 3 := hp
            omega
        · cases h
        · cases h
        · cases h
      · cases h
    · simp only [Except.ok.injEq, Prod.mk.injEq] at h
      obtain ⟨rfl, rfl⟩ := h
      exact Nat.le_refl _

theorem x12Encode_pos (s s' : St) (h : x12Encode s = .ok s') : s.pos ≤ s'.pos := by
  unfold x12Encode at h
  split at h
  · cases h
  · rename_i t sw hl
    have hp := x12Loop_pos _ s t sw hl
    simp only [] at h
    split at h
    · cases h
    · simp only [Except.ok.injEq] at h
      subst h
      exact hp
    · split at h
      · cases h
      · simp only [Except.ok.injEq] at h
        subst h
        have : ((if (!sw) = true then t.setAscii else t).push 254).pos = t.pos := by split <;> rfl
        rw [this]; exact hp
      · simp only [Except.ok.injEq] at h
        subst h
        exact hp

theorem tryAsciiEnd_pos (s t : St) (sym : List Nat) (h : edifactTryAsciiEnd s sym = .ok (some t)) :
    s.pos ≤ t.pos + sym.length := by
  unfold edifactTryAsciiEnd at h
  simp only [] at h
  split at h
  · split at h
    · split at h
      · split at h
        · split at h
          · rename_i s1 hb
            simp only [Except.ok.injEq, Option.some.injEq] at h
            subst h
            obtain ⟨rfl, hn⟩ := backup_ok s s1 _ hb
            show s.pos ≤ s.pos - sym.length + sym.length
            omega
          · cases h
        · cases h
      · cases h
    · cases h
  · cases h

theorem edifactHandleEnd_pos (s s' : St) (sym : List Nat) (h : edifactHandleEnd s sym = .ok s') :
    s.pos ≤ s'.pos + sym.length := by
  unfold edifactHandleEnd at h
  split at h
  · cases h
  · rename_i t ht
    simp only [Except.ok.injEq] at h
    subst h
    exact tryAsciiEnd_pos s _ sym ht
  · have key : s'.pos = s.pos := by
      split at h
      · split at h
        · split at h
          · cases h
          · split at h
            · split at h
              · cases h
              · simp only [Except.ok.injEq] at h
                subst h
                rfl
            · simp only [Except.ok.injEq] at h
              subst h
              rfl
        · simp only [Except.ok.injEq] at h
          subst h
          rfl
      · split at h
        · cases h
        · split at h
          · split at h
            · cases h
            · split at h
              · simp only [Except.ok.injEq] at h
                subst h
                exact (same_write4 s.setAscii _).2.1
              · simp only [Except.ok.injEq] at h
                subst h
                exact (same_write4 _ _).2.1
          · simp only [Except.ok.injEq] at h
            subst h
            exact (same_write4 _ _).2.1
    omega

theorem edifactLoop_pos : ∀ (f : Nat) (s s' : St) (sym : List Nat), edifactLoop f s sym = .ok s' →
    s.pos ≤ s'.pos + sym.length := by
  intro f
  induction f with
  | zero => intro s s' sym h; cases h
  | succ f ih =>
    intro s s' sym h
    rw [edifactLoop_succ] at h
    generalize he : (if sym.isEmpty ∧ s.hasMore then edifactTryAsciiEnd s sym else .ok none : R (Option St)) = early at h
    cases early with
    | error e => cases h
    | ok o =>
      cases o with
      | some t =>
        simp only [Except.ok.injEq] at h
        subst h
        split at he
        · exact tryAsciiEnd_pos s _ sym he
        · cases he
      | none =>
        simp only [] at h
        unfold ediRest at h
        cases hea : s.eat with
        | none =>
          rw [hea] at h
          simp only [] at h
          exact edifactHandleEnd_pos s s' sym h
        | some p =>
          obtain ⟨ch, s1⟩ := p
          obtain ⟨rfl, _⟩ := eat_some s s1 ch hea
          rw [hea] at h
          simp only [] at h
          obtain ⟨s2, sym2, hpair, hpl, hsl⟩ : ∃ s2 sym2,
              (if (sym ++ [ch]).length = 4 then (write4 { s with pos := s.pos + 1 } (sym ++ [ch]), ([] : List Nat))
                else ({ s with pos := s.pos + 1 }, sym ++ [ch])) = (s2, sym2) ∧ s2.pos = s.pos + 1 ∧
                sym2.length ≤ sym.length + 1 := by
            split
            · exact ⟨_, _, rfl, (same_write4 _ _).2.1, by simp⟩
            · exact ⟨_, _, rfl, rfl, by simp⟩
          rw [hpair] at h
          simp only [] at h
          cases hsw : s2.maybeSwitch with
          | error e => rw [hsw] at h; cases h
          | ok bt =>
            obtain ⟨b, s3⟩ := bt
            obtain ⟨_, hp, _, _, _⟩ := maybeSwitch_spec s2 s3 b hsw
            rw [hsw] at h
            cases b with
            | true =>
              simp only [] at h
              have := edifactHandleEnd_pos s3 s' sym2 h
              omega
            | false =>
              simp only [] at h
              have := ih s3 s' sym2 h
              omega

theorem c40Early_pos (s t : St) (l : Nat) (buf : List Nat) (h : c40Early s l buf = .ok (some t)) :
    s.pos ≤ t.pos + 1 ∧ (buf = [] → s.pos ≤ t.pos) := by
  unfold c40Early at h
  split at h
  · split at h
    · cases h
    · split at h
      · simp only [Except.ok.injEq, Option.some.injEq] at h
        subst h
        exact ⟨Nat.le_succ _, fun _ => Nat.le_refl _⟩
      · split at h
        · rename_i hc
          split at h
          · rename_i s1 hb
            simp only [Except.ok.injEq, Option.some.injEq] at h
            subst h
            obtain ⟨rfl, hn⟩ := backup_ok _ _ _ hb
            refine ⟨?_, fun hb => ?_⟩
            · show s.pos ≤ s.pos - 1 + 1
              omega
            · rw [hb] at hc; simp at hc
          · cases h
        · split at h
          · rename_i hc
            split at h
            · rename_i s1 hb
              simp only [Except.ok.injEq, Option.some.injEq] at h
              subst h
              obtain ⟨rfl, hn⟩ := backup_ok _ _ _ hb
              refine ⟨?_, fun hb => ?_⟩
              · show s.pos ≤ s.pos - 1 + 1
                omega
              · rw [hb] at hc; simp at hc
            · cases h
          · cases h
  · cases h

theorem c40Fin_pos (s s' : St) (ms : Bool) (h : c40Fin s ms = .ok s') : s'.pos = s.pos := by
  unfold c40Fin at h
  split at h
  · split at h
    · split at h
      · cases h
      · simp only [Except.ok.injEq] at h
        subst h
        split <;> rfl
    · simp only [Except.ok.injEq] at h
      subst h
      rfl
  · split at h
    · cases h
    · split at h
      · simp only [Except.ok.injEq] at h
        subst h
        split <;> rfl
      · simp only [Except.ok.injEq] at h
        subst h
        rfl

theorem c40HandleEnd_pos (s s' : St) (l : Nat) (buf : List Nat) (h : c40HandleEnd s l buf = .ok s') :
    s.pos ≤ s'.pos + 1 ∧ (buf = [] → s.pos ≤ s'.pos) := by
  rw [c40HandleEnd_eq] at h
  split at h
  · cases h
  · split at h
    · cases h
    · rename_i t ht
      simp only [Except.ok.injEq] at h
      subst h
      exact c40Early_pos s _ l buf ht
    · have := c40Fin_pos _ s' _ h
      rw [(c40Mid_spec s buf).2.1] at this
      exact ⟨by omega, fun _ => by omega⟩

theorem c40Loop_pos (text : Bool) : ∀ (f : Nat) (s s' : St) (buf : List Nat) (l : Nat),
    c40Loop text f s buf l = .ok s' → s.pos ≤ s'.pos + 1 ∧ (buf = [] → s.pos ≤ s'.pos) := by
  intro f
  induction f with
  | zero => intro s s' buf l h; cases h
  | succ f ih =>
    intro s s' buf l h
    rw [c40Loop_succ] at h
    cases hea : s.eat with
    | none =>
      rw [hea] at h
      simp only [] at h
      exact c40HandleEnd_pos s s' l buf h
    | some p =>
      obtain ⟨ch, s1⟩ := p
      obtain ⟨rfl, hsm⟩ := eat_some s s1 ch hea
      rw [hea] at h
      simp only [] at h
      by_cases hc : (buf.isEmpty && isDigit ch && oneDigitLeft ({ s with pos := s.pos + 1 } : St)) = true
      · rw [if_pos hc] at h
        cases hb : ({ s with pos := s.pos + 1 } : St).backup 1 with
        | error e => rw [hb] at h; cases h
        | ok s2 =>
          rw [hb] at h
          simp only [] at h
          obtain ⟨rfl, _⟩ := backup_ok _ _ _ hb
          have hbe : buf = [] := by
            simp only [Bool.and_eq_true, List.isEmpty_iff] at hc
            exact hc.1.1
          have := (c40HandleEnd_pos _ s' l buf h).2 hbe
          have e : s.pos + 1 - 1 ≤ s'.pos := this
          exact ⟨by omega, fun _ => by omega⟩
      · rw [if_neg hc] at h
        unfold c40Rest at h
        split at h
        · cases h
        · rename_i buf1 _
          obtain ⟨s2, buf2, hpair, hsame⟩ : ∃ s2 buf2,
              flushTriples 3 ({ s with pos := s.pos + 1 } : St) buf1 = (s2, buf2) ∧ s2.pos = s.pos + 1 := by
            have := flushTriples_same 3 ({ s with pos := s.pos + 1 } : St) buf1
            exact ⟨_, _, rfl, this.2.1⟩
          rw [hpair] at h
          simp only [] at h
          cases hsw : s2.maybeSwitch with
          | error e => rw [hsw] at h; cases h
          | ok bt =>
            obtain ⟨b, s3⟩ := bt
            obtain ⟨_, hp, _, _, _⟩ := maybeSwitch_spec s2 s3 b hsw
            rw [hsw] at h
            cases b with
            | true =>
              simp only [] at h
              have := (c40HandleEnd_pos s3 s' ch buf2 h).1
              exact ⟨by omega, fun _ => by omega⟩
            | false =>
              simp only [] at h
              have := (ih s3 s' buf2 ch h).1
              exact ⟨by omega, fun _ => by omega⟩

/-- **A mode encoder never leaves the read position in front of where it started.** -/
theorem encodeMode_pos (s s' : St) (h : encodeMode s = .ok s') : s.pos ≤ s'.pos := by
  unfold encodeMode at h
  cases hmode : s.mode <;> rw [hmode] at h <;> simp only [] at h
  · exact asciiLoop_pos _ s s' h
  · exact (c40Loop_pos false _ s s' [] 0 h).2 rfl
  · exact (c40Loop_pos true _ s s' [] 0 h).2 rfl
  · exact x12Encode_pos s s' h
  · have := edifactLoop_pos _ s s' [] h
    simpa using this
  · exact b256Loop_pos _ _ (s.push 0) s' h

end DM.Props.C13Tail
