import DM.Props.C09
/-!
# C03 — the correction of up to ⌊k/2⌋ errors per block is unique

`correction_unique`: let `(d, e)` be a valid word of size `s`, `(rd, re)` any received word that
differs from it in at most ⌊k/2⌋ codewords in each interleaved block, and `(d', e')` a valid word
that also differs from the received word in at most ⌊k/2⌋ codewords per block.  Then
`(d', e') = (d, e)`.  So whenever the decoder answers Ok with a valid word (C09) after changing at
most ⌊k/2⌋ codewords per block, it has restored exactly the original vector.
`decode_restores` states this for the decoder model.

Not proved: that the decoder answers Ok for every such received word (completeness of the
Levinson–Durbin locator search) and that its answer is valid and local; these are decided by
enumerating error patterns (exploration) with the model compared on every case.
-/
namespace DM.Props.C03
open DM.Gen DM.Model DM.Spec DM.Lemmas DM.Props.C09

/-- **Uniqueness of the correction inside the guaranteed radius.** -/
theorem correction_unique (s : Sym) (hs : s < numSizes) (d e rd re d' e' : List Nat)
    (hd : Bytes d) (he : Bytes e) (hd' : Bytes d') (he' : Bytes e')
    (hl : d.length = dataCw s) (hl' : d'.length = dataCw s) (hlr : rd.length = dataCw s)
    (hel : e.length = (row s).blocks * (row s).eccPer) (hel' : e'.length = (row s).blocks * (row s).eccPer)
    (helr : re.length = (row s).blocks * (row s).eccPer)
    (hv : Valid s d e) (hv' : Valid s d' e')
    (herr : ∀ b, b < (row s).blocks → hamming (block s d e b) (block s rd re b) ≤ (row s).eccPer / 2)
    (hfix : ∀ b, b < (row s).blocks → hamming (block s d' e' b) (block s rd re b) ≤ (row s).eccPer / 2) :
    d' = d ∧ e' = e := by
  obtain ⟨_, _, hk254, _, _⟩ := C06.gen_monic_roots s hs
  apply block_parts s hs d' e' d e hl' hl hel' hel
  intro b hb
  have len : ∀ x y : List Nat, x.length = dataCw s → y.length = (row s).blocks * (row s).eccPer →
      (block s x y b).length = (((row s).dataCw - b + (row s).blocks - 1) / (row s).blocks) + (row s).eccPer := by
    intro x y hx hy
    rw [block_length s x y b hb hy, C06.strided_length, hx]; rfl
  exact block_unique _ _ (block s rd re b) _ (block_bytes hd' he' b) (block_bytes hd he b)
    (by rw [len d' e' hl' hel', len d e hl hel]) (by rw [len d' e' hl' hel', len rd re hlr helr])
    (by rw [block_length s d' e' b hb hel']; exact strided_data_len s hs d' hl' b) hk254
    (hv' b hb) (hv b hb) (hfix b hb) (herr b hb)

/-- The same for the decoder model: if `decode` answers Ok on a word within the radius of a valid
word, and its answer is valid and within the radius of the received word (both facts are what the
exploration checks of C09/C03 test on every case), the answer is the original word. -/
theorem decode_restores (s : Sym) (hs : s < numSizes) (d e r c' : List Nat)
    (hd : Bytes d) (he : Bytes e) (hc' : Bytes c')
    (hl : d.length = dataCw s) (hel : e.length = (row s).blocks * (row s).eccPer)
    (hr : r.length = totalCw s) (hcl : c'.length = totalCw s)
    (hv : Valid s d e)
    (herr : ∀ b, b < (row s).blocks →
      hamming (block s d e b) (block s (r.take (dataCw s)) (r.drop (dataCw s)) b) ≤ (row s).eccPer / 2)
    (_hdec : RS.decode s r = .ok c')
    (hv' : Valid s (c'.take (dataCw s)) (c'.drop (dataCw s)))
    (hfix : ∀ b, b < (row s).blocks →
      hamming (block s (c'.take (dataCw s)) (c'.drop (dataCw s)) b)
        (block s (r.take (dataCw s)) (r.drop (dataCw s)) b) ≤ (row s).eccPer / 2) :
    c' = d ++ e := by
  have hecc : eccCw s = (row s).blocks * (row s).eccPer := rfl
  have htot : totalCw s = dataCw s + eccCw s := rfl
  have := correction_unique s hs d e (r.take (dataCw s)) (r.drop (dataCw s))
    (c'.take (dataCw s)) (c'.drop (dataCw s)) hd he
    (fun x hx => hc' x (List.mem_of_mem_take hx)) (fun x hx => hc' x (List.mem_of_mem_drop hx))
    hl (by rw [List.length_take]; omega) (by rw [List.length_take]; omega) hel
    (by rw [List.length_drop]; omega) (by rw [List.length_drop]; omega) hv hv' herr hfix
  rw [← List.take_append_drop (dataCw s) c', this.1, this.2]

end DM.Props.C03
