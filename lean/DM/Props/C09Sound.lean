import DM.Lemmas.RSSoundBlock
/-!
# C09 — whenever the error decoder returns success, the word it leaves behind is a valid codeword

`decode_sound`: for every symbol size `s` and every word `cw` of `totalCw s` bytes, if the model of
`errorcode::decode` answers `Ok out`, then `out` is `Valid` (every interleaved block has zero
syndromes; equivalently, by `valid_iff_reencode`, re-encoding its data part reproduces its
error-correction part).

Ingredients (all in `DM/Lemmas`):
* `RSSoundLD.lean` — `levinsonDurbin_post`: a returned locator `w ++ [1]` satisfies the recurrence
  Σ_{i ≤ v} s_{j+i}·λ_i = 0 on the windows `0 … t-1` (equation (4) is re-checked by the model after
  every iteration; for the initial triangular solve it is proved: `ldInitW_post`; the singular
  `break` gives the windows `v … t-1`);
* `RSSoundBlock.lean` — `chienSearch_roots`, the malfunction test (windows `t … k-v-1`),
  `recurrence_all_windows`, `recurrence_extend`, linearity of the syndromes under the correction
  (`synd_update`), `correctBlock_post_of_bp`, `decodeBlock_sound`;
* `BPDefs.lean`, `BPAlg.lean`, `BPBridge.lean` — the Björck–Pereyra solver: abstract algorithm,
  its correctness over any field (`BP.bp_correct`, via Newton interpolation and the Vandermonde
  determinant), and the list-based model computes it (`bjorckPereyra_bridge`);
  together `bjorckPereyra_correct`;
* `RSSoundLift.lean` — from one block to the interleaved word (`decode_sound_of_block`).
-/
namespace DM.Props.C09
open DM.Gen DM.Model DM.Spec DM.Lemmas DM.Lemmas.RSSound

/-- **(b)** soundness of the decoder from the correctness of the error-value solver alone -/
theorem decode_sound_of_bp (hBP : BPCorrect) (s : Sym) (hs : s < numSizes) (cw out : List Nat)
    (hlen : cw.length = totalCw s) (hbytes : ∀ b ∈ cw, b < 256)
    (h : RS.decode s cw = .ok out) :
    Valid s (out.take (dataCw s)) (out.drop (dataCw s)) :=
  decode_sound_of_block (decodeBlock_sound_of_bp hBP) s hs cw out hlen hbytes h

/-- **C09.** Whenever the error decoder returns success, the word it leaves behind is a valid
codeword of the symbol's interleaved Reed–Solomon code. -/
theorem decode_sound (s : Sym) (hs : s < numSizes) (cw out : List Nat)
    (hlen : cw.length = totalCw s) (hbytes : ∀ b ∈ cw, b < 256)
    (h : RS.decode s cw = .ok out) :
    Valid s (out.take (dataCw s)) (out.drop (dataCw s)) :=
  decode_sound_of_bp bjorckPereyra_correct s hs cw out hlen hbytes h

/-- in the property's own wording: re-encoding the data part of the decoder's answer reproduces
its error-correction part -/
theorem decode_sound_reencode (s : Sym) (hs : s < numSizes) (cw out : List Nat)
    (hlen : cw.length = totalCw s) (hbytes : ∀ b ∈ cw, b < 256)
    (h : RS.decode s cw = .ok out) :
    encodeError s (out.take (dataCw s)) = .ok (out.drop (dataCw s)) ∧ out.length = totalCw s := by
  have hv := decode_sound s hs cw out hlen hbytes h
  obtain ⟨hob, hol⟩ := decode_bytes_of_block decodeBlock_sound s hs cw out hlen hbytes h
  have htot : totalCw s = dataCw s + (row s).blocks * (row s).eccPer := rfl
  refine ⟨?_, hol⟩
  exact (valid_iff_reencode s hs _ _ (hob.take _) (hob.drop _)
    (by rw [List.length_take]; omega) (by rw [List.length_drop]; omega)).mp hv

end DM.Props.C09
