import DM.Spec.Opt
/-!
# C10 — the oracle that looks for a smaller symbol is sound

C10 ("the smallest symbol that can hold the data is chosen") is decided by a witness-producing
search (`DM/Spec/Opt.lean`), not by a theorem about the planner: the planner is not optimal (see
the known findings), so no such theorem exists.  What is proved here is that the oracle cannot
raise a false alarm: whenever the search answers, its answer is a script of the independent
reference builder whose codeword stream has exactly the reported capacity - a capacity of the
supplied list - and which the independent reference decoder maps back to the whole message (with
the FNC1 flag of the request).  A report "a smaller symbol suffices" therefore always comes with a
valid ISO/IEC 16022 encoding of the input in that smaller symbol.  (Completeness - that the search
finds a smaller encoding whenever one exists - is not claimed.)
-/
namespace DM.Props.C10
open DM.Spec DM.Spec.Opt DM.Spec.Build

/-- **Soundness of the C10 oracle.** -/
theorem search_sound (hdr : Nat) (full body : List Nat) (modes : Nat) (caps : List Nat) (a : Answer)
    (h : searchH hdr full body modes caps = some a) :
    ∃ capT, caps[a.capIndex]? = some capT ∧ (build a.script).length = capT ∧
      ∃ d, Stream.decode (build a.script) = .ok d ∧ d.bytes = full ∧ d.fnc1 = (hdr == 1) := by
  unfold searchH at h
  simp only [] at h
  obtain ⟨⟨capT, k⟩, hmem, h2⟩ := List.exists_of_findSome?_eq_some h
  obtain ⟨s, _, h3⟩ := List.exists_of_findSome?_eq_some h2
  split at h3
  · rename_i hacc
    simp only [Option.some.injEq] at h3
    subst h3
    have hk := List.mem_zipIdx hmem
    simp only [Nat.zero_add, Nat.sub_zero] at hk
    refine ⟨capT, ?_, ?_⟩
    · rw [List.getElem?_eq_getElem (by omega : k < caps.length)]; simp [hk.2.2]
    · unfold accepts at hacc
      simp only [Bool.and_eq_true, beq_iff_eq] at hacc
      refine ⟨hacc.1, ?_⟩
      split at hacc
      · rename_i d hd
        have h2 := hacc.2
        simp only [Bool.and_eq_true, beq_iff_eq] at h2
        exact ⟨d, hd, h2.1, by simpa using h2.2⟩
      · simp at hacc
  · cases h3

/-- the same for messages without header codeword -/
theorem search_sound_plain (input : List Nat) (modes : Nat) (caps : List Nat) (a : Answer)
    (h : search input modes caps = some a) :
    ∃ capT, caps[a.capIndex]? = some capT ∧ (build a.script).length = capT ∧
      ∃ d, Stream.decode (build a.script) = .ok d ∧ d.bytes = input := by
  obtain ⟨capT, h1, h2, d, h3, h4, _⟩ := search_sound 0 input input modes caps a h
  exact ⟨capT, h1, h2, d, h3, h4⟩

/-- Non-vacuity: for `ABCDEF` with all modes and capacities 3, 5, 8 the search answers with the
5-codeword C40 encoding `230 89 233 109 36` (the run ends with the symbol, no UNLATCH). -/
example : (search [65, 66, 67, 68, 69, 70] 63 [3, 5, 8]).map (fun a => (a.capIndex, build a.script)) =
    some (1, [230, 89, 233, 109, 36]) := by decide +kernel

end DM.Props.C10
