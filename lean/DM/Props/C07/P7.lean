import DM.Lemmas.Placement
/-! C07, part 7: kernel evaluation of the placement certificate for sizes [0, 1, 11, 17, 21, 27, 31, 36, 39, 40]. -/
namespace DM.Props.C07
open DM.Lemmas DM.Model

def part7 : List Sym := [0, 1, 11, 17, 21, 27, 31, 36, 39, 40]

set_option maxRecDepth 1000000 in
theorem part7_ok : part7.all placementOK = true := by decide +kernel

end DM.Props.C07
