import DM.Lemmas.Placement
/-! C07, part 3: kernel evaluation of the placement certificate for sizes [5, 8, 13, 19, 24, 29, 44]. -/
namespace DM.Props.C07
open DM.Lemmas DM.Model

def part3 : List Sym := [5, 8, 13, 19, 24, 29, 44]

set_option maxRecDepth 1000000 in
theorem part3_ok : part3.all placementOK = true := by decide +kernel

end DM.Props.C07
