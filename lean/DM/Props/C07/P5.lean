import DM.Lemmas.Placement
/-! C07, part 5: kernel evaluation of the placement certificate for sizes [6, 12, 18, 23, 28, 33, 37, 42]. -/
namespace DM.Props.C07
open DM.Lemmas DM.Model

def part5 : List Sym := [6, 12, 18, 23, 28, 33, 37, 42]

set_option maxRecDepth 1000000 in
theorem part5_ok : part5.all placementOK = true := by decide +kernel

end DM.Props.C07
