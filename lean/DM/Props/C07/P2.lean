import DM.Lemmas.Placement
/-! C07, part 2: kernel evaluation of the placement certificate for sizes [2, 7, 14, 45]. -/
namespace DM.Props.C07
open DM.Lemmas DM.Model

def part2 : List Sym := [2, 7, 14, 45]

set_option maxRecDepth 1000000 in
theorem part2_ok : part2.all placementOK = true := by decide +kernel

end DM.Props.C07
