import DM.Lemmas.Placement
/-! C07, part 6: kernel evaluation of the placement certificate for sizes [3, 9, 16, 22, 26, 32, 35, 38, 41]. -/
namespace DM.Props.C07
open DM.Lemmas DM.Model

def part6 : List Sym := [3, 9, 16, 22, 26, 32, 35, 38, 41]

set_option maxRecDepth 1000000 in
theorem part6_ok : part6.all placementOK = true := by decide +kernel

end DM.Props.C07
