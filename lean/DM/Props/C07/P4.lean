import DM.Lemmas.Placement
/-! C07, part 4: kernel evaluation of the placement certificate for sizes [4, 10, 15, 20, 25, 30, 34, 43]. -/
namespace DM.Props.C07
open DM.Lemmas DM.Model

def part4 : List Sym := [4, 10, 15, 20, 25, 30, 34, 43]

set_option maxRecDepth 1000000 in
theorem part4_ok : part4.all placementOK = true := by decide +kernel

end DM.Props.C07
