import DM.Lemmas.Placement
/-! C07, part 1: kernel evaluation of the placement certificate for sizes [46]. -/
namespace DM.Props.C07
open DM.Lemmas DM.Model

def part1 : List Sym := [46]

set_option maxRecDepth 1000000 in
theorem part1_ok : part1.all placementOK = true := by decide +kernel

end DM.Props.C07
