import DM.Props.C13TailRun
import DM.Props.Planner
import DM.Lemmas.MainRT
/-!
# C13, second clause — "every character is carried by an enabled mode or, for the final few
characters only, by the standard's end-of-data ASCII fallback"

The first clause of C13 (the codewords never latch into a disabled mode) is `DM/Props/C13.lean`.
This file proves the second clause on the models, for plans within `planOK`:

* `DM/Props/C13TailDefs.lean` — the instrumented main loop `traceLoop` (records one entry
  `(start, end, mode)` per call of a mode encoder), `planModeAt` (the mode the plan assigns to a
  character), `tailMax`, and the statement `TailOK`;
* `DM/Props/C13TailEnc.lean` — `encodeMode_tail`: whatever the plan, a mode encoder that returns with
  characters left has consumed a planned switch or has called `set_ascii_until_end` with at most
  `tailMax mode ≤ 4` characters left (0 for ASCII / Base 256, 2 for C40 / Text / X12, 4 for EDIFACT);
* `DM/Props/C13TailRun.lean` — `traceLoop_fst` (the instrumented loop is the main loop) and `trace_final`
  (the induction of `CoupleMain.arrive` / `mainLoop_planned` with the recorded calls in the invariant);
* here — `tail_clause`: the final theorem, and a non-vacuity example with ASCII disabled.
-/
namespace DM.Props.C13Tail
open DM.Model.PlanSide
open DM.Model DM.Model.Plan DM.Model.Enc DM.Lemmas DM.Lemmas.PlanInv DM.Lemmas.Couple DM.Lemmas.CoupleReach
open DM.Lemmas.AsciiRT DM.Lemmas.EncRT DM.Lemmas.CoupleMain

/-! ### `planModeAt` on a segment of the plan -/

theorem go_prefix (cl : Nat) : ∀ (A : List (Nat × EMode)) (cur : EMode) (c1 : Nat) (m : EMode)
    (rest : List (Nat × EMode)), (∀ x ∈ A, cl ≤ x.1) → cl ≤ c1 →
    planModeAt.go cl cur (A ++ (c1, m) :: rest) = planModeAt.go cl m rest := by
  intro A
  induction A with
  | nil =>
    intro cur c1 m rest _ h1
    simp only [List.nil_append, planModeAt.go, h1, ↓reduceIte]
  | cons x A ih =>
    intro cur c1 m rest h h1
    obtain ⟨a, mm⟩ := x
    have h2 : cl ≤ a := h (a, mm) (List.mem_cons_self ..)
    simp only [List.cons_append, planModeAt.go, h2, ↓reduceIte]
    exact ih mm c1 m rest (fun y hy => h y (List.mem_cons_of_mem _ hy)) h1

theorem planModeAt_seg {AsciiOn : Prop} {P : List (Nat × EMode)} {n a b : Nat} {m : EMode}
    (hpw : P.Pairwise (fun x y => x.1 ≥ y.1)) (h : PlanSeg AsciiOn P n a b m) (i : Nat) (hai : a ≤ i) (hib : i < b)
    (hbn : b ≤ n) : planModeAt P (n - i) = m := by
  rcases h with ⟨A, m', t, rfl⟩ | ⟨_, rfl, _, m', t, rfl⟩
  · have hA : ∀ x ∈ A, n - i ≤ x.1 := by
      intro x hx
      have := (List.pairwise_append.mp hpw).2.2 x hx (n - a, m) (List.mem_cons_self ..)
      simp only [ge_iff_le] at this
      omega
    unfold planModeAt
    rw [go_prefix (n - i) A .ascii (n - a) m _ hA (by omega)]
    rw [planModeAt.go, if_neg (by omega)]
  · unfold planModeAt
    rw [planModeAt.go, if_neg (by omega)]

theorem planSeg_enabled {P : List (Nat × EMode)} {modes n a b : Nat} {m : EMode}
    (hen : ∀ e ∈ P, enabledMode modes e.2 = true) (h : PlanSeg (enabledMode modes .ascii = true) P n a b m) :
    enabledMode modes m = true := by
  rcases h with ⟨A, m', t, rfl⟩ | ⟨_, rfl, h, _⟩
  · exact hen (n - a, m) (by simp)
  · exact h

theorem tiles_bounds : ∀ (segs : List Seg) (a b : Nat), Tiles a b segs → a ≤ b ∧ ∀ e ∈ segs, a ≤ e.1 ∧ e.2.1 ≤ b := by
  intro segs
  induction segs with
  | nil =>
    intro a b h
    simp only [Tiles] at h
    subst h
    exact ⟨Nat.le_refl _, fun e he => nomatch he⟩
  | cons x t ih =>
    intro a b h
    obtain ⟨x1, x2, xm⟩ := x
    obtain ⟨h1, h2, h3⟩ := h
    obtain ⟨i1, i2⟩ := ih x2 b h3
    subst h1
    refine ⟨by omega, ?_⟩
    intro e he
    rcases List.mem_cons.mp he with rfl | he
    · exact ⟨Nat.le_refl _, i1⟩
    · have := i2 e he
      exact ⟨by omega, this.2⟩

/-! ### from the shape of the recorded run to `TailOK` -/

theorem tailOK_of_shape {P : List (Nat × EMode)} {modes n : Nat} {tr : List Seg}
    (hpw : P.Pairwise (fun x y => x.1 ≥ y.1)) (hen : ∀ e ∈ P, enabledMode modes e.2 = true)
    (h : TraceShape (enabledMode modes .ascii = true) P n tr) : ∃ q, TailOK modes n P tr q := by
  obtain ⟨segs, p, q, m, rfl, htil, hsok, hpq, hqn, hpn, hseg, htail⟩ := h
  obtain ⟨_, hbnd⟩ := tiles_bounds segs 0 p htil
  have hmodeAt : ∀ i, p ≤ i → i < n → planModeAt P (n - i) = m :=
    fun i h1 h2 => planModeAt_seg hpw hseg i h1 h2 (Nat.le_refl _)
  have hmen : enabledMode modes m = true := planSeg_enabled hen hseg
  have hmem : ∀ e, e ∈ segs ++ (p, q, m) :: (if q < n then [(q, n, EMode.ascii)] else []) →
      e ∈ segs ∨ e = (p, q, m) ∨ (q < n ∧ e = (q, n, .ascii)) := by
    intro e he
    rcases List.mem_append.mp he with he | he
    · exact Or.inl he
    · rcases List.mem_cons.mp he with he | he
      · exact Or.inr (Or.inl he)
      · split at he
        · rename_i hq
          simp only [List.mem_singleton] at he
          exact Or.inr (Or.inr ⟨hq, he⟩)
        · cases he
  refine ⟨q, hqn, ?_, ?_, ?_, ?_, ?_⟩
  · by_cases hq : q < n
    · have := (htail hq).2.2
      have := tailMax_le_four m
      omega
    · omega
  · have h1 := tiles_snoc segs 0 p q m htil hpq
    have e : segs ++ (p, q, m) :: (if q < n then [(q, n, EMode.ascii)] else []) =
        (segs ++ [(p, q, m)]) ++ (if q < n then [(q, n, EMode.ascii)] else []) := by simp
    rw [e]
    split
    · exact tiles_snoc _ 0 q n .ascii h1 hqn
    · have : q = n := by omega
      subst this
      simpa using h1
  · intro e he hlt hle i hi1 hi2
    rcases hmem e he with he | rfl | ⟨hq, rfl⟩
    · have hs := hsok e he hlt
      have hb := (hbnd e he).2
      exact ⟨planModeAt_seg hpw hs i hi1 hi2 (by omega), planSeg_enabled hen hs⟩
    · simp only [] at hi1 hi2 ⊢
      exact ⟨hmodeAt i hi1 (by omega), hmen⟩
    · simp only [] at hle
      omega
  · intro e he hlt hgt
    rcases hmem e he with he | rfl | ⟨hq, rfl⟩
    · have hb := (hbnd e he).2
      omega
    · simp only [] at hgt
      omega
    · rfl
  · intro hq
    obtain ⟨t1, t2, t3⟩ := htail hq
    have hmq : planModeAt P (n - q) = m := hmodeAt q hpq hq
    rw [hmq]
    refine ⟨by simp [hq], fun i h1 h2 => hmodeAt i (by omega) h2, hmen, ?_, t3⟩
    cases m <;> simp_all

/-! ### the final theorem, modulo two facts -/

/-- `optimize_final` together with the fact that a plan that begins with the `(len, ASCII)` entry of
the start plan was made with ASCII enabled -/
def RootEnabled (body : List Nat) (list : List Sym) (W modes : Nat) (plan : List (Nat × EMode)) : Prop :=
  ∃ best, Final body list W best ∧ plan = finPlan W body.length (best.switches ++ [(0, best.current)]) ∧
    ((best.switches ++ [(0, best.current)]).head? = some (body.length, .ascii) → enabledMode modes .ascii = true)

/-- **C13, second clause, modulo two facts** that are discharged below (`encodeMode_pos`,
`rootEnabled`). -/
theorem tail_clause_of (hmono : ∀ s s' : St, encodeMode s = .ok s' → s.pos ≤ s'.pos)
    (body pre : List Nat) (list : List Sym) (modes : Nat) (perms : List (List Nat)) (o : Outcome)
    (plan : List (Nat × EMode)) (cw : List Nat) (sym : Sym) (hb : ByteList body)
    (hopt : Plan.optimize body pre.length list modes perms = .ok o) (hp : o.plan = some plan)
    (hre : RootEnabled body list pre.length modes plan)
    (hok : planOK body plan = true) (hrun : Enc.run list pre body plan = .ok (cw, sym)) :
    ∃ sE tr q, runTrace list pre body plan = .ok (sE, tr) ∧
      Enc.mainLoop (2 * body.length + 8) (initSt list pre body plan) 0 = .ok sE ∧
      TailOK modes body.length plan tr q := by
  have hc := DM.Props.C18Couple.c40Facts
  by_cases hne : body = []
  · subst hne
    refine ⟨initSt list pre [] plan, [], 0, rfl, rfl, Nat.le_refl _, by simp, rfl, ?_, ?_, ?_⟩
    · intro e he; cases he
    · intro e he; cases he
    · intro h; exact absurd h (Nat.lt_irrefl _)
  obtain ⟨best, hfin, hplan, hroot⟩ := hre
  have hpw := (DM.Props.Planner.plan_positions body pre.length list modes perms o plan hopt hp).1
  have hen := DM.Props.Planner.plan_modes_enabled body pre.length list modes perms o plan hopt hp
  obtain ⟨sE0, hmain, _, _⟩ := DM.Lemmas.MainRT.run_unfoldP list pre body cw plan sym hrun
  rw [hplan] at hok
  rcases trace_final (AsciiOn := enabledMode modes .ascii = true) (list := list)
      (DM.Props.C18Couple.switchSegX_all hc) (DM.Props.C18Couple.lateSwitchSeg_all hc)
      (DM.Props.C18Couple.endSegSym_all hc) (DM.Props.C18Couple.segProgress_all hc) hmono pre hb hne best hfin hroot hok
    with ⟨sE, tr, h1, h2⟩ | h1
  · rw [← hplan] at h1 h2
    obtain ⟨q, hq⟩ := tailOK_of_shape hpw hen h2
    exact ⟨sE, tr, q, h1, traceLoop_ok_main h1, hq⟩
  · exfalso
    rw [← hplan] at h1
    have := traceLoop_fst (2 * body.length + 8) (s0 list pre body plan) 0 []
    rw [h1] at this
    have hm : Enc.mainLoop (2 * body.length + 8) (s0 list pre body plan) 0 = .ok sE0 := hmain
    rw [hm] at this
    cases this

/-! ### discharging `RootEnabled`: the loop of `optimize` with both invariants

`CoupleReach.optLoop_final` (every live plan has a history) and `PlanLoop.optLoop_spec` (every live plan
names enabled modes only) are proved separately; here the two invariants are carried together, so that
the plan returned is known to have a history *and* to name enabled modes only before the leading ASCII
entry is dropped. -/

open DM.Lemmas.PlanLoop in
theorem optLoop_final_live {body : List Nat} {list : List Sym} {W modes : Nat} (hpos : 0 < body.length) :
    ∀ (f k : Nat) (plans : List GPlan) (perms : List (List Nat)) (steps maxLive : Nat) (o : Outcome)
      (plan : List (Nat × EMode)),
      k ≤ body.length → (∀ g ∈ plans, Reach body list W k g ∧ Live body list modes k g) →
      (k = 0 → ∀ g ∈ plans, g.switches.length = 1) →
      optLoop body W modes f k plans perms steps maxLive = .ok o → o.plan = some plan →
      ∃ best k', Final body list W best ∧ SwOK modes body.length k' best ∧
        plan = finPlan W body.length (best.switches ++ [(0, best.current)]) := by
  intro f
  induction f with
  | zero => intro k plans perms steps maxLive o plan _ _ _ h; cases h
  | succ f ih =>
    intro k plans perms steps maxLive o plan hk hpl hst1 h hp
    unfold optLoop at h
    rw [if_neg (by omega)] at h
    simp only [] at h
    obtain ⟨cands0, steps0, atEnd0, e1, e2, _, _, _⟩ :=
      iterate_spec (data := body) (list := list) (modes := modes) hk plans [] steps false (fun g hg => (hpl g hg).2)
        (by intro h0 g hg; exact hst1 (by simpa using h0) g hg) (by simp) (by simp)
    cases hit : iteratePlans (body.length - k) (k == 0) modes plans [] steps false with
    | error e => rw [hit] at h; cases h
    | ok res =>
      obtain ⟨cands, steps', atEnd⟩ := res
      rw [hit] at e1
      simp only [Except.ok.injEq, Prod.mk.injEq] at e1
      obtain ⟨rfl, rfl, rfl⟩ := e1
      rw [hit] at h
      simp only [] at h
      cases perms with
      | nil => cases h
      | cons perm perms =>
        simp only [] at h
        cases hr : removeHopelessPlans cands perm with
        | error e => rw [hr] at h; cases h
        | ok live =>
          rw [hr] at h
          simp only [] at h
          have hmem := (removeHopelessPlans_spec cands perm live hr).2
          by_cases hempty : live.isEmpty = true
          · rw [if_pos hempty] at h
            simp only [Except.ok.injEq] at h
            subst h
            cases hp
          · rw [if_neg hempty] at h
            by_cases hlt : k < body.length
            · obtain ⟨hc, hat⟩ := iterate_reach hlt plans [] steps false cands steps' atEnd (fun g hg => (hpl g hg).1)
                (by simp) hit
              subst hat
              simp only [Bool.false_eq_true, ↓reduceIte] at h
              have hn : nxt body k = k + 1 := by simp [nxt, hlt]
              rw [hn] at e2
              exact ih (k + 1) live perms steps' _ o plan (by omega)
                (fun g hg => ⟨hc g (hmem g hg), e2 g (hmem g hg)⟩) (by intro h0; omega) h hp
            · have hkl : k = body.length := by omega
              subst hkl
              have hc := iterate_final hpos _ _ plans [] steps false cands steps' atEnd (fun g hg => (hpl g hg).1)
                (by simp) hit
              by_cases hat : atEnd = true
              · rw [if_pos hat] at h
                cases hbst : pickBest live with
                | none => rw [hbst] at h; cases h
                | some best =>
                  rw [hbst] at h
                  simp only [Except.ok.injEq] at h
                  subst h
                  simp only [Option.some.injEq] at hp
                  have hbm := hmem best (pickBest_mem live best hbst)
                  refine ⟨best, _, hc best hbm, (e2 best hbm).2, ?_⟩
                  rw [← hp]
                  rfl
              · rw [if_neg hat] at h
                exfalso
                cases f with
                | zero => cases h
                | succ f =>
                  unfold optLoop at h
                  rw [if_pos (by omega)] at h
                  cases h

theorem rootEnabled {body : List Nat} {list : List Sym} {W modes : Nat} {perms : List (List Nat)} {o : Outcome}
    {plan : List (Nat × EMode)} (hne : body ≠ []) (h : optimize body W list modes perms = .ok o)
    (hp : o.plan = some plan) : RootEnabled body list W modes plan := by
  have hpos : 0 < body.length := List.length_pos_iff.mpr hne
  have hstart : Reach body list W 0 (startPlan body list W) :=
    ⟨_, 0, W, .ascii, 0, Hist.start, rfl, rfl, Or.inr ⟨rfl, rfl⟩⟩
  have hcore : Core body list 0 (newPlan .ascii { data := body, pos := 0, written := W, list := list }) :=
    (newPlan_core .ascii _ ⟨rfl, rfl, rfl⟩ (Nat.zero_le _)).1
  have key : ∃ best k', Final body list W best ∧ SwOK modes body.length k' best ∧
      plan = finPlan W body.length (best.switches ++ [(0, best.current)]) := by
    unfold optimize at h
    simp only [] at h
    split at h
    · rename_i hen
      refine optLoop_final_live hpos _ 0 _ perms 0 0 o plan (Nat.zero_le _) ?_ (by intro _ g hg; simp only [List.mem_singleton] at hg; subst hg; rfl) h hp
      intro g hg
      simp only [List.mem_singleton] at hg
      subst hg
      refine ⟨hstart, hcore, hen, ?_, by simp, by simp⟩
      intro e he
      simp only [List.mem_singleton] at he
      subst he
      exact ⟨hen, by simp, by simp⟩
    · have hsp : GPlan.mk 0 [(body.length, EMode.ascii)] (newPlan .ascii (Ctx.mk body 0 W list)) = startPlan body list W := rfl
      rw [hsp] at h
      obtain ⟨l, n, e1, _, _, e3⟩ := addSwitches_spec (data := body) (list := list) (k := 0) (startPlan body list W)
        hcore rfl body.length true modes (fun _ => rfl)
      rw [e1] at h
      simp only [] at h
      have hie : body.isEmpty = false := by cases body <;> simp_all
      rw [hie] at h
      simp only [Bool.false_eq_true, ↓reduceIte] at h
      have hsw := addSwitches_reach (k := 0) (modes := modes) (l := l) (n := n) hpos hstart (fun h => absurd rfl h)
        (by simpa using e1)
      have hn1 : nxt body 0 = 1 := by simp [nxt, hpos]
      have hlive : ∀ g ∈ l, Live body list modes 1 g := fun g hg => by
        have := newOK_live (k := 0) (asStart := true) (by rw [Nat.sub_zero]; exact e3 g hg) (by simp)
        rw [hn1] at this
        exact this
      exact optLoop_final_live hpos _ 1 l perms n 0 o plan hpos (fun g hg => ⟨hsw g hg, hlive g hg⟩)
        (by intro h0; omega) h hp
  obtain ⟨best, k', hfin, hsw, hplan⟩ := key
  refine ⟨best, hfin, hplan, ?_⟩
  intro hhead
  obtain ⟨_, h2, _, h4⟩ := hsw
  cases hs : best.switches with
  | nil => exact absurd hs h4
  | cons x t =>
    rw [hs] at hhead
    simp only [List.cons_append, List.head?_cons, Option.some.injEq] at hhead
    have := (h2 x (by rw [hs]; simp)).1
    rw [hhead] at this
    exact this

/-! ### the final theorem -/

/-- **C13, second clause (on the models, for plans within `planOK`): every character is carried by an
enabled mode or, for the final at most four characters only, by the end-of-data ASCII fallback.**

Let `plan` be the plan the optimiser returns for the byte string `body` (mode set `modes`, `pre.length`
prefix codewords), within the decidable side condition `planOK`, and let the encoder succeed on it.
Then the instrumented main loop `runTrace` — `Enc.mainLoop` with every call of a mode encoder recorded
as `(start, end, mode)`, and returning the very state `sE` that `Enc.mainLoop` returns — yields a list
`tr` of calls and there is a position `q` with (`TailOK`, unfolded):
1. `q ≤ body.length` and `body.length - q ≤ 4`;
2. the calls tile `[0, body.length)` (each starts where the one before ended);
3. every call that consumes characters and ends at or before `q` runs in the mode the plan assigns to
   each of its characters (`planModeAt`), and that mode is enabled in `modes`;
4. the only call that consumes characters beyond `q` is one call of the ASCII encoder for
   `[q, body.length)` (the state it starts from was left by `set_ascii_until_end`: `encodeMode_tail`);
5. if `q < body.length`: that ASCII call is in the list, the plan assigns one and the same mode `m` to all
   of `[q, body.length)`, `m` is enabled and is C40, Text, X12 or EDIFACT (the fallback follows a latch;
   ASCII and Base 256 hand nothing over), and `body.length - q ≤ tailMax m` (2, 2, 2, 4). -/
theorem tail_clause
    (body pre : List Nat) (list : List Sym) (modes : Nat) (perms : List (List Nat)) (o : Outcome)
    (plan : List (Nat × EMode)) (cw : List Nat) (sym : Sym) (hb : ByteList body)
    (hopt : Plan.optimize body pre.length list modes perms = .ok o) (hp : o.plan = some plan)
    (hok : planOK body plan = true) (hrun : Enc.run list pre body plan = .ok (cw, sym)) :
    ∃ sE tr q, runTrace list pre body plan = .ok (sE, tr) ∧
      Enc.mainLoop (2 * body.length + 8) (initSt list pre body plan) 0 = .ok sE ∧
      TailOK modes body.length plan tr q := by
  by_cases hne : body = []
  · subst hne
    refine ⟨initSt list pre [] plan, [], 0, rfl, rfl, Nat.le_refl _, by simp, rfl, ?_, ?_, ?_⟩
    · intro e he; cases he
    · intro e he; cases he
    · intro h; exact absurd h (Nat.lt_irrefl _)
  · exact tail_clause_of encodeMode_pos body pre list modes perms o plan cw sym hb hopt hp
      (rootEnabled hne hopt hp) hok hrun

/-- the same with the quantifiers of `TailOK` spelled out and `tailMax` bounded -/
theorem tail_clause_explicit
    (body pre : List Nat) (list : List Sym) (modes : Nat) (perms : List (List Nat)) (o : Outcome)
    (plan : List (Nat × EMode)) (cw : List Nat) (sym : Sym) (hb : ByteList body)
    (hopt : Plan.optimize body pre.length list modes perms = .ok o) (hp : o.plan = some plan)
    (hok : planOK body plan = true) (hrun : Enc.run list pre body plan = .ok (cw, sym)) :
    ∃ sE tr q, runTrace list pre body plan = .ok (sE, tr) ∧
      Enc.mainLoop (2 * body.length + 8) (initSt list pre body plan) 0 = .ok sE ∧
      q ≤ body.length ∧ body.length - q ≤ 4 ∧ Tiles 0 body.length tr ∧
      (∀ a b m, (a, b, m) ∈ tr → a < b → b ≤ q →
        ∀ i, a ≤ i → i < b → planModeAt plan (body.length - i) = m ∧ enabledMode modes m = true) ∧
      (∀ a b m, (a, b, m) ∈ tr → a < b → q < b → (a, b, m) = (q, body.length, .ascii)) ∧
      (q < body.length → ∃ m, (q, body.length, EMode.ascii) ∈ tr ∧
        (∀ i, q ≤ i → i < body.length → planModeAt plan (body.length - i) = m) ∧
        enabledMode modes m = true ∧ (m = .c40 ∨ m = .text ∨ m = .x12 ∨ m = .edifact) ∧
        body.length - q ≤ tailMax m ∧ tailMax m ≤ 4) := by
  obtain ⟨sE, tr, q, h1, h2, a, b, c, d, e, f⟩ := tail_clause body pre list modes perms o plan cw sym hb hopt hp hok hrun
  refine ⟨sE, tr, q, h1, h2, a, b, c, fun x y m hm => d (x, y, m) hm, fun x y m hm => e (x, y, m) hm, fun hq => ?_⟩
  obtain ⟨f1, f2, f3, f4, f5⟩ := f hq
  exact ⟨_, f1, f2, f3, f4, f5, tailMax_le_four _⟩

/-! ### non-vacuity: ASCII disabled

`"ABCD"` with X12 as the only enabled mode (`modes = 8`), no prefix codewords, the 30 standard sizes; the
sort permutations are those of a stable sort by cost (one candidate per iteration).  The optimiser plans
X12 for the whole message; the encoder writes `"ABC"` in X12 and hands `"D"` to the ASCII encoder
(`set_ascii_until_end`): three recorded calls — the empty ASCII call that only takes the latch from the
plan, X12 for `[0, 3)`, ASCII for `[3, 4)` — and `q = 3`. -/

def exBody : List Nat := [65, 66, 67, 68]
def exList : List Sym := symbolList (List.range 30)
def exPerms : List (List Nat) := [[0], [0], [0], [0]]
def exPlan : List (Nat × EMode) := [(4, .x12), (0, .x12)]

example :
    ByteList exBody ∧
    (Plan.optimize exBody ([] : List Nat).length exList 8 exPerms).toOption.map (·.plan) = some (some exPlan) ∧
    planOK exBody exPlan = true ∧
    enabledMode 8 .ascii = false ∧
    Enc.run exList [] exBody exPlan = .ok ([238, 89, 233, 254, 69], 1) ∧
    (runTrace exList [] exBody exPlan).toOption.map (·.2) = some [(0, 0, .ascii), (0, 3, .x12), (3, 4, .ascii)] ∧
    tailOKb 8 exBody.length exPlan [(0, 0, .ascii), (0, 3, .x12), (3, 4, .ascii)] 3 = true ∧
    planModeAt exPlan (exBody.length - 3) = .x12 ∧ tailMax .x12 = 2 := by
  refine ⟨by decide, by decide +kernel, by decide +kernel, by decide +kernel, by decide +kernel, by decide +kernel,
    by decide +kernel, by decide +kernel, rfl⟩

/-- the theorem applies to this instance -/
example (o : Outcome) (h : Plan.optimize exBody ([] : List Nat).length exList 8 exPerms = .ok o)
    (hp : o.plan = some exPlan) :
    ∃ sE tr q, runTrace exList [] exBody exPlan = .ok (sE, tr) ∧
      Enc.mainLoop (2 * exBody.length + 8) (initSt exList [] exBody exPlan) 0 = .ok sE ∧
      TailOK 8 exBody.length exPlan tr q :=
  tail_clause exBody [] exList 8 exPerms o exPlan _ _ (by decide) h hp (by decide +kernel)
    (show Enc.run exList [] exBody exPlan = .ok ([238, 89, 233, 254, 69], 1) by decide +kernel)

end DM.Props.C13Tail
