import DM.Lemmas.Trace
import DM.Props.Planner
/-!
# C13 / C18 — the encoder latches only into modes the plan names

Encoder side of "disabled modes are never used".  `Props/Planner.lean` proves that the plan the
optimiser returns names only enabled modes (`plan_modes_enabled`).  Here: for every plan within
the side condition of the round-trip theorem (`PlanOK`: no EDIFACT entry, no latch to a non-ASCII
mode planned for the last four characters), whatever the encoder model returns splits into
segments — one per call of a mode encoder — such that

* at the start of every segment the decoder model, run on the whole stream, is at the top of its
  ASCII loop and has produced exactly the characters in front of the segment's start position
  (so the segment starts are positions "in ASCII context", and what follows the last segment is
  padding),
* a segment written in ASCII mode consists of ASCII codewords only (value + 1, digit pairs,
  Upper Shift): no latch codeword occurs inside it,
* every other segment starts with a latch codeword, and that latch is the latch of a mode the
  plan names.

`latches_enabled` combines the two halves: if the plan is the optimiser's answer for a mode set,
every latch at a segment start belongs to an enabled mode.
-/
namespace DM.Props.C13
open DM.Model DM.Model.Enc DM.Model.Dec DM.Gen DM.Lemmas DM.Lemmas.DecRun DM.Lemmas.AsciiRT DM.Lemmas.Complete
open DM.Lemmas.EncRT DM.Lemmas.X12RT DM.Lemmas.C40RT DM.Lemmas.C40Gen DM.Lemmas.MainRT DM.Lemmas.PlanProv DM.Lemmas.Trace

theorem latch_ne_254 {m : EMode} {l : Nat} (h : m.latch = some l) : l ≠ 254 := by
  cases m <;> simp [EMode.latch] at h <;> omega

theorem niceTail_flat (plan : List (Nat × EMode)) (pads : List Nat) (hp : NiceTail pads) :
    ∀ (gs : List Seg), (∀ g ∈ gs, SegOK plan g) → NiceTail (flatCw gs ++ pads) := by
  intro gs
  induction gs with
  | nil => intro _; simpa [flatCw] using hp
  | cons g t ih =>
    intro hok
    have hg := hok g (by simp)
    have ht := ih (fun x hx => hok x (by simp [hx]))
    unfold SegOK at hg
    simp only [flatCw, Seg.cw]
    cases hl : g.latch with
    | some l =>
      rw [hl] at hg
      obtain ⟨p, m, _, hm⟩ := hg
      simp only [List.cons_append]
      exact niceTail_cons l _ (latch_ne_254 hm)
    | none =>
      rw [hl] at hg
      simp only []
      cases hX : g.X with
      | nil => simpa using ht
      | cons x xs =>
        simp only [List.cons_append]
        apply niceTail_cons
        have := hg x (by rw [hX]; simp)
        unfold AsciiCw at this
        omega

/-- what `run_segments` states about one particular list of segments -/
def SegmentsOK (pre out0 body cw : List Nat) (plan : List (Nat × EMode)) (segs : List Seg) (pads : List Nat) : Prop :=
  cw = pre ++ flatCw segs ++ pads ∧ (∀ g ∈ segs, SegOK plan g) ∧ NiceTail pads ∧
  ∀ (k : Nat) (hk : k < segs.length),
    decRun .ascii { rest := cw.drop pre.length, eaten := pre.length, out := out0, ecis := [] } =
    decRun .ascii { rest := flatCw (segs.drop k) ++ pads, eaten := pre.length + (flatCw (segs.take k)).length,
                    out := out0 ++ body.take segs[k].start, ecis := [] }

/-- any list of segments that satisfies the trace invariant at the end of the main loop, followed
by the padding, has the segment structure -/
theorem segments_of_TR (pre out0 : List Nat) (list : List Sym) (body cw : List Nat) (plan : List (Nat × EMode)) (sym : Sym)
    (sE : St) (segs : List Seg)
    (hsym : firstBigEnough list sE.cw.length = some sym)
    (hpad : addPadding sE.cw (sE.mode == .ascii) (dataCw sym) = some cw)
    (miE : MI false pre out0 list body sE) (hmf : sE.hasMore = false) (tr : TR pre out0 list body plan sE segs) :
    ∃ pads, SegmentsOK pre out0 body cw plan segs pads := by
  -- the padding
  have hpads : ∃ pads, cw = sE.cw ++ pads ∧ NiceTail pads ∧ (ExactFit list sE.cw.length → pads = []) := by
    cases miE.phase with
    | endgame more _ _ _ _ _ _ => rw [hmf] at more; cases more
    | ediAscii he _ _ _ _ _ _ _ _ => cases he
    | final he _ _ _ _ _ => cases he
    | done _ _ _ fit =>
      obtain ⟨S, f1, f2⟩ := fit
      rw [f1] at hsym
      simp only [Option.some.injEq] at hsym
      subst hsym
      rw [addPadding_exact _ _ _ f2.symm] at hpad
      simp only [Option.some.injEq] at hpad
      subst hpad
      exact ⟨[], by simp, by simp [NiceTail], fun _ => rfl⟩
    | normal _ pend _ more =>
      have hnm : sE.newMode = none := by
        cases hn : sE.newMode with
        | none => rfl
        | some l => have := more (by rw [hn]; simp); rw [hmf] at this; cases this
      have hmode : sE.mode = .ascii := by
        rcases pend with ⟨a, _⟩ | ⟨l, _, b, _⟩
        · exact a
        · rw [hnm] at b; cases b
      have hcap := firstBigEnough_le list _ sym hsym
      have hbeq : (EMode.ascii == EMode.ascii) = true := by decide
      rw [hmode, hbeq, addPadding_ascii_pads _ _ hcap] at hpad
      simp only [Option.some.injEq] at hpad
      subst hpad
      refine ⟨_, rfl, ?_, ?_⟩
      · unfold NiceTail DM.Props.C04.padsOf
        split <;> simp
      · intro ⟨S, f1, f2⟩
        rw [f1] at hsym
        simp only [Option.some.injEq] at hsym
        subst hsym
        unfold DM.Props.C04.padsOf
        rw [if_pos (by omega)]
  obtain ⟨pads, hcw, hnice, hexact⟩ := hpads
  refine ⟨pads, by rw [hcw, tr.cw], tr.ok, hnice, ?_⟩
  intro k hk
  obtain ⟨b, hs, hb'⟩ := tr.walk k hk
  have hsplit : flatCw segs = flatCw (segs.take k) ++ flatCw (segs.drop k) := by
    rw [← flatCw_append, List.take_append_drop]
  have hrest : cw.drop pre.length = (pre ++ flatCw (segs.take k)).drop pre.length ++ (flatCw (segs.drop k) ++ pads) := by
    rw [hcw, tr.cw, hsplit]
    simp
  have htail : NiceTail (flatCw (segs.drop k) ++ pads) :=
    niceTail_flat plan pads hnice _ (fun g hg => tr.ok g (List.mem_of_mem_drop hg))
  have hlen : b = true → (flatCw (segs.drop k) ++ pads).length ≤ 1 := by
    intro hbt
    obtain ⟨h1, h2, _, h4⟩ := hb' hbt
    have hd : segs.drop k = [segs[k]] := by
      rw [List.drop_eq_getElem_cons hk, List.drop_eq_nil_of_le (by omega)]
    rw [hd, hexact h4]
    simpa [flatCw] using h2
  rw [hrest, hs.2.2 _ hlen htail]
  simp

theorem mi_init (pre out0 : List Nat) (list : List Sym) (body : List Nat) (plan : List (Nat × EMode)) (hplan : PlanOK plan) :
    MI false pre out0 list body { input := body, pos := 0, mode := .ascii, plan := plan, newMode := none, cw := pre, list := list } :=
  ⟨rfl, rfl, Nat.zero_le _, by intro c hc; simp at hc,
    .normal (sync_init pre out0 body) (Or.inl ⟨rfl, rfl⟩) (planOKE_of_planOK body hplan) (fun hne => absurd rfl hne),
    fun _ => ne_of_planOK hplan⟩

theorem tr_init (pre out0 : List Nat) (list : List Sym) (body : List Nat) (plan : List (Nat × EMode)) :
    TR pre out0 list body plan { input := body, pos := 0, mode := .ascii, plan := plan, newMode := none, cw := pre, list := list } [] :=
  ⟨by simp [flatCw], by intro g hg; simp at hg, pv_init plan .ascii, by intro k hk; simp at hk⟩

/-- **The segment structure of every successful encoding** (plans within `PlanOK`). -/
theorem run_segments (pre out0 : List Nat) (list : List Sym) (body cw : List Nat) (plan : List (Nat × EMode)) (sym : Sym)
    (hb : ByteList body) (hplan : PlanOK plan) (h : run list pre body plan = .ok (cw, sym)) :
    ∃ (segs : List Seg) (pads : List Nat),
      cw = pre ++ flatCw segs ++ pads ∧ (∀ g ∈ segs, SegOK plan g) ∧ NiceTail pads ∧
      ∀ (k : Nat) (hk : k < segs.length),
        decRun .ascii { rest := cw.drop pre.length, eaten := pre.length, out := out0, ecis := [] } =
        decRun .ascii { rest := flatCw (segs.drop k) ++ pads, eaten := pre.length + (flatCw (segs.take k)).length,
                        out := out0 ++ body.take segs[k].start, ecis := [] } := by
  obtain ⟨sE, hmain, hsym, hpad⟩ := run_unfoldP list pre body cw plan sym h
  have mi0 := mi_init pre out0 list body plan hplan
  have tr0 := tr_init pre out0 list body plan
  obtain ⟨miE, hmf⟩ := mainLoop_MI false pre out0 list body hb _ _ 0 sE hmain mi0
  obtain ⟨segs, tr⟩ := mainLoop_TR pre out0 list body hb plan _ _ 0 sE [] hmain mi0 tr0
  obtain ⟨pads, hp⟩ := segments_of_TR pre out0 list body cw plan sym sE segs hsym hpad miE hmf tr
  exact ⟨segs, pads, hp⟩

/-- **C13 (encoder half).** Every latch codeword at a segment start is the latch of a mode named
by the plan; no latch codeword occurs inside a segment written in ASCII mode. -/
theorem latches_planned (pre : List Nat) (list : List Sym) (body cw : List Nat) (plan : List (Nat × EMode)) (sym : Sym)
    (hb : ByteList body) (hplan : PlanOK plan) (h : run list pre body plan = .ok (cw, sym)) :
    ∃ (segs : List Seg) (pads : List Nat), cw = pre ++ flatCw segs ++ pads ∧
      ∀ g ∈ segs, (∀ l, g.latch = some l → ∃ p m, (p, m) ∈ plan ∧ m.latch = some l) ∧
        (g.latch = none → ∀ c ∈ g.X, c ≠ 230 ∧ c ≠ 231 ∧ c ≠ 238 ∧ c ≠ 239 ∧ c ≠ 240) := by
  obtain ⟨segs, pads, h1, h2, _, _⟩ := run_segments pre [] list body cw plan sym hb hplan h
  refine ⟨segs, pads, h1, fun g hg => ⟨?_, ?_⟩⟩
  · intro l hl
    have := h2 g hg
    unfold SegOK at this
    rw [hl] at this
    exact this
  · intro hl c hc
    have := h2 g hg
    unfold SegOK at this
    rw [hl] at this
    have := this c hc
    unfold AsciiCw at this
    omega

/-- **C13 / C18, both halves together.** If the plan is the optimiser's answer for the mode set
`modes` (planner model) and lies within `PlanOK`, every latch at a segment start of the encoder
model's output is the latch of a mode enabled in `modes`. -/
theorem latches_enabled (data : List Nat) (written : Nat) (modes : Nat) (perms : List (List Nat)) (o : Plan.Outcome)
    (pre : List Nat) (list : List Sym) (body cw : List Nat) (plan : List (Nat × EMode)) (sym : Sym)
    (hopt : Plan.optimize data written list modes perms = .ok o) (hp : o.plan = some plan)
    (hb : ByteList body) (hplan : PlanOK plan) (h : run list pre body plan = .ok (cw, sym)) :
    ∃ (segs : List Seg) (pads : List Nat), cw = pre ++ flatCw segs ++ pads ∧
      ∀ g ∈ segs, ∀ l, g.latch = some l → ∃ m, Plan.enabledMode modes m = true ∧ m.latch = some l := by
  obtain ⟨segs, pads, h1, h2⟩ := latches_planned pre list body cw plan sym hb hplan h
  refine ⟨segs, pads, h1, fun g hg l hl => ?_⟩
  obtain ⟨p, m, hm, hlat⟩ := (h2 g hg).1 l hl
  exact ⟨m, DM.Props.Planner.plan_modes_enabled data written list modes perms o plan hopt hp (p, m) hm, hlat⟩

/-- Non-vacuity: a mixed plan within `PlanOK` (C40 for nine letters, ASCII for six digits, Text for
seven lower-case letters) on which the encoder model succeeds; its output has the three segments
`230 …`, `142 164 186`, `239 … 254 104`. -/
example : PlanOK [(22, .c40), (13, .ascii), (7, .text), (0, .text)] ∧
    run (symbolList (List.range 30)) []
      [65,66,67,68,69,70,71,72,73,49,50,51,52,53,54,97,98,99,100,101,102,103]
      [(22, .c40), (13, .ascii), (7, .text), (0, .text)] =
    .ok ([230, 89, 233, 109, 36, 128, 95, 254, 142, 164, 186, 239, 89, 233, 109, 36, 254, 104], 7) := by
  refine ⟨by unfold PlanOK; decide, by decide +kernel⟩

end DM.Props.C13
