import DM.Props.C14Str
import DM.Lemmas.PlannedRun
/-!
# C14 / C18 / C11 — `encode_str`, planner, encoder and string decoder models composed

`Props/C14Str.lean` proves that whatever the encoder model returns for what `encode_str` hands to it (the
Latin-1 bytes without ECI, or the UTF-8 bytes behind the designator of ECI 26, codewords 241, 27) the
string decoder model turns back into the code points of the string — *if* the encoder model succeeds.
`Props/C18Couple.lean` proves that on the plan the planner model returns (within the side condition
`planOK`) the encoder model does succeed, in a symbol no larger than predicted.  Composed here: the planner
model is run on the bytes `encode_str` selects, told the number of ECI codewords already written; the
encoder model is run on the planner's plan.  If the plan is inside the two decidable side conditions
and the predicted size fits a listed symbol, the encoder model **succeeds**, in a symbol no larger than
the predicted one, and the string decoder model returns the string.

No hypothesis speaks about the encoder's outcome: success is a conclusion.

The round-trip side condition is `C40Gen.planOKEb body plan = true` (no latch to a non-ASCII mode
scheduled for the last four characters, EDIFACT only as the final stretch and only over EDIFACT
characters).  The statements of `Props/C14Str.lean` ask for the stronger `PlanOK` (no EDIFACT at all);
their proofs go through with `MainRT.run_decRun_E` in place of `run_decRun`, which is done in the first
section (`plain_string_decode_E`, `eci_parts_E`, `eci_string_decode_E`).

* `planned_latin1_string_roundtrip`, `planned_utf8_string_roundtrip` — the two branches;
* `planned_encode_str_roundtrip` — both, as `encode_str` selects them (`strInput`);
* `planned_encode_str_roundtrip_nogate` — the same without the hypothesis on `maxCapacity`, which follows
  from the fitting prediction (`Lemmas/CoupleGate.lean`);
* `planned_eci_string_decode` — bytes behind the designator of any ECI number.
-/
namespace DM.Props.C14Planner
open DM.Model DM.Model.Dec DM.Model.Enc DM.Model.Plan DM.Model.PlanSide DM.Gen DM.Spec DM.Lemmas DM.Lemmas.EciFrame
  DM.Lemmas.C40Gen DM.Lemmas.MainRT DM.Lemmas.DecRun DM.Props.C14

/-! ### the conditional theorems of `Props/C14Str.lean` with EDIFACT as the final stretch -/

/-- `C14.plain_string_decode` for plans within `PlanOKE` -/
theorem plain_string_decode_E (list : List Sym) (body cw : List Nat) (plan : List (Nat × EMode)) (sym : Sym)
    (hb : ByteList body) (hplan : PlanOKE body plan) (h : run list [] body plan = .ok (cw, sym)) :
    decodeStr cw = mapChars latin1ToUtf8 body := by
  obtain ⟨_, hhd, e, hdec⟩ := run_decRun_E [] [] list body cw plan sym hb hplan h
  simp only [List.length_nil, List.drop_zero, List.nil_append] at hhd hdec
  unfold decodeStr
  rw [decodeParts_other cw false (fun t => ⟨fun ht => (hhd 236 (by rw [ht]; simp)).2.1 rfl,
    fun ht => (hhd 237 (by rw [ht]; simp)).2.2 rfl⟩),
    partsBody_no232 false [] cw 0 false (fun t ht => (hhd 232 (by rw [ht]; simp)).1 rfl)]
  simp only [Bool.and_false, Bool.false_eq_true, ↓reduceIte]
  unfold decRun at hdec
  simp only [] at hdec
  rw [hdec]
  simp only [partsFinish, Bool.false_eq_true, ↓reduceIte, convert, List.append_nil, List.singleton_append,
    convertSpans]
  rw [if_neg (by omega)]
  simp only [Nat.sub_zero, List.drop_zero, List.take_length, convertChunk, true_or, ↓reduceIte]
  cases mapChars latin1ToUtf8 body <;> simp

/-- `EciFrame.eci_parts` for plans within `PlanOKE` -/
theorem eci_parts_E (n : Nat) (hn : n ≤ 999999) (raw : Bool) (list : List Sym) (body cw : List Nat)
    (plan : List (Nat × EMode)) (sym : Sym) (hb : ByteList body) (hplan : PlanOKE body plan)
    (h : run list (241 :: Eci.designator n) body plan = .ok (cw, sym)) :
    decodeParts cw raw = .ok { output := body, ecis := [(0, n)], fnc1 := false } := by
  obtain ⟨hpfx, _, e', hdec⟩ := run_decRun_E (241 :: Eci.designator n) [] list body cw plan sym hb hplan h
  have hcw : cw = 241 :: (Eci.designator n ++ cw.drop (241 :: Eci.designator n).length) := by
    conv => lhs; rw [← List.take_append_drop (241 :: Eci.designator n).length cw, hpfx]
    rfl
  generalize cw.drop (241 :: Eci.designator n).length = R at hcw hdec
  subst hcw
  rw [decodeParts_other _ raw (fun t => ⟨by simp, by simp⟩),
    partsBody_no232 raw [] _ 0 false (fun t ht => by simp at ht)]
  simp only [Bool.and_false, Bool.false_eq_true, ↓reduceIte]
  have hrun : mainLoop (2 * (241 :: (Eci.designator n ++ R)).length + 2) .ascii
      { rest := 241 :: (Eci.designator n ++ R), eaten := 0, out := [], ecis := [] }
      = decRun .ascii { rest := 241 :: (Eci.designator n ++ R), eaten := 0, out := [], ecis := [] } := rfl
  rw [hrun, eci_step _ _ n 0 [] [] (DM.Props.C15.read_write_eci n hn R)]
  have hframe := decRun_frame [(0, n)] .ascii
    { rest := R, eaten := (241 :: Eci.designator n).length, out := [], ecis := [] }
  have e1 : addEcis [(0, n)] { rest := R, eaten := (241 :: Eci.designator n).length, out := [], ecis := [] }
      = { rest := R, eaten := 0 + 1 + (Eci.designator n).length, out := [], ecis := [] ++ [(([] : List Nat).length, n)] } := by
    simp [addEcis]; omega
  rw [e1, hdec] at hframe
  rw [hframe]
  simp [liftS, addEcis, partsFinish]

/-- `C14.eci_string_decode` for plans within `PlanOKE` -/
theorem eci_string_decode_E (n : Nat) (hn : n ≤ 999999) (list : List Sym) (body cw : List Nat)
    (plan : List (Nat × EMode)) (sym : Sym) (hb : ByteList body) (hplan : PlanOKE body plan)
    (h : run list (241 :: Eci.designator n) body plan = .ok (cw, sym)) :
    decodeStr cw = convertChunk body n := by
  unfold decodeStr
  rw [eci_parts_E n hn false list body cw plan sym hb hplan h]
  simp only [convert, List.cons_append, List.nil_append, convertSpans]
  rw [if_neg (by omega), if_neg (by omega)]
  simp only [Nat.sub_zero, List.drop_zero, List.take_zero, List.take_length]
  have h0 : convertChunk [] 0 = .ok [] := by simp [convertChunk, mapChars]
  rw [h0]
  simp only [List.nil_append]
  cases convertChunk body n <;> simp

/-! ### the composed theorems -/

/-- **Latin-1 branch of `encode_str`, planned.**  For code points `cps` which `utf8_to_latin1` maps to
`bytes`: the planner model plans `bytes` with no codeword written; if its plan is inside the two decidable
side conditions, the gate is passed and the prediction fits the listed symbol `ps`, the encoder model
succeeds on that plan in a symbol no larger than `ps` and the string decoder model returns `cps`. -/
theorem planned_latin1_string_roundtrip (cps bytes : List Nat) (hl : utf8ToLatin1Str cps = some bytes)
    (list : List Sym) (modes : Nat) (perms : List (List Nat)) (o : Outcome) (plan : List (Nat × EMode)) (ps : Sym)
    (hopt : Plan.optimize bytes 0 list modes perms = .ok o) (hp : o.plan = some plan)
    (hok : planOK bytes plan = true) (hrt : planOKEb bytes plan = true)
    (hgate : bytes.length ≤ maxCapacity list)
    (hfit : firstBigEnough list (o.cost12 / 12) = some ps) :
    ∃ cw sym, Enc.run list [] bytes plan = .ok (cw, sym) ∧ dataCw sym ≤ dataCw ps ∧
      decodeStr cw = .ok cps := by
  have hb : ByteList bytes := latin1_bytes cps bytes hl
  obtain ⟨cw, sym, hrun, hsz⟩ := PlannedRun.planned_run bytes [] list modes perms o plan ps hb
    (by simpa using hopt) hp hok hgate (by simpa using hfit)
  refine ⟨cw, sym, hrun, hsz, ?_⟩
  rw [plain_string_decode_E list bytes cw plan sym hb (planOKE_of_check bytes plan hrt) hrun]
  exact mapChars_latin1 bytes cps (latin1_inverse_l cps bytes hl)

/-- **Bytes behind an ECI designator, planned.**  For bytes `body` written behind the designator of ECI
`n` (codeword 241 and the one to three codewords of `Eci.designator n`): the planner model plans `body`,
told of the designator's codewords; under the same hypotheses the encoder model succeeds on that plan in a
symbol no larger than `ps`, and the string decoder model applies the conversion of ECI `n` to exactly
`body`. -/
theorem planned_eci_string_decode (n : Nat) (hn : n ≤ 999999) (body : List Nat) (hb : ∀ b ∈ body, b < 256)
    (list : List Sym) (modes : Nat) (perms : List (List Nat)) (o : Outcome) (plan : List (Nat × EMode)) (ps : Sym)
    (hopt : Plan.optimize body (1 + (Eci.designator n).length) list modes perms = .ok o) (hp : o.plan = some plan)
    (hok : planOK body plan = true) (hrt : planOKEb body plan = true)
    (hgate : body.length ≤ maxCapacity list)
    (hfit : firstBigEnough list (1 + (Eci.designator n).length + o.cost12 / 12) = some ps) :
    ∃ cw sym, Enc.run list (241 :: Eci.designator n) body plan = .ok (cw, sym) ∧ dataCw sym ≤ dataCw ps ∧
      decodeStr cw = convertChunk body n := by
  have e : (241 :: Eci.designator n).length = 1 + (Eci.designator n).length := by simp; omega
  obtain ⟨cw, sym, hrun, hsz⟩ := PlannedRun.planned_run body (241 :: Eci.designator n) list modes perms o plan ps hb
    (by rw [e]; exact hopt) hp hok hgate (by rw [e]; exact hfit)
  exact ⟨cw, sym, hrun, hsz, eci_string_decode_E n hn list body cw plan sym hb (planOKE_of_check body plan hrt) hrun⟩

/-- **UTF-8 branch of `encode_str`, planned.**  The UTF-8 bytes of the string `s` behind the designator
of ECI 26 (codewords 241, 27): the planner model plans the bytes, told of two codewords written; under the
same hypotheses the encoder model succeeds on that plan in a symbol no larger than `ps` and the string
decoder model returns the code points of `s`. -/
theorem planned_utf8_string_roundtrip (s : String)
    (list : List Sym) (modes : Nat) (perms : List (List Nat)) (o : Outcome) (plan : List (Nat × EMode)) (ps : Sym)
    (hopt : Plan.optimize (utf8Bytes s) 2 list modes perms = .ok o) (hp : o.plan = some plan)
    (hok : planOK (utf8Bytes s) plan = true) (hrt : planOKEb (utf8Bytes s) plan = true)
    (hgate : (utf8Bytes s).length ≤ maxCapacity list)
    (hfit : firstBigEnough list (2 + o.cost12 / 12) = some ps) :
    ∃ cw sym, Enc.run list [241, 27] (utf8Bytes s) plan = .ok (cw, sym) ∧ dataCw sym ≤ dataCw ps ∧
      decodeStr cw = .ok (codePoints s) := by
  have hd : (241 :: Eci.designator 26 : List Nat) = [241, 27] := by decide
  have hlen : 1 + (Eci.designator 26).length = 2 := by decide
  obtain ⟨cw, sym, hrun, hsz, hdec⟩ := planned_eci_string_decode 26 (by omega) (utf8Bytes s) (utf8Bytes_lt s)
    list modes perms o plan ps (by rw [hlen]; exact hopt) hp hok hrt hgate (by rw [hlen]; exact hfit)
  rw [hd] at hrun
  refine ⟨cw, sym, hrun, hsz, ?_⟩
  rw [hdec]
  simp [convertChunk, utf8Decode_utf8Bytes]

/-- **`encode_str` → planner → encoder → `decode_str` on the models.**  Whatever branch `encode_str`
selects for the string `s` (`strInput s` = ECI codewords, message bytes): if the planner model, run on
those bytes behind that many codewords, returns a plan inside the two decidable side conditions, the
bytes pass the encoder's early-exit gate and the prediction fits the listed symbol `ps`, then the encoder
model succeeds on that plan in a symbol no larger than `ps` and the string decoder model returns exactly
the code points of `s`. -/
theorem planned_encode_str_roundtrip (s : String)
    (list : List Sym) (modes : Nat) (perms : List (List Nat)) (o : Outcome) (plan : List (Nat × EMode)) (ps : Sym)
    (hopt : Plan.optimize (strInput s).2 (strInput s).1.length list modes perms = .ok o) (hp : o.plan = some plan)
    (hok : planOK (strInput s).2 plan = true) (hrt : planOKEb (strInput s).2 plan = true)
    (hgate : (strInput s).2.length ≤ maxCapacity list)
    (hfit : firstBigEnough list ((strInput s).1.length + o.cost12 / 12) = some ps) :
    ∃ cw sym, Enc.run list (strInput s).1 (strInput s).2 plan = .ok (cw, sym) ∧ dataCw sym ≤ dataCw ps ∧
      decodeStr cw = .ok (codePoints s) := by
  cases hl : utf8ToLatin1Str (codePoints s) with
  | some bytes =>
    have e : strInput s = ([], bytes) := (strInput_latin1 s bytes hl).1
    rw [e] at hopt hok hrt hgate hfit ⊢
    exact planned_latin1_string_roundtrip (codePoints s) bytes hl list modes perms o plan ps hopt hp hok hrt hgate
      (by simpa using hfit)
  | none =>
    have e : strInput s = ([241, 27], utf8Bytes s) := strInput_utf8 s hl
    rw [e] at hopt hok hrt hgate hfit ⊢
    exact planned_utf8_string_roundtrip s list modes perms o plan ps hopt hp hok hrt hgate hfit

/-- **The same without the gate hypothesis** (`CoupleGate.gate_prediction_none`: a prediction that fits a
listed symbol implies that the bytes pass the gate). -/
theorem planned_encode_str_roundtrip_nogate (s : String)
    (list : List Sym) (modes : Nat) (perms : List (List Nat)) (o : Outcome) (plan : List (Nat × EMode)) (ps : Sym)
    (hopt : Plan.optimize (strInput s).2 (strInput s).1.length list modes perms = .ok o) (hp : o.plan = some plan)
    (hok : planOK (strInput s).2 plan = true) (hrt : planOKEb (strInput s).2 plan = true)
    (hfit : firstBigEnough list ((strInput s).1.length + o.cost12 / 12) = some ps) :
    ∃ cw sym, Enc.run list (strInput s).1 (strInput s).2 plan = .ok (cw, sym) ∧ dataCw sym ≤ dataCw ps ∧
      decodeStr cw = .ok (codePoints s) :=
  planned_encode_str_roundtrip s list modes perms o plan ps hopt hp hok hrt
    (PlannedRun.fit_passes_gate (strInput s).2 (strInput s).1.length list modes perms o plan ps hopt hp hfit) hfit

/-! ### non-vacuity

Both branches of `encode_str`, the 30 standard sizes, all six modes enabled (`modes = 63`), the sort
permutations of a stable sort by cost (computed by running the model with an insertion sort).

* "héllo€" is not Latin-1: `strInput` answers the designator of ECI 26 and the nine UTF-8 bytes; the
  planner model, told of two codewords written, plans Base 256 to the end at 11 codewords
  (`132 / 12`); both side conditions hold, the gate is passed, 2 + 11 codewords fit symbol 6.
* "héllo" is Latin-1: five bytes, no ECI; the planner model plans ASCII at 6 codewords (`72 / 12`,
  the `é` takes an Upper Shift), which fit symbol 3.

These are all hypotheses of `planned_encode_str_roundtrip`; the theorem is then applied to both. -/

def exUtf8Bytes : List Nat := [104, 195, 169, 108, 108, 111, 226, 130, 172]
def exUtf8Perms : List (List Nat) :=
  [[0, 2, 3, 1], [0, 1, 3, 8, 4, 2, 9, 5, 11, 10, 6, 7], [0, 4, 12, 1, 5, 13, 2, 3, 8, 9, 6, 7, 14, 15, 10, 11],
   [0, 4, 5, 8, 9, 2, 6, 10, 3, 7, 11, 1], [0, 4, 5, 8, 9, 12, 16, 17, 2, 6, 10, 14, 3, 7, 11, 15, 1, 13],
   [0, 4, 5, 8, 9, 12, 16, 17, 2, 6, 10, 14, 3, 7, 11, 15, 1, 13],
   [4, 8, 0, 5, 9, 12, 16, 20, 1, 2, 6, 10, 13, 14, 17, 21, 3, 7, 11, 15, 18, 22, 19, 23],
   [0, 5, 1, 6, 3, 4, 8, 9, 10, 15, 2, 7, 11, 16, 12, 17, 14, 19, 13, 18], [0, 5, 1, 6, 2, 7, 3, 4, 8, 9], [0, 1]]
def exUtf8Plan : List (Nat × EMode) := [(9, .base256), (0, .base256)]
def exUtf8Outcome : Outcome := { plan := some exUtf8Plan, cost12 := 132, steps := 192, maxLive := 6 }

def exLatinBytes : List Nat := [104, 233, 108, 108, 111]
def exLatinPerms : List (List Nat) :=
  [[0, 2, 3, 1], [0, 4, 1, 2, 8, 3, 9, 5, 10, 11, 6, 7], [0, 4, 2, 12, 8, 9, 13, 14, 3, 10, 15, 1, 11, 16, 5, 7, 6],
   [0, 5, 10, 3, 11, 12, 17, 18, 4, 15, 21, 1, 2, 6, 13, 19, 16, 22, 14, 20, 9, 7, 8],
   [0, 12, 2, 6, 7, 13, 14, 19, 20, 1, 3, 4, 5, 9, 10, 15, 16, 17, 21, 22, 23, 8, 11, 18, 24], [0, 1, 2, 3, 4, 5]]
def exLatinPlan : List (Nat × EMode) := [(0, .ascii)]
def exLatinOutcome : Outcome := { plan := some exLatinPlan, cost12 := 72, steps := 105, maxLive := 6 }

open DM.Props.C18Couple in
example :
    strInput "héllo€" = ([241, 27], exUtf8Bytes) ∧
    Plan.optimize exUtf8Bytes ([241, 27] : List Nat).length exList 63 exUtf8Perms = .ok exUtf8Outcome ∧
    exUtf8Outcome.plan = some exUtf8Plan ∧
    planOK exUtf8Bytes exUtf8Plan = true ∧ planOKEb exUtf8Bytes exUtf8Plan = true ∧
    exUtf8Bytes.length ≤ maxCapacity exList ∧
    firstBigEnough exList (([241, 27] : List Nat).length + exUtf8Outcome.cost12 / 12) = some 6 := by
  refine ⟨by decide +kernel, by decide +kernel, rfl, by decide +kernel, by decide +kernel, by decide +kernel,
    by decide +kernel⟩

open DM.Props.C18Couple in
example :
    strInput "héllo" = ([], exLatinBytes) ∧
    Plan.optimize exLatinBytes ([] : List Nat).length exList 63 exLatinPerms = .ok exLatinOutcome ∧
    exLatinOutcome.plan = some exLatinPlan ∧
    planOK exLatinBytes exLatinPlan = true ∧ planOKEb exLatinBytes exLatinPlan = true ∧
    exLatinBytes.length ≤ maxCapacity exList ∧
    firstBigEnough exList (([] : List Nat).length + exLatinOutcome.cost12 / 12) = some 3 := by
  refine ⟨by decide +kernel, by decide +kernel, rfl, by decide +kernel, by decide +kernel, by decide +kernel,
    by decide +kernel⟩

/-- the theorem applied to "héllo€": the encoder model succeeds within symbol 6 (16 data codewords; it
returns `241, 27, 231, …`, see below) and the string decoder model returns the six code points -/
example : ∃ cw sym, Enc.run DM.Props.C18Couple.exList [241, 27] exUtf8Bytes exUtf8Plan = .ok (cw, sym) ∧
    dataCw sym ≤ dataCw 6 ∧ decodeStr cw = .ok (codePoints "héllo€") := by
  have e : strInput "héllo€" = ([241, 27], exUtf8Bytes) := by decide +kernel
  have h := planned_encode_str_roundtrip "héllo€" DM.Props.C18Couple.exList 63 exUtf8Perms exUtf8Outcome exUtf8Plan 6
  rw [e] at h
  exact h (by decide +kernel) rfl (by decide +kernel) (by decide +kernel) (by decide +kernel) (by decide +kernel)

/-- the theorem applied to "héllo" -/
example : ∃ cw sym, Enc.run DM.Props.C18Couple.exList [] exLatinBytes exLatinPlan = .ok (cw, sym) ∧
    dataCw sym ≤ dataCw 3 ∧ decodeStr cw = .ok (codePoints "héllo") := by
  have e : strInput "héllo" = ([], exLatinBytes) := by decide +kernel
  have h := planned_encode_str_roundtrip "héllo" DM.Props.C18Couple.exList 63 exLatinPerms exLatinOutcome exLatinPlan 3
  rw [e] at h
  exact h (by decide +kernel) rfl (by decide +kernel) (by decide +kernel) (by decide +kernel) (by decide +kernel)

/-- what evaluation gives for the two instances -/
example :
    Enc.run DM.Props.C18Couple.exList [241, 27] exUtf8Bytes exUtf8Plan =
      .ok ([241, 27, 231, 96, 84, 69, 193, 25, 175, 71, 80, 134, 69, 129, 87, 237], 6) ∧
    decodeStr [241, 27, 231, 96, 84, 69, 193, 25, 175, 71, 80, 134, 69, 129, 87, 237] =
      .ok [104, 233, 108, 108, 111, 8364] ∧
    Enc.run DM.Props.C18Couple.exList [] exLatinBytes exLatinPlan = .ok ([105, 235, 106, 109, 109, 112, 129, 56], 3) ∧
    decodeStr [105, 235, 106, 109, 109, 112, 129, 56] = .ok [104, 233, 108, 108, 111] := by
  refine ⟨by decide +kernel, by decide +kernel, by decide +kernel, by decide +kernel⟩

end DM.Props.C14Planner
