import DM.Model.Latin1
import DM.Spec.Charsets
import DM.Lemmas.GFTable
/-!
# C14 — string API: the Latin-1 helpers

Theorems about the two per-character tables, regenerated from the code on every run
(`latin1_to_utf8(&[b])` for all 256 bytes; `utf8_to_latin1` of every one-character string over
all 1 112 064 scalar values — the list holds exactly the scalar values on which it is defined):
the helpers agree with ISO-8859-1 on printable bytes and are mutually inverse character by
character, hence on whole strings (`mapOpt`). The `encode_str`/`decode_str` round trip itself is
decided by the sweep (see DESIGN.md).
-/
namespace DM.Props.C14
open DM.Model DM.Gen DM.Spec DM.Lemmas

/-- `latin1_to_utf8` agrees with ISO-8859-1 on every byte: printable bytes map to the code
point of the same number, control and undefined bytes are refused -/
theorem latin1_agrees_iso8859_1 : ∀ b, b < 256 → latin1Char b = Charsets.latin1 b := by
  intro b hb
  have h : allBelow 256 (fun b => latin1Char b == Charsets.latin1 b) = true := by decide +kernel
  simpa using allBelow_spec h b hb

/-- the table of `utf8_to_latin1` is exactly the inverse relation: each listed scalar value is
the image of its byte … -/
theorem u2l_sound : utf8ToLatin1.all (fun p => p.2 ≥ 0 && latin1Char p.2.toNat == some p.1) = true := by
  decide +kernel

/-- … every byte that `latin1_to_utf8` accepts is listed with its code point … -/
theorem u2l_complete : ∀ b, b < 256 → ∀ cp, latin1Char b = some cp → latin1Byte cp = some b := by
  intro b hb
  have h : allBelow 256 (fun b => match latin1Char b with
      | some cp => latin1Byte cp == some b
      | none => true) = true := by decide +kernel
  have := allBelow_spec h b hb
  intro cp hcp
  rw [hcp] at this
  simpa using this

/-- … and no scalar value is listed twice -/
theorem u2l_nodup : (utf8ToLatin1.map Prod.fst).Nodup := by decide +kernel

theorem latin1Byte_sound (cp b : Nat) (h : latin1Byte cp = some b) : latin1Char b = some cp := by
  unfold latin1Byte at h
  cases hf : utf8ToLatin1.find? (fun p => p.1 == cp) with
  | none => rw [hf] at h; simp at h
  | some pr =>
    obtain ⟨c, bb⟩ := pr
    rw [hf] at h
    have hm := List.mem_of_find?_eq_some hf
    have hp := List.find?_some hf
    have hs := List.all_eq_true.mp u2l_sound _ hm
    simp only [Bool.and_eq_true, decide_eq_true_eq, beq_iff_eq] at hs hp
    simp only at h
    rw [if_pos hs.1] at h
    simp only [Option.some.injEq] at h
    subst h
    rw [hs.2, hp]

/-- `utf8_to_latin1` then `latin1_to_utf8` is the identity on the strings it accepts -/
theorem latin1_inverse_l : ∀ (cps bytes : List Nat), utf8ToLatin1Str cps = some bytes →
    latin1ToUtf8Str bytes = some cps := by
  intro cps
  induction cps with
  | nil => intro bytes h; simp [utf8ToLatin1Str, mapOpt] at h; subst h; rfl
  | cons c cs ih =>
    intro bytes h
    simp only [utf8ToLatin1Str, mapOpt] at h
    cases hb : latin1Byte c with
    | none => simp [hb] at h
    | some b =>
      cases hr : mapOpt latin1Byte cs with
      | none => simp [hb, hr] at h
      | some bs =>
        simp only [hb, hr, Option.some.injEq] at h
        subst h
        have := ih bs hr
        simp only [latin1ToUtf8Str, mapOpt, latin1Byte_sound c b hb]
        simp only [latin1ToUtf8Str] at this
        rw [this]

/-- `latin1_to_utf8` then `utf8_to_latin1` is the identity on the byte strings it accepts -/
theorem latin1_inverse_r : ∀ (bytes cps : List Nat), (∀ b ∈ bytes, b < 256) → latin1ToUtf8Str bytes = some cps →
    utf8ToLatin1Str cps = some bytes := by
  intro bytes
  induction bytes with
  | nil => intro cps _ h; simp [latin1ToUtf8Str, mapOpt] at h; subst h; rfl
  | cons b bs ih =>
    intro cps hb h
    simp only [latin1ToUtf8Str, mapOpt] at h
    cases hc : latin1Char b with
    | none => simp [hc] at h
    | some c =>
      cases hr : mapOpt latin1Char bs with
      | none => simp [hc, hr] at h
      | some cs =>
        simp only [hc, hr, Option.some.injEq] at h
        subst h
        have := ih cs (fun x hx => hb x (List.mem_cons_of_mem _ hx)) hr
        simp only [utf8ToLatin1Str, mapOpt, u2l_complete b (hb b (List.mem_cons_self ..)) c hc]
        simp only [utf8ToLatin1Str] at this
        rw [this]

/-- Non-vacuity: "µ" (U+00B5) is Latin-1 byte 0xB5 and back; Greek "μ" (U+03BC) is not Latin-1. -/
example : latin1Byte 0xB5 = some 0xB5 ∧ latin1Char 0xB5 = some 0xB5 ∧ latin1Byte 0x3BC = none := by
  decide +kernel

end DM.Props.C14
