import DM.Model.Planner
import DM.Model.PlanSide
/-!
# C13, second clause — definitions (instrumented run of the encoder's main loop)

Kept free of proof imports so that the definitions can be evaluated on their own.
See `DM/Props/C13Tail.lean` for the theorems.
-/
namespace DM.Props.C13Tail
open DM.Model DM.Model.Plan DM.Model.Enc

/-- one recorded call of a mode encoder by the main loop:
`(position before the call, position after the call, mode in which `encodeMode` was entered)` -/
abbrev Seg := Nat × Nat × EMode

/-- **The instrumented main loop**: `Enc.mainLoop`, line by line, with one addition — every call of
`encodeMode` is recorded (`traceLoop_fst`: the state it returns is the state `mainLoop` returns). -/
def traceLoop : Nat → St → Nat → List Seg → Enc.R (St × List Seg)
  | 0, _, _, _ => .error .fuel
  | f + 1, s, noWrite, tr =>
    if !s.hasMore then .ok (s, tr)
    else
      let s := match s.newMode with
        | some nm => { s with newMode := none }.push nm
        | none => s
      let len := s.cw.length
      match encodeMode s with
      | .error e => .error e
      | .ok s' =>
        let tr := tr ++ [(s.pos, s'.pos, s.mode)]
        if s'.cw.length < len then .error (.panic "codewords.len() - len")
        else
          let written := s'.cw.length - len
          if written ≤ 1 then
            if noWrite + 1 > 5 then .error (.panic "no progress in encoder")
            else traceLoop f s' (noWrite + 1) tr
          else traceLoop f s' 0 tr

/-- the initial state of `Enc.run` -/
def initSt (list : List Sym) (pre body : List Nat) (plan : List (Nat × EMode)) : St :=
  { input := body, pos := 0, mode := .ascii, plan := plan, newMode := none, cw := pre, list := list }

/-- the instrumented main loop with the fuel and the initial state of `Enc.run` -/
def runTrace (list : List Sym) (pre body : List Nat) (plan : List (Nat × EMode)) : Enc.R (St × List Seg) :=
  traceLoop (2 * body.length + 8) (initSt list pre body plan) 0 []

/-- the recorded calls tile `[a, b)`: the first starts at `a`, each starts where the one before ended,
the last ends at `b` -/
def Tiles : Nat → Nat → List Seg → Prop
  | a, b, [] => a = b
  | a, b, (x, y, _) :: t => x = a ∧ x ≤ y ∧ Tiles y b t

instance : ∀ a b l, Decidable (Tiles a b l)
  | a, b, [] => inferInstanceAs (Decidable (a = b))
  | a, b, (x, y, _) :: t =>
    have := instDecidableTiles y b t
    inferInstanceAs (Decidable (x = a ∧ x ≤ y ∧ Tiles y b t))

/-- **The mode the plan assigns** to the character in front of which `cl ≥ 1` characters are left
(that character included).  An entry `(a, m)` of the switch list reads "when `a` characters are left,
switch to `m`"; the encoder starts in ASCII; the entries are in non-increasing order of `a`, the last
one is the terminator `(0, _)`. -/
def planModeAt (plan : List (Nat × EMode)) (cl : Nat) : EMode := go .ascii plan
where
  go (cur : EMode) : List (Nat × EMode) → EMode
    | [] => cur
    | (a, m) :: t => if cl ≤ a then go m t else cur

/-- the number of characters a mode encoder may hand to the ASCII encoder at the end of the data
(`set_ascii_until_end`) -/
def tailMax : EMode → Nat
  | .ascii => 0
  | .base256 => 0
  | .c40 => 2
  | .text => 2
  | .x12 => 2
  | .edifact => 4

/-- **What the second clause of C13 says about a recorded run** (`q`: where the end-of-data ASCII
fallback begins; `q = n`: there is none):
1. the recorded calls tile `[0, n)`;
2. a call that consumes characters and ends at or before `q` runs in the mode the plan assigns to
   every one of its characters, and that mode is enabled;
3. the only call that consumes characters beyond `q` is one call of the ASCII encoder for `[q, n)`;
4. if there is a fallback (`q < n`), the plan assigns a mode `m ≠ ASCII` to `[q, n)` (so the fallback
   follows a latch into C40, Text, X12 or EDIFACT — never ASCII or Base 256, which hand nothing over),
   and it covers at most `tailMax m ≤ 4` characters. -/
def TailOK (modes n : Nat) (plan : List (Nat × EMode)) (tr : List Seg) (q : Nat) : Prop :=
  q ≤ n ∧ n - q ≤ 4 ∧ Tiles 0 n tr ∧
  (∀ e ∈ tr, e.1 < e.2.1 → e.2.1 ≤ q →
    ∀ i, e.1 ≤ i → i < e.2.1 → planModeAt plan (n - i) = e.2.2 ∧ enabledMode modes e.2.2 = true) ∧
  (∀ e ∈ tr, e.1 < e.2.1 → q < e.2.1 → e = (q, n, .ascii)) ∧
  (q < n → (q, n, EMode.ascii) ∈ tr ∧
    (∀ i, q ≤ i → i < n → planModeAt plan (n - i) = planModeAt plan (n - q)) ∧
    enabledMode modes (planModeAt plan (n - q)) = true ∧
    (planModeAt plan (n - q) = .c40 ∨ planModeAt plan (n - q) = .text ∨ planModeAt plan (n - q) = .x12 ∨
      planModeAt plan (n - q) = .edifact) ∧
    n - q ≤ tailMax (planModeAt plan (n - q)))

/-- Boolean version, for evaluation -/
def tailOKb (modes n : Nat) (plan : List (Nat × EMode)) (tr : List Seg) (q : Nat) : Bool :=
  decide (q ≤ n) && decide (n - q ≤ 4) && decide (Tiles 0 n tr) &&
  tr.all (fun e => !(decide (e.1 < e.2.1) && decide (e.2.1 ≤ q)) ||
    (List.range (e.2.1 - e.1)).all fun j =>
      planModeAt plan (n - (e.1 + j)) == e.2.2 && enabledMode modes e.2.2) &&
  tr.all (fun e => !(decide (e.1 < e.2.1) && decide (q < e.2.1)) || e == (q, n, EMode.ascii)) &&
  (!decide (q < n) ||
    (tr.contains (q, n, EMode.ascii) &&
     (List.range (n - q)).all (fun j => planModeAt plan (n - (q + j)) == planModeAt plan (n - q)) &&
     enabledMode modes (planModeAt plan (n - q)) &&
     (planModeAt plan (n - q) == .c40 || planModeAt plan (n - q) == .text || planModeAt plan (n - q) == .x12 ||
       planModeAt plan (n - q) == .edifact) &&
     decide (n - q ≤ tailMax (planModeAt plan (n - q)))))

end DM.Props.C13Tail
