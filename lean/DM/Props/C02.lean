import DM.Model.EncPrefix
import DM.Spec.Stream
/-!
# C02 — conformant output: the padding

`padding_conformant`: for every codeword prefix and every capacity, `add_padding` (model, tied
to the code through the `add_padding` hook) fills the symbol with UNLATCH (if the encoder is not
in ASCII mode), the pad codeword 129 and then codewords that the standard's 253-state
de-randomisation maps back to 129 — and nothing else. The conformance of the mode encoders'
output is decided by the reference-decoder sweep (DESIGN.md).
-/
namespace DM.Props.C02
open DM.Model DM.Spec.Stream

/-- the randomised pad written at 1-based position `pos` -/
def padAt (pos : Nat) : Nat :=
  let tmp := 129 + ((149 * pos) % 253 + 1)
  if tmp ≤ 254 then tmp else tmp - 254

/-- 253-state randomisation and the standard's de-randomisation are inverse on the pad value -/
theorem pad_randomize_inverse (pos : Nat) : unrand253 (padAt pos) pos = 129 ∧ 1 ≤ padAt pos ∧ padAt pos ≤ 254 := by
  unfold unrand253 rand253 padAt
  have : (149 * pos) % 253 < 253 := Nat.mod_lt _ (by omega)
  simp only
  split <;> split <;> omega

def padFold (n : Nat) (acc : List Nat) : List Nat :=
  (List.range n).foldl (fun acc _ => acc ++ [padAt (acc.length + 1)]) acc

theorem padFold_succ (n : Nat) (acc : List Nat) :
    padFold (n + 1) acc = padFold n acc ++ [padAt ((padFold n acc).length + 1)] := by
  unfold padFold
  rw [List.range_succ, List.foldl_append]
  rfl

theorem padFold_length (n : Nat) (acc : List Nat) : (padFold n acc).length = acc.length + n := by
  induction n with
  | zero => simp [padFold]
  | succ n ih => rw [padFold_succ, List.length_append, ih]; simp; omega

theorem padFold_prefix (n : Nat) (acc : List Nat) : (padFold n acc).take acc.length = acc := by
  induction n with
  | zero => simp [padFold]
  | succ n ih =>
    rw [padFold_succ, List.take_append_of_le_length (by rw [padFold_length]; omega)]
    exact ih

theorem padFold_take (n : Nat) (acc : List Nat) (k : Nat) (hk : k ≤ acc.length) :
    (padFold n acc).take k = acc.take k := by
  have := padFold_prefix n acc
  calc (padFold n acc).take k = ((padFold n acc).take acc.length).take k := by
        rw [List.take_take, Nat.min_eq_left hk]
    _ = acc.take k := by rw [this]

theorem padFold_get (n : Nat) (acc : List Nat) (i : Nat) (h1 : acc.length ≤ i) (h2 : i < acc.length + n) :
    (padFold n acc).getD i 0 = padAt (i + 1) := by
  induction n with
  | zero => omega
  | succ n ih =>
    rw [padFold_succ]
    by_cases hi : i < acc.length + n
    · rw [List.getD_eq_getElem?_getD, List.getElem?_append_left (by rw [padFold_length]; exact hi),
        ← List.getD_eq_getElem?_getD]
      exact ih hi
    · have : i = acc.length + n := by omega
      subst this
      rw [List.getD_eq_getElem?_getD, List.getElem?_append_right (by rw [padFold_length]; omega), padFold_length]
      simp

/-- **`add_padding` produces exactly the standard's padding.** -/
theorem padding_conformant (cw : List Nat) (ascii : Bool) (cap : Nat) (h : cw.length ≤ cap) :
    ∃ out, addPadding cw ascii cap = some out ∧ out.length = cap ∧ out.take cw.length = cw ∧
      (ascii = false → cw.length < cap → out.getD cw.length 0 = 254) ∧
      (∀ start, start = cw.length + (if ascii = false ∧ cw.length < cap then 1 else 0) →
        (start < cap → out.getD start 0 = 129) ∧
        ∀ i, start < i → i < cap → unrand253 (out.getD i 0) (i + 1) = 129) := by
  unfold addPadding
  rw [if_neg (by omega)]
  by_cases h0 : cap - cw.length = 0
  · simp only [h0, if_true]
    have : cap = cw.length := by omega
    subst this
    refine ⟨cw, rfl, rfl, by simp, fun _ hlt => absurd hlt (by omega), ?_⟩
    intro start hs
    have : start = cw.length := by rw [hs]; simp
    subst this
    exact ⟨fun hlt => absurd hlt (by omega), fun i h1 h2 => absurd h2 (by omega)⟩
  · simp only [h0, if_false]
    have hlt : cw.length < cap := by omega
    cases ascii with
    | true =>
      simp only [Bool.not_true, Bool.false_eq_true, if_false]
      have hpos : cap - cw.length > 0 := by omega
      simp only [hpos, if_true]
      refine ⟨padFold (cap - cw.length - 1) (cw ++ [129]), rfl, ?_, ?_, by simp, ?_⟩
      · rw [padFold_length]; simp; omega
      · rw [padFold_take _ _ _ (by simp)]; simp
      · intro start hs
        have : start = cw.length := by rw [hs]; simp
        subst this
        constructor
        · intro _
          have := congrArg (fun l => l.getD cw.length 0) (padFold_prefix (cap - cw.length - 1) (cw ++ [129]))
          simp only [List.length_append, List.length_cons, List.length_nil] at this
          rw [List.getD_eq_getElem?_getD, List.getElem?_take_of_lt (by omega), ← List.getD_eq_getElem?_getD] at this
          rw [this]; simp [List.getD_eq_getElem?_getD]
        · intro i h1 h2
          rw [padFold_get _ _ i (by simp; omega) (by simp; omega)]
          exact (pad_randomize_inverse (i + 1)).1
    | false =>
      simp only [Bool.not_false, if_true]
      by_cases h1 : cap - cw.length - 1 > 0
      · simp only [h1, if_true]
        refine ⟨padFold (cap - cw.length - 1 - 1) (cw ++ [254] ++ [129]), rfl, ?_, ?_, ?_, ?_⟩
        · rw [padFold_length]; simp; omega
        · rw [padFold_take _ _ _ (by simp)]; simp
        · intro _ _
          have := congrArg (fun l => l.getD cw.length 0) (padFold_prefix (cap - cw.length - 1 - 1) (cw ++ [254] ++ [129]))
          simp only [List.length_append, List.length_cons, List.length_nil] at this
          rw [List.getD_eq_getElem?_getD, List.getElem?_take_of_lt (by omega), ← List.getD_eq_getElem?_getD] at this
          rw [this]; simp [List.getD_eq_getElem?_getD]
        · intro start hs
          have : start = cw.length + 1 := by rw [hs]; simp [hlt]
          subst this
          constructor
          · intro _
            have := congrArg (fun l => l.getD (cw.length + 1) 0) (padFold_prefix (cap - cw.length - 1 - 1) (cw ++ [254] ++ [129]))
            simp only [List.length_append, List.length_cons, List.length_nil] at this
            rw [List.getD_eq_getElem?_getD, List.getElem?_take_of_lt (by omega), ← List.getD_eq_getElem?_getD] at this
            rw [this]; simp [List.getD_eq_getElem?_getD]
          · intro i h2 h3
            rw [padFold_get _ _ i (by simp; omega) (by simp; omega)]
            exact (pad_randomize_inverse (i + 1)).1
      · simp only [h1, if_false]
        have hc : cap = cw.length + 1 := by omega
        subst hc
        refine ⟨padFold 0 (cw ++ [254]), by simp [padFold], by simp [padFold], by simp [padFold], ?_, ?_⟩
        · intro _ _; simp [padFold, List.getD_eq_getElem?_getD]
        · intro start hs
          have : start = cw.length + 1 := by rw [hs]; simp
          subst this
          exact ⟨fun hh => absurd hh (by omega), fun i h2 h3 => absurd h3 (by omega)⟩

/-- Non-vacuity: the padding of the empty message in a 10×10 symbol (the repository's
`test_empty` expects 129, 175, 70). -/
example : addPadding [] true 3 = some [129, 175, 70] := by decide +kernel

end DM.Props.C02
