import DM.Lemmas.Finder
/-! C08, part 2: kernel evaluation of the finder certificate for sizes [0, 7, 13, 45]. -/
namespace DM.Props.C08
open DM.Lemmas DM.Model

def part2 : List Sym := [0, 7, 13, 45]

set_option maxRecDepth 1000000 in
theorem part2_ok : part2.all finderOK = true := by decide +kernel

end DM.Props.C08
