import DM.Lemmas.Finder
/-! C08, part 1: kernel evaluation of the finder certificate for sizes [46]. -/
namespace DM.Props.C08
open DM.Lemmas DM.Model

def part1 : List Sym := [46]

set_option maxRecDepth 1000000 in
theorem part1_ok : part1.all finderOK = true := by decide +kernel

end DM.Props.C08
