import DM.Lemmas.Finder
/-! C08, part 0: kernel evaluation of the finder certificate for sizes [47]. -/
namespace DM.Props.C08
open DM.Lemmas DM.Model

def part0 : List Sym := [47]

set_option maxRecDepth 1000000 in
theorem part0_ok : part0.all finderOK = true := by decide +kernel

end DM.Props.C08
