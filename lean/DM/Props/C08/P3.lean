import DM.Lemmas.Finder
/-! C08, part 3: kernel evaluation of the finder certificate for sizes [4, 9, 15, 21, 28, 31, 44]. -/
namespace DM.Props.C08
open DM.Lemmas DM.Model

def part3 : List Sym := [4, 9, 15, 21, 28, 31, 44]

set_option maxRecDepth 1000000 in
theorem part3_ok : part3.all finderOK = true := by decide +kernel

end DM.Props.C08
