import DM.Lemmas.Finder
/-! C08, part 5: kernel evaluation of the finder certificate for sizes [6, 11, 16, 23, 25, 33, 37, 42]. -/
namespace DM.Props.C08
open DM.Lemmas DM.Model

def part5 : List Sym := [6, 11, 16, 23, 25, 33, 37, 42]

set_option maxRecDepth 1000000 in
theorem part5_ok : part5.all finderOK = true := by decide +kernel

end DM.Props.C08
