import DM.Lemmas.Finder
/-! C08, part 4: kernel evaluation of the finder certificate for sizes [3, 10, 19, 20, 27, 30, 35, 43]. -/
namespace DM.Props.C08
open DM.Lemmas DM.Model

def part4 : List Sym := [3, 10, 19, 20, 27, 30, 35, 43]

set_option maxRecDepth 1000000 in
theorem part4_ok : part4.all finderOK = true := by decide +kernel

end DM.Props.C08
