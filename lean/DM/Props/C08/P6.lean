import DM.Lemmas.Finder
/-! C08, part 6: kernel evaluation of the finder certificate for sizes [1, 2, 12, 17, 18, 24, 29, 36, 38, 41]. -/
namespace DM.Props.C08
open DM.Lemmas DM.Model

def part6 : List Sym := [1, 2, 12, 17, 18, 24, 29, 36, 38, 41]

set_option maxRecDepth 1000000 in
theorem part6_ok : part6.all finderOK = true := by decide +kernel

end DM.Props.C08
