import DM.Lemmas.Finder
/-! C08, part 7: kernel evaluation of the finder certificate for sizes [5, 8, 14, 22, 26, 32, 34, 39, 40]. -/
namespace DM.Props.C08
open DM.Lemmas DM.Model

def part7 : List Sym := [5, 8, 14, 22, 26, 32, 34, 39, 40]

set_option maxRecDepth 1000000 in
theorem part7_ok : part7.all finderOK = true := by decide +kernel

end DM.Props.C08
