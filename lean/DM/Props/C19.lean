import DM.Model.Prune
import Mathlib.Data.List.Perm.Subperm
/-!
# C19 — planning work grows at most linearly: the pruning bound

`live_plans_le_36`: whatever list of candidate plans `remove_hopeless_cases` is given (any
length, any costs, any order among equal costs), at most 36 plans survive — one per (start
mode, current mode) pair — and the survivors are a sub-list of the input. The model is compared
with the code on every call of `remove_hopeless_cases` recorded by the hook during the C19 sweep.

With at most 36 live plans at the start of an iteration of `optimize`, an iteration performs at
most 36 `step()` calls on the live plans and at most 5 per live plan inside `add_switches`
(`steps_per_iteration`), and the loop runs `len + 1` times (every plan reads one character per
step; this part is read off the code and checked by the instrumented counters, not proved).
-/
namespace DM.Props.C19
open DM.Model

theorem dedupKeys_sublist : ∀ (l : List PRec) (seen : List Nat), (dedupKeys l seen).Sublist l := by
  intro l
  induction l with
  | nil => intro seen; simp [dedupKeys]
  | cons p ps ih =>
    intro seen
    unfold dedupKeys
    split
    · exact (ih seen).cons p
    · exact (ih _).cons₂ p

theorem dedupKeys_keys : ∀ (l : List PRec) (seen : List Nat),
    ((dedupKeys l seen).map PRec.key).Nodup ∧ ∀ p ∈ dedupKeys l seen, p.key ∉ seen := by
  intro l
  induction l with
  | nil => intro seen; simp [dedupKeys]
  | cons p ps ih =>
    intro seen
    unfold dedupKeys
    split
    · exact ih seen
    · rename_i hns
      have := ih (p.key :: seen)
      refine ⟨?_, ?_⟩
      · rw [List.map_cons, List.nodup_cons]
        refine ⟨?_, this.1⟩
        intro hm
        obtain ⟨q, hq, hk⟩ := List.mem_map.mp hm
        exact this.2 q hq (by rw [hk]; exact List.mem_cons_self ..)
      · intro q hq
        rcases List.mem_cons.mp hq with rfl | hq
        · simpa using hns
        · intro hs
          exact this.2 q hq (List.mem_cons_of_mem _ hs)

theorem dominance_sublist (first : PRec) : ∀ l : List PRec, (dominance first l).1.Sublist l := by
  intro l
  induction l with
  | nil => simp [dominance]
  | cons s rest ih =>
    unfold dominance
    split
    · simp only
      split
      · exact ih.cons s
      · exact ih.cons₂ s
    · exact List.Sublist.refl _

theorem phase2_sublist : ∀ (f : Nat) (pre l : List PRec), (phase2 f pre l).Sublist (pre ++ l) := by
  intro f
  induction f with
  | zero => intro pre l; exact List.Sublist.refl _
  | succ f ih =>
    intro pre l
    unfold phase2
    cases l with
    | nil => simp
    | cons first rest =>
      simp only
      split
      · exact List.Sublist.refl _
      · have hd := dominance_sublist first rest
        split
        · have := ih (pre ++ [first]) (dominance first rest).1
          refine this.trans ?_
          rw [List.append_assoc]
          exact (List.Sublist.refl pre).append (((List.Sublist.refl [first]).append hd))
        · exact (List.Sublist.refl pre).append (hd.cons₂ first)

/-- the survivors are a sub-list of the (sorted) input: pruning only removes -/
theorem removeHopeless_sublist (l : List PRec) : (removeHopeless l).Sublist l := by
  unfold removeHopeless
  have h1 := phase2_sublist (dedupKeys l []).length [] (dedupKeys l [])
  simp only [List.nil_append] at h1
  exact h1.trans (dedupKeys_sublist l [])

theorem nodup_lt_length (ks : List Nat) (n : Nat) (hn : ks.Nodup) (hlt : ∀ k ∈ ks, k < n) : ks.length ≤ n := by
  have hs : ks ⊆ List.range n := fun k hk => List.mem_range.mpr (hlt k hk)
  have := (List.subperm_of_subset hn hs).length_le
  simpa using this

/-- **At most 36 plans are alive after pruning**, for every list of candidates whose mode
indices are below 6. -/
theorem live_plans_le_36 (l : List PRec) (hl : ∀ p ∈ l, p.start < 6 ∧ p.cur < 6) :
    (removeHopeless l).length ≤ 36 := by
  unfold removeHopeless
  have h1 := phase2_sublist (dedupKeys l []).length [] (dedupKeys l [])
  simp only [List.nil_append] at h1
  have hk := (dedupKeys_keys l []).1
  have hlen : (dedupKeys l []).length ≤ 36 := by
    have := nodup_lt_length ((dedupKeys l []).map PRec.key) 36 hk (by
      intro k hk'
      obtain ⟨p, hp, rfl⟩ := List.mem_map.mp hk'
      have := hl p ((dedupKeys_sublist l []).subset hp)
      unfold PRec.key
      omega)
    simpa using this
  exact Nat.le_trans h1.length_le hlen

/-- after pruning no two plans share (start mode, current mode) -/
theorem live_plans_distinct_keys (l : List PRec) : ((removeHopeless l).map PRec.key).Nodup := by
  unfold removeHopeless
  have h1 := phase2_sublist (dedupKeys l []).length [] (dedupKeys l [])
  simp only [List.nil_append] at h1
  exact (dedupKeys_keys l []).1.sublist (h1.map _)

/-- arithmetic of one iteration: each live plan is stepped once and `add_switches` steps at most
five new plans for it -/
theorem steps_per_iteration (live : Nat) (h : live ≤ 36) : live + 5 * live ≤ 216 := by omega

/-- Non-vacuity: two plans with the same (start, current) pair and a dominated third one. -/
example : removeHopeless
    [⟨0, 0, 12, [some 12, some 36, some 24, some 24, some 24, some 24]⟩,
     ⟨0, 0, 12, [some 12, some 36, some 24, some 24, some 24, some 24]⟩,
     ⟨0, 4, 40, [some 52, some 64, some 52, some 52, some 40, some 52]⟩]
    = [⟨0, 0, 12, [some 12, some 36, some 24, some 24, some 24, some 24]⟩] := by decide +kernel

end DM.Props.C19
