import Batteries.Lean.Except
import DM.Lemmas.EciFrame
import DM.Props.C14
import DM.Model.EncPrefix
/-!
# C14 — `encode_str` → `decode_str` round trip (data level)

`encode_str` encodes a string as Latin-1 without ECI if `utf8_to_latin1` accepts it, and otherwise
as its UTF-8 bytes behind the ECI designator for 26.  The theorems below push both branches through
the plan-driven encoder model and the string decoder model:

* `latin1_string_roundtrip` — the Latin-1 branch returns the original code points;
* `eci_string_decode` — behind any ECI designator the string decoder applies the conversion of that
  ECI to exactly the original bytes;
* `utf8_string_roundtrip` — the UTF-8 branch returns the original string (`String` is Lean's
  UTF-8 string type; `from_utf8 (s.as_bytes()) = s` is `String.fromUTF8?` on `toUTF8`);
* `encode_str_roundtrip` — both branches together, as `encode_str` selects them.

Scope: plans accepted by the mixed-plan round trip of C01 (no EDIFACT entry, no latch to a
non-ASCII mode within the last four characters), messages that are not a Macro 05/06 envelope.
-/
namespace DM.Props.C14
open DM.Model DM.Model.Dec DM.Model.Enc DM.Gen DM.Spec DM.Lemmas DM.Lemmas.EciFrame DM.Lemmas.C40Gen
  DM.Lemmas.MainRT DM.Lemmas.DecRun

/-- the string decoder's Latin-1 table is the helper's table -/
theorem tableChar_latin1 (b cp : Nat) (h : latin1Char b = some cp) : tableChar latin1ToUtf8 b = .ok cp := by
  unfold latin1Char at h
  unfold tableChar
  cases hq : latin1ToUtf8[b]? with
  | none => rw [hq] at h; simp at h
  | some v =>
    rw [hq] at h
    simp only at h ⊢
    by_cases hv : v ≥ 0
    · rw [if_pos hv] at h ⊢
      simp only [Option.some.injEq] at h
      rw [h]
    · rw [if_neg hv] at h; cases h

theorem mapChars_latin1 : ∀ (bytes cps : List Nat), latin1ToUtf8Str bytes = some cps →
    mapChars latin1ToUtf8 bytes = .ok cps := by
  intro bytes
  induction bytes with
  | nil => intro cps h; simp [latin1ToUtf8Str, mapOpt] at h; subst h; rfl
  | cons b bs ih =>
    intro cps h
    simp only [latin1ToUtf8Str, mapOpt] at h
    cases hc : latin1Char b with
    | none => simp [hc] at h
    | some c =>
      cases hr : mapOpt latin1Char bs with
      | none => simp [hc, hr] at h
      | some cs =>
        simp only [hc, hr, Option.some.injEq] at h
        subst h
        simp only [mapChars, tableChar_latin1 b c hc, ih cs hr]

theorem latin1Char_lt (b cp : Nat) (h : latin1Char b = some cp) : b < 256 := by
  unfold latin1Char at h
  cases hq : latin1ToUtf8[b]? with
  | none => rw [hq] at h; simp at h
  | some v =>
    have := (List.getElem?_eq_some_iff.mp hq).1
    have hl : latin1ToUtf8.length = 256 := by decide +kernel
    omega

theorem latin1_bytes : ∀ (cps bytes : List Nat), utf8ToLatin1Str cps = some bytes → ∀ b ∈ bytes, b < 256 := by
  intro cps
  induction cps with
  | nil => intro bytes h; simp [utf8ToLatin1Str, mapOpt] at h; subst h; simp
  | cons c cs ih =>
    intro bytes h
    simp only [utf8ToLatin1Str, mapOpt] at h
    cases hb : latin1Byte c with
    | none => simp [hb] at h
    | some b =>
      cases hr : mapOpt latin1Byte cs with
      | none => simp [hb, hr] at h
      | some bs =>
        simp only [hb, hr, Option.some.injEq] at h
        subst h
        intro x hx
        rcases List.mem_cons.mp hx with rfl | hx
        · exact latin1Char_lt _ c (latin1Byte_sound c _ hb)
        · exact ih bs hr x hx

/-- the string decoder on a stream without ECI: Latin-1 conversion of the decoded bytes -/
theorem plain_string_decode (list : List Sym) (body cw : List Nat) (plan : List (Nat × EMode)) (sym : Sym)
    (hb : ByteList body) (hplan : PlanOK plan) (h : run list [] body plan = .ok (cw, sym)) :
    decodeStr cw = mapChars latin1ToUtf8 body := by
  obtain ⟨_, hhd, e, hdec⟩ := run_decRun [] [] list body cw plan sym hb hplan h
  simp only [List.length_nil, List.drop_zero, List.nil_append] at hhd hdec
  unfold decodeStr
  rw [decodeParts_other cw false (fun t => ⟨fun ht => (hhd 236 (by rw [ht]; simp)).2.1 rfl,
    fun ht => (hhd 237 (by rw [ht]; simp)).2.2 rfl⟩),
    partsBody_no232 false [] cw 0 false (fun t ht => (hhd 232 (by rw [ht]; simp)).1 rfl)]
  simp only [Bool.and_false, Bool.false_eq_true, ↓reduceIte]
  unfold decRun at hdec
  simp only [] at hdec
  rw [hdec]
  simp only [partsFinish, Bool.false_eq_true, ↓reduceIte, convert, List.append_nil, List.singleton_append,
    convertSpans]
  rw [if_neg (by omega)]
  simp only [Nat.sub_zero, List.drop_zero, List.take_length, convertChunk, true_or, ↓reduceIte]
  cases mapChars latin1ToUtf8 body <;> simp

/-- **Latin-1 branch of `encode_str`.** -/
theorem latin1_string_roundtrip (cps bytes : List Nat) (hl : utf8ToLatin1Str cps = some bytes)
    (list : List Sym) (cw : List Nat) (plan : List (Nat × EMode)) (sym : Sym)
    (hplan : ∀ e ∈ plan, (e.2 ≠ .ascii → e.1 = 0 ∨ e.1 > 4) ∧ e.2 ≠ .edifact)
    (h : run list [] bytes plan = .ok (cw, sym)) :
    decodeStr cw = .ok cps := by
  rw [plain_string_decode list bytes cw plan sym (latin1_bytes cps bytes hl) hplan h]
  exact mapChars_latin1 bytes cps (latin1_inverse_l cps bytes hl)

/-- **Behind an ECI designator** the string decoder converts exactly the original bytes with the
conversion of that ECI. -/
theorem eci_string_decode (n : Nat) (hn : n ≤ 999999) (list : List Sym) (body cw : List Nat)
    (plan : List (Nat × EMode)) (sym : Sym) (hb : ∀ b ∈ body, b < 256)
    (hplan : ∀ e ∈ plan, (e.2 ≠ .ascii → e.1 = 0 ∨ e.1 > 4) ∧ e.2 ≠ .edifact)
    (h : run list (241 :: Eci.designator n) body plan = .ok (cw, sym)) :
    decodeStr cw = convertChunk body n := by
  unfold decodeStr
  rw [eci_parts n hn false list body cw plan sym hb hplan h]
  simp only [convert, List.append_assoc, List.singleton_append, List.cons_append, List.nil_append, convertSpans]
  rw [if_neg (by omega), if_neg (by omega)]
  simp only [Nat.sub_zero, List.drop_zero, List.take_zero, List.take_length]
  have h0 : convertChunk [] 0 = .ok [] := by simp [convertChunk, mapChars]
  rw [h0]
  simp only [List.nil_append]
  cases convertChunk body n <;> simp

/-- the UTF-8 bytes of a string, as numbers -/
def utf8Bytes (s : String) : List Nat := s.toUTF8.data.toList.map UInt8.toNat

/-- the code points of a string -/
def codePoints (s : String) : List Nat := s.toList.map Char.toNat

/-- `from_utf8 (s.as_bytes()) = s` -/
theorem utf8Decode_utf8Bytes (s : String) : utf8Decode (utf8Bytes s) = some (codePoints s) := by
  unfold utf8Decode utf8Bytes codePoints
  have hb : (ByteArray.mk ((s.toUTF8.data.toList.map UInt8.toNat).map fun b => b.toUInt8).toArray) = s.toUTF8 := by
    rw [List.map_map]
    have : (fun b : Nat => b.toUInt8) ∘ UInt8.toNat = id := by
      funext b; simp
    rw [this, List.map_id, Array.toArray_toList]
  rw [hb]
  have hv : s.toUTF8.IsValidUTF8 := s.isValidUTF8
  simp only [String.fromUTF8?, hv, dite_true]
  rfl

theorem utf8Bytes_lt (s : String) : ∀ b ∈ utf8Bytes s, b < 256 := by
  intro b hb
  simp only [utf8Bytes, List.mem_map] at hb
  obtain ⟨x, _, rfl⟩ := hb
  exact x.toNat_lt

/-- **UTF-8 branch of `encode_str`.** -/
theorem utf8_string_roundtrip (s : String) (list : List Sym) (cw : List Nat) (plan : List (Nat × EMode)) (sym : Sym)
    (hplan : ∀ e ∈ plan, (e.2 ≠ .ascii → e.1 = 0 ∨ e.1 > 4) ∧ e.2 ≠ .edifact)
    (h : run list [241, 27] (utf8Bytes s) plan = .ok (cw, sym)) :
    decodeStr cw = .ok (codePoints s) := by
  have hd : (241 :: Eci.designator 26 : List Nat) = [241, 27] := by decide
  rw [eci_string_decode 26 (by omega) list (utf8Bytes s) cw plan sym (utf8Bytes_lt s) hplan (by rw [hd]; exact h)]
  simp [convertChunk, utf8Decode_utf8Bytes]

/-- what `encode_str` hands to the encoder: (ECI codewords, message bytes) -/
def strInput (s : String) : List Nat × List Nat :=
  match utf8ToLatin1Str (codePoints s) with
  | some bytes => ([], bytes)
  | none => ([241, 27], utf8Bytes s)

/-- **`encode_str` → `decode_str`.** Whatever branch `encode_str` selects for the string `s`, and
whatever symbol list and (admissible) plan are used, if encoding succeeds the string decoder
returns exactly the code points of `s`. -/
theorem encode_str_roundtrip (s : String) (list : List Sym) (cw : List Nat) (plan : List (Nat × EMode)) (sym : Sym)
    (hplan : ∀ e ∈ plan, (e.2 ≠ .ascii → e.1 = 0 ∨ e.1 > 4) ∧ e.2 ≠ .edifact)
    (h : run list (strInput s).1 (strInput s).2 plan = .ok (cw, sym)) :
    decodeStr cw = .ok (codePoints s) := by
  unfold strInput at h
  cases hl : utf8ToLatin1Str (codePoints s) with
  | some bytes =>
    rw [hl] at h
    exact latin1_string_roundtrip (codePoints s) bytes hl list cw plan sym hplan h
  | none =>
    rw [hl] at h
    exact utf8_string_roundtrip s list cw plan sym hplan h

/-- `encode_str` writes no ECI codeword exactly for the strings `utf8_to_latin1` accepts, and these
are encoded byte for byte as Latin-1 -/
theorem strInput_latin1 (s : String) (bytes : List Nat) (h : utf8ToLatin1Str (codePoints s) = some bytes) :
    strInput s = ([], bytes) ∧ latin1ToUtf8Str bytes = some (codePoints s) := by
  unfold strInput
  rw [h]
  exact ⟨rfl, latin1_inverse_l _ _ h⟩

theorem strInput_utf8 (s : String) (h : utf8ToLatin1Str (codePoints s) = none) :
    strInput s = ([241, 27], utf8Bytes s) := by
  unfold strInput
  rw [h]

end DM.Props.C14

namespace DM.Props.C14.Examples
open DM.Gen DM.Model
/-- Non-vacuity: "héllo€" is not Latin-1; its UTF-8 bytes behind the designator of ECI 26, planned as two
ASCII characters (one with Upper Shift) and a Base 256 run, are encoded into 16x16; "héllo" is Latin-1. -/
example : DM.Model.Enc.run (symbolList (List.range 30)) [241, 27] [104, 195, 169, 108, 108, 111, 226, 130, 172]
    [(9, .ascii), (7, .base256), (0, .base256)] =
    .ok ([241, 27, 105, 235, 68, 231, 31, 86, 175, 68, 221, 230, 27, 219, 129, 237], 6) := by decide +kernel
example : DM.Model.Enc.run (symbolList (List.range 30)) [] [104, 233, 108, 108, 111] [(5, .ascii), (0, .ascii)] =
    .ok ([105, 235, 106, 109, 109, 112, 129, 56], 3) := by decide +kernel
example : utf8ToLatin1Str [104, 233, 108, 108, 111] = some [104, 233, 108, 108, 111] := by decide +kernel

end DM.Props.C14.Examples
