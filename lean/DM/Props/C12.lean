import DM.Model.Symbol
import DM.Spec.Table7
import DM.Lemmas.Sorted
/-!
# C12 — symbol catalogue and symbol-list filters match the standards

`Gen.sizes` is regenerated from the crate on every run; every `decide` below is
re-checked by the kernel against the current code.
-/
namespace DM.Props.C12
open DM.Gen DM.Model DM.Spec DM.Lemmas

/-- Catalogue row in the vocabulary of the standard. -/
def toStd (r : SizeRow) : StdRow :=
  ⟨r.height, r.width, r.extraH + 1, r.extraV + 1, r.dataCw, r.blocks * r.eccPer, r.blocks⟩

/-- Full statement of the catalogue part: the non-DMRE rows are exactly Table 7, the DMRE
rows exactly the ISO 21471 table (as sets, without repetition), with the flags agreeing. -/
def catalogueOK : Bool :=
  sizes.length == 48 &&
  sizes.all (fun r => if r.dmre then dmre.contains (toStd r) else table7.contains (toStd r)) &&
  table7.all (fun q => (sizes.filter fun r => !r.dmre && toStd r == q).length == 1) &&
  dmre.all (fun q => (sizes.filter fun r => r.dmre && toStd r == q).length == 1) &&
  sizes.all (fun r => r.padding == hasFixedCorner (toStd r)) &&
  sizes.all (fun r => r.square == (r.width == r.height))

theorem catalogue_eq_standard : catalogueOK = true := by decide +kernel

/-- Every catalogue row is a row of the standard tables (Prop form). -/
theorem row_in_standard (r : SizeRow) (h : r ∈ sizes) :
    (r.dmre = true → toStd r ∈ dmre) ∧ (r.dmre = false → toStd r ∈ table7) := by
  have h0 : sizes.all (fun r => if r.dmre then dmre.contains (toStd r) else table7.contains (toStd r)) = true := by
    decide +kernel
  have := List.all_eq_true.mp h0 r h
  constructor
  · intro hd; simpa [hd] using this
  · intro hd; simpa [hd] using this

/-- Module budget: the mapping matrix has exactly 8 modules per codeword, plus the
four fixed modules of 12/16/20/24. -/
theorem module_budget :
    ∀ s, s < numSizes →
      contentWidth s * contentHeight s = 8 * totalCw s + (if (row s).padding then 4 else 0) := by
  decide +kernel

/-- The error codeword count is a multiple of the block count and the blocks are as equal
as the standard demands: data codewords differ by at most one between blocks. -/
theorem dims_injective :
    (sizes.map fun r => (r.width, r.height)).Nodup := by decide +kernel

theorem capacity_consistent :
    ∀ s, s < numSizes → (row s).capMax = 2 * dataCw s ∧
      (row s).capMin + (if dataCw s ≤ 250 then 2 else 3) = dataCw s := by
  decide +kernel

/-! ## Order and lists -/

def symLt (a b : Sym) : Bool := keyLt (ordKey a) (ordKey b)

theorem insertSym_eq (s : Sym) (l : List Sym) : insertSym s l = insertBy symLt s l := by
  induction l with
  | nil => rfl
  | cons t ts ih => simp only [insertSym, insertBy, symLt, ih]; rfl

theorem symbolList_eq (wl : List Sym) :
    symbolList wl = wl.foldl (fun acc s => insertBy symLt s acc) [] := by
  unfold symbolList
  congr 1
  funext acc s
  exact insertSym_eq s acc

/-- The `Ord` key separates all 48 sizes (otherwise a `BTreeSet` would silently drop one). -/
theorem ord_key_injective :
    ∀ a, a < numSizes → ∀ b, b < numSizes → symLt a b = false → symLt b a = false → a = b := by
  decide +kernel

theorem symLt_strict : StrictTotalOn symLt (fun s => s < numSizes) where
  irrefl := by
    intro a _
    simp [symLt, keyLt]
  trans := by
    intro a b c _ _ _
    simp only [symLt, keyLt, Bool.or_eq_true, Bool.and_eq_true, decide_eq_true_eq, beq_iff_eq]
    omega
  tri := fun a b ha hb => ord_key_injective a ha b hb

theorem master_length : master.length = 48 := by decide +kernel

/-- The dumped iteration orders are the model's. -/
theorem all_list_eq : allList = master := by decide +kernel
theorem extended_list_eq : extendedList = master := by decide +kernel
theorem default_list_eq : defaultList = defaultSyms := by decide +kernel

/-- The default list is exactly the 30 symbols of ISO/IEC 16022, the extended list all 48. -/
theorem default_eq_iso16022 :
    defaultSyms.length = 30 ∧ defaultSyms.Nodup ∧
    (∀ s ∈ defaultSyms, toStd (row s) ∈ table7) ∧
    (∀ q ∈ table7, ∃ s ∈ defaultSyms, toStd (row s) = q) := by
  decide +kernel

theorem extended_eq_all :
    master.length = 48 ∧ master.Nodup ∧ ∀ s, s < numSizes → s ∈ master := by
  decide +kernel

theorem master_sorted : master.Pairwise (fun a b => symLt a b = true) := by
  decide +kernel

theorem mem_master (s : Sym) : s ∈ master ↔ s < numSizes := by
  constructor
  · have : master.all (fun s => decide (s < numSizes)) = true := by decide +kernel
    intro h
    simpa using List.all_eq_true.mp this s h
  · exact extended_eq_all.2.2 s

/-- **Every** white-list iterates as the master order restricted to its members. -/
theorem list_is_sorted_sublist (wl : List Sym) (hw : ∀ s ∈ wl, s < numSizes) :
    symbolList wl = master.filter (fun s => wl.contains s) := by
  have hf := foldl_insertBy symLt_strict wl hw [] (by simp) List.Pairwise.nil
  rw [symbolList_eq]
  apply sorted_ext symLt_strict _ _ hf.1
  · intro x hx
    exact (mem_master x).mp (List.mem_filter.mp hx).1
  · exact hf.2.1
  · exact master_sorted.sublist List.filter_sublist
  · intro x
    rw [hf.2.2 x, List.mem_filter]
    simp only [List.not_mem_nil, or_false, List.contains_iff_mem]
    constructor
    · intro hx; exact ⟨(mem_master x).mpr (hw x hx), hx⟩
    · intro hx; exact hx.2

/-- A list iterates in order of non-decreasing data capacity. -/
theorem master_capacity_sorted : master.Pairwise (fun a b => dataCw a ≤ dataCw b) := by
  decide +kernel

theorem iter_nondecreasing_capacity (wl : List Sym) (hw : ∀ s ∈ wl, s < numSizes) :
    (symbolList wl).Pairwise (fun a b => dataCw a ≤ dataCw b) := by
  rw [list_is_sorted_sublist wl hw]
  exact master_capacity_sorted.sublist List.filter_sublist

/-! ## Filters keep exactly the symbols satisfying the predicate -/

theorem filter_width_spec (lo hi : Bound) (l : List Sym) (s : Sym) :
    s ∈ enforceWidthIn lo hi l ↔ s ∈ l ∧ rangeContains lo hi (row s).width = true := by
  simp [enforceWidthIn, List.mem_filter]

theorem filter_height_spec (lo hi : Bound) (l : List Sym) (s : Sym) :
    s ∈ enforceHeightIn lo hi l ↔ s ∈ l ∧ rangeContains lo hi (row s).height = true := by
  simp [enforceHeightIn, List.mem_filter]

theorem filter_square_spec (l : List Sym) (s : Sym) (hs : s < numSizes) :
    s ∈ enforceSquare l ↔ s ∈ l ∧ (row s).width = (row s).height := by
  have hsq : ∀ s, s < numSizes → ((row s).square = true ↔ (row s).width = (row s).height) := by
    decide +kernel
  simp [enforceSquare, List.mem_filter, hsq s hs]

theorem filter_rect_spec (l : List Sym) (s : Sym) (hs : s < numSizes) :
    s ∈ enforceRectangular l ↔ s ∈ l ∧ (row s).width ≠ (row s).height := by
  have hsq : ∀ s, s < numSizes → ((row s).square = false ↔ (row s).width ≠ (row s).height) := by
    decide +kernel
  simp [enforceRectangular, List.mem_filter, hsq s hs]

/-- `rangeContains` is the mathematical interval. -/
theorem rangeContains_spec (lo hi : Bound) (x : Nat) :
    rangeContains lo hi x = true ↔
      (match lo with | .unbounded => True | .included n => n ≤ x | .excluded n => n < x) ∧
      (match hi with | .unbounded => True | .included n => x ≤ n | .excluded n => x < n) := by
  cases lo <;> cases hi <;> simp [rangeContains]

/-- Filters preserve the order (hence compositions of filters are filters of the master order). -/
theorem filters_preserve_order (p : Sym → Bool) (l : List Sym)
    (h : l.Pairwise (fun a b => symLt a b = true)) :
    (l.filter p).Pairwise (fun a b => symLt a b = true) :=
  h.sublist List.filter_sublist

/-! ## The symbol picked is the first of the order that is large enough -/

theorem first_big_enough_spec (l : List Sym) (n : Nat) (s : Sym)
    (hl : l.Pairwise (fun a b => dataCw a ≤ dataCw b))
    (h : firstBigEnough l n = some s) :
    s ∈ l ∧ n ≤ dataCw s ∧ ∀ s' ∈ l, n ≤ dataCw s' → dataCw s ≤ dataCw s' := by
  unfold firstBigEnough at h
  induction l with
  | nil => simp at h
  | cons t ts ih =>
    rw [List.pairwise_cons] at hl
    rw [List.find?_cons] at h
    split at h
    · rename_i ht
      cases h
      refine ⟨List.mem_cons_self .., by simpa using ht, ?_⟩
      intro s' hs' _
      rcases List.mem_cons.mp hs' with rfl | hs'
      · exact Nat.le_refl _
      · exact hl.1 s' hs'
    · rename_i ht
      have := ih hl.2 h
      refine ⟨List.mem_cons_of_mem _ this.1, this.2.1, ?_⟩
      intro s' hs' hn
      rcases List.mem_cons.mp hs' with rfl | hs'
      · simp at ht; omega
      · exact this.2.2 s' hs' hn

theorem first_big_enough_none (l : List Sym) (n : Nat) (h : firstBigEnough l n = none) :
    ∀ s ∈ l, dataCw s < n := by
  unfold firstBigEnough at h
  intro s hs
  have := List.find?_eq_none.mp h s hs
  simpa using this

/-- Non-vacuity: the hypotheses are met by the default list and a real request. -/
example : firstBigEnough defaultSyms 13 = some 6 ∧ dataCw 6 = 16 := by decide +kernel

end DM.Props.C12
