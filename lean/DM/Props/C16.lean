import DM.Model.EncPrefix
import DM.Lemmas.MainRT
/-!
# C16 — macro compaction and GS1 start: the decision logic

Theorems about the model of `with_size` + `use_macro_if_possible` (tied to the code through the
`macro_prefix` hook on every case of the C16 sweep): a Macro codeword is written exactly when
macros are enabled, no FNC1 start was requested and the message is header ++ body ++ trailer; the
encoder then continues with exactly the body; otherwise the message is left untouched; the slice
never panics. Losslessness (the decoder re-creates header and trailer) is decided by the sweep.
-/
namespace DM.Props.C16
open DM.Model

theorem startsWith_iff (l s : List Nat) : startsWith l s = true ↔ ∃ r, l = s ++ r := by
  unfold startsWith
  constructor
  · intro h
    refine ⟨l.drop s.length, ?_⟩
    have : l.take s.length = s := by simpa using h
    conv => lhs; rw [← List.take_append_drop s.length l]
    rw [this]
  · rintro ⟨r, rfl⟩
    simp

theorem endsWith_iff (l s : List Nat) : endsWith l s = true ↔ ∃ r, l = r ++ s := by
  unfold endsWith
  constructor
  · intro h
    simp only [Bool.and_eq_true, decide_eq_true_eq, beq_iff_eq] at h
    refine ⟨l.take (l.length - s.length), ?_⟩
    conv => lhs; rw [← List.take_append_drop (l.length - s.length) l]
    rw [h.2]
  · rintro ⟨r, rfl⟩
    simp

/-- header and trailer cannot overlap: a message with both has at least nine bytes -/
theorem envelope_len (data q r : List Nat) (k : Nat) (hq : data = [91, 41, 62, 30, 48, k, 29] ++ q)
    (hr : data = r ++ TRAIL) : 7 ≤ data.length - 2 := by
  rw [hq] at hr
  match q, r, hr with
  | [], r, hr =>
    have := congrArg List.reverse hr
    simp [TRAIL] at this
  | [x], r, hr =>
    have := congrArg List.reverse hr
    simp [TRAIL] at this
  | x :: y :: q', r, _ => rw [hq]; simp

/-- unfolding of the model by the three decisions it takes -/
theorem macroPrefix_cases (data : List Nat) (m f : Bool) :
    macroPrefix data m f =
      if m = false ∨ f = true ∨ endsWith data TRAIL = false then .ok (if f then [232] else []) data
      else if startsWith data HEAD05 = true then
        (if 7 ≤ data.length - 2 then .ok [236] ((data.take (data.length - 2)).drop 7) else .panic)
      else if startsWith data HEAD06 = true then
        (if 7 ≤ data.length - 2 then .ok [237] ((data.take (data.length - 2)).drop 7) else .panic)
      else .ok [] data := by
  unfold macroPrefix
  cases m <;> cases f <;> cases endsWith data TRAIL <;> simp

/-- **The macro slice never panics** (for every message and flag combination). -/
theorem macro_total (data : List Nat) (m f : Bool) : macroPrefix data m f ≠ .panic := by
  rw [macroPrefix_cases]
  by_cases h0 : m = false ∨ f = true ∨ endsWith data TRAIL = false
  · rw [if_pos h0]; simp
  rw [if_neg h0]
  have he : endsWith data TRAIL = true := by
    cases hE : endsWith data TRAIL
    · exact absurd (Or.inr (Or.inr hE)) h0
    · rfl
  obtain ⟨r, hr⟩ := (endsWith_iff data TRAIL).mp he
  by_cases h5 : startsWith data HEAD05 = true
  · rw [if_pos h5]
    obtain ⟨q, hq⟩ := (startsWith_iff data HEAD05).mp h5
    rw [if_pos (envelope_len data q r 53 hq hr)]; simp
  rw [if_neg h5]
  by_cases h6 : startsWith data HEAD06 = true
  · rw [if_pos h6]
    obtain ⟨q, hq⟩ := (startsWith_iff data HEAD06).mp h6
    rw [if_pos (envelope_len data q r 54 hq hr)]; simp
  rw [if_neg h6]; simp

/-- **Compaction happens exactly for enveloped messages** (Macro 05; Macro 06 is symmetric, see
`macro06_of_envelope`), and the encoder then continues with exactly the body. -/
theorem macro05_iff (data : List Nat) (m f : Bool) (body : List Nat) :
    macroPrefix data m f = .ok [236] body ↔
    (m = true ∧ f = false ∧ data = HEAD05 ++ body ++ TRAIL) := by
  rw [macroPrefix_cases]
  constructor
  · intro h
    by_cases h0 : m = false ∨ f = true ∨ endsWith data TRAIL = false
    · rw [if_pos h0] at h
      simp only [PrefixResult.ok.injEq] at h
      cases f <;> simp at h
    rw [if_neg h0] at h
    have hm : m = true := by cases m <;> simp_all
    have hf : f = false := by cases f <;> simp_all
    have he : endsWith data TRAIL = true := by
      cases hE : endsWith data TRAIL
      · exact absurd (Or.inr (Or.inr hE)) h0
      · rfl
    obtain ⟨r, hr⟩ := (endsWith_iff data TRAIL).mp he
    by_cases h5 : startsWith data HEAD05 = true
    · rw [if_pos h5] at h
      obtain ⟨q, hq⟩ := (startsWith_iff data HEAD05).mp h5
      have hlen := envelope_len data q r 53 hq hr
      rw [if_pos hlen] at h
      simp only [PrefixResult.ok.injEq, true_and] at h
      refine ⟨hm, hf, ?_⟩
      rw [← h]
      have hrl : r.length = data.length - 2 := by rw [hr]; simp [TRAIL]
      have e1 : data.take (data.length - 2) = r := by rw [← hrl, hr]; simp
      rw [e1]
      have hlen7 : 7 ≤ r.length := by rw [hrl]; exact hlen
      have e2 : r.take 7 = HEAD05 := by
        have h3 : (r ++ TRAIL).take 7 = HEAD05 := by rw [← hr, hq]; simp [HEAD05]
        rw [List.take_append_of_le_length hlen7] at h3
        exact h3
      conv => lhs; rw [hr, ← List.take_append_drop 7 r, e2]
    · rw [if_neg h5] at h
      by_cases h6 : startsWith data HEAD06 = true
      · rw [if_pos h6] at h
        split at h
        · simp at h
        · cases h
      · rw [if_neg h6] at h
        simp at h
  · rintro ⟨rfl, rfl, rfl⟩
    have he : endsWith (HEAD05 ++ body ++ TRAIL) TRAIL = true := (endsWith_iff _ _).mpr ⟨_, rfl⟩
    have hs : startsWith (HEAD05 ++ body ++ TRAIL) HEAD05 = true :=
      (startsWith_iff _ _).mpr ⟨body ++ TRAIL, by simp⟩
    have h0 : ¬ (true = false ∨ false = true ∨ endsWith (HEAD05 ++ body ++ TRAIL) TRAIL = false) := by
      rw [he]; simp
    rw [if_neg h0, if_pos hs]
    have hlen : 7 ≤ (HEAD05 ++ body ++ TRAIL).length - 2 := by simp [HEAD05, TRAIL]
    rw [if_pos hlen]
    simp [HEAD05, TRAIL]

/-- the Macro 06 envelope is compacted with codeword 237 -/
theorem macro06_of_envelope (body : List Nat) :
    macroPrefix (HEAD06 ++ body ++ TRAIL) true false = .ok [237] body := by
  rw [macroPrefix_cases]
  have he : endsWith (HEAD06 ++ body ++ TRAIL) TRAIL = true := (endsWith_iff _ _).mpr ⟨_, rfl⟩
  have hs : startsWith (HEAD06 ++ body ++ TRAIL) HEAD06 = true :=
    (startsWith_iff _ _).mpr ⟨body ++ TRAIL, by simp⟩
  have hn : startsWith (HEAD06 ++ body ++ TRAIL) HEAD05 = false := by simp [startsWith, HEAD05, HEAD06]
  have h0 : ¬ (true = false ∨ false = true ∨ endsWith (HEAD06 ++ body ++ TRAIL) TRAIL = false) := by
    rw [he]; simp
  rw [if_neg h0, if_neg (by rw [hn]; simp), if_pos hs]
  have hlen : 7 ≤ (HEAD06 ++ body ++ TRAIL).length - 2 := by simp [HEAD06, TRAIL]
  rw [if_pos hlen]
  simp [HEAD06, TRAIL]

/-- with FNC1 start the first codeword is 232 and the message is never compacted -/
theorem fnc1_first (data : List Nat) (m : Bool) : macroPrefix data m true = .ok [232] data := by
  rw [macroPrefix_cases]; simp

/-- with macros disabled nothing is written and the message is untouched -/
theorem macros_off (data : List Nat) (f : Bool) :
    macroPrefix data false f = .ok (if f then [232] else []) data := by
  rw [macroPrefix_cases]; simp

/-- a message that only resembles the envelope (no trailer) is encoded verbatim -/
theorem no_trailer_verbatim (data : List Nat) (h : endsWith data TRAIL = false) :
    macroPrefix data true false = .ok [] data := by
  rw [macroPrefix_cases]; simp [h]

/-- Non-vacuity: the smallest enveloped message (empty body) and a bare header. -/
example : macroPrefix (HEAD05 ++ TRAIL) true false = .ok [236] [] := by decide +kernel
example : macroPrefix HEAD05 true false = .ok [] HEAD05 := by decide +kernel

/-! ## Losslessness: the decoder re-creates what compaction removed

For every message in the Macro 05 / 06 envelope, `use_macro_if_possible` writes the macro codeword
and hands exactly the body to the encoder (`macro05_iff`, `macro06_of_envelope`); whatever the
encoder model then returns for the body — under any plan covered by `MainRT.run_decRun` (no EDIFACT,
no latch to a non-ASCII mode within the last four characters) — the decoder model turns back into the
**whole original message**, header and trailer included. With FNC1 in first position the decoder
returns the message itself (the GS1 flag is reported separately by `decode_parts`). -/

open DM.Model.Enc DM.Lemmas.C40Gen in
theorem macro05_lossless (list : List Sym) (body cw : List Nat) (plan : List (Nat × EMode)) (sym : Sym)
    (hb : ∀ b ∈ body, b < 256) (hplan : ∀ e ∈ plan, (e.2 ≠ .ascii → e.1 = 0 ∨ e.1 > 4) ∧ e.2 ≠ .edifact)
    (h : run list [236] body plan = .ok (cw, sym)) :
    macroPrefix (HEAD05 ++ body ++ TRAIL) true false = .ok [236] body ∧
    DM.Model.Dec.decodeData cw = .ok (HEAD05 ++ body ++ TRAIL) :=
  ⟨(macro05_iff _ true false body).mpr ⟨rfl, rfl, rfl⟩,
    DM.Lemmas.MainRT.macro_roundtrip false list body cw plan sym hb hplan h⟩

open DM.Model.Enc DM.Lemmas.C40Gen in
theorem macro06_lossless (list : List Sym) (body cw : List Nat) (plan : List (Nat × EMode)) (sym : Sym)
    (hb : ∀ b ∈ body, b < 256) (hplan : ∀ e ∈ plan, (e.2 ≠ .ascii → e.1 = 0 ∨ e.1 > 4) ∧ e.2 ≠ .edifact)
    (h : run list [237] body plan = .ok (cw, sym)) :
    macroPrefix (HEAD06 ++ body ++ TRAIL) true false = .ok [237] body ∧
    DM.Model.Dec.decodeData cw = .ok (HEAD06 ++ body ++ TRAIL) :=
  ⟨macro06_of_envelope body, DM.Lemmas.MainRT.macro_roundtrip true list body cw plan sym hb hplan h⟩

open DM.Model.Enc DM.Lemmas.C40Gen in
theorem gs1_roundtrip (list : List Sym) (data cw : List Nat) (plan : List (Nat × EMode)) (sym : Sym) (m : Bool)
    (hb : ∀ b ∈ data, b < 256) (hplan : ∀ e ∈ plan, (e.2 ≠ .ascii → e.1 = 0 ∨ e.1 > 4) ∧ e.2 ≠ .edifact)
    (h : run list [232] data plan = .ok (cw, sym)) :
    macroPrefix data m true = .ok [232] data ∧ DM.Model.Dec.decodeData cw = .ok data :=
  ⟨fnc1_first data m, DM.Lemmas.MainRT.fnc1_roundtrip list data cw plan sym hb hplan h⟩

end DM.Props.C16
