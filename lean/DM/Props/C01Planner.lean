import DM.Props.C01
import DM.Props.C18Couple
/-!
# C01 / C18 / C11 — planner, encoder and decoder models composed

`Props/C01.lean` proves the data-level round trip for the encoder model under *any* plan within a
side condition on the plan, `Props/C18Couple.lean` proves that on the plan the planner model returns
(within the side condition `planOK`) the encoder model succeeds in a symbol no larger than predicted.
Composed: for every message, symbol list, mode set and every sequence of sort permutations, if the
planner model answers with a plan inside both decidable side conditions and its predicted cost fits a
listed symbol, then the encoder model — run on that very plan — produces a codeword stream in a symbol
no larger than the predicted one, and the decoder model maps that stream back to the message.

No hypothesis speaks about the encoder's outcome any more: success is a conclusion.  The two side
conditions are evaluated by the sweep on every plan the implementation uses (`S.planok`,
`roundtrip_theorem_covers_plan*` in the evidence).
-/
namespace DM.Props.C01Planner
open DM.Model DM.Model.Plan DM.Model.Enc DM.Model.PlanSide DM.Lemmas DM.Lemmas.AsciiRT

/-- **Planner → encoder → decoder on the models.** -/
theorem planned_roundtrip (body : List Nat) (list : List Sym) (modes : Nat) (perms : List (List Nat)) (o : Outcome)
    (plan : List (Nat × EMode)) (ps : Sym) (hb : ByteList body)
    (hopt : Plan.optimize body 0 list modes perms = .ok o) (hp : o.plan = some plan)
    (hok : planOK body plan = true) (hrt : DM.Lemmas.C40Gen.planOKEb body plan = true)
    (hgate : body.length ≤ maxCapacity list)
    (hfit : firstBigEnough list (o.cost12 / 12) = some ps) :
    ∃ cw sym, Enc.run list [] body plan = .ok (cw, sym) ∧ dataCw sym ≤ dataCw ps ∧
      DM.Model.Dec.decodeData cw = .ok body := by
  have hfit' : firstBigEnough list (([] : List Nat).length + o.cost12 / 12) = some ps := by
    simpa using hfit
  have hopt' : Plan.optimize body ([] : List Nat).length list modes perms = .ok o := by simpa using hopt
  rcases DM.Props.C18Couple.predicted_size_suffices_planOK body [] list modes perms o plan hb hopt' hp hok with
    h | h | h | h
  · obtain ⟨hl, _⟩ := h
    subst hl
    simp [firstBigEnough] at hfit
  · obtain ⟨_, hlt, _⟩ := h
    omega
  · obtain ⟨_, _, cw, sym, hrun, hsz⟩ := h
    refine ⟨cw, sym, hrun, hsz ps hfit', ?_⟩
    exact DM.Props.C01.mixed_roundtrip_Eb list body cw plan sym hb hrt hrun
  · obtain ⟨_, _, _, hnone⟩ := h
    rw [hfit'] at hnone
    cases hnone

/-- Non-vacuity: the second example of `Props/C18Couple.lean` (C40, then Text to the end, the message ends
with two digits that the Text encoder hands to ASCII) satisfies every hypothesis of `planned_roundtrip`
— the planner model's answer is evaluated there — and the conclusion is what evaluation gives. -/
example :
    planOK DM.Props.C18Couple.ex2Body DM.Props.C18Couple.ex2Plan = true ∧
    DM.Lemmas.C40Gen.planOKEb DM.Props.C18Couple.ex2Body DM.Props.C18Couple.ex2Plan = true ∧
    DM.Props.C18Couple.ex2Body.length ≤ maxCapacity DM.Props.C18Couple.exList ∧
    firstBigEnough DM.Props.C18Couple.exList (204 / 12) = some 7 ∧
    DM.Model.Dec.decodeData [230, 89, 233, 109, 36, 128, 95, 254, 239, 89, 233, 109, 36, 128, 95, 142] =
      .ok DM.Props.C18Couple.ex2Body := by
  refine ⟨by decide +kernel, by decide +kernel, by decide +kernel, by decide +kernel, by decide +kernel⟩

end DM.Props.C01Planner
