import DM.Model.Decode
import DM.Model.Eci
import DM.Spec.Eci
import DM.Spec.Charsets
import DM.Lemmas.GFTable
/-!
# C15 — ECI designators and character-set tables are exact
-/
namespace DM.Props.C15
open DM.Model DM.Model.Dec DM.Spec DM.Gen DM.Lemmas

/-- `write_eci` emits the ECI codeword followed by the Table 6 designator, for every number
up to 999999 (and panics beyond, as documented). -/
theorem write_eci_eq_table6 (n : Nat) (h : n ≤ 999999) :
    writeEci n = some (241 :: Eci.designator n) := by
  unfold writeEci Eci.designator
  by_cases h1 : n ≤ 126
  · simp [h1]; omega
  · by_cases h2 : n ≤ 16382
    · simp [h1, h2]; omega
    · simp [h1, h2, h]; omega

theorem write_eci_rejects (n : Nat) (h : 999999 < n) : writeEci n = none := by
  unfold writeEci
  have h1 : ¬ n ≤ 126 := by omega
  have h2 : ¬ n ≤ 16382 := by omega
  have h3 : ¬ n ≤ 999999 := by omega
  simp [h1, h2, h3]

/-- **Round trip**: every designator is read back as the same number, whatever follows it. -/
theorem read_write_eci (n : Nat) (h : n ≤ 999999) (rest : List Nat) :
    readEci (Eci.designator n ++ rest) = .ok (n, (Eci.designator n).length) := by
  unfold Eci.designator
  by_cases h1 : n ≤ 126
  · simp only [h1, if_true, List.cons_append, List.nil_append, readEci]
    have : 1 ≤ n + 1 ∧ n + 1 ≤ 127 := by omega
    simp [this]
  · by_cases h2 : n ≤ 16382
    · simp only [h1, h2, if_true, if_false, List.cons_append, List.nil_append, readEci]
      have a1 : ¬ (1 ≤ (n - 127) / 254 + 128 ∧ (n - 127) / 254 + 128 ≤ 127) := by omega
      have a2 : 128 ≤ (n - 127) / 254 + 128 ∧ (n - 127) / 254 + 128 ≤ 191 := by omega
      have a3 : 1 ≤ (n - 127) % 254 + 1 ∧ (n - 127) % 254 + 1 ≤ 254 := by omega
      simp only [a1, a2, a3, if_true, if_false, and_self]
      have := Nat.div_add_mod (n - 127) 254
      have e : ((n - 127) / 254 + 128 - 128) * 254 + ((n - 127) % 254 + 1 - 1) + 127 = n := by omega
      rw [e]; rfl
    · simp only [h1, h2, if_false, List.cons_append, List.nil_append, readEci]
      have b0 : (n - 16383) / 64516 ≤ 15 := by omega
      have a1 : ¬ (1 ≤ (n - 16383) / 64516 + 192 ∧ (n - 16383) / 64516 + 192 ≤ 127) := by omega
      have a2 : ¬ (128 ≤ (n - 16383) / 64516 + 192 ∧ (n - 16383) / 64516 + 192 ≤ 191) := by omega
      have a3 : 192 ≤ (n - 16383) / 64516 + 192 ∧ (n - 16383) / 64516 + 192 ≤ 207 := by omega
      have a4 : 1 ≤ (n - 16383) / 254 % 254 + 1 ∧ (n - 16383) / 254 % 254 + 1 ≤ 254 := by omega
      have a5 : 1 ≤ (n - 16383) % 254 + 1 ∧ (n - 16383) % 254 + 1 ≤ 254 := by omega
      simp only [a1, a2, a3, a4, a5, if_true, if_false, not_true_eq_false, and_self]
      have e1 := Nat.div_add_mod (n - 16383) 254
      have e2 := Nat.div_add_mod ((n - 16383) / 254) 254
      have e3 : (n - 16383) / 254 / 254 = (n - 16383) / 64516 := by
        rw [Nat.div_div_eq_div_mul]
      have e : ((n - 16383) / 64516 + 192 - 192) * 64516 + ((n - 16383) / 254 % 254 + 1 - 1) * 254 +
          ((n - 16383) % 254 + 1 - 1) + 16383 = n := by omega
      rw [e]; rfl

/-- `read_eci` never panics, and it accepts exactly the well-formed designators of Table 6,
with the value of Table 6. -/
theorem read_eci_eq_spec (l : List Nat) :
    (∀ s, readEci l ≠ .error (.panic s)) ∧
    (∀ v k, readEci l = .ok (v, k) ↔ Eci.value l = some (v, k)) := by
  constructor
  · intro s
    unfold readEci
    split
    · simp
    · split
      · simp
      · split
        · split
          · simp
          · split <;> simp
        · split
          · split
            · simp
            · split
              · simp
              · split
                · simp
                · split <;> simp
          · simp
  · intro v k
    unfold readEci Eci.value
    cases l with
    | nil => simp
    | cons c1 t =>
      simp only
      by_cases h1 : 1 ≤ c1 ∧ c1 ≤ 127
      · simp [h1]
      · by_cases h2 : 128 ≤ c1 ∧ c1 ≤ 191
        · simp only [h1, h2, if_true, if_false]
          cases t with
          | nil => simp
          | cons c2 t2 =>
            by_cases h3 : 1 ≤ c2 ∧ c2 ≤ 254 <;> simp [h3]
        · by_cases h4 : 192 ≤ c1 ∧ c1 ≤ 207
          · simp only [h1, h2, h4, if_true, if_false]
            cases t with
            | nil => simp
            | cons c2 t2 =>
              cases t2 with
              | nil =>
                by_cases h3 : 1 ≤ c2 ∧ c2 ≤ 254 <;> simp [h3]
              | cons c3 t3 =>
                by_cases h3 : 1 ≤ c2 ∧ c2 ≤ 254
                · by_cases h5 : 1 ≤ c3 ∧ c3 ≤ 254
                  · simp [h3, h5]
                  · simp [h3, h5]
                · simp [h3]
                  intro a b; exact absurd ⟨a, b⟩ h3
          · simp [h1, h2, h4]

/-- malformed designators are rejected: first codeword 0 or above 207 -/
theorem read_eci_rejects_first (c1 : Nat) (t : List Nat) (h : c1 = 0 ∨ 207 < c1) :
    ∃ e, readEci (c1 :: t) = .error e := by
  unfold readEci
  have h1 : ¬ (1 ≤ c1 ∧ c1 ≤ 127) := by omega
  have h2 : ¬ (128 ≤ c1 ∧ c1 ≤ 191) := by omega
  have h3 : ¬ (192 ≤ c1 ∧ c1 ≤ 207) := by omega
  simp [h1, h2, h3]

/-! ### character sets: the regenerated per-byte behaviour equals the standard tables -/

def specResult (o : Option Nat) : R Nat :=
  match o with
  | some cp => .ok cp
  | none => .error .charset

/-- decidable comparison of a conversion result with the specification's answer -/
def resEq (a : R Nat) (o : Option Nat) : Bool :=
  match a, o with
  | .ok x, some y => x == y
  | .error .charset, none => true
  | _, _ => false

theorem resEq_sound {a : R Nat} {o : Option Nat} (h : resEq a o = true) : a = specResult o := by
  unfold resEq at h
  split at h
  · simp at h; subst h; rfl
  · rfl
  · simp at h

theorem latin1_exact : ∀ b, b < 256 → tableChar latin1ToUtf8 b = specResult (Charsets.latin1 b) := by
  intro b hb
  have h : allBelow 256 (fun b => resEq (tableChar latin1ToUtf8 b) (Charsets.latin1 b)) = true := by
    decide +kernel
  exact resEq_sound (allBelow_spec h b hb)

theorem default_charset_exact : ∀ b, b < 256 → tableChar csDefault b = specResult (Charsets.latin1 b) := by
  intro b hb
  have h : allBelow 256 (fun b => resEq (tableChar csDefault b) (Charsets.latin1 b)) = true := by
    decide +kernel
  exact resEq_sound (allBelow_spec h b hb)

theorem eci3_exact : ∀ b, b < 256 → tableChar csEci3 b = specResult (Charsets.latin1 b) := by
  intro b hb
  have h : allBelow 256 (fun b => resEq (tableChar csEci3 b) (Charsets.latin1 b)) = true := by
    decide +kernel
  exact resEq_sound (allBelow_spec h b hb)

theorem iso8859_9_exact : ∀ b, b < 256 → tableChar csEci11 b = specResult (Charsets.latin5 b) := by
  intro b hb
  have h : allBelow 256 (fun b => resEq (tableChar csEci11 b) (Charsets.latin5 b)) = true := by
    decide +kernel
  exact resEq_sound (allBelow_spec h b hb)

theorem iso8859_11_exact : ∀ b, b < 256 → tableChar csEci13 b = specResult (Charsets.thai b) := by
  intro b hb
  have h : allBelow 256 (fun b => resEq (tableChar csEci13 b) (Charsets.thai b)) = true := by
    decide +kernel
  exact resEq_sound (allBelow_spec h b hb)

/-- single bytes under ECI 26 / 27: exactly the 7-bit values pass (a lone byte ≥ 128 is not
well-formed UTF-8) -/
theorem utf8_ascii_single_byte_exact :
    ∀ b, b < 256 → tableChar csEci26 b = specResult (Charsets.ascii7 b) ∧
                   tableChar csEci27 b = specResult (Charsets.ascii7 b) := by
  intro b hb
  have h : allBelow 256 (fun b => resEq (tableChar csEci26 b) (Charsets.ascii7 b) &&
      resEq (tableChar csEci27 b) (Charsets.ascii7 b)) = true := by
    decide +kernel
  have := allBelow_spec h b hb
  simp only [Bool.and_eq_true] at this
  exact ⟨resEq_sound this.1, resEq_sound this.2⟩

/-- ECI 27: exactly the 7-bit sequences are passed through unchanged -/
theorem ascii_passthrough (bytes : List Nat) :
    convertChunk bytes 27 = if bytes.all (· < 128) then .ok bytes else .error .charset := by
  simp [convertChunk]

/-- ECI 26: exactly the well-formed UTF-8 sequences are passed through (as their code points) -/
theorem utf8_passthrough (bytes : List Nat) :
    convertChunk bytes 26 = match utf8Decode bytes with
      | some cps => .ok cps
      | none => .error .charset := by
  simp [convertChunk]; rfl

/-- Non-vacuity -/
example : readEci (Eci.designator 999999 ++ [1, 2]) = .ok (999999, 3) := read_write_eci 999999 (by omega) [1, 2]

end DM.Props.C15
