import DM.Lemmas.SpecC40
import DM.Props.C02Spec
/-!
# C02 — conformant output against the reference decoder: C40 and Text

What the encoder model writes for a message planned entirely in C40 (or Text) — the latch 230
(239), pairs of codewords each packing three values, and one of the ends of `c40::handle_end`:
the last values padded to a triple (with shift values) followed by UNLATCH 254 when there is room,
UNLATCH and the last character in ASCII, a single ASCII codeword filling the symbol without
UNLATCH, two trailing digits as one ASCII codeword, or the exact end — is read back by the
independent decoder `DM.Spec.Stream.decode` (ISO/IEC 16022 §5.2.5 / 5.2.6) as exactly the message.
One proof for both modes (`text : Bool`).
-/
namespace DM.Props.C02SpecC40
open DM.Model DM.Lemmas DM.Lemmas.AsciiRT DM.Lemmas.SpecStep DM.Lemmas.SpecAscii DM.Lemmas.SpecC40
open DM.Lemmas.C40RT (latchOf modeOf)
open DM.Spec.Build (packTriples)
open DM.Props.C02Spec (run_eq_of_check spec_ascii_roundtrip)
open DM.Spec.Stream (decode Decoded Mode unrand253)

/-- **C40 / Text round trip through the reference decoder, non-empty message.** The reference
decoder accepts what the encoder returns and reads the message; one latch, at codeword 0; the
first `p` characters are carried by C40 / Text, the remaining ones by ASCII; the stream is the
latch, `n` pairs of codewords packing `3 n` values (each below 40), UNLATCH or not, the ASCII
codewords of the remaining characters, and padding that fills the symbol; without UNLATCH there is
at most one ASCII codeword and no padding; the first pad codeword is met exactly behind the
encoder's own codewords. No hypothesis on the message is needed: a run that succeeds has only
seen bytes (`to_vals` fails on anything above 255; in the crate the input is `u8`), which is part
of the conclusion; at most the last two characters are left to ASCII; `cvals` is the reference
decoder's value function folded over the values. -/
theorem spec_c40text_roundtrip (text : Bool) (list : List Sym) (body cw : List Nat) (sym : Sym)
    (hne : body ≠ [])
    (h : Enc.run list [] body [(body.length, modeOf text), (0, modeOf text)] = .ok (cw, sym)) :
    ∃ (d : Decoded) (V : List Nat) (n p : Nat) (un : Bool) (L : Nat),
      decode cw = .ok d ∧ d.bytes = body ∧ d.body = body ∧ d.fnc1 = false ∧ d.macro = 0 ∧ d.ecis = [] ∧
      d.latches = [(0, cmode text)] ∧ (p ≤ body.length ∧ body.length ≤ p + 2) ∧
      d.trace = List.replicate p (cmode text) ++ List.replicate (body.length - p) .ascii ∧
      V.length = 3 * n ∧ (∀ v ∈ V, v < 40) ∧
      L = 1 + 2 * n + (if un then 1 else 0) + (asciiEnc (body.drop p)).length ∧
      cw.length = dataCw sym ∧ L ≤ dataCw sym ∧
      cw.take L = latchOf text :: packTriples V ++ (if un then [254] else []) ++ asciiEnc (body.drop p) ∧
      (un = false → L = dataCw sym ∧ (asciiEnc (body.drop p)).length ≤ 1) ∧
      d.padAt = (if L = dataCw sym then none else some L) ∧
      (L < dataCw sym → cw.getD L 0 = 129) ∧
      (∀ i, L < i → i < dataCw sym → unrand253 (cw.getD i 0) (i + 1) = 129) ∧
      (∃ cst, cvals text V {} = .ok (cst, body.take p)) ∧ (∀ b ∈ body, b < 256) := by
  obtain ⟨V, n, p, un, cst, L, hVl, hVlt, hv, hp, hL, hlen, hle, htake, hun, h129, hpads, hb, hp2⟩ :=
    run_c40_shape text list body cw sym hne h
  obtain ⟨sF, hrun, ho, ht, hl, he, hpa⟩ := spec_run_c40 text cw body hb V n p un cst L hVl hVlt hv hp hL
    (by omega) htake (by rw [hlen]; exact hun) (by rw [hlen]; exact h129) (by rw [hlen]; exact hpads)
  have hhead : ∀ c ∈ cw.head?, c ≠ 232 ∧ c ≠ 236 ∧ c ≠ 237 := by
    intro c hc
    match cw, htake, hc with
    | [], htake, _ =>
      have : L = (L - 1) + 1 := by omega
      rw [this] at htake
      simp at htake
    | y :: t, htake, hc =>
      have : L = (L - 1) + 1 := by omega
      rw [this, List.take_succ_cons] at htake
      simp only [List.head?_cons, Option.mem_def, Option.some.injEq] at hc
      have := (List.cons.inj htake).1
      cases text <;> simp [latchOf] at this <;> omega
  have hd := decode_plain cw sF hhead hrun
  refine ⟨_, V, n, p, un, L, hd, ?_, ?_, rfl, rfl, ?_, ?_, ⟨hp, hp2⟩, ?_, hVl, hVlt, hL, hlen, hle, htake, hun, ?_, h129, hpads, ⟨cst, hv⟩, hb⟩
  · simp [mkDecoded, ho]
  · simp [mkDecoded, ho]
  · simp [mkDecoded, he]
  · simp [mkDecoded, hl]
  · simp [mkDecoded, ht]
  · simp only [mkDecoded, hpa, hlen]

/-- the empty message under the C40 / Text plan is the empty ASCII message: padding only -/
theorem spec_c40text_roundtrip_nil (text : Bool) (list : List Sym) (cw : List Nat) (sym : Sym)
    (h : Enc.run list [] [] [(([] : List Nat).length, modeOf text), (0, modeOf text)] = .ok (cw, sym)) :
    ∃ d, decode cw = .ok d ∧ d.bytes = [] ∧ d.body = [] ∧ d.fnc1 = false ∧ d.macro = 0 ∧ d.ecis = [] ∧
      d.latches = [] ∧ d.trace = [] ∧ cw.length = dataCw sym ∧
      d.padAt = (if 0 = dataCw sym then none else some 0) := by
  have : Enc.run list [] [] [(([] : List Nat).length, modeOf text), (0, modeOf text)] = Enc.run list [] [] [(0, .ascii)] := by
    unfold Enc.run
    simp only [List.length_nil]
    rw [Enc.mainLoop, Enc.mainLoop]
    simp [Enc.St.hasMore]
  rw [this] at h
  obtain ⟨d, h1, h2, h3, h4, h5, h6, h7, h8, _, h10, _, h12⟩ :=
    spec_ascii_roundtrip list [] cw sym _ (Or.inl rfl) (by simp) h
  exact ⟨d, h1, h2, h3, h4, h5, h6, h7, by simpa using h8, h10, by rw [h12]; simp only [asciiEnc, List.length_nil]; split <;> simp_all⟩

/-- both cases together, for every message and every symbol list -/
theorem spec_c40text_roundtrip_all (text : Bool) (list : List Sym) (body cw : List Nat) (sym : Sym)
    (h : Enc.run list [] body [(body.length, modeOf text), (0, modeOf text)] = .ok (cw, sym)) :
    ∃ d, decode cw = .ok d ∧ d.bytes = body ∧ d.body = body ∧ d.fnc1 = false ∧ d.macro = 0 ∧ d.ecis = [] ∧
      d.latches = (if body = [] then [] else [(0, cmode text)]) ∧
      (∃ p, p ≤ body.length ∧ body.length ≤ p + 2 ∧
        d.trace = List.replicate p (cmode text) ++ List.replicate (body.length - p) .ascii) ∧
      (∀ m ∈ d.trace, m = cmode text ∨ m = .ascii) ∧
      cw.length = dataCw sym ∧ (∀ q ∈ d.padAt, q < dataCw sym ∧ cw.getD q 0 = 129) := by
  by_cases hne : body = []
  · subst hne
    obtain ⟨d, h1, h2, h3, h4, h5, h6, h7, h8, h9, h10⟩ := spec_c40text_roundtrip_nil text list cw sym h
    refine ⟨d, h1, h2, h3, h4, h5, h6, by simpa using h7, ⟨0, Nat.le_refl _, by simp, by simpa using h8⟩, by simp [h8], h9, ?_⟩
    intro q hq
    rw [h10] at hq
    split at hq
    · cases hq
    · simp only [Option.mem_def, Option.some.injEq] at hq
      subst hq
      -- the stream is `asciiEnc [] ++ padding`
      have := DM.Props.C02Spec.ascii_core list [] [] cw sym [(0, .ascii)] (Or.inl rfl) (by simp) (by
        have e : Enc.run list [] [] [(([] : List Nat).length, modeOf text), (0, modeOf text)] = Enc.run list [] [] [(0, .ascii)] := by
          unfold Enc.run
          simp only [List.length_nil]
          rw [Enc.mainLoop, Enc.mainLoop]
          simp [Enc.St.hasMore]
        rw [← e]; exact h)
      obtain ⟨_, _, _, a4, _⟩ := this
      simp only [List.length_nil, asciiEnc, Nat.add_zero] at a4
      exact ⟨by omega, a4 (by omega)⟩
  · obtain ⟨d, V, n, p, un, L, h1, h2, h3, h4, h5, h6, h7, h8, h9, _, _, _, h13, h14, _, _, h17, h18, _⟩ :=
      spec_c40text_roundtrip text list body cw sym hne h
    refine ⟨d, h1, h2, h3, h4, h5, h6, by rw [if_neg hne]; exact h7, ⟨p, h8.1, h8.2, h9⟩, ?_, h13, ?_⟩
    · intro m hm
      rw [h9] at hm
      rcases List.mem_append.mp hm with hm | hm
      · exact Or.inl (List.eq_of_mem_replicate hm)
      · exact Or.inr (List.eq_of_mem_replicate hm)
    · intro q hq
      rw [h17] at hq
      split at hq
      · cases hq
      · simp only [Option.mem_def, Option.some.injEq] at hq
        subst hq
        exact ⟨by omega, h18 (by omega)⟩

/-- **C40 round trip through the reference decoder** (`text = false`) -/
theorem spec_c40_roundtrip (list : List Sym) (body cw : List Nat) (sym : Sym)
    (h : Enc.run list [] body [(body.length, .c40), (0, .c40)] = .ok (cw, sym)) :
    ∃ d, decode cw = .ok d ∧ d.bytes = body ∧ d.body = body ∧ d.fnc1 = false ∧ d.macro = 0 ∧ d.ecis = [] ∧
      d.latches = (if body = [] then [] else [(0, .c40)]) ∧
      (∃ p, p ≤ body.length ∧ body.length ≤ p + 2 ∧
        d.trace = List.replicate p .c40 ++ List.replicate (body.length - p) .ascii) ∧
      (∀ m ∈ d.trace, m = .c40 ∨ m = .ascii) ∧
      cw.length = dataCw sym ∧ (∀ q ∈ d.padAt, q < dataCw sym ∧ cw.getD q 0 = 129) :=
  spec_c40text_roundtrip_all false list body cw sym h

/-- **Text round trip through the reference decoder** (`text = true`) -/
theorem spec_text_roundtrip (list : List Sym) (body cw : List Nat) (sym : Sym)
    (h : Enc.run list [] body [(body.length, .text), (0, .text)] = .ok (cw, sym)) :
    ∃ d, decode cw = .ok d ∧ d.bytes = body ∧ d.body = body ∧ d.fnc1 = false ∧ d.macro = 0 ∧ d.ecis = [] ∧
      d.latches = (if body = [] then [] else [(0, .text)]) ∧
      (∃ p, p ≤ body.length ∧ body.length ≤ p + 2 ∧
        d.trace = List.replicate p .text ++ List.replicate (body.length - p) .ascii) ∧
      (∀ m ∈ d.trace, m = .text ∨ m = .ascii) ∧
      cw.length = dataCw sym ∧ (∀ q ∈ d.padAt, q < dataCw sym ∧ cw.getD q 0 = 129) :=
  spec_c40text_roundtrip_all true list body cw sym h

/-! ## Non-vacuity: every end form of `c40::handle_end` occurs, and the reference decoder reads it

(kernel evaluation of the encoder model and of the reference decoder) -/

/-- exact end: "AIM" fills the 3-codeword symbol -/
example : Enc.run (symbolList (List.range 30)) [] [65, 73, 77] [(3, .c40), (0, .c40)] = .ok ([230, 91, 11], 0) :=
  run_eq_of_check (by decide +kernel)
/-- UNLATCH and the last character in ASCII (`backup`): "AIMA" -/
example : Enc.run (symbolList (List.range 30)) [] [65, 73, 77, 65] [(4, .c40), (0, .c40)] = .ok ([230, 91, 11, 254, 66], 1) :=
  run_eq_of_check (by decide +kernel)
/-- two values left and room for one pair: filled with 0, no UNLATCH: "AIMAB" -/
example : Enc.run (symbolList (List.range 30)) [] [65, 73, 77, 65, 66] [(5, .c40), (0, .c40)] =
    .ok ([230, 91, 11, 89, 217], 1) := run_eq_of_check (by decide +kernel)
/-- padded partial triple and UNLATCH: "AIMABCD" -/
example : Enc.run (symbolList (List.range 30)) [] [65, 73, 77, 65, 66, 67, 68] [(7, .c40), (0, .c40)] =
    .ok ([230, 91, 11, 89, 233, 106, 135, 254], 3) := run_eq_of_check (by decide +kernel)
/-- two trailing digits behind UNLATCH as one ASCII codeword, then a pad: "AIMABC12" -/
example : Enc.run (symbolList (List.range 30)) [] [65, 73, 77, 65, 66, 67, 49, 50] [(8, .c40), (0, .c40)] =
    .ok ([230, 91, 11, 89, 233, 254, 142, 129], 3) := run_eq_of_check (by decide +kernel)
/-- a single ASCII codeword filling the symbol, no UNLATCH: "AIMABCDEFG" -/
example : Enc.run (symbolList (List.range 30)) [] [65, 73, 77, 65, 66, 67, 68, 69, 70, 71] [(10, .c40), (0, .c40)] =
    .ok ([230, 91, 11, 89, 233, 109, 36, 72], 3) := run_eq_of_check (by decide +kernel)
/-- two trailing digits as one ASCII codeword filling the symbol, no UNLATCH: "AIMABCDEF12" -/
example : Enc.run (symbolList (List.range 30)) [] [65, 73, 77, 65, 66, 67, 68, 69, 70, 49, 50] [(11, .c40), (0, .c40)] =
    .ok ([230, 91, 11, 89, 233, 109, 36, 142], 3) := run_eq_of_check (by decide +kernel)
/-- Text, with Shift 2, Shift 3 and Upper Shift: "Hello!é" -/
example : Enc.run (symbolList (List.range 30)) [] [72, 101, 108, 108, 111, 33, 233] [(7, .text), (0, .text)] =
    .ok ([239, 13, 211, 160, 69, 6, 66, 190, 242, 254], 4) := run_eq_of_check (by decide +kernel)

/-- the reference decoder on these streams -/
example : (decode [230, 91, 11, 254, 66]).toOption.map (fun d => (d.body, d.padAt, d.latches, d.trace)) =
    some ([65, 73, 77, 65], none, [(0, .c40)], [.c40, .c40, .c40, .ascii]) := by decide +kernel
example : (decode [230, 91, 11, 89, 233, 254, 142, 129]).toOption.map (fun d => (d.body, d.padAt, d.latches)) =
    some ([65, 73, 77, 65, 66, 67, 49, 50], some 7, [(0, .c40)]) := by decide +kernel
example : (decode [230, 91, 11, 89, 233, 109, 36, 72]).toOption.map (fun d => (d.body, d.padAt, d.trace.drop 8)) =
    some ([65, 73, 77, 65, 66, 67, 68, 69, 70, 71], none, [.c40, .ascii]) := by decide +kernel
example : (decode [239, 13, 211, 160, 69, 6, 66, 190, 242, 254]).toOption.map (fun d => (d.body, d.padAt, d.latches)) =
    some ([72, 101, 108, 108, 111, 33, 233], none, [(0, .text)]) := by decide +kernel

/-- … and the theorems applied to such runs. -/
example : ∃ d, decode [230, 91, 11, 89, 233, 254, 142, 129] = .ok d ∧ d.body = [65, 73, 77, 65, 66, 67, 49, 50] ∧
    d.latches = [(0, .c40)] := by
  obtain ⟨d, h1, _, h3, _, _, _, h7, _⟩ :=
    spec_c40_roundtrip (symbolList (List.range 30)) [65, 73, 77, 65, 66, 67, 49, 50] _ _
      (run_eq_of_check (cw := [230, 91, 11, 89, 233, 254, 142, 129]) (sym := 3) (by decide +kernel))
  exact ⟨d, h1, h3, h7⟩

example : ∃ d, decode [239, 13, 211, 160, 69, 6, 66, 190, 242, 254] = .ok d ∧ d.body = [72, 101, 108, 108, 111, 33, 233] ∧
    d.latches = [(0, .text)] := by
  obtain ⟨d, h1, _, h3, _, _, _, h7, _⟩ :=
    spec_text_roundtrip (symbolList (List.range 30)) [72, 101, 108, 108, 111, 33, 233] _ _
      (run_eq_of_check (cw := [239, 13, 211, 160, 69, 6, 66, 190, 242, 254]) (sym := 4) (by decide +kernel))
  exact ⟨d, h1, h3, h7⟩

example : ∃ (d : Decoded) (p : Nat), decode [230, 91, 11, 89, 233, 109, 36, 142] = .ok d ∧ 9 ≤ p ∧ p ≤ 11 ∧
    d.trace = List.replicate p .c40 ++ List.replicate (11 - p) .ascii := by
  obtain ⟨d, _, _, p, _, _, h1, _, _, _, _, _, _, h8, h9, _⟩ :=
    spec_c40text_roundtrip false (symbolList (List.range 30)) [65, 73, 77, 65, 66, 67, 68, 69, 70, 49, 50] _ _
      (by decide)
      (run_eq_of_check (cw := [230, 91, 11, 89, 233, 109, 36, 142]) (sym := 3) (by decide +kernel))
  simp only [List.length_cons, List.length_nil] at h8
  exact ⟨d, p, h1, by omega, h8.1, h9⟩

/-- the empty message (padding only) -/
example : Enc.run (symbolList (List.range 30)) [] [] [(([] : List Nat).length, .c40), (0, .c40)] =
    .ok ([129, 175, 70], 0) := run_eq_of_check (by decide +kernel)

end DM.Props.C02SpecC40
