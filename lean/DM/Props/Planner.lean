import DM.Lemmas.PlanLoop
/-!
# The planner (`optimize`) — totality, plan shape, linear work  (C11, C13, C18, C19)

Theorems about the Lean model of the whole planner (`DM/Model/Planner.lean`), which is compared
with `optimize()` on every case of the `c18m` sweep (same plan, cost, step count and live maximum).
They hold for **every** message, symbol list, mode set, `written` offset and — because the order
`sort_unstable_by_key` leaves equal-cost plans in is not modelled — for every sequence of sort
permutations the implementation could produce: a sequence that is not a sorting permutation of the
model's candidates yields `badPerm`, every other yields an outcome with the properties below.

* `optimize_total` (C11): no `assert!`, `unwrap`, `usize` underflow or `Frac` debug assertion of
  the planner can fire, and the loop ends (the model never runs out of its `len + 3` fuel).
* `plan_modes_enabled` (C13, C18): the plan names only enabled modes.
* `plan_positions` (C18): its remaining-character positions never increase and end at 0.
* `steps_linear`, `live_le_36` (C19): at most `216·(n+1) + 5` calls of `step()`, at most 36 live plans.
-/
namespace DM.Props.Planner
open DM.Model DM.Model.Plan DM.Model.Enc DM.Lemmas.PlanInv DM.Lemmas.PlanLoop

theorem optimize_spec (data : List Nat) (written : Nat) (list : List Sym) (modes : Nat) (perms : List (List Nat)) :
    OutcomeOK modes data.length (216 * (data.length + 1) + 5) (optimize data written list modes perms) := by
  unfold optimize
  simp only []
  have hcore : Core data list 0
      (newPlan .ascii { data := data, pos := 0, written := written, list := list }) :=
    (newPlan_core .ascii _ ⟨rfl, rfl, rfl⟩ (Nat.zero_le _)).1
  split
  · rename_i hen
    have := optLoop_spec (data := data) (list := list) (modes := modes) written (data.length + 3) 0
      [{ extra := 0, switches := [(data.length, EMode.ascii)],
         plan := newPlan .ascii { data := data, pos := 0, written := written, list := list } }] perms 0 0
      (Nat.zero_le _) (by omega)
      (by
        intro g hg
        simp only [List.mem_singleton] at hg
        subst hg
        refine ⟨hcore, hen, ?_, by simp, by simp⟩
        intro e he
        simp only [List.mem_singleton] at he
        subst he
        exact ⟨hen, by simp, by simp⟩)
      (by intro _ g hg; simp only [List.mem_singleton] at hg; subst hg; rfl)
      (by simp) (by omega)
    unfold OutcomeOK at this ⊢
    generalize optLoop data written modes (data.length + 3) 0 _ perms 0 0 = res at this ⊢
    cases res with
    | error e => cases e <;> first | trivial | exact this
    | ok o => exact ⟨by have := this.1; simp only [Nat.sub_zero] at this; omega, this.2⟩
  · obtain ⟨l, n, e1, e2, e4, e3⟩ := addSwitches_spec (data := data) (list := list) (k := 0)
      ({ extra := 0, switches := [(data.length, EMode.ascii)],
         plan := newPlan .ascii { data := data, pos := 0, written := written, list := list } } : GPlan)
      hcore rfl data.length true modes (fun _ => rfl)
    rw [e1]
    simp only []
    have hit : (if data.isEmpty = true then 0 else 1) = nxt data 0 := by
      unfold nxt
      cases data <;> simp
    rw [hit]
    have hlive : ∀ g ∈ l, Live data list modes (nxt data 0) g := fun g hg =>
      newOK_live (asStart := true) (by simpa using e3 g hg) (by simp)
    have hone : ∀ g ∈ l, g.switches.length = 1 := by
      intro g hg
      have := (e3 g hg).2.2
      simp only [↓reduceIte] at this
      rw [this]; rfl
    have := optLoop_spec (data := data) (list := list) (modes := modes) written (data.length + 3) (nxt data 0)
      l perms n 0 (nxt_le (Nat.zero_le _)) (by omega) hlive (fun _ => hone) (by omega) (by omega)
    unfold OutcomeOK at this ⊢
    generalize optLoop data written modes (data.length + 3) (nxt data 0) l perms n 0 = res at this ⊢
    cases res with
    | error e => cases e <;> first | trivial | exact this
    | ok o =>
      refine ⟨?_, this.2⟩
      have h1 := this.1
      have : data.length - nxt data 0 + 1 ≤ data.length + 1 := by omega
      have : 216 * (data.length - nxt data 0 + 1) ≤ 216 * (data.length + 1) := Nat.mul_le_mul_left _ this
      omega

/-- **C11 (planner part): planning is total.** For every input the model of `optimize` returns a
plan or "no plan"; it never reaches one of the planner's panic sites and never exhausts its fuel.
(`badPerm` only rejects permutation logs that no run of the implementation can produce.) -/
theorem optimize_total (data : List Nat) (written : Nat) (list : List Sym) (modes : Nat) (perms : List (List Nat)) :
    (∃ o, optimize data written list modes perms = .ok o) ∨
    optimize data written list modes perms = .error .badPerm := by
  have := optimize_spec data written list modes perms
  unfold OutcomeOK at this
  split at this
  · right; assumption
  · exact absurd this (by simp)
  · left; exact ⟨_, by assumption⟩

/-- **C13 / C18: the plan names only enabled modes.** -/
theorem plan_modes_enabled (data : List Nat) (written : Nat) (list : List Sym) (modes : Nat)
    (perms : List (List Nat)) (o : Outcome) (p : List (Nat × EMode))
    (h : optimize data written list modes perms = .ok o) (hp : o.plan = some p) :
    ∀ e ∈ p, enabledMode modes e.2 = true := by
  have := optimize_spec data written list modes perms
  rw [h] at this
  exact fun e he => ((this.2.2 p hp).1 e he).1

/-- **C18: remaining-character positions never increase, stay within the message and end at 0.** -/
theorem plan_positions (data : List Nat) (written : Nat) (list : List Sym) (modes : Nat)
    (perms : List (List Nat)) (o : Outcome) (p : List (Nat × EMode))
    (h : optimize data written list modes perms = .ok o) (hp : o.plan = some p) :
    p.Pairwise (fun a b => a.1 ≥ b.1) ∧ (∀ e ∈ p, e.1 ≤ data.length) ∧ ∃ m, p.getLast? = some (0, m) := by
  have := optimize_spec data written list modes perms
  rw [h] at this
  have := this.2.2 p hp
  exact ⟨this.2.1, fun e he => (this.1 e he).2, this.2.2⟩

/-- **C19: planning work is linear.** At most `216·(n+1) + 5` calls of `Plan::step()` for a
message of `n` bytes, whatever the content, symbol list and mode set. -/
theorem steps_linear (data : List Nat) (written : Nat) (list : List Sym) (modes : Nat)
    (perms : List (List Nat)) (o : Outcome) (h : optimize data written list modes perms = .ok o) :
    o.steps ≤ 216 * (data.length + 1) + 5 := by
  have := optimize_spec data written list modes perms
  rw [h] at this
  exact this.1

/-- **C19: at most 36 plans are alive after any iteration.** -/
theorem live_le_36 (data : List Nat) (written : Nat) (list : List Sym) (modes : Nat)
    (perms : List (List Nat)) (o : Outcome) (h : optimize data written list modes perms = .ok o) :
    o.maxLive ≤ 36 := by
  have := optimize_spec data written list modes perms
  rw [h] at this
  exact this.2.1

/-- Non-vacuity: a run of the model with the sort permutations the implementation logged for
`"AB12"` (all modes, the 30 standard sizes) returns the implementation's plan `[(0, ASCII)]` with
cost 3 codewords after 93 steps and at most 9 live plans. -/
example : (match optimize [65, 66, 49, 50] 0 (symbolList (List.range 30)) 63
    [[0,3,5,2,4,1], [0,6,7,8,3,5,2,4,1,9,14,15,11,13,17,19,16,12,18,10],
     [0,1,2,3,9,10,11,12,4,24,18,17,23,16,15,8,7,21,22,27,28,19,25,14,20,6,26,13,5],
     [0,8,15,14,16,3,2,1,9,5,17,29,28,22,23,24,12,13,4,6,10,7,30,11,25,18,26,27,21,20,19,31,32,33],
     [0,1,2,3]] with
    | .ok o => o.plan == some [(0, EMode.ascii)] && o.cost12 == 36 && o.steps == 93 && o.maxLive == 9
    | .error _ => false) = true := by decide +kernel

end DM.Props.Planner
