import DM.Props.C16
import DM.Lemmas.PlannedRun
/-!
# C16 / C18 / C11 — header decision, planner, encoder and decoder models composed

`Props/C16.lean` proves that whatever the encoder model returns behind the prefix codeword 236 / 237 /
232 (Macro 05, Macro 06, FNC1 in first position) the decoder model turns back into the whole original
message — *if* the encoder model succeeds (`macro05_lossless`, `macro06_lossless`, `gs1_roundtrip`).
`Props/C18Couple.lean` proves that on the plan the planner model returns (within the side condition
`planOK`) the encoder model does succeed, in a symbol no larger than predicted.  Composed here: the
message `data` goes through the model of `with_size` + `use_macro_if_possible` (`macroPrefix`), which
answers with the prefix codewords `pre` and the part `body` of the message the encoder is to continue
with; the planner model is run on `body`, told the number of prefix codewords; the encoder model is run on
the planner's plan.  If the plan is inside the two decidable side conditions and the predicted size
fits a listed symbol, the encoder model **succeeds**, in a symbol no larger than the predicted one, and
the decoder model maps its codewords back to the **whole message** `data`, header and trailer included.

No hypothesis speaks about the encoder's outcome: success is a conclusion.

The round-trip side condition is `C40Gen.planOKEb body plan = true` (no latch to a non-ASCII mode
scheduled for the last four characters, EDIFACT only as the final stretch and only over EDIFACT
characters) — the weaker condition of `MainRT.macro_roundtrip_E` / `fnc1_roundtrip_E`, which accepts more
plans than the `PlanOK` of the statements in `Props/C16.lean` (every `PlanOK` plan satisfies it, see
`planOKE_of_planOK`).

* `planned_message_roundtrip` — all cases of `macroPrefix` at once;
* `planned_message_roundtrip_nogate` — the same without the hypothesis `body.length ≤ maxCapacity list`,
  which follows from the fitting prediction (`Lemmas/CoupleGate.lean`);
* `planned_macro05_lossless`, `planned_macro06_lossless`, `planned_gs1_roundtrip` — one statement per
  header kind, with the message spelled out.
-/
namespace DM.Props.C16Planner
open DM.Model DM.Model.Plan DM.Model.Enc DM.Model.PlanSide DM.Lemmas DM.Lemmas.AsciiRT DM.Props.C16

/-! ### what `macroPrefix` can answer -/

/-- a message with a seven-byte header `H` and the trailer is header ++ (what the model's slice cuts out)
++ trailer -/
theorem envelope_split (data q r H : List Nat) (hH : H.length = 7) (hq : data = H ++ q) (hr : data = r ++ TRAIL)
    (hlen : 7 ≤ data.length - 2) : data = H ++ (data.take (data.length - 2)).drop 7 ++ TRAIL := by
  have hrl : r.length = data.length - 2 := by rw [hr]; simp [TRAIL]
  have e1 : data.take (data.length - 2) = r := by rw [← hrl, hr]; simp
  rw [e1]
  have hlen7 : 7 ≤ r.length := by rw [hrl]; exact hlen
  have e2 : r.take 7 = H := by
    have h3 : (r ++ TRAIL).take 7 = H := by rw [← hr, hq, ← hH]; simp
    rw [List.take_append_of_le_length hlen7] at h3
    exact h3
  conv => lhs; rw [hr, ← List.take_append_drop 7 r, e2]

/-- **The four answers of the header decision**: nothing written and the message untouched; FNC1 and the
message untouched; Macro 05 / Macro 06 and the message is header ++ body ++ trailer. -/
theorem macroPrefix_ok_cases (data : List Nat) (m f : Bool) (pre body : List Nat)
    (h : macroPrefix data m f = .ok pre body) :
    (pre = [] ∧ body = data) ∨ (pre = [232] ∧ body = data) ∨
    (pre = [236] ∧ data = HEAD05 ++ body ++ TRAIL) ∨ (pre = [237] ∧ data = HEAD06 ++ body ++ TRAIL) := by
  rw [macroPrefix_cases] at h
  by_cases h0 : m = false ∨ f = true ∨ endsWith data TRAIL = false
  · rw [if_pos h0] at h
    simp only [PrefixResult.ok.injEq] at h
    obtain ⟨h1, h2⟩ := h
    cases f
    · exact Or.inl ⟨by simpa using h1.symm, h2.symm⟩
    · exact Or.inr (Or.inl ⟨by simpa using h1.symm, h2.symm⟩)
  rw [if_neg h0] at h
  have he : endsWith data TRAIL = true := by
    cases hE : endsWith data TRAIL
    · exact absurd (Or.inr (Or.inr hE)) h0
    · rfl
  obtain ⟨r, hr⟩ := (endsWith_iff data TRAIL).mp he
  by_cases h5 : startsWith data HEAD05 = true
  · rw [if_pos h5] at h
    obtain ⟨q, hq⟩ := (startsWith_iff data HEAD05).mp h5
    have hlen := envelope_len data q r 53 hq hr
    rw [if_pos hlen] at h
    simp only [PrefixResult.ok.injEq] at h
    obtain ⟨h1, h2⟩ := h
    refine Or.inr (Or.inr (Or.inl ⟨h1.symm, ?_⟩))
    rw [← h2]
    exact envelope_split data q r HEAD05 rfl hq hr hlen
  rw [if_neg h5] at h
  by_cases h6 : startsWith data HEAD06 = true
  · rw [if_pos h6] at h
    obtain ⟨q, hq⟩ := (startsWith_iff data HEAD06).mp h6
    have hlen := envelope_len data q r 54 hq hr
    rw [if_pos hlen] at h
    simp only [PrefixResult.ok.injEq] at h
    obtain ⟨h1, h2⟩ := h
    refine Or.inr (Or.inr (Or.inr ⟨h1.symm, ?_⟩))
    rw [← h2]
    exact envelope_split data q r HEAD06 rfl hq hr hlen
  rw [if_neg h6] at h
  simp only [PrefixResult.ok.injEq] at h
  exact Or.inl ⟨h.1.symm, h.2.symm⟩

/-- the part of the message the encoder continues with consists of bytes of the message -/
theorem body_bytes (data : List Nat) (m f : Bool) (pre body : List Nat)
    (h : macroPrefix data m f = .ok pre body) (hd : ByteList data) : ByteList body := by
  rcases macroPrefix_ok_cases data m f pre body h with ⟨_, rfl⟩ | ⟨_, rfl⟩ | ⟨_, h1⟩ | ⟨_, h1⟩
  · exact hd
  · exact hd
  · intro b hb
    exact hd b (by rw [h1]; simp [hb])
  · intro b hb
    exact hd b (by rw [h1]; simp [hb])

/-! ### the composed theorems -/

/-- **Header decision → planner → encoder → decoder on the models, every header kind.**  For a message
of bytes `data` for which the model of `with_size` + `use_macro_if_possible` answers with prefix codewords
`pre` and encoder input `body`: if the planner model, run on `body` behind `pre.length` codewords, returns
a plan inside the two decidable side conditions, the message passes the encoder's early-exit gate and the
prediction fits the listed symbol `ps`, then the encoder model succeeds on that plan in a symbol no larger
than `ps` and the decoder model re-creates the whole message `data`. -/
theorem planned_message_roundtrip (data : List Nat) (macros fnc1 : Bool) (pre body : List Nat)
    (list : List Sym) (modes : Nat) (perms : List (List Nat)) (o : Outcome)
    (plan : List (Nat × EMode)) (ps : Sym) (hd : ∀ b ∈ data, b < 256)
    (hmp : macroPrefix data macros fnc1 = .ok pre body)
    (hopt : Plan.optimize body pre.length list modes perms = .ok o) (hp : o.plan = some plan)
    (hok : planOK body plan = true) (hrt : DM.Lemmas.C40Gen.planOKEb body plan = true)
    (hgate : body.length ≤ maxCapacity list)
    (hfit : firstBigEnough list (pre.length + o.cost12 / 12) = some ps) :
    ∃ cw sym, Enc.run list pre body plan = .ok (cw, sym) ∧ dataCw sym ≤ dataCw ps ∧
      DM.Model.Dec.decodeData cw = .ok data := by
  have hb : ByteList body := body_bytes data macros fnc1 pre body hmp hd
  obtain ⟨cw, sym, hrun, hsz⟩ := PlannedRun.planned_run body pre list modes perms o plan ps hb hopt hp hok hgate hfit
  refine ⟨cw, sym, hrun, hsz, ?_⟩
  have hE := DM.Lemmas.C40Gen.planOKE_of_check body plan hrt
  rcases macroPrefix_ok_cases data macros fnc1 pre body hmp with ⟨rfl, rfl⟩ | ⟨rfl, rfl⟩ | ⟨rfl, h1⟩ | ⟨rfl, h1⟩
  · exact DM.Lemmas.MainRT.general_roundtrip_E list body cw plan sym hb hE hrun
  · exact DM.Lemmas.MainRT.fnc1_roundtrip_E list body cw plan sym hb hE hrun
  · rw [h1]
    exact DM.Lemmas.MainRT.macro_roundtrip_E false list body cw plan sym hb hE hrun
  · rw [h1]
    exact DM.Lemmas.MainRT.macro_roundtrip_E true list body cw plan sym hb hE hrun

/-- **The same without the gate hypothesis.**  `CoupleGate.gate_prediction_none`: a prediction that fits a
listed symbol implies `body.length ≤ maxCapacity list`, so the hypothesis `hgate` of
`planned_message_roundtrip` follows from the others. -/
theorem planned_message_roundtrip_nogate (data : List Nat) (macros fnc1 : Bool) (pre body : List Nat)
    (list : List Sym) (modes : Nat) (perms : List (List Nat)) (o : Outcome)
    (plan : List (Nat × EMode)) (ps : Sym) (hd : ∀ b ∈ data, b < 256)
    (hmp : macroPrefix data macros fnc1 = .ok pre body)
    (hopt : Plan.optimize body pre.length list modes perms = .ok o) (hp : o.plan = some plan)
    (hok : planOK body plan = true) (hrt : DM.Lemmas.C40Gen.planOKEb body plan = true)
    (hfit : firstBigEnough list (pre.length + o.cost12 / 12) = some ps) :
    ∃ cw sym, Enc.run list pre body plan = .ok (cw, sym) ∧ dataCw sym ≤ dataCw ps ∧
      DM.Model.Dec.decodeData cw = .ok data :=
  planned_message_roundtrip data macros fnc1 pre body list modes perms o plan ps hd hmp hopt hp hok hrt
    (PlannedRun.fit_passes_gate body pre.length list modes perms o plan ps hopt hp hfit) hfit

/-- **Macro 05, planned.**  The message `[)>␞05␝ body ␞␄` with macros enabled and no FNC1 start: codeword
236 is written, the planner model plans `body` behind one codeword, the encoder model succeeds on its plan
within the predicted symbol, and the decoder model returns header ++ body ++ trailer. -/
theorem planned_macro05_lossless (body : List Nat) (list : List Sym) (modes : Nat) (perms : List (List Nat))
    (o : Outcome) (plan : List (Nat × EMode)) (ps : Sym) (hb : ∀ b ∈ body, b < 256)
    (hopt : Plan.optimize body 1 list modes perms = .ok o) (hp : o.plan = some plan)
    (hok : planOK body plan = true) (hrt : DM.Lemmas.C40Gen.planOKEb body plan = true)
    (hgate : body.length ≤ maxCapacity list)
    (hfit : firstBigEnough list (1 + o.cost12 / 12) = some ps) :
    macroPrefix (HEAD05 ++ body ++ TRAIL) true false = .ok [236] body ∧
    ∃ cw sym, Enc.run list [236] body plan = .ok (cw, sym) ∧ dataCw sym ≤ dataCw ps ∧
      DM.Model.Dec.decodeData cw = .ok (HEAD05 ++ body ++ TRAIL) := by
  refine ⟨(macro05_iff _ true false body).mpr ⟨rfl, rfl, rfl⟩, ?_⟩
  obtain ⟨cw, sym, hrun, hsz⟩ := PlannedRun.planned_run body [236] list modes perms o plan ps hb hopt hp hok hgate hfit
  exact ⟨cw, sym, hrun, hsz, DM.Lemmas.MainRT.macro_roundtrip_E false list body cw plan sym hb
    (DM.Lemmas.C40Gen.planOKE_of_check body plan hrt) hrun⟩

/-- **Macro 06, planned.**  As `planned_macro05_lossless` with the header `[)>␞06␝` and codeword 237. -/
theorem planned_macro06_lossless (body : List Nat) (list : List Sym) (modes : Nat) (perms : List (List Nat))
    (o : Outcome) (plan : List (Nat × EMode)) (ps : Sym) (hb : ∀ b ∈ body, b < 256)
    (hopt : Plan.optimize body 1 list modes perms = .ok o) (hp : o.plan = some plan)
    (hok : planOK body plan = true) (hrt : DM.Lemmas.C40Gen.planOKEb body plan = true)
    (hgate : body.length ≤ maxCapacity list)
    (hfit : firstBigEnough list (1 + o.cost12 / 12) = some ps) :
    macroPrefix (HEAD06 ++ body ++ TRAIL) true false = .ok [237] body ∧
    ∃ cw sym, Enc.run list [237] body plan = .ok (cw, sym) ∧ dataCw sym ≤ dataCw ps ∧
      DM.Model.Dec.decodeData cw = .ok (HEAD06 ++ body ++ TRAIL) := by
  refine ⟨macro06_of_envelope body, ?_⟩
  obtain ⟨cw, sym, hrun, hsz⟩ := PlannedRun.planned_run body [237] list modes perms o plan ps hb hopt hp hok hgate hfit
  exact ⟨cw, sym, hrun, hsz, DM.Lemmas.MainRT.macro_roundtrip_E true list body cw plan sym hb
    (DM.Lemmas.C40Gen.planOKE_of_check body plan hrt) hrun⟩

/-- **FNC1 in first position (GS1), planned.**  With an FNC1 start the message is never compacted
(whatever `macros` says): codeword 232 is written, the planner model plans the whole message behind one
codeword, the encoder model succeeds on its plan within the predicted symbol, and the decoder model
returns the message. -/
theorem planned_gs1_roundtrip (data : List Nat) (macros : Bool) (list : List Sym) (modes : Nat)
    (perms : List (List Nat)) (o : Outcome) (plan : List (Nat × EMode)) (ps : Sym) (hb : ∀ b ∈ data, b < 256)
    (hopt : Plan.optimize data 1 list modes perms = .ok o) (hp : o.plan = some plan)
    (hok : planOK data plan = true) (hrt : DM.Lemmas.C40Gen.planOKEb data plan = true)
    (hgate : data.length ≤ maxCapacity list)
    (hfit : firstBigEnough list (1 + o.cost12 / 12) = some ps) :
    macroPrefix data macros true = .ok [232] data ∧
    ∃ cw sym, Enc.run list [232] data plan = .ok (cw, sym) ∧ dataCw sym ≤ dataCw ps ∧
      DM.Model.Dec.decodeData cw = .ok data := by
  refine ⟨fnc1_first data macros, ?_⟩
  obtain ⟨cw, sym, hrun, hsz⟩ := PlannedRun.planned_run data [232] list modes perms o plan ps hb hopt hp hok hgate hfit
  exact ⟨cw, sym, hrun, hsz, DM.Lemmas.MainRT.fnc1_roundtrip_E list data cw plan sym hb
    (DM.Lemmas.C40Gen.planOKE_of_check data plan hrt) hrun⟩

/-! ### non-vacuity

The message `[)>␞05␝ABCDEFGHI` + six bytes ≥ 200 + `123456␞␄` (the first example of
`Props/C18Couple.lean` in the Macro 05 envelope), macros enabled, no FNC1 start, the 30 standard sizes,
ASCII + X12 + Base 256 enabled, the sort permutations of a stable sort by cost: the header decision
answers 236 and the 21 inner bytes, the planner model (told of one codeword written) plans
X12 → Base 256 → ASCII at 19 codewords, both side conditions hold, the gate is passed and 1 + 19
codewords fit symbol 9 — every hypothesis of `planned_message_roundtrip` / `planned_macro05_lossless`. -/

open DM.Props.C18Couple in
example :
    (∀ b ∈ HEAD05 ++ exBody ++ TRAIL, b < 256) ∧
    macroPrefix (HEAD05 ++ exBody ++ TRAIL) true false = .ok [236] exBody ∧
    Plan.optimize exBody ([236] : List Nat).length exList exModes exPerms = .ok exOutcome ∧
    exOutcome.plan = some exPlan ∧
    planOK exBody exPlan = true ∧
    DM.Lemmas.C40Gen.planOKEb exBody exPlan = true ∧
    exBody.length ≤ maxCapacity exList ∧
    firstBigEnough exList (([236] : List Nat).length + exOutcome.cost12 / 12) = some 9 := by
  refine ⟨by decide, by decide +kernel, by decide +kernel, rfl, by decide +kernel, by decide +kernel,
    by decide +kernel, by decide +kernel⟩

/-- the theorem applied to this instance: the encoder model succeeds within symbol 9 (22 data codewords)
and the decoder model returns the 30 bytes of the enveloped message -/
example : ∃ cw sym, Enc.run DM.Props.C18Couple.exList [236] DM.Props.C18Couple.exBody DM.Props.C18Couple.exPlan =
      .ok (cw, sym) ∧ dataCw sym ≤ dataCw 9 ∧
    DM.Model.Dec.decodeData cw = .ok (HEAD05 ++ DM.Props.C18Couple.exBody ++ TRAIL) :=
  planned_message_roundtrip (HEAD05 ++ DM.Props.C18Couple.exBody ++ TRAIL) true false [236]
    DM.Props.C18Couple.exBody DM.Props.C18Couple.exList DM.Props.C18Couple.exModes DM.Props.C18Couple.exPerms
    DM.Props.C18Couple.exOutcome DM.Props.C18Couple.exPlan 9 (by decide) (by decide +kernel) (by decide +kernel) rfl
    (by decide +kernel) (by decide +kernel) (by decide +kernel) (by decide +kernel)

/-- what evaluation gives for the same instance -/
example : Enc.run DM.Props.C18Couple.exList [236] DM.Props.C18Couple.exBody DM.Props.C18Couple.exPlan =
      .ok ([236, 238, 89, 233, 109, 36, 128, 95, 254, 231, 116, 204, 98, 249, 143, 38, 188, 142, 164, 186, 129, 118], 9) ∧
    DM.Model.Dec.decodeData
      [236, 238, 89, 233, 109, 36, 128, 95, 254, 231, 116, 204, 98, 249, 143, 38, 188, 142, 164, 186, 129, 118] =
      .ok (HEAD05 ++ DM.Props.C18Couple.exBody ++ TRAIL) := by
  refine ⟨by decide +kernel, by decide +kernel⟩

end DM.Props.C16Planner
