import DM.Props.C03Complete
import DM.Props.C03Single
import DM.Lemmas.BPCorrect
/-!
# C03 — guaranteed correction capacity, without hypotheses

`BPCorrect` (the Björck–Pereyra solver returns the solution of the Vandermonde system,
`BP.bjorckPereyra_correct`) and the Levinson–Durbin identities (`LD.ldStep_alg`,
`LD.ldInitW_alg`) are proved, so `decode_complete` holds unconditionally.
-/
namespace DM.Props.C03
open DM.Gen DM.Model DM.Model.RS DM.Spec DM.Lemmas DM.Props.C09
open DM.Lemmas.BlockComplete

theorem bpCorrect : BPCorrect :=
  fun roots syn h1 h2 h3 h4 h5 => DM.Lemmas.BP.bjorckPereyra_correct roots syn h1 h2 h3 h4 h5

/-- **C03, guaranteed correction capacity.** If the received word differs from a valid codeword
vector in at most ⌊k/2⌋ codewords of each interleaved block (k = error codewords per block), the
decoder model answers Ok and returns exactly the original vector. -/
theorem decode_complete_unconditional
    (s : Sym) (hs : s < numSizes) (d e r : List Nat)
    (hd : Bytes d) (he : Bytes e) (hrb : Bytes r)
    (hl : d.length = dataCw s) (hel : e.length = (row s).blocks * (row s).eccPer)
    (hr : r.length = totalCw s)
    (hv : Valid s d e)
    (herr : ∀ b, b < (row s).blocks →
      hamming (block s d e b) (block s (r.take (dataCw s)) (r.drop (dataCw s)) b) ≤ (row s).eccPer / 2) :
    RS.decode s r = .ok (d ++ e) :=
  decode_complete bpCorrect s hs d e r hd he hrb hl hel hr hv herr

/-- Non-vacuity: the 10x10 codeword of C06's example with two wrong codewords (k = 5, ⌊k/2⌋ = 2). -/
example : RS.decode 0 [23, 99, 11, 255, 207, 0, 244, 81] = .ok ([23, 40, 11] ++ [255, 207, 37, 244, 81]) := by
  decide +kernel

/-- Non-vacuity of the hypotheses: the same instance through the theorem. -/
example : RS.decode 0 [23, 99, 11, 255, 207, 0, 244, 81] = .ok ([23, 40, 11] ++ [255, 207, 37, 244, 81]) := by
  have hB : (row 0).blocks = 1 := by decide +kernel
  apply decode_complete_unconditional 0 (by decide +kernel) [23, 40, 11] [255, 207, 37, 244, 81]
  · intro x hx; simp only [List.mem_cons, List.not_mem_nil, or_false] at hx; omega
  · intro x hx; simp only [List.mem_cons, List.not_mem_nil, or_false] at hx; omega
  · intro x hx; simp only [List.mem_cons, List.not_mem_nil, or_false] at hx; omega
  · decide +kernel
  · decide +kernel
  · decide +kernel
  · intro b hb
    have : b = 0 := by omega
    subst this
    decide +kernel
  · intro b hb
    have : b = 0 := by omega
    subst this
    decide +kernel

end DM.Props.C03
