import DM.Lemmas.RSBridge
import DM.Props.C12
/-!
# C06 — error codewords conform to the ISO/IEC 16022 Reed–Solomon code

For every symbol size and every data vector of the size's capacity, the model of
`encode_error` returns the standard's number of error codewords and every interleaved
block (stride = number of blocks, data part followed by the same stride of the error
part) has all `k` syndromes zero, the syndromes being computed with the table-free
arithmetic of `DM.Spec.GF256`.
-/
namespace DM.Props.C06
open DM.Gen DM.Model DM.Spec DM.Lemmas

/-- Shape and roots of the generator polynomial for `k` check symbols (table arithmetic). -/
def genOK (k : Nat) : Bool :=
  match generator k with
  | none => false
  | some g =>
    g.length == k + 1 && g.head? == some 1 && g.all (· < 256) &&
    (List.range k).all fun i => evalN g (alog (i + 1)) == 0

set_option maxRecDepth 100000 in
/-- All 25 generator polynomials (regenerated from the code) are monic of the right degree
and vanish at 2^1 … 2^k; every size has one; block and check counts are positive. -/
theorem gen_monic_roots :
    ∀ s, s < numSizes → genOK (row s).eccPer = true ∧ 0 < (row s).eccPer ∧ (row s).eccPer < 254 ∧
      0 < (row s).blocks ∧ (row s).blocks ≤ (row s).dataCw := by
  decide +kernel

/-- `generator` is total on the catalogue (the `expect` in `errorcode/mod.rs` never fires). -/
theorem gen_lookup_total (s : Sym) (hs : s < numSizes) : (generator (row s).eccPer).isSome = true := by
  have := (gen_monic_roots s hs).1
  unfold genOK at this
  split at this
  · simp at this
  · rename_i g hg; simp [hg]

/-! ### list lemmas about striding -/

theorem strided_length (l : List Nat) (b B : Nat) :
    (strided l b B).length = (l.length - b + B - 1) / B := by
  simp [strided]

theorem strided_bytes {l : List Nat} (h : Bytes l) (b B : Nat) : Bytes (strided l b B) := by
  intro x hx
  simp only [strided, List.mem_map, List.mem_range] at hx
  obtain ⟨m, _, rfl⟩ := hx
  rw [List.getD_eq_getElem?_getD]
  cases hq : l[b + m * B]? with
  | none => simp
  | some v => simp; exact h v (List.mem_of_getElem? hq)

/-- De-interleaving an interleaved list gives the components back. -/
theorem strided_interleave (F : Nat → Nat → Nat) (k B b : Nat) (hb : b < B) :
    strided ((List.range (k * B)).map fun j => F (j % B) (j / B)) b B
      = (List.range k).map fun m => F b m := by
  have hB : 0 < B := by omega
  unfold strided
  have hcount : (((List.range (k * B)).map fun j => F (j % B) (j / B)).length - b + B - 1) / B = k := by
    simp only [List.length_map, List.length_range]
    cases k with
    | zero => simp; omega
    | succ k =>
      have h1 : (k + 1) * B - b + B - 1 = (B - 1 - b) + (k + 1) * B := by
        have : (k + 1) * B = k * B + B := by ring
        omega
      rw [h1, Nat.add_mul_div_right _ _ hB]
      have : (B - 1 - b) / B = 0 := Nat.div_eq_of_lt (by omega)
      omega
  rw [hcount]
  apply List.map_congr_left
  intro m hm
  have hm' : m < k := List.mem_range.mp hm
  have hlt : b + m * B < k * B := by
    have : (m + 1) * B ≤ k * B := Nat.mul_le_mul_right B hm'
    have : (m + 1) * B = m * B + B := by ring
    omega
  rw [List.getD_eq_getElem?_getD, List.getElem?_map, List.getElem?_range hlt]
  simp only [Option.map_some, Option.getD_some]
  rw [Nat.add_mul_mod_self_right, Nat.mod_eq_of_lt hb, Nat.add_mul_div_right _ _ hB,
    Nat.div_eq_of_lt hb, Nat.zero_add]

theorem map_getD_range (l : List Nat) (k : Nat) (h : l.length = k) :
    ((List.range k).map fun m => l.getD m 0) = l := by
  apply List.ext_getElem
  · simp [h]
  · intro i h1 h2
    simp only [List.length_map, List.length_range] at h1
    simp [List.getD_eq_getElem?_getD, List.getElem?_eq_getElem (h ▸ h1)]

/-- **C06, full statement.** -/
theorem encode_error_conformant (s : Sym) (hs : s < numSizes) (data : List Nat)
    (hbytes : Bytes data) (hlen : data.length = dataCw s) :
    ∃ ecc, encodeError s data = .ok ecc ∧
      ecc.length = (C12.toStd (row s)).eccCw ∧ Bytes ecc ∧
      ∀ b, b < (row s).blocks →
        isCodeword (strided data b (row s).blocks ++ strided ecc b (row s).blocks) (row s).eccPer = true := by
  obtain ⟨hgen, hk, hk254, hB, _⟩ := gen_monic_roots s hs
  unfold genOK at hgen
  split at hgen
  · simp at hgen
  rename_i g hg
  simp only [Bool.and_eq_true, beq_iff_eq, List.all_eq_true, decide_eq_true_eq, List.mem_range] at hgen
  obtain ⟨⟨⟨hglen, hghead⟩, hgbytes⟩, hroots⟩ := hgen
  -- g = 1 :: gt
  obtain ⟨gt, rfl⟩ : ∃ gt, g = 1 :: gt := by
    cases g with
    | nil => simp at hghead
    | cons a gt => simp at hghead; exact ⟨gt, by rw [hghead]⟩
  have hgtlen : gt.length = (row s).eccPer := by simpa using hglen
  have hgtbytes : Bytes gt := fun x hx => hgbytes x (List.mem_cons_of_mem _ hx)
  -- the roots
  have hrt : ∀ i, i < (row s).eccPer →
      alog (i + 1) < 256 ∧ spow2 (i + 1) = alog (i + 1) ∧ evalN (1 :: gt) (alog (i + 1)) = 0 := by
    intro i hi
    exact ⟨(alog_pos _ (by omega)).2, spow2_eq_alog _ (by omega), hroots i hi⟩
  -- the blocks
  have hblk : ∀ b, Bytes (eccBlock (1 :: gt) (strided data b (row s).blocks)) ∧
      (eccBlock (1 :: gt) (strided data b (row s).blocks)).length = (row s).eccPer ∧
      ∀ i, i < (row s).eccPer →
        evalS (strided data b (row s).blocks ++ eccBlock (1 :: gt) (strided data b (row s).blocks))
          (spow2 (i + 1)) = 0 := by
    intro b
    have hd := strided_bytes hbytes b (row s).blocks
    have h0 := eccBlock_syndrome_zero gt hgtbytes (by omega) _ (hrt 0 hk).1 (hrt 0 hk).2.2 _ hd
    refine ⟨h0.1, by rw [h0.2.1, hgtlen], ?_⟩
    intro i hi
    rw [(hrt i hi).2.1]
    exact (eccBlock_syndrome_zero gt hgtbytes (by omega) _ (hrt i hi).1 (hrt i hi).2.2 _ hd).2.2
  -- the interleaved result
  have hgetD : ∀ b, b < (row s).blocks →
      ((List.range (row s).blocks).map fun b => eccBlock (1 :: gt) (strided data b (row s).blocks)).getD b []
        = eccBlock (1 :: gt) (strided data b (row s).blocks) := by
    intro b hb
    rw [List.getD_eq_getElem?_getD, List.getElem?_map, List.getElem?_range hb]
    rfl
  refine ⟨(List.range ((row s).eccPer * (row s).blocks)).map fun j =>
      (((List.range (row s).blocks).map fun b =>
        eccBlock (1 :: gt) (strided data b (row s).blocks)).getD (j % (row s).blocks) []).getD
        (j / (row s).blocks) 0, ?_, ?_, ?_, ?_⟩
  · unfold encodeError
    have : ¬ data.length ≠ (row s).dataCw := by simpa [dataCw] using hlen
    simp only [this, if_false, hg]
  · simp [C12.toStd, Nat.mul_comm]
  · intro x hx
    simp only [List.mem_map, List.mem_range] at hx
    obtain ⟨j, _, rfl⟩ := hx
    rw [hgetD _ (Nat.mod_lt _ hB), List.getD_eq_getElem?_getD]
    cases hq : (eccBlock (1 :: gt) (strided data (j % (row s).blocks) (row s).blocks))[j / (row s).blocks]? with
    | none => simp
    | some v => simp; exact (hblk _).1 v (List.mem_of_getElem? hq)
  · intro b hb
    have hstr := strided_interleave
      (fun b m => (((List.range (row s).blocks).map fun b =>
        eccBlock (1 :: gt) (strided data b (row s).blocks)).getD b []).getD m 0)
      (row s).eccPer (row s).blocks b hb
    rw [hstr, hgetD b hb, map_getD_range _ _ (hblk b).2.1]
    unfold isCodeword
    rw [List.all_eq_true]
    intro i hi
    rw [(hblk b).2.2 i (List.mem_range.mp hi)]
    rfl

/-- Non-vacuity: a concrete data vector of 10x10 and its (kernel-computed) error codewords. -/
example : encodeError 0 [23, 40, 11] = .ok [255, 207, 37, 244, 81] := by decide +kernel

/-- The standard's total (C12) is what comes out. -/
theorem ecc_count_standard (s : Sym) (hs : s < numSizes) :
    (C12.toStd (row s)).eccCw = eccCw s ∧
    (((row s).dmre = true → C12.toStd (row s) ∈ dmre) ∧ ((row s).dmre = false → C12.toStd (row s) ∈ table7)) := by
  refine ⟨rfl, ?_⟩
  apply C12.row_in_standard
  unfold row
  have : s < sizes.length := hs
  rw [List.getD_eq_getElem?_getD, List.getElem?_eq_getElem this]
  simp

end DM.Props.C06
