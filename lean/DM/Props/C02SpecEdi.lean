import DM.Lemmas.SpecEdi
import DM.Lemmas.EdiGen
import DM.Props.C02Spec
/-!
# C02 — conformant output, against the reference decoder: EDIFACT

The round trip through the independent decoder `DM.Spec.Stream.decode` for a message planned
entirely in EDIFACT encodation: latch 240, complete groups of four characters in three codewords,
and the three ways `edifact::encode` ends the data (ASCII end game; UNLATCH value in the next free
slot followed by padding; complete groups filling the symbol exactly).
-/
namespace DM.Props.C02SpecEdi
open DM.Model DM.Lemmas DM.Lemmas.AsciiRT DM.Lemmas.SpecStep DM.Lemmas.SpecAscii DM.Lemmas.MainRT
open DM.Lemmas.SpecEdi DM.Lemmas.Complete DM.Lemmas.EncRT DM.Lemmas.X12RT DM.Lemmas.EdiRT DM.Lemmas.EdiGen
open DM.Props.C02Spec
open DM.Spec.Stream (decode Decoded macroHead macroTrail unrand253 Mode)

/-- the pure EDIFACT plan -/
def ediPlan (body : List Nat) : List (Nat × Enc.EMode) := [(body.length, .edifact), (0, .edifact)]

def e0P (list : List Sym) (pre body : List Nat) : Enc.St :=
  { input := body, pos := 0, mode := .ascii, plan := ediPlan body, newMode := none, cw := pre, list := list }

def e1P (list : List Sym) (pre body : List Nat) : Enc.St :=
  { input := body, pos := 0, mode := .edifact, plan := [(0, .edifact)], newMode := some 240, cw := pre, list := list }

def eLP (list : List Sym) (pre body : List Nat) : Enc.St :=
  { input := body, pos := 0, mode := .edifact, plan := [(0, .edifact)], newMode := none, cw := pre ++ [240], list := list }

theorem e_iter1P (list : List Sym) (pre body : List Nat) (hne : body ≠ []) (f : Nat) :
    Enc.asciiLoop (f + 1) (e0P list pre body) = .ok (e1P list pre body) := by
  have hpos : 0 < body.length := List.length_pos_iff.mpr hne
  rw [Enc.asciiLoop]
  have : (e0P list pre body).maybeSwitch = .ok (true, e1P list pre body) := by
    simp only [Enc.St.maybeSwitch, e0P, e1P, ediPlan, Enc.St.charsLeft, Nat.sub_zero, Nat.lt_irrefl, ↓reduceIte, hpos,
      and_self, ne_eq, reduceCtorEq, not_false_eq_true, Enc.EMode.latch]
  rw [this]

theorem asciiSize_pos : ∀ (l : List Nat), l ≠ [] → 0 < Enc.asciiSize l
  | [], h => absurd rfl h
  | [a], _ => by simp only [Enc.asciiSize]; split <;> omega
  | a :: b :: t, _ => by
    simp only [Enc.asciiSize]
    split
    · omega
    · split <;> omega

/-- **What the encoder writes for the pure EDIFACT plan** behind the prefix codewords `pre`:
`pre`, the latch, `q` complete groups, then `X` and padding up to the symbol capacity, where `X`
is either the last group with the UNLATCH value (with at least three codewords from its start to
the end of the symbol) or the rest of the message in ASCII encodation (possibly nothing) when at
most two codewords of the symbol are left. -/
theorem edi_run_shape (list : List Sym) (pre body cw : List Nat) (sym : Sym) (hc : EdiChars body) (hne : body ≠ [])
    (h : Enc.run list pre body (ediPlan body) = .ok (cw, sym)) :
    ∃ q X L, 4 * q ≤ body.length ∧ L = pre.length + (1 + 3 * q) + X.length ∧ cw.length = dataCw sym ∧
      L ≤ dataCw sym ∧ cw.take L = pre ++ ediC body q ++ X ∧
      (L < dataCw sym → cw.getD L 0 = 129) ∧
      (∀ i, L < i → i < dataCw sym → unrand253 (cw.getD i 0) (i + 1) = 129) ∧
      ((X = ediLast (body.drop (4 * q)) ∧ body.length - 4 * q ≤ 3 ∧ pre.length + 1 + 3 * q + 3 ≤ dataCw sym) ∨
       (X = asciiEnc (body.drop (4 * q)) ∧ body.length - 4 * q ≤ 4 ∧ dataCw sym ≤ pre.length + 1 + 3 * q + 2 ∧
         (dataCw sym = pre.length + 1 + 3 * q → body.length = 4 * q))) := by
  have hb : ByteList body := fun x hx => by have := hc x hx; omega
  obtain ⟨sE, hmain, hsym, hpad⟩ := run_unfoldP list pre body cw _ sym h
  have hlen : 0 < body.length := List.length_pos_iff.mpr hne
  have hs0 : (e0P list pre body).hasMore = true := by simp [Enc.St.hasMore, e0P, hlen]
  obtain ⟨s1, k1, he1, hm1⟩ := mainLoop_step (2 * body.length + 7) (e0P list pre body) sE 0 hmain hs0
  have hl0 : latched (e0P list pre body) = e0P list pre body := rfl
  rw [hl0] at he1
  have hmode0 : (e0P list pre body).mode = .ascii := rfl
  simp only [Enc.encodeMode, hmode0] at he1
  rw [e_iter1P list pre body hne ((e0P list pre body).charsLeft + 1)] at he1
  simp only [Except.ok.injEq] at he1
  subst he1
  obtain ⟨s3, k2, he2, hm2⟩ := mainLoop_step (2 * body.length + 6) _ sE k1 hm1 (by simp [Enc.St.hasMore, e1P, hlen])
  have hl1 : latched (e1P list pre body) = eLP list pre body := rfl
  rw [hl1] at he2
  have hmodeL : (eLP list pre body).mode = .edifact := rfl
  simp only [Enc.encodeMode, hmodeL] at he2
  have hend := edifactEncode_gen list body 0 pre (eLP list pre body) s3 rfl rfl rfl (Nat.zero_le _) rfl rfl rfl
    (by intro e he; simp [eLP] at he; rw [he]) (by simpa using hc) he2
  have hcwE : ∀ q, cwE body 0 pre q = pre ++ ediC body q := by intro q; simp [cwE, bE]
  have hrestE : ∀ q, restE body 0 q = body.drop (4 * q) := by intro q; simp [restE, bE]
  have hcwl : ∀ q, 4 * q ≤ body.length → (pre ++ ediC body q).length = pre.length + (1 + 3 * q) := by
    intro q hq; rw [List.length_append, ediC_length body q hq]
  cases hend with
  | exact q hq fit ecw epos einp elst =>
    rw [hcwE] at ecw fit
    simp only [Nat.zero_add] at hq
    rw [mainLoop_end _ _ _ (by simp [Enc.St.hasMore, epos, einp])] at hm2
    simp only [Except.ok.injEq] at hm2
    subst hm2
    obtain ⟨S, f1, f2⟩ := fit
    rw [ecw, f1] at hsym
    simp only [Option.some.injEq] at hsym
    subst hsym
    obtain ⟨out, hout, hol, htake, _, _⟩ := DM.Props.C02.padding_conformant s3.cw (s3.mode == .ascii) (dataCw S)
      (by rw [ecw, f2]; exact Nat.le_refl _)
    rw [hpad] at hout
    cases hout
    have hcl := hcwl q (by omega)
    have hcweq : cw = pre ++ ediC body q := by
      rw [ecw] at htake
      rw [← htake, List.take_of_length_le (by rw [hol, f2]; exact Nat.le_refl _)]
    have hd : body.drop (4 * q) = [] := List.drop_eq_nil_of_le (by omega)
    refine ⟨q, asciiEnc (body.drop (4 * q)), pre.length + (1 + 3 * q), by omega, by simp [hd, asciiEnc], hol, by omega, ?_,
      fun hlt => absurd hlt (by omega), fun i h1 h2 => absurd h2 (by omega), Or.inr ⟨rfl, by omega, by omega, fun _ => hq.symm⟩⟩
    rw [hd, hcweq, List.take_of_length_le (by omega)]
    simp [asciiEnc]
  | unlatch q hq hr nok room eq =>
    rw [hcwE, hrestE] at eq nok room
    rw [hrestE] at hr
    simp only [Nat.zero_add] at hq
    subst eq
    rw [mainLoop_end _ _ _ (by simp [Enc.St.hasMore, stAscii])] at hm2
    simp only [Except.ok.injEq] at hm2
    subst hm2
    simp only [stAscii] at hsym hpad
    have hcap := firstBigEnough_le list _ sym hsym
    obtain ⟨out, hout, hol, htake, _, hrest⟩ := DM.Props.C02.padding_conformant
      (pre ++ ediC body q ++ ediLast (body.drop (4 * q))) (Enc.EMode.ascii == Enc.EMode.ascii) (dataCw sym) hcap
    rw [hpad] at hout
    cases hout
    have hasc : (Enc.EMode.ascii == Enc.EMode.ascii) = true := by decide
    obtain ⟨h129, hpads⟩ := hrest (pre ++ ediC body q ++ ediLast (body.drop (4 * q))).length (by simp)
    have hcl := hcwl q hq
    have hLl : (pre ++ ediC body q ++ ediLast (body.drop (4 * q))).length =
        pre.length + (1 + 3 * q) + (ediLast (body.drop (4 * q))).length := by
      rw [List.length_append, hcl]
    rw [hLl] at htake h129 hpads hcap hsym
    have hrl : body.length - 4 * q ≤ 3 := by rw [List.length_drop] at hr; exact hr
    refine ⟨q, _, _, hq, rfl, hol, hcap, htake, h129, hpads, Or.inl ⟨rfl, hrl, ?_⟩⟩
    -- at least three codewords from the start of the group that holds the UNLATCH value
    obtain ⟨S, hS, r0, r1⟩ := room
    have hSge := firstBigEnough_le _ _ _ hS
    rw [hcl] at hS r0 r1 hSge nok
    match hbr : body.drop (4 * q), hr with
    | [], _ =>
      rw [hbr] at r0 hS hsym
      simp only [List.length_nil, Nat.add_zero, ediLast, List.length_singleton] at r0 hS hsym ⊢
      have h2 := r0 trivial
      have := fbe_mono list _ (pre.length + (1 + 3 * q) + 1) S hS (by omega) (by omega)
      rw [this] at hsym
      simp only [Option.some.injEq] at hsym
      subst hsym
      omega
    | [x], _ =>
      rw [hbr] at r1 hS hsym nok
      simp only [ediLast, List.length_cons, List.length_nil] at r1 hS hsym ⊢
      have hge3 : dataCw S - (pre.length + (1 + 3 * q)) > 2 := by
        by_cases hle : dataCw S - (pre.length + (1 + 3 * q)) ≤ 2
        · exfalso
          apply nok
          have hx := (hc x (by have : x ∈ body.drop (4 * q) := by rw [hbr]; simp
                               exact List.mem_of_mem_drop this)).2
          have hasz : Enc.asciiSize [x] = 1 := by simp [Enc.asciiSize]; omega
          exact ⟨by simp, by omega, S, by rw [hasz]; exact hS, hle⟩
        · omega
      have := fbe_mono list _ (pre.length + (1 + 3 * q) + (0 + 1 + 1)) S hS (by omega) (by omega)
      rw [this] at hsym
      simp only [Option.some.injEq] at hsym
      subst hsym
      omega
    | [_, _], _ => rw [hbr] at hcap; simp [ediLast] at hcap; omega
    | [_, _, _], _ => rw [hbr] at hcap; simp [ediLast] at hcap; omega
    | _ :: _ :: _ :: _ :: _, h => simp at h
  | ascii q hq ok eq =>
    rw [hcwE, hrestE] at ok
    rw [hcwE] at eq
    simp only [Nat.zero_add] at hq eq
    subst eq
    obtain ⟨hr4, hasz, S, hS, hroom⟩ := ok
    have hSge := firstBigEnough_le _ _ _ hS
    have haszlen : (asciiEnc (body.drop (4 * q))).length = Enc.asciiSize (body.drop (4 * q)) :=
      asciiEnc_length _ _ (Nat.le_refl _)
    have hE : sE.cw = pre ++ ediC body q ++ asciiEnc (body.drop (4 * q)) ∧ sE.mode = .ascii := by
      by_cases hmore : (stAscii list body (4 * q) (pre ++ ediC body q)).hasMore = true
      · obtain ⟨s4, k3, he3, hm3⟩ := mainLoop_step (2 * body.length + 5) _ sE k2 hm2 hmore
        have hl3 : latched (stAscii list body (4 * q) (pre ++ ediC body q)) = stAscii list body (4 * q) (pre ++ ediC body q) := rfl
        rw [hl3] at he3
        have hmode3 : (stAscii list body (4 * q) (pre ++ ediC body q)).mode = .ascii := rfl
        simp only [Enc.encodeMode, hmode3] at he3
        rw [asciiLoop_rest _ rfl rfl (by simp [stAscii]; omega)] at he3
        simp only [Except.ok.injEq] at he3
        subst he3
        rw [mainLoop_end _ _ _ (by simp [Enc.St.hasMore, stAscii])] at hm3
        simp only [Except.ok.injEq] at hm3
        subst hm3
        simp [stAscii, Enc.St.rest]
      · rw [mainLoop_end _ _ _ (by simpa using hmore)] at hm2
        simp only [Except.ok.injEq] at hm2
        subst hm2
        have : body.drop (4 * q) = [] := by
          have h4 := of_decide_eq_false (by simpa using hmore : (stAscii list body (4 * q) (pre ++ ediC body q)).hasMore = false)
          simp only [stAscii] at h4
          exact List.drop_eq_nil_of_le (by omega)
        simp [stAscii, this, asciiEnc]
    obtain ⟨e1c, e2c⟩ := hE
    have hcl := hcwl q hq
    have hLl : (pre ++ ediC body q ++ asciiEnc (body.drop (4 * q))).length =
        pre.length + (1 + 3 * q) + (asciiEnc (body.drop (4 * q))).length := by
      rw [List.length_append, hcl]
    rw [e1c, hLl] at hsym
    rw [hcl] at hS hroom hSge
    rw [haszlen, hS] at hsym
    simp only [Option.some.injEq] at hsym
    subst hsym
    obtain ⟨out, hout, hol, htake, _, hrest⟩ := DM.Props.C02.padding_conformant sE.cw (sE.mode == .ascii) (dataCw S)
      (by rw [e1c, hLl, haszlen]; exact hSge)
    rw [hpad] at hout
    cases hout
    have hasc : (sE.mode == Enc.EMode.ascii) = true := by rw [e2c]; decide
    obtain ⟨h129, hpads⟩ := hrest sE.cw.length (by simp [hasc])
    simp only [e1c, hLl] at htake h129 hpads
    rw [List.length_drop] at hr4
    refine ⟨q, _, _, hq, rfl, hol, by rw [haszlen]; exact hSge, htake, h129, hpads, Or.inr ⟨rfl, hr4, by omega, ?_⟩⟩
    intro hex
    by_cases hd : body.drop (4 * q) = []
    · have := congrArg List.length hd
      simp at this; omega
    · have := asciiSize_pos _ hd
      omega


/-- how the run ended, and what the decoder's trace looks like accordingly -/
def EdiForm (p : Nat) (body X : List Nat) (q cap : Nat) (trace : List Mode) : Prop :=
  (X = ediLast (body.drop (4 * q)) ∧ body.length - 4 * q ≤ 3 ∧ p + 1 + 3 * q + 3 ≤ cap ∧
    trace = List.replicate body.length .edifact) ∨
  (X = asciiEnc (body.drop (4 * q)) ∧ body.length - 4 * q ≤ 4 ∧ cap ≤ p + 1 + 3 * q + 2 ∧
    (cap = p + 1 + 3 * q → body.length = 4 * q) ∧
    trace = List.replicate (4 * q) .edifact ++ List.replicate (body.length - 4 * q) .ascii)

/-- encoder and reference decoder on the pure EDIFACT plan behind the prefix codewords `pre` -/
theorem edi_core (list : List Sym) (pre body cw : List Nat) (sym : Sym) (hc : EdiChars body) (hne : body ≠ [])
    (h : Enc.run list pre body (ediPlan body) = .ok (cw, sym)) :
    ∃ q X L s, 4 * q ≤ body.length ∧ L = pre.length + (1 + 3 * q) + X.length ∧ cw.length = dataCw sym ∧
      L ≤ dataCw sym ∧ cw.take L = pre ++ ediC body q ++ X ∧
      DM.Spec.Stream.run cw.toArray (3 * cw.length + 4) { i := pre.length } = .ok s ∧
      s.out.toList = body ∧ s.latches.toList = [(pre.length, .edifact)] ∧ s.ecis.toList = [] ∧
      s.padAt = (if L = dataCw sym then none else some L) ∧
      EdiForm pre.length body X q (dataCw sym) s.trace.toList := by
  obtain ⟨q, X, L, hq, hL, hlen, hle, htake, h129, hpads, hform⟩ := edi_run_shape list pre body cw sym hc hne h
  rcases hform with ⟨rfl, hr, hthree⟩ | ⟨rfl, hr, htwo, hnil⟩
  · have hrun := spec_run_edi_unlatch cw pre body q L hc hq hr hL (by omega) htake (by omega)
      (by rw [hlen]; exact h129) (by rw [hlen]; exact hpads)
    rw [hlen] at hrun
    refine ⟨q, _, L, _, hq, hL, hlen, hle, htake, by rw [hlen]; exact hrun, ?_, ?_, ?_, rfl,
      Or.inl ⟨rfl, hr, hthree, ?_⟩⟩ <;> simp [ediFinalU]
  · have hrun := spec_run_edi_ascii cw pre body q L hc hq hL (by omega) htake (by omega) (by rw [hlen]; exact hnil)
      (by rw [hlen]; exact h129) (by rw [hlen]; exact hpads)
    rw [hlen] at hrun
    refine ⟨q, _, L, _, hq, hL, hlen, hle, htake, by rw [hlen]; exact hrun, ?_, ?_, ?_, rfl,
      Or.inr ⟨rfl, hr, htwo, hnil, ?_⟩⟩ <;> simp [ediFinalA]

/-- **EDIFACT round trip through the reference decoder.** For a non-empty message of EDIFACT
characters (32..94) planned entirely in EDIFACT, and every symbol list: whatever the encoder
returns, the reference decoder accepts; it reads the message, after the single latch at codeword 0,
without ECI, FNC1 or Macro. The stream is the latch, `q` complete groups (`ediC body q`), then `X`
and padding, in one of two forms (`EdiForm`):
* `X` is the last group holding the remaining `≤ 3` characters and the UNLATCH value in the next
  free slot, at least three codewords stand from its start to the end of the symbol, and every
  byte was carried by EDIFACT;
* at most two codewords of the symbol are left behind the groups and `X` is the remaining `≤ 4`
  characters in ASCII encodation (nothing when the groups fill the symbol exactly): the first `4q`
  bytes were carried by EDIFACT, the rest by ASCII.
The decoder meets the first pad codeword exactly behind `X` (`none` when `X` ends the symbol). -/
theorem spec_edifact_roundtrip (list : List Sym) (body cw : List Nat) (sym : Sym) (hc : ∀ b ∈ body, 32 ≤ b ∧ b ≤ 94)
    (hne : body ≠ []) (h : Enc.run list [] body [(body.length, .edifact), (0, .edifact)] = .ok (cw, sym)) :
    ∃ d q X L, decode cw = .ok d ∧ d.bytes = body ∧ d.body = body ∧ d.fnc1 = false ∧ d.macro = 0 ∧ d.ecis = [] ∧
      d.latches = [(0, .edifact)] ∧ (∀ m ∈ d.trace, m = .edifact ∨ m = .ascii) ∧
      4 * q ≤ body.length ∧ L = 1 + 3 * q + X.length ∧ cw.length = dataCw sym ∧ L ≤ dataCw sym ∧
      cw.take L = ediC body q ++ X ∧ EdiForm 0 body X q (dataCw sym) d.trace ∧
      d.padAt = (if L = dataCw sym then none else some L) := by
  obtain ⟨q, X, L, s, hq, hL, hlen, hle, htake, hrun, ho, hl, he, hp, hform⟩ := edi_core list [] body cw sym hc hne h
  simp only [List.length_nil, Nat.zero_add, List.nil_append] at hL htake hrun hl hform
  have hhead : ∀ c ∈ cw.head?, c ≠ 232 ∧ c ≠ 236 ∧ c ≠ 237 := by
    intro c hcc
    match cw, htake, hcc with
    | [], htake, _ => simp [ediC] at htake
    | y :: t, htake, hcc =>
      have : L = (3 * q + X.length) + 1 := by omega
      rw [this, List.take_succ_cons] at htake
      simp only [List.head?_cons, Option.mem_def, Option.some.injEq] at hcc
      have := (List.cons.inj htake).1
      omega
  have hd := decode_plain cw _ hhead hrun
  refine ⟨_, q, X, L, hd, ?_, ho, rfl, rfl, he, hl, ?_, hq, hL, hlen, hle, htake, hform, hp⟩
  · simpa [mkDecoded] using ho
  · intro m hm
    have hm' : m ∈ s.trace.toList := hm
    rcases hform with ⟨_, _, _, ht⟩ | ⟨_, _, _, _, ht⟩
    · rw [ht] at hm'; exact Or.inl (List.eq_of_mem_replicate hm')
    · rw [ht] at hm'
      rcases List.mem_append.mp hm' with h1 | h1
      · exact Or.inl (List.eq_of_mem_replicate h1)
      · exact Or.inr (List.eq_of_mem_replicate h1)


/-- Non-vacuity. The three ends of `edifact::encode`, checked by the kernel on the encoder model:
"AHO" (UNLATCH in the fourth slot, one pad), "AHOVC" (one codeword left behind the group: ASCII end
game, no UNLATCH, symbol full), twelve characters (complete groups fill the 10-codeword symbol
exactly), sixteen characters (UNLATCH in the first slot: codeword 124, then padding), seventeen
(UNLATCH in the second slot). The kernel also runs the reference decoder on three of the streams. -/
example : Enc.run (symbolList (List.range 30)) [] [65, 72, 79] [(3, .edifact), (0, .edifact)] =
    .ok ([240, 4, 131, 223, 129], 1) := run_eq_of_check (by decide +kernel)
example : Enc.run (symbolList (List.range 30)) [] [65, 72, 79, 86, 67] [(5, .edifact), (0, .edifact)] =
    .ok ([240, 4, 131, 214, 68], 1) := run_eq_of_check (by decide +kernel)
example : Enc.run (symbolList (List.range 30)) [] [65, 72, 79, 86, 67, 74, 81, 88, 69, 76, 83, 90]
    [(12, .edifact), (0, .edifact)] = .ok ([240, 4, 131, 214, 12, 164, 88, 20, 196, 218], 4) :=
  run_eq_of_check (by decide +kernel)
example : Enc.run (symbolList (List.range 30)) [] [65, 72, 79, 86, 67, 74, 81, 88, 69, 76, 83, 90, 71, 78, 85, 66]
    [(16, .edifact), (0, .edifact)] =
    .ok ([240, 4, 131, 214, 12, 164, 88, 20, 196, 218, 28, 229, 66, 124, 129, 237], 6) :=
  run_eq_of_check (by decide +kernel)
example : Enc.run (symbolList (List.range 30)) [] [65, 72, 79, 86, 67, 74, 81, 88, 69, 76, 83, 90, 71, 78, 85, 66, 73]
    [(17, .edifact), (0, .edifact)] =
    .ok ([240, 4, 131, 214, 12, 164, 88, 20, 196, 218, 28, 229, 66, 37, 240, 129], 6) :=
  run_eq_of_check (by decide +kernel)
example : (decode [240, 4, 131, 223, 129]).toOption.map (fun d => (d.body, d.padAt, d.latches, d.trace)) =
    some ([65, 72, 79], some 4, [(0, .edifact)], [.edifact, .edifact, .edifact]) := by decide +kernel
example : (decode [240, 4, 131, 214, 68]).toOption.map (fun d => (d.body, d.padAt, d.latches, d.trace)) =
    some ([65, 72, 79, 86, 67], none, [(0, .edifact)], [.edifact, .edifact, .edifact, .edifact, .ascii]) := by
  decide +kernel
example : (decode [240, 4, 131, 214, 12, 164, 88, 20, 196, 218]).toOption.map (fun d => (d.body, d.padAt)) =
    some ([65, 72, 79, 86, 67, 74, 81, 88, 69, 76, 83, 90], none) := by decide +kernel

/-- … and the theorem applied to the run on "AHOVC". -/
example : ∃ d, decode [240, 4, 131, 214, 68] = .ok d ∧ d.body = [65, 72, 79, 86, 67] ∧ d.latches = [(0, .edifact)] := by
  obtain ⟨d, _, _, _, h1, _, h3, _, _, _, h7, _⟩ :=
    spec_edifact_roundtrip (symbolList (List.range 30)) [65, 72, 79, 86, 67] _ _ (by decide) (by decide)
      (run_eq_of_check (cw := [240, 4, 131, 214, 68]) (sym := 1) (by decide +kernel))
  exact ⟨d, h1, h3, h7⟩

/-- the empty message under the EDIFACT plan is the empty ASCII message: padding only, no latch -/
theorem spec_edifact_roundtrip_nil (list : List Sym) (cw : List Nat) (sym : Sym)
    (h : Enc.run list [] [] [(([] : List Nat).length, .edifact), (0, .edifact)] = .ok (cw, sym)) :
    ∃ d, decode cw = .ok d ∧ d.bytes = [] ∧ d.body = [] ∧ d.fnc1 = false ∧ d.macro = 0 ∧ d.ecis = [] ∧
      d.latches = [] ∧ d.trace = [] ∧ cw.length = dataCw sym ∧
      d.padAt = (if 0 = dataCw sym then none else some 0) := by
  have : Enc.run list [] [] [(([] : List Nat).length, Enc.EMode.edifact), (0, .edifact)] = Enc.run list [] [] [(0, .ascii)] := by
    unfold Enc.run
    simp only [List.length_nil]
    rw [Enc.mainLoop, Enc.mainLoop]
    simp [Enc.St.hasMore]
  rw [this] at h
  obtain ⟨d, h1, h2, h3, h4, h5, h6, h7, h8, _, h10, _, h12⟩ :=
    spec_ascii_roundtrip list [] cw sym _ (Or.inl rfl) (by simp) h
  exact ⟨d, h1, h2, h3, h4, h5, h6, h7, by simpa using h8, h10, by rw [h12]; simp only [asciiEnc, List.length_nil]; split <;> simp_all⟩

example : Enc.run (symbolList (List.range 30)) [] [] [(([] : List Nat).length, .edifact), (0, .edifact)] =
    .ok ([129, 175, 70], 0) := run_eq_of_check (by decide +kernel)

/-- **Every body of EDIFACT characters**, empty or not: the reference decoder returns the message;
no FNC1, Macro or ECI; every byte carried by EDIFACT or (in the end game) ASCII; at most the one
latch at codeword 0. -/
theorem spec_edifact_roundtrip_all (list : List Sym) (body cw : List Nat) (sym : Sym) (hc : ∀ b ∈ body, 32 ≤ b ∧ b ≤ 94)
    (h : Enc.run list [] body [(body.length, .edifact), (0, .edifact)] = .ok (cw, sym)) :
    ∃ d, decode cw = .ok d ∧ d.bytes = body ∧ d.body = body ∧ d.fnc1 = false ∧ d.macro = 0 ∧ d.ecis = [] ∧
      d.latches = (if body = [] then [] else [(0, .edifact)]) ∧ (∀ m ∈ d.trace, m = .edifact ∨ m = .ascii) ∧
      d.trace.length = body.length ∧ cw.length = dataCw sym := by
  by_cases hne : body = []
  · subst hne
    obtain ⟨d, h1, h2, h3, h4, h5, h6, h7, h8, h9, _⟩ := spec_edifact_roundtrip_nil list cw sym h
    exact ⟨d, h1, h2, h3, h4, h5, h6, by simpa using h7, by rw [h8]; simp, by rw [h8]; rfl, h9⟩
  · obtain ⟨d, q, X, L, h1, h2, h3, h4, h5, h6, h7, h8, hq, _, h11, _, _, hform, _⟩ :=
      spec_edifact_roundtrip list body cw sym hc hne h
    refine ⟨d, h1, h2, h3, h4, h5, h6, by rw [if_neg hne]; exact h7, h8, ?_, h11⟩
    rcases hform with ⟨_, _, _, ht⟩ | ⟨_, _, _, _, ht⟩
    · rw [ht]; simp
    · rw [ht]; simp; omega

/-- **EDIFACT behind a header codeword** `c` = 232 (FNC1), 236 (Macro 05) or 237 (Macro 06): the
latch now stands at codeword 1. -/
theorem spec_edifact_roundtrip_header (c : Nat) (hcc : c = 232 ∨ c = 236 ∨ c = 237) (list : List Sym) (body cw : List Nat)
    (sym : Sym) (hc : ∀ b ∈ body, 32 ≤ b ∧ b ≤ 94) (hne : body ≠ [])
    (h : Enc.run list [c] body [(body.length, .edifact), (0, .edifact)] = .ok (cw, sym)) :
    ∃ d q X L, decode cw = .ok d ∧ d.body = body ∧ d.fnc1 = (c == 232) ∧ d.macro = hdrMacro c ∧
      d.bytes = (if c = 232 then body else macroHead (hdrMacro c) ++ body ++ macroTrail) ∧ d.ecis = [] ∧
      d.latches = [(1, .edifact)] ∧
      4 * q ≤ body.length ∧ L = 2 + 3 * q + X.length ∧ cw.length = dataCw sym ∧ L ≤ dataCw sym ∧
      cw.take L = c :: (ediC body q ++ X) ∧ EdiForm 1 body X q (dataCw sym) d.trace ∧
      d.padAt = (if L = dataCw sym then none else some L) := by
  obtain ⟨q, X, L, s, hq, hL, hlen, hle, htake, hrun, ho, hl, he, hp, hform⟩ := edi_core list [c] body cw sym hc hne h
  simp only [List.length_singleton, List.cons_append, List.nil_append] at hL htake hrun hl hform
  have hL' : L = 2 + 3 * q + X.length := by omega
  match cw, htake, hrun, hlen with
  | [], htake, _, _ => simp at htake
  | y :: t, htake, hrun, hlen =>
    have hy : y = c := by
      have : L = (1 + 3 * q + X.length) + 1 := by omega
      rw [this, List.take_succ_cons] at htake
      exact (List.cons.inj htake).1
    subst hy
    have hfin : ∀ d : Decoded, d = mkDecoded s (hdrMacro y) (y == 232) →
        d.body = body ∧ d.fnc1 = (y == 232) ∧ d.macro = hdrMacro y ∧
        d.bytes = (if y = 232 then body else macroHead (hdrMacro y) ++ body ++ macroTrail) ∧ d.ecis = [] ∧
        d.latches = [(1, .edifact)] ∧ EdiForm 1 body X q (dataCw sym) d.trace ∧
        d.padAt = (if L = dataCw sym then none else some L) := by
      intro d hd
      subst hd
      refine ⟨ho, rfl, rfl, ?_, he, hl, hform, hp⟩
      rcases hcc with rfl | rfl | rfl <;> simp [mkDecoded, hdrMacro, ho]
    rcases hcc with rfl | rfl | rfl
    · have hd := decode_fnc1 t _ hrun
      obtain ⟨a1, a2, a3, a4, a5, a6, a7, a8⟩ := hfin _ rfl
      exact ⟨_, q, X, L, hd, a1, a2, a3, a4, a5, a6, hq, hL', hlen, hle, htake, a7, a8⟩
    · have hd := decode_macro5 t _ hrun
      obtain ⟨a1, a2, a3, a4, a5, a6, a7, a8⟩ := hfin _ rfl
      exact ⟨_, q, X, L, hd, a1, a2, a3, a4, a5, a6, hq, hL', hlen, hle, htake, a7, a8⟩
    · have hd := decode_macro6 t _ hrun
      obtain ⟨a1, a2, a3, a4, a5, a6, a7, a8⟩ := hfin _ rfl
      exact ⟨_, q, X, L, hd, a1, a2, a3, a4, a5, a6, hq, hL', hlen, hle, htake, a7, a8⟩

/-- Non-vacuity: five characters behind FNC1 (UNLATCH in the second slot of the second group, one
pad), four behind Macro 05 (exact fit), nine behind Macro 06 (ASCII end game, one pad); the kernel
runs the reference decoder on the streams. -/
example : Enc.run (symbolList (List.range 30)) [232] [65, 72, 79, 86, 67] [(5, .edifact), (0, .edifact)] =
    .ok ([232, 240, 4, 131, 214, 13, 240, 129], 3) := run_eq_of_check (by decide +kernel)
example : Enc.run (symbolList (List.range 30)) [236] [65, 72, 79, 86] [(4, .edifact), (0, .edifact)] =
    .ok ([236, 240, 4, 131, 214], 1) := run_eq_of_check (by decide +kernel)
example : Enc.run (symbolList (List.range 30)) [237] [65, 72, 79, 86, 67, 74, 81, 88, 69] [(9, .edifact), (0, .edifact)] =
    .ok ([237, 240, 4, 131, 214, 12, 164, 88, 70, 129], 4) := run_eq_of_check (by decide +kernel)
example : (decode [232, 240, 4, 131, 214, 13, 240, 129]).toOption.map (fun d => (d.body, d.fnc1, d.padAt, d.latches)) =
    some ([65, 72, 79, 86, 67], true, some 7, [(1, .edifact)]) := by decide +kernel
example : (decode [236, 240, 4, 131, 214]).toOption.map (fun d => (d.bytes, d.body, d.macro, d.padAt)) =
    some ([91, 41, 62, 30, 48, 53, 29, 65, 72, 79, 86, 30, 4], [65, 72, 79, 86], 5, none) := by decide +kernel
example : (decode [237, 240, 4, 131, 214, 12, 164, 88, 70, 129]).toOption.map (fun d => (d.body, d.macro, d.padAt)) =
    some ([65, 72, 79, 86, 67, 74, 81, 88, 69], 6, some 9) := by decide +kernel

/-- Side condition `32 ≤ b ≤ 94` is needed: with 95 in the last group the encoder's `% 64` turns it
into the UNLATCH value 31 and the reference decoder stops reading there; 96 is read back as 32. -/
example : Enc.run (symbolList (List.range 30)) [] [65, 66, 67, 95] [(4, .edifact), (0, .edifact)] =
    .ok ([240, 4, 32, 223, 129], 1) := run_eq_of_check (by decide +kernel)
example : (decode [240, 4, 32, 223, 129]).toOption.map (fun d => d.body) = some [65, 66, 67] := by decide +kernel
example : (match Enc.run (symbolList (List.range 30)) [] [65, 66, 67, 68, 96, 65, 66, 67, 68, 69] [(10, .edifact), (0, .edifact)] with
    | .ok (cw, _) => (decode cw).toOption.map (fun d => d.body)
    | .error _ => none) = some [65, 66, 67, 68, 32, 65, 66, 67, 68, 69] := by decide +kernel

end DM.Props.C02SpecEdi
