import DM.Props.C02SpecMixed5
import DM.Lemmas.PlannedRun
/-!
# C02 — planner, encoder and *reference* decoder composed

`planned_conformant`: if the planner model answers with a plan inside the two decidable side conditions
(`planOK` of the coupling theorem; `PlanOK`: no EDIFACT entry, no latch to a non-ASCII mode planned for the
last four characters) and its predicted cost fits a listed symbol, then the encoder model — run on that very
plan, behind no header, FNC1 or a Macro codeword — succeeds in a symbol no larger than predicted, with exactly
that symbol's number of data codewords, and the independent reference decoder of `Spec/Stream.lean` accepts the
stream and returns the message (header and trailer re-created for Macro), with no ECI, no byte carried by
EDIFACT, and the first pad codeword exactly where the encoder's own codewords end.
The encoder's success is a conclusion. This is C02's central sentence on the models, for the plans the sweep
counts under `roundtrip_theorem_covers_plan` (84 % of the optimiser's plans).
-/
namespace DM.Props.C02Planner
open DM.Model DM.Model.Plan DM.Model.Enc DM.Model.PlanSide DM.Lemmas DM.Lemmas.AsciiRT DM.Lemmas.SpecMain DM.Lemmas.SpecStep
open DM.Props.C02SpecMixed (HdrOK)
open DM.Spec.Stream (decode macroHead macroTrail)

theorem planned_conformant (body pre : List Nat) (list : List Sym) (modes : Nat) (perms : List (List Nat)) (o : Outcome)
    (plan : List (Nat × EMode)) (ps : Sym) (hpre : HdrOK pre) (hb : ByteList body)
    (hopt : Plan.optimize body pre.length list modes perms = .ok o) (hp : o.plan = some plan)
    (hok : planOK body plan = true)
    (hplan : ∀ e ∈ plan, (e.2 ≠ .ascii → e.1 = 0 ∨ e.1 > 4) ∧ e.2 ≠ .edifact)
    (hfit : firstBigEnough list (pre.length + o.cost12 / 12) = some ps) :
    ∃ cw sym d, Enc.run list pre body plan = .ok (cw, sym) ∧ dataCw sym ≤ dataCw ps ∧ cw.length = dataCw sym ∧
      decode cw = .ok d ∧ d.body = body ∧
      d.bytes = (if macOf pre = 0 then body else macroHead (macOf pre) ++ body ++ macroTrail) ∧
      d.fnc1 = (pre == [232]) ∧ d.macro = macOf pre ∧ d.ecis = [] ∧ (∀ m ∈ d.trace, m ≠ .edifact) := by
  rcases DM.Lemmas.PlannedRun.predicted_size_suffices_gate body pre list modes perms o plan hb hopt hp hok with
    h | h | h
  · obtain ⟨hl, _⟩ := h
    subst hl
    simp [firstBigEnough] at hfit
  · obtain ⟨_, cw, sym, hrun, hsz⟩ := h
    obtain ⟨d, L, a1, a2, a3, a4, a5, a6, _, a8, _, a10, _⟩ :=
      DM.Props.C02SpecMixed5.spec_mixed_roundtrip_5 list pre body cw plan sym hpre hb hplan hrun
    exact ⟨cw, sym, d, hrun, hsz ps hfit, a10, a1, a2, a3, a4, a5, a6, a8⟩
  · obtain ⟨_, _, hnone⟩ := h
    rw [hfit] at hnone
    cases hnone

end DM.Props.C02Planner
