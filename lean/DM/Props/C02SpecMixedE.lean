import DM.Lemmas.SpecMainAll
import DM.Props.C02SpecMixedEdi
import DM.Lemmas.PlannedRun
/-!
# C02 — conformant output against the reference decoder: every plan within `PlanOKE` (all six modes)

`spec_mixed_roundtrip_E`: the round trip through the independent decoder `DM.Spec.Stream.decode` for
every plan over ASCII, C40, Text, X12, Base 256 and EDIFACT that satisfies `C40Gen.PlanOKE body plan`
(EDIFACT is used for the final stretch of the message only and over EDIFACT characters; no latch to a
non-ASCII mode is planned for the last four characters) — the side condition of
`Props/C01.mixed_roundtrip_E`, now with the *reference* decoder in place of the model of the crate's
decoder. `spec_mixed_roundtrip_Eb` states it with the executable check `planOKEb`;
`planned_conformant_E` composes it with the planner model (`C02Planner.planned_conformant` with
`planOKEb body plan = true` in place of `PlanOK`, i.e. EDIFACT plans included).

Frame: `C02SpecMixedEdi.spec_frameB` over `SpecMainAll.stepB_all`.
-/
namespace DM.Props.C02SpecMixedE
open DM.Model DM.Model.Plan DM.Model.PlanSide DM.Lemmas DM.Lemmas.AsciiRT DM.Lemmas.SpecStep DM.Lemmas.SpecMain
open DM.Lemmas.MainRT DM.Lemmas.PlanProv
open DM.Lemmas.EncRT DM.Lemmas.C40Gen DM.Lemmas.SpecMainEdi DM.Lemmas.SpecMainAll
open DM.Props.C02Spec (run_eq_of_check)
open DM.Props.C02SpecMixed
open DM.Props.C02SpecMixedEdi (spec_frameB)
open DM.Spec.Stream (decode Decoded Mode macroHead macroTrail)

/-- **Mixed round trip through the reference decoder for every plan within `PlanOKE`** (ASCII, C40,
Text, X12, Base 256 in any order, EDIFACT as the final stretch over EDIFACT characters; no latch to a
non-ASCII mode planned for the last four characters), every message of bytes, every symbol list and
each of the headers none / FNC1 / Macro 05 / Macro 06: whatever the encoder model returns, the
reference decoder accepts and returns the message (header and trailer re-created for Macro); every
latch stands among the encoder's own codewords, there is no ECI; the stream fills the symbol, and the
decoder meets the first pad codeword exactly where the encoder's own codewords end. -/
theorem spec_mixed_roundtrip_E (list : List Sym) (pre body cw : List Nat) (plan : List (Nat × Enc.EMode)) (sym : Sym)
    (hpre : HdrOK pre) (hb : ∀ b ∈ body, b < 256) (hok : PlanOKE body plan)
    (h : Enc.run list pre body plan = .ok (cw, sym)) :
    ∃ d L, decode cw = .ok d ∧ d.body = body ∧
      d.bytes = (if macOf pre = 0 then body else macroHead (macOf pre) ++ body ++ macroTrail) ∧
      d.fnc1 = (pre == [232]) ∧ d.macro = macOf pre ∧ d.ecis = [] ∧ d.trace.length = body.length ∧
      (∀ l ∈ d.latches, l.2 ≠ .ascii ∧ pre.length ≤ l.1 ∧ l.1 < L) ∧
      cw.length = dataCw sym ∧ cw.take pre.length = pre ∧ pre.length ≤ L ∧ L ≤ cw.length ∧
      (L < cw.length → cw.getD L 0 = 129) ∧ d.padAt = (if L = cw.length then none else some L) := by
  obtain ⟨d, L, a1, a2, a3, a4, a5, a6, a7, _, a9, a10⟩ :=
    spec_frameB (fun _ => True) list pre body cw plan sym (RInvAll body)
      (stepB_all (fun _ => True) (fun _ => trivial) list pre.length pre body hb)
      ⟨hok, fun _ => Or.inl ⟨rfl, rfl⟩⟩ hpre h
  exact ⟨d, L, a1, a2, a3, a4, a5, a6, a7, fun l hl => (a9 l hl).2, a10⟩

/-- `spec_mixed_roundtrip_E` with the executable side condition `C40Gen.planOKEb` -/
theorem spec_mixed_roundtrip_Eb (list : List Sym) (pre body cw : List Nat) (plan : List (Nat × Enc.EMode)) (sym : Sym)
    (hpre : HdrOK pre) (hb : ∀ b ∈ body, b < 256) (hok : planOKEb body plan = true)
    (h : Enc.run list pre body plan = .ok (cw, sym)) :
    ∃ d L, decode cw = .ok d ∧ d.body = body ∧
      d.bytes = (if macOf pre = 0 then body else macroHead (macOf pre) ++ body ++ macroTrail) ∧
      d.fnc1 = (pre == [232]) ∧ d.macro = macOf pre ∧ d.ecis = [] ∧ d.trace.length = body.length ∧
      (∀ l ∈ d.latches, l.2 ≠ .ascii ∧ pre.length ≤ l.1 ∧ l.1 < L) ∧
      cw.length = dataCw sym ∧ cw.take pre.length = pre ∧ pre.length ≤ L ∧ L ≤ cw.length ∧
      (L < cw.length → cw.getD L 0 = 129) ∧ d.padAt = (if L = cw.length then none else some L) :=
  spec_mixed_roundtrip_E list pre body cw plan sym hpre hb (planOKE_of_check body plan hok) h

/-- **Planner, encoder and reference decoder composed, EDIFACT plans included**: as
`C02Planner.planned_conformant`, with the executable side condition `planOKEb body plan = true`
(`PlanOKE`: EDIFACT as the final stretch over EDIFACT characters, no latch to a non-ASCII mode planned
for the last four characters) in place of `PlanOK`. -/
theorem planned_conformant_E (body pre : List Nat) (list : List Sym) (modes : Nat) (perms : List (List Nat)) (o : Outcome)
    (plan : List (Nat × Enc.EMode)) (ps : Sym) (hpre : HdrOK pre) (hb : ByteList body)
    (hopt : Plan.optimize body pre.length list modes perms = .ok o) (hp : o.plan = some plan)
    (hok : planOK body plan = true)
    (hplan : planOKEb body plan = true)
    (hfit : firstBigEnough list (pre.length + o.cost12 / 12) = some ps) :
    ∃ cw sym d, Enc.run list pre body plan = .ok (cw, sym) ∧ dataCw sym ≤ dataCw ps ∧ cw.length = dataCw sym ∧
      decode cw = .ok d ∧ d.body = body ∧
      d.bytes = (if macOf pre = 0 then body else macroHead (macOf pre) ++ body ++ macroTrail) ∧
      d.fnc1 = (pre == [232]) ∧ d.macro = macOf pre ∧ d.ecis = [] ∧ d.trace.length = body.length := by
  rcases DM.Lemmas.PlannedRun.predicted_size_suffices_gate body pre list modes perms o plan hb hopt hp hok with
    h | h | h
  · obtain ⟨hl, _⟩ := h
    subst hl
    simp [firstBigEnough] at hfit
  · obtain ⟨_, cw, sym, hrun, hsz⟩ := h
    obtain ⟨d, L, a1, a2, a3, a4, a5, a6, a7, _, a10, _⟩ :=
      spec_mixed_roundtrip_Eb list pre body cw plan sym hpre hb hplan hrun
    exact ⟨cw, sym, d, hrun, hsz ps hfit, a10, a1, a2, a3, a4, a5, a6, a7⟩
  · obtain ⟨_, _, hnone⟩ := h
    rw [hfit] at hnone
    cases hnone

/-! ### Non-vacuity (kernel evaluation of encoder and reference decoder) -/

/-- X12 ("ABC\r*>"), two bytes in Base 256, a digit pair in ASCII, then "ABCDEFG" in EDIFACT to the
end (one complete group, the last group "EFG" with the UNLATCH value in its fourth slot). -/
example : planOKEb [65, 66, 67, 13, 42, 62, 200, 201, 49, 50, 65, 66, 67, 68, 69, 70, 71]
    [(17, .x12), (11, .base256), (9, .ascii), (7, .edifact), (0, .edifact)] = true := by decide
example : Enc.run (symbolList (List.range 30)) [] [65, 66, 67, 13, 42, 62, 200, 201, 49, 50, 65, 66, 67, 68, 69, 70, 71]
    [(17, .x12), (11, .base256), (9, .ascii), (7, .edifact), (0, .edifact)] =
    .ok ([238, 89, 233, 0, 43, 254, 231, 175, 11, 161, 142, 240, 4, 32, 196, 20, 97, 223], 7) :=
  run_eq_of_check (by decide +kernel)
example : (decode [238, 89, 233, 0, 43, 254, 231, 175, 11, 161, 142, 240, 4, 32, 196, 20, 97, 223]).toOption.map
      (fun d => (d.body, d.padAt, d.latches)) =
    some ([65, 66, 67, 13, 42, 62, 200, 201, 49, 50, 65, 66, 67, 68, 69, 70, 71], none,
      [(0, .x12), (6, .base256), (11, .edifact)]) := by decide +kernel

/-- … and the theorem applied to that run. -/
example : ∃ d, decode [238, 89, 233, 0, 43, 254, 231, 175, 11, 161, 142, 240, 4, 32, 196, 20, 97, 223] = .ok d ∧
    d.body = [65, 66, 67, 13, 42, 62, 200, 201, 49, 50, 65, 66, 67, 68, 69, 70, 71] ∧
    d.bytes = [65, 66, 67, 13, 42, 62, 200, 201, 49, 50, 65, 66, 67, 68, 69, 70, 71] ∧ d.ecis = [] := by
  obtain ⟨d, L, h1, h2, h3, _, _, h6, _⟩ :=
    spec_mixed_roundtrip_Eb (symbolList (List.range 30)) [] [65, 66, 67, 13, 42, 62, 200, 201, 49, 50, 65, 66, 67, 68, 69, 70, 71] _
      [(17, .x12), (11, .base256), (9, .ascii), (7, .edifact), (0, .edifact)] _ (Or.inl rfl) (by decide) (by decide)
      (run_eq_of_check (cw := [238, 89, 233, 0, 43, 254, 231, 175, 11, 161, 142, 240, 4, 32, 196, 20, 97, 223]) (sym := 7)
        (by decide +kernel))
  exact ⟨d, h1, h2, by simpa [macOf] using h3, h6⟩

/-- Behind FNC1: C40 ("ABCDEF"), X12 ("\r*>"), then "ABCDEFG" in EDIFACT to the end. -/
example : ∃ d, decode [232, 230, 89, 233, 109, 36, 254, 238, 0, 43, 254, 240, 4, 32, 196, 20, 97, 223] = .ok d ∧
    d.body = [65, 66, 67, 68, 69, 70, 13, 42, 62, 65, 66, 67, 68, 69, 70, 71] ∧ d.fnc1 = true ∧ d.ecis = [] := by
  obtain ⟨d, L, h1, h2, _, h4, _, h6, _⟩ :=
    spec_mixed_roundtrip_Eb (symbolList (List.range 30)) [232] [65, 66, 67, 68, 69, 70, 13, 42, 62, 65, 66, 67, 68, 69, 70, 71] _
      [(16, .c40), (10, .x12), (7, .edifact), (0, .edifact)] _ (Or.inr (Or.inl rfl)) (by decide) (by decide)
      (run_eq_of_check (cw := [232, 230, 89, 233, 109, 36, 254, 238, 0, 43, 254, 240, 4, 32, 196, 20, 97, 223]) (sym := 7)
        (by decide +kernel))
  exact ⟨d, h1, h2, h4, h6⟩

/-- Text followed by EDIFACT with the ASCII end game (the run of `Props/C01.lean`): "abcdefg" in Text,
"ABCDEFGH" in EDIFACT, the last character "I" goes to ASCII without UNLATCH. -/
example : ∃ d, decode [239, 89, 233, 109, 36, 125, 71, 254, 240, 4, 32, 196, 20, 97, 200, 74] = .ok d ∧
    d.body = [97, 98, 99, 100, 101, 102, 103, 65, 66, 67, 68, 69, 70, 71, 72, 73] ∧ d.ecis = [] := by
  obtain ⟨d, L, h1, h2, _, _, _, h6, _⟩ :=
    spec_mixed_roundtrip_Eb (symbolList (List.range 30)) [] [97, 98, 99, 100, 101, 102, 103, 65, 66, 67, 68, 69, 70, 71, 72, 73] _
      [(16, .text), (9, .edifact), (0, .edifact)] _ (Or.inl rfl) (by decide) (by decide)
      (run_eq_of_check (cw := [239, 89, 233, 109, 36, 125, 71, 254, 240, 4, 32, 196, 20, 97, 200, 74]) (sym := 6)
        (by decide +kernel))
  exact ⟨d, h1, h2, h6⟩

end DM.Props.C02SpecMixedE
