import DM.Lemmas.BlockComplete
import DM.Lemmas.ErrPattern
import DM.Lemmas.BlocksAssemble
import DM.Props.C03
/-!
# C03 — guaranteed correction capacity (completeness of the Reed–Solomon decoder model)

`decode_complete`: if a received word differs from a valid codeword vector in at most ⌊k/2⌋
codewords of each interleaved block, `RS.decode` answers Ok and returns exactly the original
vector.  The Levinson–Durbin part rests on `LD.ldStep_alg` / `LD.ldInitW_alg` (equations (3) and
(4) are preserved; files `LD*.lean`); the only remaining hypothesis is `BPCorrect`, the
correctness of the Björck–Pereyra solver.  For at most one wrong codeword per block no hypothesis
is left (`decode_complete_single_error`).
-/
namespace DM.Props.C03
open DM.Gen DM.Model DM.Model.RS DM.Spec DM.Lemmas DM.Props.C09
open DM.Lemmas.RSTotal DM.Lemmas.RSTot DM.Lemmas.LDReach DM.Lemmas.BlockComplete

/-- `BPCorrect` restricted to at most `m` roots -/
def BPCorrectUpTo (m : Nat) : Prop :=
  ∀ roots syn : List Nat, roots ≠ [] → roots.Nodup → (∀ r ∈ roots, r ≠ 0 ∧ r < 256) →
    Bytes syn → roots.length ≤ syn.length → roots.length ≤ m → BPCorrectAt roots syn

theorem bpCorrect_upTo (h : BPCorrect) (m : Nat) : BPCorrectUpTo m :=
  fun roots syn h1 h2 h3 h4 h5 _ => h roots syn h1 h2 h3 h4 h5

/-- the Björck–Pereyra solver is correct for a single root (by computation) -/
theorem bpCorrect_one : BPCorrectUpTo 1 := by
  intro roots syn hne hnd hnz hsyn hlen hm
  match roots, hne, hm with
  | [z], _, _ =>
    have hz := hnz z (by simp)
    have hl : 1 ≤ syn.length := by simpa using hlen
    unfold BPCorrectAt
    rw [bjorckPereyra_one z syn hz.1 hl]
    have hx0 := gdivD_ne_zero (a := 1) (by decide) hz.1
    have hxb := gdivD_lt 1 z
    refine ⟨rfl, ?_, by simp, ?_⟩
    · intro x hx
      rcases List.mem_or_eq_of_mem_set hx with h | h
      · exact hsyn x h
      · rw [h]; exact gdivD_lt _ _
    · intro j hj
      have hj0 : j = 0 := by simpa using hj
      subst hj0
      have hs0 : syn.getD 0 0 < 256 := getD_lt hsyn 0
      have e1 : gF (syn.set 0 (gdivD (syn.getD 0 0) (gdivD 1 z))) 0
          = GF.ofNat (syn.getD 0 0) / GF.ofNat (gdivD 1 z) := by
        unfold gF
        rw [List.getD_eq_getElem?_getD, List.getElem?_set_self (by omega)]
        exact ofNat_gdivD hs0 hxb hx0
      have e2 : gF [gdivD 1 z] 0 = GF.ofNat (gdivD 1 z) := rfl
      simp only [List.length_singleton, Finset.range_one, Finset.sum_singleton, Nat.zero_add,
        pow_one]
      rw [e1, e2, div_mul_cancel₀ _ (BlockComplete.ofNat_ne_zero hxb hx0)]
      rfl

/-- **Completeness for one block**: a block within ⌊k/2⌋ (and `m`) codewords of a codeword is
decoded to that codeword. -/
theorem decodeBlock_complete (hLD : LDIdentities) (hInit : LDInit) (m : Nat) (hBP : BPCorrectUpTo m)
    (cd ce rd re : List Nat) (k : Nat)
    (hcd : Bytes cd) (hce : Bytes ce) (hrd : Bytes rd) (hre : Bytes re)
    (hld : cd.length = rd.length) (hle : ce.length = re.length)
    (hn : cd.length + ce.length ≤ 255) (hk1 : 1 ≤ k) (hk : k < 254) (hnk : k < cd.length + ce.length)
    (hcw : isCodeword (cd ++ ce) k = true)
    (hham : hamming (cd ++ ce) (rd ++ re) ≤ k / 2) (hm : hamming (cd ++ ce) (rd ++ re) ≤ m) :
    decodeBlock rd re k = .ok (cd, ce) := by
  have hcb : Bytes (cd ++ ce) := hcd.append hce
  have hrb : Bytes (rd ++ re) := hrd.append hre
  have hlen : (cd ++ ce).length = (rd ++ re).length := by simp [hld, hle]
  obtain ⟨I, E, hIc, hIpos, hrel, hsyn, hsb, hsl⟩ :=
    ErrPattern.error_pattern (cd ++ ce) (rd ++ re) k hcb hrb hlen hk hcw
  have hnlen : (cd ++ ce).length = rd.length + re.length := by simp [hld, hle]
  by_cases h0 : I = ∅
  · -- no error at all
    have heq : cd ++ ce = rd ++ re := by
      apply List.ext_getElem hlen
      intro i h1 h2
      have := hrel i h1
      rw [h0] at this
      simp only [Finset.notMem_empty, if_false, add_zero] at this
      have := ofNat_inj (getD_lt hcb i) (getD_lt hrb i) this
      simpa [List.getD_eq_getElem?_getD, List.getElem?_eq_getElem h1, List.getElem?_eq_getElem h2]
        using this
    obtain ⟨e1, e2⟩ := List.append_inj heq hld
    subst e1; subst e2
    exact decodeBlock_clean cd ce k hcb hk1 hk hnk hcw
  · have hne : I.Nonempty := Finset.nonempty_iff_ne_empty.mpr h0
    have pat : Pattern (RS.syndromes (rd ++ re) k) I E :=
      { bytes := hsb
        pos := fun p hp => by have := (hIpos p hp).1; rw [List.length_append] at this; omega
        val := fun p hp => (hIpos p hp).2
        synd := fun j hj => hsyn j (by rwa [hsl] at hj)
        card := by rw [hsl, hIc]; omega
        ne := hne }
    obtain ⟨j, hj, hjne⟩ := Locator.first_nonzero I E X pat.inj pat.x0 pat.val hne
    have hcardk : 2 * I.card ≤ k := by rw [hIc]; omega
    have hnz : ¬ ((RS.syndromes (rd ++ re) k).all (· == 0) = true) := by
      intro hall
      apply hjne
      rw [← pat.synd j (by rw [hsl]; omega)]
      have hjl : j < (RS.syndromes (rd ++ re) k).length := by rw [hsl]; omega
      have := List.all_eq_true.mp hall _ (List.getElem_mem hjl)
      unfold gF
      rw [List.getD_eq_getElem?_getD, List.getElem?_eq_getElem hjl]
      simp only [beq_iff_eq] at this
      simp [this, ofNat_zero]
    obtain ⟨d, e, hcbk, hdl, hel, hget⟩ := correctBlock_complete pat hLD hInit
      (fun roots h1 h2 h3 h4 => hBP roots _ h1 h2 h3 hsb (by rw [h4, hsl]; omega)
        (by rw [h4, hIc]; exact hm))
      rd re (fun p hp => by have := (hIpos p hp).1; rwa [hnlen] at this)
    rw [hsl] at hcbk
    unfold decodeBlock
    rw [if_neg (by omega), if_neg (by omega)]
    simp only
    rw [if_neg hnz, hcbk]
    have hfin : d ++ e = cd ++ ce := by
      apply List.ext_getElem (by simp [hdl, hel, hld, hle])
      intro i h1 h2
      have hi : i < rd.length + re.length := by rw [← hnlen]; exact h2
      have hr := hrel i h2
      rw [hnlen] at hr
      obtain ⟨hin, hout⟩ := hget i hi
      have key : (d ++ e).getD i 0 = (cd ++ ce).getD i 0 := by
        by_cases hmem : rd.length + re.length - 1 - i ∈ I
        · obtain ⟨v, hv, hvE, hval⟩ := hin hmem
          rw [if_pos hmem, ← hvE, ← GF.ofNat_xor] at hr
          rw [hval]
          exact (ofNat_inj (getD_lt hcb i) (xor_lt_256 (getD_lt hrb i) hv) hr).symm
        · rw [if_neg hmem, add_zero] at hr
          rw [hout hmem]
          exact (ofNat_inj (getD_lt hcb i) (getD_lt hrb i) hr).symm
      simpa [List.getD_eq_getElem?_getD, List.getElem?_eq_getElem h1, List.getElem?_eq_getElem h2]
        using key
    obtain ⟨e1, e2⟩ := List.append_inj hfin (by rw [hdl, hld])
    rw [e1, e2]

/-- the whole decoder, generic in the hypotheses -/
theorem decode_complete_gen (hLD : LDIdentities) (hInit : LDInit) (m : Nat) (hBP : BPCorrectUpTo m)
    (s : Sym) (hs : s < numSizes) (d e r : List Nat)
    (hd : Bytes d) (he : Bytes e) (hrb : Bytes r)
    (hl : d.length = dataCw s) (hel : e.length = (row s).blocks * (row s).eccPer)
    (hr : r.length = totalCw s)
    (hv : Valid s d e)
    (herr : ∀ b, b < (row s).blocks →
      hamming (block s d e b) (block s (r.take (dataCw s)) (r.drop (dataCw s)) b) ≤ (row s).eccPer / 2)
    (hm : ∀ b, b < (row s).blocks →
      hamming (block s d e b) (block s (r.take (dataCw s)) (r.drop (dataCw s)) b) ≤ m) :
    RS.decode s r = .ok (d ++ e) := by
  obtain ⟨_, hk1, hk254, hB, hBd⟩ := C06.gen_monic_roots s hs
  have hecc : eccCw s = (row s).blocks * (row s).eccPer := rfl
  have htot : totalCw s = dataCw s + eccCw s := rfl
  have hdc : dataCw s = (row s).dataCw := rfl
  have hrt : (r.take (dataCw s)).length = dataCw s := by rw [List.length_take]; omega
  have hrd : (r.drop (dataCw s)).length = (row s).blocks * (row s).eccPer := by
    rw [List.length_drop]; omega
  apply BlocksAssemble.decode_of_blocks s hs d e r hl hel hr
  intro b hb
  have hrtb : Bytes (r.take (dataCw s)) := fun x hx => hrb x (List.mem_of_mem_take hx)
  have hrdb : Bytes (r.drop (dataCw s)) := fun x hx => hrb x (List.mem_of_mem_drop hx)
  have hlen255 := strided_data_len s hs d hl b
  have hce : (strided e b (row s).blocks).length = (row s).eccPer :=
    C01.strided_length_full e b _ _ hb hel
  have hre : (strided (r.drop (dataCw s)) b (row s).blocks).length = (row s).eccPer :=
    C01.strided_length_full _ b _ _ hb hrd
  have hdpos : 1 ≤ (strided d b (row s).blocks).length :=
    C01.strided_length_pos d b _ hB (by rw [hl, hdc]; omega)
  exact decodeBlock_complete hLD hInit m hBP _ _ _ _ (row s).eccPer
    (C06.strided_bytes hd b _) (C06.strided_bytes he b _) (C06.strided_bytes hrtb b _)
    (C06.strided_bytes hrdb b _)
    (by rw [C06.strided_length, C06.strided_length, hl, hrt]) (by rw [hce, hre])
    (by rw [hce]; exact hlen255) hk1 hk254 (by rw [hce]; omega) (hv b hb) (herr b hb) (hm b hb)

/-- **C03, guaranteed correction capacity**, modulo the three algorithmic hypotheses. -/
theorem decode_complete_of (hLD : LDIdentities) (hInit : LDInit) (hBP : BPCorrect)
    (s : Sym) (hs : s < numSizes) (d e r : List Nat)
    (hd : Bytes d) (he : Bytes e) (hrb : Bytes r)
    (hl : d.length = dataCw s) (hel : e.length = (row s).blocks * (row s).eccPer)
    (hr : r.length = totalCw s)
    (hv : Valid s d e)
    (herr : ∀ b, b < (row s).blocks →
      hamming (block s d e b) (block s (r.take (dataCw s)) (r.drop (dataCw s)) b) ≤ (row s).eccPer / 2) :
    RS.decode s r = .ok (d ++ e) :=
  decode_complete_gen hLD hInit ((row s).eccPer / 2) (bpCorrect_upTo hBP _) s hs d e r hd he hrb hl hel hr hv
    herr herr

/-- **C03, guaranteed correction capacity.** If the received word differs from a valid codeword
vector in at most ⌊k/2⌋ codewords of each interleaved block, the decoder answers Ok with exactly
the original vector — provided the Björck–Pereyra solver is correct (`BPCorrect`); the
Levinson–Durbin identities are proved (`LD.ldStep_alg`, `LD.ldInitW_alg`). -/
theorem decode_complete (hBP : BPCorrect)
    (s : Sym) (hs : s < numSizes) (d e r : List Nat)
    (hd : Bytes d) (he : Bytes e) (hrb : Bytes r)
    (hl : d.length = dataCw s) (hel : e.length = (row s).blocks * (row s).eccPer)
    (hr : r.length = totalCw s)
    (hv : Valid s d e)
    (herr : ∀ b, b < (row s).blocks →
      hamming (block s d e b) (block s (r.take (dataCw s)) (r.drop (dataCw s)) b) ≤ (row s).eccPer / 2) :
    RS.decode s r = .ok (d ++ e) :=
  decode_complete_of ldIdentities ldInit hBP s hs d e r hd he hrb hl hel hr hv herr

theorem eccPer_ge_two : ∀ s, s < numSizes → 2 ≤ (row s).eccPer := by decide +kernel

/-- **Single-error completeness, without any hypothesis**: at most one wrong codeword in each
interleaved block is always corrected, for every symbol size. -/
theorem decode_complete_single_error
    (s : Sym) (hs : s < numSizes) (d e r : List Nat)
    (hd : Bytes d) (he : Bytes e) (hrb : Bytes r)
    (hl : d.length = dataCw s) (hel : e.length = (row s).blocks * (row s).eccPer)
    (hr : r.length = totalCw s)
    (hv : Valid s d e)
    (herr : ∀ b, b < (row s).blocks →
      hamming (block s d e b) (block s (r.take (dataCw s)) (r.drop (dataCw s)) b) ≤ 1) :
    RS.decode s r = .ok (d ++ e) := by
  have h2 := eccPer_ge_two s hs
  exact decode_complete_gen ldIdentities ldInit 1 bpCorrect_one s hs d e r hd he hrb hl hel hr hv
    (fun b hb => le_trans (herr b hb) (by omega)) herr

end DM.Props.C03
