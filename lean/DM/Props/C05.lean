import DM.Lemmas.DecTotal
import DM.Lemmas.DecStr
import DM.Props.C08
import DM.Lemmas.RSTotal
import DM.Lemmas.LDTotal
/-!
# C05 — decoding untrusted input never panics or hangs

Proved here (for the models, whose every Rust panic site is an explicit outcome):
* `decode_data_total`: for **every** list of codewords the data decoder returns a value or
  one of its documented errors — no panic outcome, and the loop bound of the model (the
  stand-in for non-termination) is never reached;
* `decode_str_total`: the same for the string decoder: the ECI span starts recorded while decoding
  are non-decreasing and never beyond the output, so `eci::convert` never slices out of range, and
  the per-byte conversion tables (regenerated from the code) cover every byte;
* `try_from_bits_total`: the bitmap parser reads only positions inside the pixel array.

* `rs_decode_panics_only_algebraic`: for **every** symbol size and every codeword vector of that
  size's length, the Reed–Solomon decoder model (syndromes, Levinson–Durbin with its singular case,
  Chien search, malfunction test, Björck–Pereyra, correction) can reach none of its ~45 index, slice,
  subtraction, division and assertion panic sites; the only panic outcomes left are the two
  *algebraic* debug assertions that re-check equations (3) and (4) of the Levinson–Durbin recursion
  (they exist only in builds with debug assertions), and the decoder always terminates (the model's
  loops are bounded by construction; `rs_decode_length`: a success returns a vector of the same length).

* `rs_decode_total`: the two remaining assertions never fire either — equations (3) and (4) are
  invariants of the Levinson–Durbin recursion, in the regular and in the singular case
  (`DM/Lemmas/LD*.lean`: the algebra of Schmidt–Fettweis' recursion over GF(256), including the
  triangular Toeplitz system for gamma and the shifted sums of eq. (9)) — so the Reed–Solomon
  decoder model returns a value or one of its three documented errors for **every** word of the
  right length, in the checked and in the release profile alike.
-/
namespace DM.Props.C05
open DM.Model DM.Model.Dec DM.Lemmas

/-- **Totality of `decode_data`** for all inputs. -/
theorem decode_data_total (data : List Nat) :
    (∃ v, decodeData data = .ok v) ∨
    (∃ e, decodeData data = .error e ∧ (∀ s, e ≠ .panic s) ∧ e ≠ .fuel) := by
  have h := decodeData_good data
  cases hd : decodeData data with
  | ok v => exact Or.inl ⟨v, rfl⟩
  | error e =>
    refine Or.inr ⟨e, rfl, ?_, ?_⟩
    · intro s hs; subst hs; exact h _ hd
    · intro hs; subst hs; exact h _ hd

/-- **Totality of `decode_str`** for every slice of codewords (bytes): a value or a documented
error (charset, not implemented, ECI, unexpected character / end), never a panic or a hang. -/
theorem decode_str_total (data : List Nat) (hb : ∀ b ∈ data, b < 256) :
    (∃ v, decodeStr data = .ok v) ∨
    (∃ e, decodeStr data = .error e ∧ (∀ s, e ≠ .panic s) ∧ e ≠ .fuel) := by
  have h := decodeStr_good data hb
  cases hd : decodeStr data with
  | ok v => exact Or.inl ⟨v, rfl⟩
  | error e =>
    refine Or.inr ⟨e, rfl, ?_, ?_⟩
    · intro s hs; subst hs; exact h _ hd
    · intro hs; subst hs; exact h _ hd

/-- the ECI span starts handed to `eci::convert` are sorted and inside the output -/
theorem eci_spans_in_range (data : List Nat) (p : Parts) (hb : ∀ b ∈ data, b < 256)
    (h : decodeParts data false = .ok p) :
    p.ecis.Pairwise (fun a b => a.1 ≤ b.1) ∧ ∀ e ∈ p.ecis, e.1 ≤ p.output.length :=
  (decodeParts_inv data false p hb h).2

/-- the C40/Text lookup tables regenerated from the code have the lengths the decoder indexes
with and hold 7-bit values only (an upper shift cannot overflow a byte) -/
theorem decoder_tables_ok : c40TablesOK = true := c40_tables_ok

/-- **The parser stays inside the pixel array**: for every symbol size, every position checked
or copied by `try_from_bits` is below `height × width`, and the padding check stays inside the
collected entries. -/
theorem try_from_bits_total (s : Sym) (hs : s < numSizes) :
    (∀ q ∈ alignChecks s, q.1 < (row s).height * (row s).width) ∧
    (∀ p ∈ takes s, p < (row s).height * (row s).width) ∧
    (∀ q ∈ padChecks s, q.1 < contentWidth s * contentHeight s) := by
  have F := C08.finder_facts s hs
  refine ⟨fun q hq => (F.checks q hq).1, ?_, ?_⟩
  · rw [F.takes_eq]; exact F.cells_lt
  · have hdim : ∀ s, s < numSizes → (row s).padding = true →
        2 ≤ contentHeight s ∧ 2 ≤ contentWidth s := by decide +kernel
    intro q hq
    unfold padChecks at hq
    split at hq
    · rename_i hp
      obtain ⟨hh, hw⟩ := hdim s hs hp
      have hpos : contentWidth s * 2 ≤ contentWidth s * contentHeight s := Nat.mul_le_mul_left _ hh
      simp only [fdims, List.mem_cons, List.mem_nil_iff, or_false] at hq
      rcases hq with rfl | rfl | rfl | rfl <;> simp only <;> omega
    · simp at hq

/-- Non-vacuity: a macro symbol with an ECI designator inside (three spans). -/
example : (match decodeParts [236, 66, 241, 27, 67, 129] false with
    | .ok p => p.ecis == [(0, 26), (7, 0), (8, 26), (9, 26)] && p.output.length == 11
    | .error _ => false) = true := by decide +kernel

/-- Non-vacuity: a stream that drives the decoder through C40 with an upper shift. -/
example : (match decodeData [230, 10, 242, 164, 182, 254, 129, 56] with
    | .ok v => v == [0xDF, 65, 49]
    | .error _ => false) = true := by decide +kernel

/-- **The Reed–Solomon decoder never reaches an index / slice / subtraction / division / `assert!`
panic site**, for every size and every codeword vector of the size's length: the only panic
outcomes of the model are the debug re-checks of the Levinson–Durbin equations (3) and (4). -/
theorem rs_decode_panics_only_algebraic (s : Sym) (cw : List Nat)
    (hlen : cw.length = (row s).dataCw + (row s).blocks * (row s).eccPer) (site : String)
    (h : RS.decode s cw = .error (.panic site)) :
    site = "debug_assert eq (3)" ∨ site = "debug_assert eq (4)" :=
  DM.Lemmas.RSTotal.decode_panic_algebraic_of_length s cw hlen site h

/-- **Totality of the Reed–Solomon decoder**: for every size and every word of the size's length
the model returns the corrected vector or one of `TooManyErrors`, `ErrorsOutsideRange`,
`Malfunction` — no panic outcome at all (the Levinson–Durbin identities (3), (4) hold, so the two
debug assertions cannot fire either), and it terminates by construction. -/
theorem rs_decode_total (s : Sym) (cw : List Nat)
    (hlen : cw.length = (row s).dataCw + (row s).blocks * (row s).eccPer) :
    (∃ out, RS.decode s cw = .ok out) ∨
    RS.decode s cw = .error .tooManyErrors ∨ RS.decode s cw = .error .errorsOutsideRange ∨
    RS.decode s cw = .error .malfunction := by
  cases h : RS.decode s cw with
  | ok out => exact Or.inl ⟨out, rfl⟩
  | error e =>
    cases e with
    | tooManyErrors => exact Or.inr (Or.inl rfl)
    | errorsOutsideRange => exact Or.inr (Or.inr (Or.inl rfl))
    | malfunction => exact Or.inr (Or.inr (Or.inr rfl))
    | panic site => exact absurd h (DM.Lemmas.LD.decode_noPanic_of_length s cw hlen site)

/-- the locator search never panics, for every syndrome vector of bytes -/
theorem levinson_durbin_total (syn : List Nat) (hb : ∀ x ∈ syn, x < 256) (site : String) :
    RS.levinsonDurbin syn ≠ .error (.panic site) :=
  DM.Lemmas.LD.levinsonDurbin_noPanic syn hb site

/-- a successful Reed–Solomon decode returns a vector of the same length -/
theorem rs_decode_length (s : Sym) (cw : List Nat)
    (hlen : cw.length = (row s).dataCw + (row s).blocks * (row s).eccPer) (out : List Nat)
    (h : RS.decode s cw = .ok out) : out.length = cw.length :=
  DM.Lemmas.RSTotal.decode_length s cw hlen out h

/-- the locator search on its own: for every syndrome vector -/
theorem levinson_durbin_panics_only_algebraic (syn : List Nat) (site : String)
    (h : RS.levinsonDurbin syn = .error (.panic site)) :
    site = "debug_assert eq (3)" ∨ site = "debug_assert eq (4)" :=
  DM.Lemmas.RSTotal.levinsonDurbin_panic_algebraic syn site h

/-- the Chien search never panics and returns pairwise distinct non-zero roots (after an optional 0) -/
theorem chien_search_total (c : List Nat) :
    ∃ zero rs, RS.chienSearch c = .ok (zero ++ rs) ∧ (zero = [] ∨ zero = [0]) ∧ rs.Nodup ∧ ∀ r ∈ rs, r ≠ 0 ∧ r < 256 :=
  DM.Lemmas.RSTotal.chienSearch_spec c

end DM.Props.C05
