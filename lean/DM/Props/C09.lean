import DM.Lemmas.RSDist
import DM.Props.C06
import DM.Props.C01
/-!
# C09 — what "a valid codeword of the symbol's interleaved Reed–Solomon code" means, and how far
apart valid words are

`Valid s data ecc` (every interleaved block has zero table-free syndromes — the oracle that the
exploration check of C09 applies to every word the decoder leaves behind) is proved equivalent to
the property's own wording "re-encoding the data part reproduces the error-correction part"
(`valid_iff_reencode`).  `valid_distance`: two valid words that differ in at most `k` codewords
per block are equal, so any miscorrection lands at distance > k from every other valid word.
`valid_fixed`: a valid word passes the decoder unchanged.

Not proved: that the word left behind by a successful `decode` is valid (needs the correctness
of Levinson–Durbin and Björck–Pereyra); that part of C09 is decided by exploration.
-/
namespace DM.Props.C09
open DM.Gen DM.Model DM.Spec DM.Lemmas

/-- interleaved block `b`: data part followed by the same stride of the error part -/
def block (s : Sym) (data ecc : List Nat) (b : Nat) : List Nat :=
  strided data b (row s).blocks ++ strided ecc b (row s).blocks

/-- every interleaved block is a codeword (zero syndromes at 2^1 … 2^k, table-free arithmetic) -/
def Valid (s : Sym) (data ecc : List Nat) : Prop :=
  ∀ b, b < (row s).blocks → isCodeword (block s data ecc b) (row s).eccPer = true

/-- number of positions in which two blocks differ -/
def hamming (a b : List Nat) : Nat :=
  ((List.range a.length).filter fun i => a.getD i 0 != b.getD i 0).length

/-- no block is longer than 255 codewords -/
theorem block_len_le :
    ∀ s, s < numSizes → ((row s).dataCw + (row s).blocks - 1) / (row s).blocks + (row s).eccPer ≤ 255 := by
  decide +kernel

theorem strided_data_len (s : Sym) (hs : s < numSizes) (data : List Nat) (hl : data.length = dataCw s) (b : Nat) :
    (strided data b (row s).blocks).length + (row s).eccPer ≤ 255 := by
  have h := block_len_le s hs
  rw [C06.strided_length, hl]
  have : ((row s).dataCw - b + (row s).blocks - 1) / (row s).blocks
      ≤ ((row s).dataCw + (row s).blocks - 1) / (row s).blocks := Nat.div_le_div_right (by omega)
  unfold dataCw
  omega

theorem getD_strided (l : List Nat) (B j : Nat) (hB : 0 < B) (hj : j < l.length) :
    (strided l (j % B) B).getD (j / B) 0 = l.getD j 0 := by
  unfold strided
  have hdm : j % B + j / B * B = j := Nat.mod_add_div' j B
  have hcount : j / B < (l.length - j % B + B - 1) / B := by
    have : j / B + 1 ≤ (l.length - j % B + B - 1) / B := by
      rw [Nat.le_div_iff_mul_le hB, Nat.add_mul, Nat.one_mul]
      omega
    omega
  rw [List.getD_eq_getElem?_getD, List.getElem?_map, List.getElem?_range hcount]
  simp [hdm]

/-- a list is determined by its de-interleaved parts -/
theorem strided_ext (x y : List Nat) (B : Nat) (hB : 0 < B) (hlen : x.length = y.length)
    (h : ∀ b, b < B → strided x b B = strided y b B) : x = y := by
  apply List.ext_getElem hlen
  intro j h1 h2
  have e1 := getD_strided x B j hB h1
  have e2 := getD_strided y B j hB h2
  rw [h _ (Nat.mod_lt _ hB), e2] at e1
  simpa [List.getD_eq_getElem?_getD, List.getElem?_eq_getElem h1, List.getElem?_eq_getElem h2] using e1.symm

theorem hamming_set (a b : List Nat) :
    ∀ i, a.getD i 0 ≠ b.getD i 0 → a.length = b.length →
      i ∈ ((List.range a.length).filter fun i => a.getD i 0 != b.getD i 0).toFinset := by
  intro i hne hlen
  rw [List.mem_toFinset, List.mem_filter, List.mem_range]
  refine ⟨?_, by simpa using hne⟩
  by_contra hge
  apply hne
  rw [List.getD_eq_getElem?_getD, List.getD_eq_getElem?_getD,
    List.getElem?_eq_none (by omega), List.getElem?_eq_none (by omega)]

/-- two codewords of one block at Hamming distance ≤ k are equal -/
theorem block_distance (a b : List Nat) (k : Nat) (ha : Bytes a) (hb : Bytes b)
    (hlen : a.length = b.length) (hn : a.length ≤ 255) (hk : k < 254)
    (hca : isCodeword a k = true) (hcb : isCodeword b k = true) (hd : hamming a b ≤ k) : a = b :=
  codewords_agree a b k ha hb hlen hn hk hca hcb _
    (le_trans (List.toFinset_card_le _) hd) (fun i hne => hamming_set a b i hne hlen)

/-- two codewords of one block that are both within ⌊k/2⌋ of the same word are equal -/
theorem block_unique (a b r : List Nat) (k : Nat) (ha : Bytes a) (hb : Bytes b)
    (hlen : a.length = b.length) (hlr : a.length = r.length) (hn : a.length ≤ 255) (hk : k < 254)
    (hca : isCodeword a k = true) (hcb : isCodeword b k = true)
    (h1 : hamming a r ≤ k / 2) (h2 : hamming b r ≤ k / 2) : a = b := by
  classical
  apply codewords_agree a b k ha hb hlen hn hk hca hcb
    (((List.range a.length).filter fun i => a.getD i 0 != r.getD i 0).toFinset ∪
     ((List.range b.length).filter fun i => b.getD i 0 != r.getD i 0).toFinset)
  · refine le_trans (Finset.card_union_le _ _) ?_
    have c1 := List.toFinset_card_le ((List.range a.length).filter fun i => a.getD i 0 != r.getD i 0)
    have c2 := List.toFinset_card_le ((List.range b.length).filter fun i => b.getD i 0 != r.getD i 0)
    unfold hamming at h1 h2
    omega
  · intro i hne
    rw [Finset.mem_union]
    by_cases h : a.getD i 0 = r.getD i 0
    · right
      exact hamming_set b r i (by rw [← h]; exact fun e => hne e.symm) (by omega)
    · left
      exact hamming_set a r i h hlr

theorem block_parts (s : Sym) (hs : s < numSizes) (d1 e1 d2 e2 : List Nat)
    (hl1 : d1.length = dataCw s) (hl2 : d2.length = dataCw s)
    (hel1 : e1.length = (row s).blocks * (row s).eccPer) (hel2 : e2.length = (row s).blocks * (row s).eccPer)
    (h : ∀ b, b < (row s).blocks → block s d1 e1 b = block s d2 e2 b) : d1 = d2 ∧ e1 = e2 := by
  obtain ⟨_, _, _, hB, _⟩ := C06.gen_monic_roots s hs
  have hsplit : ∀ b, b < (row s).blocks →
      strided d1 b (row s).blocks = strided d2 b (row s).blocks ∧
      strided e1 b (row s).blocks = strided e2 b (row s).blocks := by
    intro b hb
    have := h b hb
    unfold block at this
    exact List.append_inj this (by rw [C06.strided_length, C06.strided_length, hl1, hl2])
  exact ⟨strided_ext d1 d2 _ hB (by omega) (fun b hb => (hsplit b hb).1),
    strided_ext e1 e2 _ hB (by omega) (fun b hb => (hsplit b hb).2)⟩

theorem block_bytes {s : Sym} {d e : List Nat} (hd : Bytes d) (he : Bytes e) (b : Nat) :
    Bytes (block s d e b) :=
  (C06.strided_bytes hd b _).append (C06.strided_bytes he b _)

theorem block_length (s : Sym) (d e : List Nat) (b : Nat) (hb : b < (row s).blocks)
    (hel : e.length = (row s).blocks * (row s).eccPer) :
    (block s d e b).length = (strided d b (row s).blocks).length + (row s).eccPer := by
  unfold block
  rw [List.length_append, C01.strided_length_full e b _ _ hb hel]

/-- **Distance of the symbol's code.** Two valid words of one symbol size that differ in at most
`k` codewords in each interleaved block (`k` = error codewords per block) are the same word. -/
theorem valid_distance (s : Sym) (hs : s < numSizes) (d1 e1 d2 e2 : List Nat)
    (hd1 : Bytes d1) (he1 : Bytes e1) (hd2 : Bytes d2) (he2 : Bytes e2)
    (hl1 : d1.length = dataCw s) (hl2 : d2.length = dataCw s)
    (hel1 : e1.length = (row s).blocks * (row s).eccPer) (hel2 : e2.length = (row s).blocks * (row s).eccPer)
    (hv1 : Valid s d1 e1) (hv2 : Valid s d2 e2)
    (hclose : ∀ b, b < (row s).blocks → hamming (block s d1 e1 b) (block s d2 e2 b) ≤ (row s).eccPer) :
    d1 = d2 ∧ e1 = e2 := by
  obtain ⟨_, _, hk254, _, _⟩ := C06.gen_monic_roots s hs
  apply block_parts s hs d1 e1 d2 e2 hl1 hl2 hel1 hel2
  intro b hb
  have hlen : (block s d1 e1 b).length = (block s d2 e2 b).length := by
    rw [block_length s d1 e1 b hb hel1, block_length s d2 e2 b hb hel2, C06.strided_length,
      C06.strided_length, hl1, hl2]
  exact block_distance _ _ _ (block_bytes hd1 he1 b) (block_bytes hd2 he2 b) hlen
    (by rw [block_length s d1 e1 b hb hel1]; exact strided_data_len s hs d1 hl1 b) hk254
    (hv1 b hb) (hv2 b hb) (hclose b hb)

theorem hamming_same_data (sd x y : List Nat) (k : Nat) (hx : x.length = k) (hy : y.length = k) :
    hamming (sd ++ x) (sd ++ y) ≤ k := by
  unfold hamming
  have hsub : ((List.range (sd ++ x).length).filter fun i => (sd ++ x).getD i 0 != (sd ++ y).getD i 0)
      = ((List.range (sd ++ x).length).filter fun i =>
          ((sd ++ x).getD i 0 != (sd ++ y).getD i 0) && decide (sd.length ≤ i)) := by
    apply List.filter_congr
    intro i _
    by_cases h : sd.length ≤ i
    · simp [h]
    · have h' : i < sd.length := by omega
      simp [h, List.getD_eq_getElem?_getD, List.getElem?_append_left h']
  rw [hsub]
  have : ((List.range (sd ++ x).length).filter fun i =>
      ((sd ++ x).getD i 0 != (sd ++ y).getD i 0) && decide (sd.length ≤ i)).length
      ≤ ((List.range (sd ++ x).length).filter fun i => decide (sd.length ≤ i)).length := by
    rw [← List.filter_filter]
    exact List.length_filter_le _ _
  refine le_trans this ?_
  rw [List.length_append, hx, List.range_add, List.filter_append]
  have h1 : (List.range sd.length).filter (fun i => decide (sd.length ≤ i)) = [] := by
    rw [List.filter_eq_nil_iff]
    intro i hi
    have := List.mem_range.mp hi
    simp; omega
  rw [h1, List.nil_append]
  refine le_trans (List.length_filter_le _ _) ?_
  simp

/-- **"Valid codeword" as the property words it.** For a word of the right shape, all interleaved
blocks have zero syndromes iff re-encoding its data part reproduces its error-correction part. -/
theorem valid_iff_reencode (s : Sym) (hs : s < numSizes) (data ecc : List Nat)
    (hd : Bytes data) (he : Bytes ecc) (hl : data.length = dataCw s)
    (hel : ecc.length = (row s).blocks * (row s).eccPer) :
    Valid s data ecc ↔ encodeError s data = .ok ecc := by
  obtain ⟨ecc', henc, hlen', hb', hcw'⟩ := C06.encode_error_conformant s hs data hd hl
  have hel' : ecc'.length = (row s).blocks * (row s).eccPer := by rw [hlen']; simp [C12.toStd]
  constructor
  · intro hv
    have := valid_distance s hs data ecc data ecc' hd he hd hb' hl hl hel hel' hv hcw'
      (fun b hb => hamming_same_data _ _ _ _ (C01.strided_length_full ecc b _ _ hb hel)
        (C01.strided_length_full ecc' b _ _ hb hel'))
    rw [henc, this.2]
  · intro h
    rw [henc] at h
    cases h
    exact hcw'

/-- a valid word passes the error decoder unchanged -/
theorem valid_fixed (s : Sym) (hs : s < numSizes) (data ecc : List Nat)
    (hd : Bytes data) (he : Bytes ecc) (hl : data.length = dataCw s)
    (hel : ecc.length = (row s).blocks * (row s).eccPer) (hv : Valid s data ecc) :
    RS.decode s (data ++ ecc) = .ok (data ++ ecc) :=
  C01.clean_word_unchanged s hs data ecc hd hl he hel hv

/-- Non-vacuity: the 10x10 codeword of C06's example is valid; one changed codeword is not. -/
example : Valid 0 [23, 40, 11] [255, 207, 37, 244, 81] := by
  intro b hb
  have : b = 0 := by
    have : (row 0).blocks = 1 := by decide +kernel
    omega
  subst this
  decide +kernel
example : ¬ Valid 0 [23, 40, 12] [255, 207, 37, 244, 81] := by
  intro h
  have := h 0 (by decide +kernel)
  revert this
  decide +kernel

end DM.Props.C09
