import DM.Lemmas.CoupleMain
import DM.Lemmas.CoupleAscii
import DM.Lemmas.CoupleB256
import DM.Lemmas.CoupleX12
import DM.Lemmas.CoupleEdi
import DM.Lemmas.CoupleC40
/-!
# C18 (last sentence) / C11 (encoder half) — the planner / encoder coupling, assembled

"The encoder never needs a larger symbol than the size the planner predicted for its chosen plan"
(C18), and "no assertion of the encoder fires on the planner's own plan" (C11, encoder half).

`Lemmas/CoupleMain.lean` composes per-mode facts along the switch list of the plan `Plan.optimize`
returns; it takes four families of hypotheses, one statement per mode each:

* `SwitchSegX m`   — a segment of mode `m` that ends with a planned switch;
* `LateSwitchSeg m` — C40 / Text followed by the switch to ASCII two characters before the end;
* `EndSegSym m`    — the segment that runs to the end of the data;
* `SegProgress m`  — a non-ASCII segment ended by a switch accounts for ≥ 2 codewords.

This file discharges them

* for ASCII, Base 256, X12 and EDIFACT from `Lemmas/CoupleAscii.lean`, `CoupleB256.lean`,
  `CoupleX12.lean`, `CoupleEdi.lean` (section "the four proved modes");
* for C40 / Text from `Lemmas/CoupleC40.lean` (section "C40 / Text: discharging the hypothesis"); the
  eight C40 / Text statements are collected in the structure `C40Facts`, the intermediate theorems
  `predicted_size_suffices_partial` / `encoder_no_panic_partial` take it as a hypothesis, and
  `c40Facts : C40Facts` proves it.

**Final theorems** (last section): `predicted_size_suffices_planOK` (C18) and `encoder_no_panic_planOK`
(C11).  Their only hypothesis beyond "`plan` is the plan `optimize` returns for the byte string `body`"
is the decidable condition `CoupleMain.planOK body plan = true`: no switch out of C40 / Text at one of
the last two positions of a message that ends with two digits, other than the final switch to ASCII
exactly two characters before the end.  (For plans outside `planOK` the encoder's two-digit special
cases override the plan; `CoupleC40.switchSeg_c40_false` is a counterexample to the unrestricted
per-segment statement.)

Two non-vacuity examples (section "non-vacuity") evaluate the models on concrete messages with mixed
plans: X12 → Base 256 → ASCII, and C40 → Text (where the encoder needs a *smaller* symbol than
predicted).
-/
namespace DM.Props.C18Couple
open DM.Model DM.Model.Plan DM.Model.Enc DM.Lemmas DM.Lemmas.AsciiRT DM.Lemmas.Couple DM.Lemmas.CoupleMain DM.Model.PlanSide

/-! ### the four proved modes -/

/-- the encoder state on which the planner-side conjuncts of a per-mode lemma are read off -/
def probe (body : List Nat) (list : List Sym) (p w : Nat) (m : EMode) (plan : List (Nat × EMode)) : St :=
  { input := body, pos := p, mode := m, plan := plan, newMode := none, cw := List.replicate w 0, list := list }

theorem probe_encAt (body : List Nat) (list : List Sym) (p w : Nat) (m : EMode) (plan : List (Nat × EMode)) :
    EncAt body list (probe body list p w m plan) p w m plan :=
  ⟨rfl, rfl, rfl, List.length_replicate .., rfl, rfl, rfl⟩

/-! #### segments that end with a planned switch -/

theorem switchSegX_ascii : SwitchSegX .ascii := switchSegX_of_switchSeg _ CoupleAscii.switchSeg_ascii
theorem switchSegX_base256 : SwitchSegX .base256 := switchSegX_of_switchSeg _ CoupleB256.switchSeg_base256
theorem switchSegX_x12 : SwitchSegX .x12 := switchSegX_of_switchSeg _ CoupleX12.switchSeg_x12
theorem switchSegX_edifact : SwitchSegX .edifact := switchSegX_of_switchSeg _ CoupleEdi.switchSeg_edifact

/-! #### the late switch to ASCII exists for C40 / Text only -/

theorem lateSwitchSeg_of_ne (m : EMode) (h1 : m ≠ .c40) (h2 : m ≠ .text) : LateSwitchSeg m := by
  intro body list p w k g0 gk ac ctx' s _ _ _ hc
  rcases hc with hc | hc
  · exact absurd hc h1
  · exact absurd hc h2

theorem lateSwitchSeg_ascii : LateSwitchSeg .ascii := lateSwitchSeg_of_ne _ (by decide) (by decide)
theorem lateSwitchSeg_base256 : LateSwitchSeg .base256 := lateSwitchSeg_of_ne _ (by decide) (by decide)
theorem lateSwitchSeg_x12 : LateSwitchSeg .x12 := lateSwitchSeg_of_ne _ (by decide) (by decide)
theorem lateSwitchSeg_edifact : LateSwitchSeg .edifact := lateSwitchSeg_of_ne _ (by decide) (by decide)

/-! #### the segment that runs to the end of the data -/

/-- `EndSegW` (codeword inequality + `w ≤ s'.cw.length`) implies the symbol-level form: what fits the
planner's count fits the symbol chosen for that count -/
theorem endSegSym_of_endSegW (m : EMode) (h : CoupleAscii.EndSegW m) : EndSegSym m := by
  intro body list p w k g0 gk gE r s hb hpk hk hpl hst hs hre henc
  obtain ⟨h1, h2⟩ := h body list p w k g0 gk gE r s hb hpk hk hpl hst hs hre henc
  refine ⟨h1, ?_⟩
  rcases h2 with ⟨s', a, b, c, d, e, f, g, g'⟩ | h2
  · left
    refine ⟨s', a, b, c, d, e, f, g', ?_⟩
    intro sym hsym
    have := fbe_some_ge list _ sym hsym
    obtain ⟨_, d2⟩ := ceil12_facts (gE.cost - g0.extra)
    omega
  · right; exact h2

theorem endSegSym_ascii : EndSegSym .ascii := endSegSym_of_endSegW _ CoupleAscii.endSegW_ascii
theorem endSegSym_base256 : EndSegSym .base256 := endSegSym_of_endSegW _ CoupleB256.endSegW_base256
theorem endSegSym_x12 : EndSegSym .x12 := CoupleX12.endSeg_x12'

theorem endSegSym_edifact : EndSegSym .edifact := by
  intro body list p w k g0 gk gE r s hb hpk hk hpl hst hs hre henc
  obtain ⟨h1, h2⟩ := CoupleEdi.endSeg'_edifact body list p w k g0 gk gE r s hb hpk hk hpl hst hs hre henc
  refine ⟨h1, ?_⟩
  rcases h2 with ⟨s', a, b, c, d, e, f, g, h, _⟩ | h2
  · exact Or.inl ⟨s', a, b, c, d, e, f, g, h⟩
  · exact Or.inr h2

/-! #### progress of a non-ASCII segment that ends with a switch

Planner side only: the per-mode lemma is read on the `probe` state with ASCII as the next mode. -/

theorem segProgress_ascii : SegProgress .ascii := by
  intro body list p w k g0 gk ac ctx' _ _ _ hne
  exact absurd rfl hne

theorem segProgress_base256 : SegProgress .base256 := by
  intro body list p w k g0 gk ac ctx' hb hlt hk _ _ hpl hst hsp hsc hul
  exact (CoupleB256.switchSegP_base256 body list p w k g0 gk ac ctx' .ascii []
    (probe body list p w .base256 [(body.length - (p + k), .ascii)]) hb hlt (Or.inl hk) hpl hst hsp hsc hul
    (by decide) (probe_encAt ..)).2

theorem segProgress_x12 : SegProgress .x12 := by
  intro body list p w k g0 gk ac ctx' hb hlt hk _ _ hpl hst hsp hsc hul
  exact (CoupleX12.switchSeg_x12' body list p w k g0 gk ac ctx' .ascii []
    (probe body list p w .x12 [(body.length - (p + k), .ascii)]) hb hlt (Or.inl hk) hpl hst hsp hsc hul
    (by decide) (probe_encAt ..)).2.1

theorem segProgress_edifact : SegProgress .edifact := by
  intro body list p w k g0 gk ac ctx' hb hlt hk _ _ hpl hst hsp hsc hul
  exact (CoupleEdi.switchSegP_edifact body list p w k g0 gk ac ctx' .ascii []
    (probe body list p w .edifact [(body.length - (p + k), .ascii)]) hb hlt (Or.inl hk) hpl hst hsp hsc hul
    (by decide) (probe_encAt ..)).2.2.1

/-! ### C40 / Text: the hypothesis -/

/-- **What the composition needs to know about the C40 / Text plan and encoder** (to be supplied by
`Lemmas/CoupleC40.lean`).  The statements are those of `Lemmas/CoupleMain.lean`, instantiated:

* `sX_*`: a C40 / Text segment that ends with a planned switch which is *not* at one of the last two
  positions of a message ending with two digits: the price charged is twelve times the codewords
  `write_unlatch` accounts for, and the mode encoder consumes exactly the segment, writes exactly those
  codewords and leaves with the latch of the planned mode pending — or stops with `tooMuch` when no listed
  symbol holds them;
* `late_*`: the same for the switch to ASCII exactly two characters before the end, both digits, where the
  encoder ends in ASCII-until-the-end with at most the priced codewords;
* `end_*`: the segment that runs to the end of the data: what the encoder writes plus the ASCII size of the
  tail it leaves fits the symbol predicted from the planner's cost;
* `prog_*`: a segment that ends with a switch accounts for at least two codewords after the latch. -/
structure C40Facts : Prop where
  sX_c40 : SwitchSegX .c40
  sX_text : SwitchSegX .text
  late_c40 : LateSwitchSeg .c40
  late_text : LateSwitchSeg .text
  end_c40 : EndSegSym .c40
  end_text : EndSegSym .text
  prog_c40 : SegProgress .c40
  prog_text : SegProgress .text

/-! ### all six modes -/

theorem switchSegX_all (hc : C40Facts) : ∀ m, SwitchSegX m
  | .ascii => switchSegX_ascii
  | .c40 => hc.sX_c40
  | .text => hc.sX_text
  | .x12 => switchSegX_x12
  | .edifact => switchSegX_edifact
  | .base256 => switchSegX_base256

theorem lateSwitchSeg_all (hc : C40Facts) : ∀ m, LateSwitchSeg m
  | .ascii => lateSwitchSeg_ascii
  | .c40 => hc.late_c40
  | .text => hc.late_text
  | .x12 => lateSwitchSeg_x12
  | .edifact => lateSwitchSeg_edifact
  | .base256 => lateSwitchSeg_base256

theorem endSegSym_all (hc : C40Facts) : ∀ m, EndSegSym m
  | .ascii => endSegSym_ascii
  | .c40 => hc.end_c40
  | .text => hc.end_text
  | .x12 => endSegSym_x12
  | .edifact => endSegSym_edifact
  | .base256 => endSegSym_base256

theorem segProgress_all (hc : C40Facts) : ∀ m, SegProgress m
  | .ascii => segProgress_ascii
  | .c40 => hc.prog_c40
  | .text => hc.prog_text
  | .x12 => segProgress_x12
  | .edifact => segProgress_edifact
  | .base256 => segProgress_base256

/-! ### the final theorems (modulo `C40Facts`) -/

/-- **C18, last sentence: the predicted size suffices** (for plans within `planOK`; C40 / Text facts as
hypothesis `hc`).

Let `plan` be the plan the optimiser returns for `body` after `pre.length` prefix codewords, and
`o.cost12 / 12` the codewords it predicts.  Then one of the following (mutually exclusive) cases describes the encoder's run
on that plan:
1. the symbol list is empty: the encoder answers `listEmpty`;
2. the message has more characters than the largest listed symbol holds as digit pairs: the encoder
   answers `tooMuch` before it looks at the plan;
3. the encoder succeeds, and the symbol it chooses is no larger than the symbol
   `first_symbol_big_enough_for` returns for prefix + predicted codewords (if it returns one);
4. the encoder answers `tooMuch`, and prefix + predicted codewords fit no listed symbol either. -/
theorem predicted_size_suffices_partial (hc : C40Facts)
    (body pre : List Nat) (list : List Sym) (modes : Nat) (perms : List (List Nat)) (o : Outcome)
    (plan : List (Nat × EMode)) (hb : ByteList body)
    (hopt : Plan.optimize body pre.length list modes perms = .ok o) (hp : o.plan = some plan)
    (hok : planOK body plan = true) :
    (list = [] ∧ Enc.run list pre body plan = .error .listEmpty) ∨
    (list ≠ [] ∧ maxCapacity list < body.length ∧ Enc.run list pre body plan = .error .tooMuch) ∨
    (list ≠ [] ∧ body.length ≤ maxCapacity list ∧ ∃ cw sym, Enc.run list pre body plan = .ok (cw, sym) ∧
      ∀ ps, firstBigEnough list (pre.length + o.cost12 / 12) = some ps → dataCw sym ≤ dataCw ps) ∨
    (list ≠ [] ∧ body.length ≤ maxCapacity list ∧ Enc.run list pre body plan = .error .tooMuch ∧
      firstBigEnough list (pre.length + o.cost12 / 12) = none) :=
  CoupleMain.predicted_size_suffices_partial (switchSegX_all hc) (lateSwitchSeg_all hc) (endSegSym_all hc)
    (segProgress_all hc) body pre list modes perms o plan hb hopt hp hok

/-- **C11, encoder half: on the optimiser's own plan (within `planOK`) the encoder model reaches none of
its panic sites and does not run out of fuel** (C40 / Text facts as hypothesis `hc`). -/
theorem encoder_no_panic_partial (hc : C40Facts)
    (body pre : List Nat) (list : List Sym) (modes : Nat) (perms : List (List Nat)) (o : Outcome)
    (plan : List (Nat × EMode)) (hb : ByteList body)
    (hopt : Plan.optimize body pre.length list modes perms = .ok o) (hp : o.plan = some plan)
    (hok : planOK body plan = true) :
    (∀ site, Enc.run list pre body plan ≠ .error (.panic site)) ∧ Enc.run list pre body plan ≠ .error .fuel :=
  CoupleMain.encoder_no_panic_partial (switchSegX_all hc) (lateSwitchSeg_all hc) (endSegSym_all hc)
    (segProgress_all hc) body pre list modes perms o plan hb hopt hp hok

/-! ### non-vacuity

The hypotheses of the two theorems (other than `C40Facts`) are satisfiable on a message for which the
optimiser returns a mixed plan: the bytes of `"ABCDEFGHI"`, six bytes ≥ 200 and `"123456"` after one
prefix codeword (232, FNC1), the 30 standard sizes, ASCII + X12 + Base 256 enabled (`modes = 41`), and the
sort permutations a stable sort by cost produces (computed by running the model with an insertion sort).
The optimiser plans X12 for the nine letters, Base 256 for the six bytes and ASCII for the digits at
19 codewords (`228 / 12`); the encoder, run on that plan, returns 22 codewords = 1 prefix + 19 + 2 pad
in symbol 9 (22 data codewords), the symbol predicted for 1 + 19 codewords — case 3 of
`predicted_size_suffices_partial`. -/

deriving instance DecidableEq for Outcome

def exBody : List Nat := [65, 66, 67, 68, 69, 70, 71, 72, 73, 200, 201, 202, 203, 204, 205, 49, 50, 51, 52, 53, 54]
def exPre : List Nat := [232]
def exList : List Sym := symbolList (List.range 30)
def exModes : Nat := 41
def exPerms : List (List Nat) :=
  [[0, 2, 1], [0, 3, 2, 1, 4, 5, 6], [0, 3, 4, 2, 1, 5, 6, 8, 9, 7, 10], [3, 0, 6, 2, 4, 1, 7, 8, 10, 11, 9, 12, 5],
   [0, 4, 1, 3, 5, 2, 7, 8, 10, 11, 9, 12, 6], [0, 1, 3, 2, 4, 5, 7, 8, 6, 9], [0, 1, 3, 5, 2, 4, 6, 7, 9, 10, 8, 11],
   [0, 1, 4, 7, 3, 6, 2, 5, 8, 9, 11, 12, 14, 15, 10, 13, 16], [0, 1, 4, 7, 3, 6, 2, 5, 8, 9, 11, 12, 14, 15, 10, 13, 16],
   [0, 1], [0, 2, 1, 3], [2, 0, 3, 1], [0, 1], [0, 1], [0, 1], [1, 0, 2], [0, 2, 1, 4, 3], [0, 2, 1, 3], [0, 2, 1, 3],
   [0, 2, 1, 3], [0, 1, 2, 3], [0]]
def exPlan : List (Nat × EMode) := [(21, .x12), (12, .base256), (6, .ascii), (0, .ascii)]
def exOutcome : Outcome := { plan := some exPlan, cost12 := 228, steps := 152, maxLive := 7 }

example :
    ByteList exBody ∧
    Plan.optimize exBody exPre.length exList exModes exPerms = .ok exOutcome ∧
    exOutcome.plan = some exPlan ∧
    planOK exBody exPlan = true ∧
    exList ≠ [] ∧ exBody.length ≤ maxCapacity exList ∧
    Enc.run exList exPre exBody exPlan =
      .ok ([232, 238, 89, 233, 109, 36, 128, 95, 254, 231, 116, 204, 98, 249, 143, 38, 188, 142, 164, 186, 129, 118], 9) ∧
    firstBigEnough exList (exPre.length + exOutcome.cost12 / 12) = some 9 := by
  refine ⟨by decide, by decide +kernel, rfl, by decide +kernel, by decide +kernel, by decide +kernel,
    by decide +kernel, by decide +kernel⟩

/-- the theorems apply to this instance (their hypotheses have the shape established above) -/
example (hc : C40Facts) :
    (∀ site, Enc.run exList exPre exBody exPlan ≠ .error (.panic site)) ∧
      Enc.run exList exPre exBody exPlan ≠ .error .fuel :=
  encoder_no_panic_partial hc exBody exPre exList exModes exPerms exOutcome exPlan (by decide) (by decide +kernel) rfl
    (by decide +kernel)

/-! A second instance, with C40 and Text segments: the bytes of `"ABCDEFGHIabcdefghi12"`, no prefix
codewords, ASCII + C40 + Text enabled (`modes = 7`).  The optimiser plans C40 for the nine upper-case
letters and Text for the rest at 17 codewords (`204 / 12`), which asks for symbol 7 (18 data codewords);
the encoder ends the Text segment with the two digits as one ASCII codeword and needs 16 codewords only:
symbol 6 — smaller than predicted, as the theorem allows. -/

def ex2Body : List Nat := [65, 66, 67, 68, 69, 70, 71, 72, 73, 97, 98, 99, 100, 101, 102, 103, 104, 105, 49, 50]
def ex2Modes : Nat := 7
def ex2Perms : List (List Nat) :=
  [[0, 2, 1], [0, 3, 2, 1], [0, 3, 4, 2, 1], [3, 0, 4, 2, 1], [0, 1, 3, 2, 4, 5, 6], [0, 1, 3, 2, 4, 5, 6], [0, 1, 3, 2],
   [0, 1, 3, 2, 4, 5, 6], [0, 1, 3, 2], [0, 1, 2], [0, 3, 6, 4, 1, 5, 2], [0, 3, 6, 4, 5, 1, 2], [6, 3, 0, 4, 1, 5, 2],
   [0, 1, 2, 4, 3, 5, 6], [0, 1, 2, 4, 3, 5, 6], [0, 1, 2, 3, 4, 5, 6], [0, 1, 2, 3, 4, 5, 6], [0, 1, 2, 3], [0], [0], [0]]
def ex2Plan : List (Nat × EMode) := [(20, .c40), (11, .text), (0, .text)]

example : ∃ o,
    ByteList ex2Body ∧
    Plan.optimize ex2Body ([] : List Nat).length exList ex2Modes ex2Perms = .ok o ∧
    o.plan = some ex2Plan ∧ o.cost12 = 204 ∧
    planOK ex2Body ex2Plan = true ∧
    exList ≠ [] ∧ ex2Body.length ≤ maxCapacity exList ∧
    Enc.run exList [] ex2Body ex2Plan =
      .ok ([230, 89, 233, 109, 36, 128, 95, 254, 239, 89, 233, 109, 36, 128, 95, 142], 6) ∧
    firstBigEnough exList (([] : List Nat).length + o.cost12 / 12) = some 7 ∧
    dataCw 6 = 16 ∧ dataCw 7 = 18 := by
  refine ⟨{ plan := some ex2Plan, cost12 := 204, steps := 105, maxLive := 3 }, by decide, ?_, rfl, rfl,
    by decide +kernel, by decide +kernel, by decide +kernel, by decide +kernel, by decide +kernel, by decide +kernel,
    by decide +kernel⟩
  decide +kernel

/-! ### C40 / Text: discharging the hypothesis

`Lemmas/CoupleC40.lean` states its results for `cmode text` (`text = false`: C40, `text = true`: Text) and
with its own side conditions `digitSplit` / `digitTail`; here they are brought into the shape of
`C40Facts`.  `lateDigits body r` (`r` characters remain, `r ∈ {1, 2}`, the message ends with two digits)
is exactly "`digitSplit` or `digitTail`" at the switch position. -/

/-- two digits at position `a = len - 2`: the message ends with two digits -/
theorem lateDigits_of_twoDigits (body : List Nat) (a r : Nat) (h1 : a + 2 = body.length)
    (h2 : twoDigitsComing (body.drop a) = true) (hr : r = 1 ∨ r = 2) : lateDigits body r = true := by
  obtain ⟨d1, d2⟩ := CoupleC40.two_digits_last h1 h2
  have e1 : body.length - 2 = a := by omega
  have e2 : body.length - 1 = a + 1 := by omega
  have e3 : 2 ≤ body.length := by omega
  unfold lateDigits
  rw [e1, e2, d1, d2]
  rcases hr with rfl | rfl <;> simp [e3]

theorem twoDigits_of_lateDigits (body : List Nat) (a r : Nat) (h1 : a + 2 = body.length)
    (h : lateDigits body r = true) : twoDigitsComing (body.drop a) = true := by
  have e1 : body.length - 2 = a := by omega
  have e2 : body.length - 1 = a + 1 := by omega
  simp only [lateDigits, Bool.and_eq_true, e1, e2] at h
  obtain ⟨⟨_, d1⟩, d2⟩ := h
  have ha : a < body.length := by omega
  have ha1 : a + 1 < body.length := by omega
  rw [List.drop_eq_getElem_cons ha, List.drop_eq_getElem_cons ha1]
  simp only [twoDigitsComing, Bool.and_eq_true]
  simpa [List.getD, List.getElem?_eq_getElem ha, List.getElem?_eq_getElem ha1] using And.intro d1 d2

/-- outside `lateDigits` neither of the two excluded situations of `CoupleC40.SwitchSegC40'` occurs -/
theorem no_digit_case (text : Bool) (body : List Nat) (p k : Nat)
    (h : lateDigits body (body.length - (p + k)) = false) :
    CoupleC40.digitSplit text body p k = false ∧ CoupleC40.digitTail body p k = false := by
  constructor
  · apply Bool.eq_false_iff.mpr
    intro hd
    obtain ⟨hk, h1, h2, _⟩ : 1 ≤ k ∧ CoupleC40.DigitExit text body p (k - 1) := of_decide_eq_true hd
    rw [lateDigits_of_twoDigits body (p + (k - 1)) _ h1 h2 (Or.inl (by omega))] at h
    cases h
  · apply Bool.eq_false_iff.mpr
    intro hd
    obtain ⟨h1, h2⟩ : p + k + 2 = body.length ∧ twoDigitsComing (body.drop (p + k)) = true := of_decide_eq_true hd
    rw [lateDigits_of_twoDigits body (p + k) _ h1 h2 (Or.inr (by omega))] at h
    cases h

theorem cmode_ne_ascii (text : Bool) : CoupleC40.cmode text ≠ .ascii := by cases text <;> decide

theorem switchSegX_cmode (text : Bool) : SwitchSegX (CoupleC40.cmode text) := by
  intro body list p w k g0 gk ac ctx' m' rest s hb hlt hk hside hpl hst hsp hsc hul hne henc
  have hk1 : 1 ≤ k := hk.resolve_right (cmode_ne_ascii text)
  obtain ⟨n1, n2⟩ := no_digit_case text body p k (hside (by cases text <;> simp [CoupleC40.cmode]))
  obtain ⟨a, b, _, c⟩ := CoupleC40.switchSegC40' text body list p w k g0 gk ac ctx' m' rest s hb hlt hk1 hpl hst hsp
    hsc hul hne henc n1 n2
  exact ⟨a, b, c⟩

theorem segProgress_cmode (text : Bool) : SegProgress (CoupleC40.cmode text) := by
  intro body list p w k g0 gk ac ctx' hb hlt hk _ hside hpl hst hsp hsc hul
  obtain ⟨n1, n2⟩ := no_digit_case text body p k (hside (by cases text <;> simp [CoupleC40.cmode]))
  exact (CoupleC40.switchSegC40' text body list p w k g0 gk ac ctx' .ascii []
    (probe body list p w (CoupleC40.cmode text) [(body.length - (p + k), .ascii)]) hb hlt hk hpl hst hsp hsc hul
    (cmode_ne_ascii text).symm (probe_encAt ..) n1 n2).2.2.1

theorem lateSwitchSeg_cmode (text : Bool) : LateSwitchSeg (CoupleC40.cmode text) := by
  intro body list p w k g0 gk ac ctx' s hb hpk hk _ hld hpl hst hsp hsc hul henc
  have hr : body.length - (p + k) = 2 := by omega
  have ht : CoupleC40.digitTail body p k = true := by
    exact decide_eq_true ⟨hpk, twoDigits_of_lateDigits body (p + k) 2 hpk hld⟩
  obtain ⟨a, b, _, c⟩ := CoupleC40.switchSegC40Tail text body list p w k g0 gk ac ctx' s hb (by omega) hk hpl hst hsp
    hsc hul (by rw [hr]; exact henc) ht
  refine ⟨a, b, ?_⟩
  rcases c with ⟨s', c1, c2, c3, c4, c5, _, c7, c8, c9, c10⟩ | c
  · exact Or.inl ⟨s', c1, c2, c3, c4, c8, c9, c10, by omega, c5⟩
  · exact Or.inr c

theorem endSegSym_cmode (text : Bool) : EndSegSym (CoupleC40.cmode text) := by
  intro body list p w k g0 gk gE r s hb hpk hk hpl hst hs hre henc
  exact CoupleC40.endSegC40' text body list p w k g0 gk gE r s hb hpk (hk.resolve_right (cmode_ne_ascii text)) hpl hst
    hs hre henc

/-- **The C40 / Text facts hold.** -/
theorem c40Facts : C40Facts where
  sX_c40 := switchSegX_cmode false
  sX_text := switchSegX_cmode true
  late_c40 := lateSwitchSeg_cmode false
  late_text := lateSwitchSeg_cmode true
  end_c40 := endSegSym_cmode false
  end_text := endSegSym_cmode true
  prog_c40 := segProgress_cmode false
  prog_text := segProgress_cmode true

/-! ### the final theorems

The only hypothesis beyond "`plan` is what `optimize` returns for the byte string `body`" is the decidable
condition `planOK body plan = true`. -/

/-- **C18, last sentence: the predicted size suffices** (for plans within `planOK`); see
`predicted_size_suffices_partial` for the reading of the four cases. -/
theorem predicted_size_suffices_planOK
    (body pre : List Nat) (list : List Sym) (modes : Nat) (perms : List (List Nat)) (o : Outcome)
    (plan : List (Nat × EMode)) (hb : ByteList body)
    (hopt : Plan.optimize body pre.length list modes perms = .ok o) (hp : o.plan = some plan)
    (hok : planOK body plan = true) :
    (list = [] ∧ Enc.run list pre body plan = .error .listEmpty) ∨
    (list ≠ [] ∧ maxCapacity list < body.length ∧ Enc.run list pre body plan = .error .tooMuch) ∨
    (list ≠ [] ∧ body.length ≤ maxCapacity list ∧ ∃ cw sym, Enc.run list pre body plan = .ok (cw, sym) ∧
      ∀ ps, firstBigEnough list (pre.length + o.cost12 / 12) = some ps → dataCw sym ≤ dataCw ps) ∨
    (list ≠ [] ∧ body.length ≤ maxCapacity list ∧ Enc.run list pre body plan = .error .tooMuch ∧
      firstBigEnough list (pre.length + o.cost12 / 12) = none) :=
  predicted_size_suffices_partial c40Facts body pre list modes perms o plan hb hopt hp hok

/-- **C11, encoder half: on the optimiser's own plan (within `planOK`) the encoder model reaches none of
its panic sites and does not run out of fuel.** -/
theorem encoder_no_panic_planOK
    (body pre : List Nat) (list : List Sym) (modes : Nat) (perms : List (List Nat)) (o : Outcome)
    (plan : List (Nat × EMode)) (hb : ByteList body)
    (hopt : Plan.optimize body pre.length list modes perms = .ok o) (hp : o.plan = some plan)
    (hok : planOK body plan = true) :
    (∀ site, Enc.run list pre body plan ≠ .error (.panic site)) ∧ Enc.run list pre body plan ≠ .error .fuel :=
  encoder_no_panic_partial c40Facts body pre list modes perms o plan hb hopt hp hok

end DM.Props.C18Couple
