import DM.Lemmas.LatchSeq
import DM.Props.C13
/-!
# C18 (encoder side) — the latches in the output are exactly the planned mode changes, in order

`Props/C13.lean` (`latches_planned`) shows that every latch the encoder writes belongs to *some* mode
the plan names.  Here the exact sequence: for a plan within `PlanOK` whose positions never increase
and do not exceed the length of the message (what the planner guarantees, `Planner.plan_positions`),
the output of a successful run of the encoder model splits into the segments of `run_segments`
(one per call of a mode encoder, with all the properties stated there), and the latches at the
segment starts, read from left to right, are **equal** to `plannedLatches plan`:

* walk through the entries `(position, mode)` of the plan with `position > 0` (the entries that are
  assigned at least one character; an entry with position 0 is never taken from the list),
  starting in ASCII mode;
* an entry whose mode equals the current mode changes nothing;
* any other entry changes the current mode, and contributes the latch codeword of its mode if
  that mode is not ASCII.

So a first entry `(n, ASCII)` causes no latch, `(n, C40)` does; `C40, ASCII, C40` gives `230, 230`;
`C40, C40` gives `230`.

How it is proved (`Lemmas/LatchSeq.lean`): the main loop keeps

  latches written ++ pending latch ++ latchesFrom (current mode) (rest of the plan) = plannedLatches plan.

Between two iterations a mode encoder takes entries of its own mode from the plan (no change of
`latchesFrom`), then at most one entry of another mode — every encoder leaves its loop at the first
`maybe_switch_mode` that reports a change — which moves one latch from `latchesFrom` to `new_mode`.
`set_ascii_until_end` throws the rest of the plan away; it is only reached with at most two
characters left (one position after the last successful `maybe_switch_mode` in Base 256), every
entry still planned then has a position ≤ 4 (the list is ordered and `maybe_switch_mode` has just
checked its head), and within `PlanOK` such entries are ASCII or have position 0: nothing is lost.

The two extra hypotheses are needed:
* positions ≤ length: for the empty message and the plan `[(5, C40)]` the model returns padding
  only (no call of `maybe_switch_mode` at all), `plannedLatches = [230]`;
* positions never increase: for `"ABCDEFGHI01"` and the plan `[(11, C40), (1, ASCII), (7, Text)]`
  the run succeeds with the single latch 230 (C40 ends with `set_ascii_until_end` two digits before
  the end, the stale entry `(7, Text)` is dropped), `plannedLatches = [230, 239]`.
Strictly decreasing positions are not needed: plans with two entries at one position make the model
panic (`expected to call maybe_switch_mode earlier`), so no successful run exists.
-/
namespace DM.Props.C18
open DM.Model DM.Model.Enc DM.Model.Dec DM.Gen DM.Lemmas DM.Lemmas.DecRun DM.Lemmas.AsciiRT DM.Lemmas.Complete
open DM.Lemmas.EncRT DM.Lemmas.C40Gen DM.Lemmas.MainRT DM.Lemmas.PlanProv DM.Lemmas.Trace DM.Lemmas.LatchSeq
open DM.Props.C13

/-- trace invariant and latch accounting along the main loop, for the same list of segments -/
theorem mainLoop_TR_LI (pre out0 : List Nat) (list : List Sym) (body : List Nat) (hb : ByteList body)
    (plan0 : List (Nat × EMode)) (target : List Nat) :
    ∀ (f : Nat) (s : St) (k : Nat) (sE : St) (segs : List Seg), Enc.mainLoop f s k = .ok sE → MI false pre out0 list body s →
      TR pre out0 list body plan0 s segs → LI target s segs →
      ∃ segsE, TR pre out0 list body plan0 sE segsE ∧ LI target sE segsE := by
  intro f
  induction f with
  | zero => intro s k sE segs h; cases h
  | succ f ih =>
    intro s k sE segs h mi tr li
    by_cases hmore : s.hasMore = true
    · obtain ⟨s', k', he, hm⟩ := mainLoop_step f s sE k h hmore
      obtain ⟨X, tr'⟩ := step_TR_seg pre out0 list body hb plan0 s s' segs mi tr hmore he
      exact ih s' k' sE _ hm (step_MI false pre out0 list body hb s s' mi hmore he) tr' (step_LI target s s' segs X li he)
    · have hmf : s.hasMore = false := by simpa using hmore
      rw [mainLoop_end _ _ _ hmf] at h
      simp only [Except.ok.injEq] at h
      subst h
      exact ⟨segs, tr, li⟩

/-- **C18 (encoder side): the exact sequence of latches.**  The segments are those of
`C13.run_segments` (`SegmentsOK`: they make up the output in front of the padding, ASCII segments
hold no latch codeword, every segment starts where the decoder is in ASCII context); the latches at
their starts are exactly the planned mode changes to non-ASCII modes, in plan order. -/
theorem latch_sequence_segments (pre out0 : List Nat) (list : List Sym) (body cw : List Nat) (plan : List (Nat × EMode)) (sym : Sym)
    (hb : ByteList body) (hplan : PlanOK plan) (hsorted : plan.Pairwise (fun a b => a.1 ≥ b.1))
    (hfit : ∀ e ∈ plan, e.1 ≤ body.length) (h : run list pre body plan = .ok (cw, sym)) :
    ∃ (segs : List Seg) (pads : List Nat), SegmentsOK pre out0 body cw plan segs pads ∧
      segs.filterMap (·.latch) = plannedLatches plan := by
  obtain ⟨sE, hmain, hsym, hpad⟩ := run_unfoldP list pre body cw plan sym h
  have mi0 := mi_init pre out0 list body plan hplan
  have tr0 := tr_init pre out0 list body plan
  have li0 := li_init list pre body plan hplan hsorted hfit
  obtain ⟨miE, hmf⟩ := mainLoop_MI false pre out0 list body hb _ _ 0 sE hmain mi0
  obtain ⟨segs, tr, li⟩ := mainLoop_TR_LI pre out0 list body hb plan _ _ _ 0 sE [] hmain mi0 tr0 li0
  obtain ⟨pads, hp⟩ := segments_of_TR pre out0 list body cw plan sym sE segs hsym hpad miE hmf tr
  exact ⟨segs, pads, hp, li_end _ sE segs li hmf⟩

/-- **C18, the latch sequence alone.** -/
theorem latch_sequence (pre : List Nat) (list : List Sym) (body cw : List Nat) (plan : List (Nat × EMode)) (sym : Sym)
    (hb : ByteList body) (hplan : PlanOK plan) (hsorted : plan.Pairwise (fun a b => a.1 ≥ b.1))
    (hfit : ∀ e ∈ plan, e.1 ≤ body.length) (h : run list pre body plan = .ok (cw, sym)) :
    ∃ (segs : List Seg) (pads : List Nat), cw = pre ++ flatCw segs ++ pads ∧
      (∀ g ∈ segs, g.latch = none → ∀ c ∈ g.X, c ≠ 230 ∧ c ≠ 231 ∧ c ≠ 238 ∧ c ≠ 239 ∧ c ≠ 240) ∧
      segs.filterMap (·.latch) = plannedLatches plan := by
  obtain ⟨segs, pads, ⟨h1, h2, _, _⟩, h3⟩ := latch_sequence_segments pre [] list body cw plan sym hb hplan hsorted hfit h
  refine ⟨segs, pads, h1, ?_, h3⟩
  intro g hg hl c hc
  have := h2 g hg
  unfold SegOK at this
  rw [hl] at this
  have := this c hc
  unfold AsciiCw at this
  omega

/-- **C18, planner and encoder together.**  If the plan is the optimiser's answer for the message
(planner model) and lies within `PlanOK`, the latches at the segment starts of the encoder model's
output are exactly `plannedLatches plan`; the hypotheses on the positions are theorems about the
planner (`Planner.plan_positions`). -/
theorem latch_sequence_optimized (written : Nat) (modes : Nat) (perms : List (List Nat)) (o : Plan.Outcome)
    (pre : List Nat) (list : List Sym) (body cw : List Nat) (plan : List (Nat × EMode)) (sym : Sym)
    (hopt : Plan.optimize body written list modes perms = .ok o) (hp : o.plan = some plan)
    (hb : ByteList body) (hplan : PlanOK plan) (h : run list pre body plan = .ok (cw, sym)) :
    ∃ (segs : List Seg) (pads : List Nat), cw = pre ++ flatCw segs ++ pads ∧
      (∀ g ∈ segs, g.latch = none → ∀ c ∈ g.X, c ≠ 230 ∧ c ≠ 231 ∧ c ≠ 238 ∧ c ≠ 239 ∧ c ≠ 240) ∧
      segs.filterMap (·.latch) = plannedLatches plan := by
  obtain ⟨p1, p2, _⟩ := DM.Props.Planner.plan_positions body written list modes perms o plan hopt hp
  exact latch_sequence pre list body cw plan sym hb hplan p1 p2 h

/-! ### what `plannedLatches` is -/

/-- entries with position 0 are never taken -/
theorem plannedLatches_zero (m : EMode) (t : List (Nat × EMode)) : plannedLatches ((0, m) :: t) = plannedLatches t :=
  latchesFrom_cons_zero _ _ _

/-- a leading ASCII entry causes no latch -/
theorem plannedLatches_ascii (p : Nat) (t : List (Nat × EMode)) : plannedLatches ((p, .ascii) :: t) = plannedLatches t := by
  by_cases hp : p = 0
  · subst hp; exact plannedLatches_zero _ _
  · exact latchesFrom_cons_same _ _ _ (by omega)

/-- a leading entry of another mode causes its latch; the walk goes on in that mode -/
theorem plannedLatches_latch (p l : Nat) (m : EMode) (t : List (Nat × EMode)) (hp : 0 < p) (hl : m.latch = some l) :
    plannedLatches ((p, m) :: t) = l :: latchesFrom m t := by
  have hm : m ≠ .ascii := by intro hm; subst hm; simp [EMode.latch] at hl
  unfold plannedLatches
  rw [latchesFrom_cons_ne _ _ _ _ hp hm, hl]
  rfl

example : plannedLatches [(22, .c40), (13, .ascii), (7, .text), (0, .text)] = [230, 239] := by decide
example : plannedLatches [(22, .ascii), (13, .c40), (7, .c40), (5, .ascii), (0, .ascii)] = [230] := by decide
example : plannedLatches [(22, .c40), (13, .ascii), (7, .c40), (0, .c40)] = [230, 230] := by decide
example : plannedLatches [(22, .c40), (13, .x12), (7, .base256), (0, .text)] = [230, 238, 231] := by decide

/-- Non-vacuity (the run of the example in `Props/C13.lean`): hypotheses and conclusion on a mixed plan. -/
example :
    let plan : List (Nat × EMode) := [(22, .c40), (13, .ascii), (7, .text), (0, .text)]
    let body := [65,66,67,68,69,70,71,72,73,49,50,51,52,53,54,97,98,99,100,101,102,103]
    PlanOK plan ∧ plan.Pairwise (fun a b => a.1 ≥ b.1) ∧ (∀ e ∈ plan, e.1 ≤ body.length) ∧
    run (symbolList (List.range 30)) [] body plan =
      .ok ([230, 89, 233, 109, 36, 128, 95, 254, 142, 164, 186, 239, 89, 233, 109, 36, 254, 104], 7) ∧
    plannedLatches plan = [230, 239] := by
  refine ⟨by unfold PlanOK; decide, by decide, by decide, by decide +kernel, by decide⟩

end DM.Props.C18
