import DM.Props.C02SpecMixed
import DM.Lemmas.SpecMainX12
/-!
# C02 — conformant output against the reference decoder: plans over ASCII, Base 256 and X12

`spec_mixed_roundtrip_abx`: `C02SpecMixed.spec_frame` instantiated with the three mode encoders that
preserve the main-loop invariant under arbitrary (`PlanOK`) plans — `SpecMain.step_ascii`,
`SpecMain.step_b256`, `SpecMainX12.step_x12_of`. Side condition on the plan (`NAX`): only these
three modes are named, and no latch to Base 256 or X12 is planned for the last four characters
(`C40Gen.PlanOK`; a switch planned there behind an X12 run leaves a stale latch, defects K-D…).
-/
namespace DM.Props.C02SpecMixedX12
open DM.Model DM.Lemmas DM.Lemmas.AsciiRT DM.Lemmas.SpecStep DM.Lemmas.SpecMain DM.Lemmas.MainRT DM.Lemmas.PlanProv
open DM.Lemmas.EncRT DM.Lemmas.C40Gen DM.Lemmas.SpecMainX12
open DM.Props.C02Spec (run_eq_of_check)
open DM.Props.C02SpecMixed (HdrOK spec_frame)
open DM.Spec.Stream (decode Decoded Mode macroHead macroTrail)

/-- an encoder mode among ASCII, Base 256, X12 -/
def ABXe (m : Enc.EMode) : Prop := m = .ascii ∨ m = .base256 ∨ m = .x12

/-- only ASCII, Base 256 and X12 occur in the control part of the encoder state -/
def NA3 : Key → Prop := fun k => (∀ x ∈ k.1, ABXe x.2) ∧ ABXe k.2.1

theorem na3_closed : Closed NA3 := by
  refine ⟨?_, ?_, ?_⟩
  · intro k _
    refine ⟨?_, Or.inl rfl⟩
    intro x hx
    simp only [asciiKey, List.mem_singleton] at hx
    subst hx
    exact Or.inl rfl
  · intro s s1 b h hk
    obtain ⟨h1, h2⟩ := hk
    simp only [key] at h1 h2 ⊢
    obtain ⟨_, _, _, m4, m5, m6⟩ := maybeSwitch_spec s s1 b h
    refine ⟨fun x hx => h1 x (m4 x hx), ?_⟩
    cases b with
    | false => rw [(m5 rfl).1]; exact h2
    | true => obtain ⟨_, _, ⟨p, hp⟩, _⟩ := m6 rfl; exact h1 _ hp
  · intro k hk
    exact ⟨hk.1, hk.2⟩

/-- the side condition: `PlanOK` and only the three modes -/
def NAX : Key → Prop := fun k => QX k ∧ NA3 k

theorem nax_closed : Closed NAX := closed_and qx_closed na3_closed

/-- the carrying modes of such a message -/
def ABX (m : Mode) : Prop := m = .ascii ∨ m = .base256 ∨ m = .x12

theorem steps_ABX : ∀ m, ModeStep ABX NAX m := by
  intro m
  cases m with
  | ascii => exact step_ascii ABX NAX (Or.inl rfl)
  | base256 => exact step_b256 ABX NAX (Or.inr (Or.inl rfl))
  | x12 => exact step_x12_of ABX NAX (fun _ hk body => planOKE_of_planOK body hk.1) (Or.inr (Or.inr rfl))
  | c40 => intro _ _ _ _ s _ _ _ hq _ hm _; have := hq.2.2; simp only [key] at this; rw [hm] at this; simp [ABXe] at this
  | text => intro _ _ _ _ s _ _ _ hq _ hm _; have := hq.2.2; simp only [key] at this; rw [hm] at this; simp [ABXe] at this
  | edifact => intro _ _ _ _ s _ _ _ hq _ hm _; have := hq.2.2; simp only [key] at this; rw [hm] at this; simp [ABXe] at this

/-- **Mixed ASCII / Base 256 / X12 round trip through the reference decoder.** For every plan whose
entries name only ASCII, Base 256 and X12 and plan no latch (to Base 256 or X12) for the last four
characters, every message of bytes, every symbol list and each of the headers none / FNC1 /
Macro 05 / Macro 06: whatever the encoder returns, the reference decoder accepts and returns the
message; every byte is carried by ASCII, Base 256 or X12 encodation, every latch is a Base 256 or
X12 latch standing among the encoder's own codewords, there is no ECI; the stream fills the symbol,
and the decoder meets the first pad codeword exactly where the encoder's own codewords end. -/
theorem spec_mixed_roundtrip_abx (list : List Sym) (pre body cw : List Nat) (plan : List (Nat × Enc.EMode)) (sym : Sym)
    (hpre : HdrOK pre) (hb : ∀ b ∈ body, b < 256)
    (hplan : ∀ e ∈ plan, (e.2 = .ascii ∨ e.2 = .base256 ∨ e.2 = .x12) ∧ (e.2 ≠ .ascii → e.1 = 0 ∨ e.1 > 4))
    (h : Enc.run list pre body plan = .ok (cw, sym)) :
    ∃ d L, decode cw = .ok d ∧ d.body = body ∧
      d.bytes = (if macOf pre = 0 then body else macroHead (macOf pre) ++ body ++ macroTrail) ∧
      d.fnc1 = (pre == [232]) ∧ d.macro = macOf pre ∧ d.ecis = [] ∧ d.trace.length = body.length ∧
      (∀ m ∈ d.trace, m = .ascii ∨ m = .base256 ∨ m = .x12) ∧
      (∀ l ∈ d.latches, (l.2 = .base256 ∨ l.2 = .x12) ∧ pre.length ≤ l.1 ∧ l.1 < L) ∧
      cw.length = dataCw sym ∧ cw.take pre.length = pre ∧ pre.length ≤ L ∧ L ≤ cw.length ∧
      (L < cw.length → cw.getD L 0 = 129) ∧ d.padAt = (if L = cw.length then none else some L) := by
  have hq : NAX (plan, .ascii, none) := by
    refine ⟨?_, fun x hx => (hplan x hx).1, Or.inl rfl⟩
    intro e he
    refine ⟨(hplan e he).2, ?_⟩
    rcases (hplan e he).1 with h | h | h <;> rw [h] <;> simp
  obtain ⟨d, L, a1, a2, a3, a4, a5, a6, a7, a8, a9, a10⟩ :=
    spec_frame ABX NAX nax_closed steps_ABX list pre body cw plan sym hpre hb hq h
  refine ⟨d, L, a1, a2, a3, a4, a5, a6, a7, a8, ?_, a10⟩
  intro l hl
  obtain ⟨b1, b2, b3⟩ := a9 l hl
  exact ⟨b1.resolve_left b2, b3⟩

/-! ### Non-vacuity -/

/-- "A" in ASCII, two bytes in Base 256, "ABCDEF" in X12 (two triples, UNLATCH), "ab" in ASCII, three
pads; the kernel runs encoder and reference decoder. -/
example : Enc.run (symbolList (List.range 30)) [] [65, 200, 201, 65, 66, 67, 68, 69, 70, 97, 98]
    [(11, .ascii), (10, .base256), (8, .x12), (2, .ascii), (0, .ascii)] =
    .ok ([66, 231, 195, 31, 181, 238, 89, 233, 109, 36, 254, 98, 99, 129, 87, 237], 6) := run_eq_of_check (by decide +kernel)
example : (decode [66, 231, 195, 31, 181, 238, 89, 233, 109, 36, 254, 98, 99, 129, 87, 237]).toOption.map
    (fun d => (d.body, d.padAt, d.latches, d.trace)) =
    some ([65, 200, 201, 65, 66, 67, 68, 69, 70, 97, 98], some 13, [(1, .base256), (5, .x12)],
      [.ascii, .base256, .base256, .x12, .x12, .x12, .x12, .x12, .x12, .ascii, .ascii]) := by decide +kernel

/-- … and the theorem applied to that run. -/
example : ∃ d, decode [66, 231, 195, 31, 181, 238, 89, 233, 109, 36, 254, 98, 99, 129, 87, 237] = .ok d ∧
    d.body = [65, 200, 201, 65, 66, 67, 68, 69, 70, 97, 98] ∧ d.bytes = [65, 200, 201, 65, 66, 67, 68, 69, 70, 97, 98] ∧
    d.ecis = [] ∧ ∀ l ∈ d.latches, l.2 = .base256 ∨ l.2 = .x12 := by
  obtain ⟨d, L, h1, h2, h3, _, _, h6, _, _, h9, _⟩ :=
    spec_mixed_roundtrip_abx (symbolList (List.range 30)) [] [65, 200, 201, 65, 66, 67, 68, 69, 70, 97, 98] _
      [(11, .ascii), (10, .base256), (8, .x12), (2, .ascii), (0, .ascii)] _ (Or.inl rfl) (by decide) (by decide)
      (run_eq_of_check (cw := [66, 231, 195, 31, 181, 238, 89, 233, 109, 36, 254, 98, 99, 129, 87, 237]) (sym := 6)
        (by decide +kernel))
  exact ⟨d, h1, h2, by simpa [macOf] using h3, h6, fun l hl => (h9 l hl).1⟩

/-- A planned switch behind a whole triple: "1" in ASCII, "ABCDEF" in X12, UNLATCH, five bytes in
Base 256 (explicit length), one pad. -/
example : Enc.run (symbolList (List.range 30)) [] [49, 65, 66, 67, 68, 69, 70, 200, 201, 202, 203, 204]
    [(12, .ascii), (11, .x12), (5, .base256), (0, .base256)] =
    .ok ([50, 238, 89, 233, 109, 36, 254, 231, 72, 160, 55, 206, 100, 251, 129, 237], 6) := run_eq_of_check (by decide +kernel)
example : (decode [50, 238, 89, 233, 109, 36, 254, 231, 72, 160, 55, 206, 100, 251, 129, 237]).toOption.map
    (fun d => (d.body, d.padAt, d.latches)) =
    some ([49, 65, 66, 67, 68, 69, 70, 200, 201, 202, 203, 204], some 14, [(1, .x12), (7, .base256)]) := by decide +kernel

/-- The ending without UNLATCH: two bytes in Base 256, "ABCDEF" in X12, then the single ASCII
codeword for "1" fills the symbol (`room = some 1` in the invariant). -/
example : Enc.run (symbolList (List.range 30)) [] [200, 201, 65, 66, 67, 68, 69, 70, 49] [(9, .base256), (7, .x12), (0, .x12)] =
    .ok ([231, 46, 137, 32, 238, 89, 233, 109, 36, 50], 4) := run_eq_of_check (by decide +kernel)
example : ∃ d, decode [231, 46, 137, 32, 238, 89, 233, 109, 36, 50] = .ok d ∧ d.body = [200, 201, 65, 66, 67, 68, 69, 70, 49] ∧
    d.padAt = none := by
  obtain ⟨d, L, h1, h2, _, _, _, _, _, _, _, h10, _, _, hL, _, h15⟩ :=
    spec_mixed_roundtrip_abx (symbolList (List.range 30)) [] [200, 201, 65, 66, 67, 68, 69, 70, 49] _
      [(9, .base256), (7, .x12), (0, .x12)] _ (Or.inl rfl) (by decide) (by decide)
      (run_eq_of_check (cw := [231, 46, 137, 32, 238, 89, 233, 109, 36, 50]) (sym := 4) (by decide +kernel))
  refine ⟨d, h1, h2, ?_⟩
  have : (decode [231, 46, 137, 32, 238, 89, 233, 109, 36, 50]).toOption.map (fun d => d.padAt) = some none := by
    decide +kernel
  rw [h1] at this
  simpa [Except.toOption] using this

/-- The exact end: one byte in Base 256, "ABCDEF" in X12 ends with the symbol, the decoder stops in
X12 mode (`room = some 0`, "done"). -/
example : Enc.run (symbolList (List.range 30)) [] [200, 65, 66, 67, 68, 69, 70] [(7, .base256), (6, .x12), (0, .x12)] =
    .ok ([231, 45, 137, 238, 89, 233, 109, 36], 3) := run_eq_of_check (by decide +kernel)
example : (decode [231, 45, 137, 238, 89, 233, 109, 36]).toOption.map (fun d => (d.body, d.padAt, d.latches)) =
    some ([200, 65, 66, 67, 68, 69, 70], none, [(0, .base256), (3, .x12)]) := by decide +kernel

/-- Behind Macro 06. -/
example : Enc.run (symbolList (List.range 30)) [237] [97, 200, 65, 66, 67, 68, 69, 70, 98, 99]
    [(10, .ascii), (9, .base256), (8, .x12), (2, .ascii), (0, .ascii)] =
    .ok ([237, 98, 231, 88, 180, 238, 89, 233, 109, 36, 254, 99, 100, 129, 87, 237], 6) := run_eq_of_check (by decide +kernel)

/-- The side condition on the plan is needed (kernel-checked): a latch to Base 256 planned for the
last two characters behind an X12 run — the encoder ends the run without UNLATCH (one ASCII
codeword, the digit pair, would fill the symbol), then writes the stale latch 231 and the pair; the
reference decoder, still in X12 mode, reads another message. -/
example : Enc.run (symbolList (List.range 30)) [] [65, 66, 67, 68, 69, 70, 71, 72, 73, 49, 50]
    [(11, .x12), (2, .base256), (0, .base256)] = .ok ([238, 89, 233, 109, 36, 128, 95, 231, 142, 129], 4) :=
  run_eq_of_check (by decide +kernel)
example : (decode [238, 89, 233, 109, 36, 128, 95, 231, 142, 129]).toOption.map (fun d => d.body) =
    some [65, 66, 67, 68, 69, 70, 71, 72, 73, 88, 42, 88] := by decide +kernel

end DM.Props.C02SpecMixedX12
