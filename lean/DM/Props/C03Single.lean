import DM.Props.C03Complete
/-!
# C03 — any single wrong codeword is corrected

`decode_single_wrong_codeword`: replacing any one codeword of a valid codeword vector by any byte
gives a received word that `RS.decode` maps back to the original vector (hypothesis-free, via
`decode_complete_single_error`).
-/
namespace DM.Props.C03
open DM.Gen DM.Model DM.Spec DM.Lemmas DM.Props.C09

/-- two lists that agree outside one index are at Hamming distance at most one -/
theorem hamming_le_one (a a' : List Nat) (q : Nat)
    (h : ∀ j, j ≠ q → a.getD j 0 = a'.getD j 0) : hamming a a' ≤ 1 := by
  unfold hamming
  have hnd : ((List.range a.length).filter fun i => a.getD i 0 != a'.getD i 0).Nodup :=
    List.Nodup.filter _ List.nodup_range
  have hall : ∀ j ∈ (List.range a.length).filter (fun i => a.getD i 0 != a'.getD i 0), j = q := by
    intro j hj
    rw [List.mem_filter] at hj
    by_contra hne
    have := h j hne
    have h2 := hj.2
    rw [this] at h2
    simp at h2
  generalize (List.range a.length).filter (fun i => a.getD i 0 != a'.getD i 0) = l at hnd hall
  match l, hnd, hall with
  | [], _, _ => simp
  | [_], _, _ => simp
  | x :: y :: t, hnd, hall =>
    exfalso
    have hx := hall x (by simp)
    have hy := hall y (by simp)
    rw [List.nodup_cons] at hnd
    exact hnd.1 (by rw [hx, ← hy]; simp)

theorem getD_strided_eq (l : List Nat) (b B m : Nat) :
    (strided l b B).getD m 0
      = if m < (l.length - b + B - 1) / B then l.getD (b + m * B) 0 else 0 := by
  unfold strided
  rw [List.getD_eq_getElem?_getD, List.getElem?_map]
  by_cases hm : m < (l.length - b + B - 1) / B
  · rw [List.getElem?_range hm, if_pos hm]; rfl
  · rw [if_neg hm, List.getElem?_eq_none (by simpa using hm)]; rfl

/-- a single replaced element changes a strided sub-list in at most one index -/
theorem getD_strided_set (l : List Nat) (i x b B m : Nat) (hne : b + m * B ≠ i) :
    (strided (l.set i x) b B).getD m 0 = (strided l b B).getD m 0 := by
  rw [getD_strided_eq, getD_strided_eq, List.length_set]
  congr 1
  rw [List.getD_eq_getElem?_getD, List.getD_eq_getElem?_getD, List.getElem?_set_ne (Ne.symm hne)]

theorem strided_set_length (l : List Nat) (i x b B : Nat) :
    (strided (l.set i x) b B).length = (strided l b B).length := by
  rw [C06.strided_length, C06.strided_length, List.length_set]

theorem getD_append_ite (a c : List Nat) (j : Nat) :
    (a ++ c).getD j 0 = if j < a.length then a.getD j 0 else c.getD (j - a.length) 0 := by
  by_cases hj : j < a.length
  · rw [if_pos hj, List.getD_eq_getElem?_getD, List.getD_eq_getElem?_getD,
      List.getElem?_append_left hj]
  · rw [if_neg hj, List.getD_eq_getElem?_getD, List.getD_eq_getElem?_getD,
      List.getElem?_append_right (by omega)]

theorem index_unique (b B m i : Nat) (hB : 0 < B) (h : b + m * B = i) : m = (i - b) / B := by
  subst h
  rw [Nat.add_sub_cancel_left, Nat.mul_div_cancel _ hB]

theorem block_set_data (s : Sym) (d e : List Nat) (i x b : Nat) (hB : 0 < (row s).blocks) :
    hamming (block s d e b) (block s (d.set i x) e b) ≤ 1 := by
  apply hamming_le_one _ _ ((i - b) / (row s).blocks)
  intro j hj
  unfold block
  rw [getD_append_ite, getD_append_ite, strided_set_length]
  split
  · rw [getD_strided_set]
    intro h
    exact hj (index_unique _ _ _ _ hB h)
  · rfl

theorem block_set_ecc (s : Sym) (d e : List Nat) (i x b : Nat) (hB : 0 < (row s).blocks) :
    hamming (block s d e b) (block s d (e.set i x) b) ≤ 1 := by
  apply hamming_le_one _ _ ((strided d b (row s).blocks).length + (i - b) / (row s).blocks)
  intro j hj
  unfold block
  rw [getD_append_ite, getD_append_ite]
  split
  · rfl
  · rw [getD_strided_set]
    intro h
    have := index_unique _ _ _ _ hB h
    omega

theorem take_set_append_left (d e : List Nat) (i x : Nat) (hi : i < d.length) :
    ((d ++ e).set i x).take d.length = d.set i x ∧ ((d ++ e).set i x).drop d.length = e := by
  rw [List.set_append_left _ _ hi]
  constructor
  · rw [List.take_left' (by simp)]
  · rw [List.drop_left' (by simp)]

theorem take_set_append_right (d e : List Nat) (i x : Nat) (hi : d.length ≤ i) :
    ((d ++ e).set i x).take d.length = d ∧
      ((d ++ e).set i x).drop d.length = e.set (i - d.length) x := by
  rw [List.set_append_right _ _ hi]
  constructor
  · rw [List.take_left' rfl]
  · rw [List.drop_left' rfl]

/-- **Any single wrong codeword is corrected.** -/
theorem decode_single_wrong_codeword (s : Sym) (hs : s < numSizes) (d e : List Nat)
    (hd : Bytes d) (he : Bytes e)
    (hl : d.length = dataCw s) (hel : e.length = (row s).blocks * (row s).eccPer)
    (hv : Valid s d e) (i x : Nat) (hx : x < 256) :
    RS.decode s ((d ++ e).set i x) = .ok (d ++ e) := by
  obtain ⟨_, _, _, hB, _⟩ := C06.gen_monic_roots s hs
  have hrb : Bytes ((d ++ e).set i x) := by
    intro y hy
    rcases List.mem_or_eq_of_mem_set hy with h | h
    · exact (hd.append he) y h
    · rw [h]; exact hx
  have hr : ((d ++ e).set i x).length = totalCw s := by
    have h1 : totalCw s = dataCw s + eccCw s := rfl
    have h2 : eccCw s = (row s).blocks * (row s).eccPer := rfl
    rw [List.length_set, List.length_append, hl, hel, h1, h2]
  apply decode_complete_single_error s hs d e _ hd he hrb hl hel hr hv
  intro b _
  rw [← hl]
  by_cases hi : i < d.length
  · obtain ⟨h1, h2⟩ := take_set_append_left d e i x hi
    rw [h1, h2]
    exact block_set_data s d e i x b hB
  · obtain ⟨h1, h2⟩ := take_set_append_right d e i x (by omega)
    rw [h1, h2]
    exact block_set_ecc s d e (i - d.length) x b hB

end DM.Props.C03
