import DM.Drv.Util
import DM.Drv.Enc
import DM.Model.PlannerAuto
import DM.Model.Encode
import DM.Model.EncPrefix
import DM.Spec.Stream
/-
Search for a failing input of C10 when the planner correspondence is broken: the planner *model*, run with its own
stable sort, plans the message; the encoder model writes the stream; the reference decoder confirms that the stream
means the message. If the implementation refused the message or needed a symbol of larger capacity, the answer
is a failure carrying that stream as the witness of a smaller encoding.
-/
namespace DM.Drv
open DM.Model DM.Spec

def optDiffOp (args : List String) : Option String :=
  match args with
  | ["optdiff", modes, mask, mac, fnc1, input, impl] =>
    let m := (unhex mask).foldl (fun a b => a * 256 + b) 0
    let list := symbolList ((List.range 48).filter fun i => m.testBit i)
    let data := unhex input
    match macroPrefix data (mac == "1") (fnc1 == "1") with
    | .panic => some "ok"
    | .ok pre body =>
      match Plan.optimizeAuto body pre.length list modes.toNat! with
      | .error _ => some "ok"
      | .ok o =>
        match o.plan with
        | none => some "ok"
        | some plan =>
          match Enc.run list pre body plan with
          | .ok (cw, sym) =>
            let valid := match Stream.decode (cw.take (dataCw sym)) with
              | .ok d => d.bytes == data && d.fnc1 == (fnc1 == "1") && d.ecis.isEmpty
              | .error _ => false
            if !valid then some "ok"
            else if impl == "err" then
              some s!"fail:refused-but-the-reference-planner-fits-{dataCw sym}:witness:{hex cw}"
            else
              let s := (impl.drop 1).toString.toNat!
              if dataCw s > dataCw sym then
                some s!"fail:needs-{dataCw s}-but-the-reference-planner-fits-{dataCw sym}:witness:{hex cw}"
              else some "ok"
          | .error _ => some "ok"
  | _ => none

end DM.Drv
