import DM.Drv.Util
import DM.Model.Finder
import DM.Model.Placement
import DM.Model.Fast
namespace DM.Drv
open DM.Model

def errName : ConvErr → String
  | .alignment => "alignment"
  | .padding => "padding"
  | .zeroWidth => "zeroWidth"
  | .dataSize => "dataSize"
  | .symbolSize => "symbolSize"

def parseAnswer (bits : List Bool) (w : Nat) : String :=
  match tryFromBits bits w with
  | .ok (m, s) => s!"ok:{s}:{hex (readCodewords m (layoutOf s))}"
  | .error e => s!"err:{errName e}"

/-- rendered layout with tags: content cell `k` shows `k + 2` if some codeword bit lives there,
otherwise (left-over corner cells) LOW = 0; fixed modules show 1 (HIGH) or 0 (LOW). -/
def flayout (s : Sym) : String :=
  let d := fdims s
  let visited := (layoutOf s).flatten
  let tags : List Nat := setAll (List.replicate (d.w * d.h) 0) (visited.map fun k => (k, k + 2))
  let ch := constHigh s
  let px : List Nat := setAll ((List.range (d.H * d.W)).map fun p => if ch.testBit p then 1 else 0)
    ((cellPos s).zip tags)
  s!"{d.W}:{",".intercalate (px.map toString)}"

def c08 (args : List String) : Option String :=
  match args with
  | ["flayout", s] => some (flayout s.toNat!)
  | ["parse", w, b] => some (parseAnswer (unpackBits b) w.toNat!)
  | ["dev", s, cw, p] =>
    let s := s.toNat!
    match newWithCodewords s (unhex cw) with
    | none => some "panic"
    | some e =>
      let bits := bitmapOf s e
      let p := p.toNat!
      let bits := bits.set p (!(bits.getD p false))
      some (parseAnswer bits (row s).width)
  | ["oracle", x] => some x
  | _ => none

end DM.Drv
