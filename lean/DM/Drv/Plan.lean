import DM.Drv.Util
import DM.Model.Planner
namespace DM.Drv
open DM.Model DM.Model.Plan DM.Model.Enc

def emodeChar : EMode → Char
  | .ascii => 'A' | .c40 => 'C' | .text => 'T' | .x12 => 'X' | .edifact => 'E' | .base256 => 'B'

def parsePerms (s : String) : List (List Nat) :=
  if s == "_" then [] else
  (s.splitOn "|").map fun c => if c == "-" then [] else (c.splitOn ",").map String.toNat!

def optimizeOp (args : List String) : Option String :=
  match args with
  | ["optimize", modes, mask, written, data, perms] =>
    let m := (unhex mask).foldl (fun a b => a * 256 + b) 0
    let list := symbolList ((List.range 48).filter fun i => m.testBit i)
    match Plan.optimize (unhex data) written.toNat! list modes.toNat! (parsePerms perms) with
    | .ok o =>
      match o.plan with
      | some p =>
        let ps := if p.isEmpty then "-" else ",".intercalate (p.map fun (n, md) => s!"{n}{emodeChar md}")
        some s!"{ps}:{o.cost12}:{o.steps}:{o.maxLive}"
      | none => some s!"none:{o.steps}:{o.maxLive}"
    | .error (.panic _) => some "panic"
    | .error .badPerm => some "bad-perm"
    | .error .fuel => some "fuel"
  | _ => none

end DM.Drv
