import DM.Drv.Util
import DM.Model.Decode
import DM.Model.Eci
import DM.Spec.Eci
import DM.Spec.Charsets
import DM.Spec.Stream
import DM.Model.Latin1
namespace DM.Drv
open DM.Model DM.Model.Dec

def derrStr : DErr → String
  | .unexpectedChar c => s!"err:UnexpectedCharacter:{c}"
  | .notImplemented => "err:NotImplemented"
  | .unexpectedEnd => "err:UnexpectedEnd"
  | .charset => "err:CharsetError"
  | .eciCode => "err:ECICode"
  | .panic _ => "panic"
  | .fuel => "fuel"

def utf8Hex (cps : List Nat) : String :=
  hex ((String.ofList (cps.map Char.ofNat)).toUTF8.toList.map UInt8.toNat)

def decOp (args : List String) : Option String :=
  match args with
  | ["ddata", cw] =>
    match decodeData (unhex cw) with
    | .ok v => some s!"ok:{hex v}"
    | .error e => some (derrStr e)
  | ["dstr", cw] =>
    match decodeStr (unhex cw) with
    | .ok cps => some s!"ok:{utf8Hex cps}"
    | .error e => some (derrStr e)
  | ["reci", cw] =>
    match readEci (unhex cw) with
    | .ok (eci, used) => some s!"ok:{used}:{eci}"
    | .error e => some (derrStr e)
  | ["weci", n] =>
    -- required by Table 6: 241, the designator; reading it back gives n
    let n := n.toNat!
    let d := DM.Spec.Eci.designator n
    some s!"{hex (241 :: d)}:ok:{d.length}:{n}"
  | ["cs", e, b] =>
    -- required by the character set's standard table
    let b := b.toNat!
    let r : Option Nat := match e.toNat! with
      | 0 | 3 => DM.Spec.Charsets.latin1 b
      | 11 => DM.Spec.Charsets.latin5 b
      | 13 => DM.Spec.Charsets.thai b
      | 26 | 27 => DM.Spec.Charsets.ascii7 b
      | _ => none
    match r with
    | some cp => some s!"ok:{utf8Hex [cp]}"
    | none => some "err:CharsetError"
  | ["l2u", b] =>
    match latin1ToUtf8Str (unhex b) with
    | some cps => some s!"ok:{utf8Hex cps}"
    | none => some "none"
  | ["u2l", u] =>
    match utf8Decode (unhex u) with
    | none => some "bad-utf8"
    | some cps =>
      match utf8ToLatin1Str cps with
      | some bs => some s!"ok:{hex bs}"
      | none => some "none"
  | ["strchk", u, cw] =>
    -- C14: printable ISO-8859-1 strings byte for byte without ECI; all others: ECI 26 + UTF-8 bytes
    match utf8Decode (unhex u) with
    | none => some "bad-utf8"
    | some cps =>
      match DM.Spec.Stream.decode (unhex cw) with
      | .error e => some s!"fail:spec-decoder-rejects {e}"
      | .ok d =>
        let latin := cps.all fun c => (DM.Spec.Charsets.latin1 c).isSome
        if latin then
          if d.ecis ≠ [] then some "fail:eci-used-for-latin1-string"
          else if d.bytes ≠ cps then some s!"fail:latin1-bytes {hex d.bytes}"
          else some "ok"
        else
          if d.ecis ≠ [(0, 26)] then some s!"fail:eci-designator {d.ecis}"
          else if d.bytes ≠ unhex u then some s!"fail:utf8-bytes {hex d.bytes}"
          else some "ok"
  | _ => none

end DM.Drv
