import DM.Drv.Util
import DM.Lemmas.PathCheck
import DM.Model.Pixels
import DM.Model.Path
namespace DM.Drv
open DM.Lemmas DM.Model DM.Spec.Fill

def parseInt (s : String) : Int :=
  match s.toList with
  | '-' :: r => - ((String.ofList r).toNat! : Int)
  | _ => (s.toNat! : Int)

def parseSegs (s : String) : List Seg :=
  if s == "-" then [] else
  (s.splitOn ".").filterMap fun t =>
    match t.toList with
    | 'h' :: r => some (.h (parseInt (String.ofList r)))
    | 'v' :: r => some (.v (parseInt (String.ofList r)))
    | ['z'] => some .z
    | 'm' :: r =>
      match (String.ofList r).splitOn ":" with
      | [a, b] => some (.m (parseInt a) (parseInt b))
      | _ => none
    | _ => none

/-- explain a rejection: which requirement fails -/
def pathDiag (bits : List Bool) (w : Nat) (segs : List Seg) : String :=
  let h := if w = 0 then 0 else bits.length / w
  match edges w h segs with
  | none => "fail:path-malformed (zero-length or non-axis-parallel line, vertex outside the box, move without close, or not closed at the end)"
  | some (ve, _) =>
    let bad := (List.range w).flatMap fun x => (List.range h).filterMap fun y =>
      if dark ve x y != bits.getD (y * w + x) false then some (x, y) else none
    match bad with
    | (x, y) :: _ => s!"fail:module ({x},{y}) is {if bits.getD (y * w + x) false then "dark" else "light"} but fill says otherwise"
    | [] => "fail:edge-multiset differs from the outline (fill agrees)"

/-- the model of `Bitmap::path()` in the harness's notation -/
def pathModelStr (bits : List Bool) (w : Nat) : String :=
  match DM.Model.Path.path bits w with
  | .error .expect => "panic-expect"
  | .error .fuel => "model-out-of-fuel"
  | .error .overflow => "panic-overflow"
  | .ok [] => "-"
  | .ok p => ".".intercalate (p.map fun s => match s with
      | .m dx dy => s!"m{dx}:{dy}"
      | .h d => s!"h{d}"
      | .v d => s!"v{d}"
      | .z => "z")

def c17 (args : List String) : Option String :=
  match args with
  | ["pathm", w, b] => some (pathModelStr (unpackBits b) w.toNat!)
  | ["path", w, b, p] =>
    let bits := unpackBits b
    let w := w.toNat!
    let segs := parseSegs p
    some (if pathOK bits w segs then "ok" else pathDiag bits w segs)
  | ["pixels", w, b] =>
    let px := pixels (unpackBits b) w.toNat!
    some (if px.isEmpty then "-" else ",".intercalate (px.map fun (x, y) => s!"{x}:{y}"))
  | ["unicode", w, b] =>
    some (hex ((String.ofList (unicode (unpackBits b) w.toNat!)).toUTF8.toList.map UInt8.toNat))
  | _ => none

end DM.Drv
