import DM.Drv.Util
import DM.Model.Prune
namespace DM.Drv
open DM.Model

def parsePRec (s : String) : Option PRec :=
  match s.splitOn "." with
  | [a, b, c, sw] =>
    some { start := a.toNat!, cur := b.toNat!, cost := c.toNat!,
           sw := (sw.splitOn "/").map fun x => if x == "-" then none else some x.toNat! }
  | _ => none

def pruneOp (args : List String) : Option String :=
  match args with
  | ["prune", l] =>
    let recs := if l == "-" then [] else (l.splitOn ";").filterMap parsePRec
    let r := removeHopeless recs
    some (if r.isEmpty then "-" else ";".intercalate (r.map fun p => s!"{p.start}.{p.cur}.{p.cost}"))
  | _ => none

end DM.Drv
