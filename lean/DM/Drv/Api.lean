import DM.Drv.Util
import DM.Drv.Dec
import DM.Drv.RS
import DM.Model.Fast
namespace DM.Drv
open DM.Model DM.Model.Dec

/-- `DataMatrix::decode(pixels, width)` as the composition of the models -/
def fullDecode (bits : List Bool) (w : Nat) : String :=
  match tryFromBits bits w with
  | .error _ => "err:pixel"
  | .ok (m, s) =>
    match RS.decode s (readCodewords m (layoutOf s)) with
    | .error (.panic _) => "panic"
    | .error _ => "err:rs"
    | .ok cw =>
      match decodeData (cw.take (dataCw s)) with
      | .ok v => s!"ok:{hex v}"
      | .error e => derrStr e

def apiOp (args : List String) : Option String :=
  match args with
  | ["fulldec", w, b] => some (fullDecode (unpackBits b) w.toNat!)
  | _ => none

end DM.Drv
