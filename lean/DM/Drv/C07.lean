import DM.Drv.Util
import DM.Model.Placement
import DM.Model.Fast
namespace DM.Drv
open DM.Model

def fmtLayout (l : List (List Nat)) : String :=
  if l.isEmpty then "-" else ";".intercalate (l.map fun o => ",".intercalate (o.map toString))

def c07 (args : List String) : Option String :=
  match args with
  | ["layout", s] => some (fmtLayout (layoutOf s.toNat!))
  | ["write", s, d] =>
    match newWithCodewords s.toNat! (unhex d) with
    | some e => some (String.ofList (e.map fun b => if b then '1' else '0'))
    | none => some "panic"
  | ["eq", a, b] => some (if a == b then "ok" else s!"fail:{a}≠{b}")
  | _ => none

end DM.Drv
