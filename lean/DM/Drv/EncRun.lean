import DM.Drv.Util
import DM.Model.Encode
import DM.Model.PlanSide
namespace DM.Drv
open DM.Model DM.Model.Enc

def parseEMode (c : Char) : EMode :=
  match c with
  | 'C' => .c40 | 'T' => .text | 'X' => .x12 | 'E' => .edifact | 'B' => .base256 | _ => .ascii

def parseEPlan (s : String) : List (Nat × EMode) :=
  if s == "-" then [] else
  (s.splitOn ",").filterMap fun t =>
    match t.toList.reverse with
    | c :: rest => some ((String.ofList rest.reverse).toNat!, parseEMode c)
    | [] => none

def encRunOp (args : List String) : Option String :=
  match args with
  | ["encrun", mask, pre, body, plan] =>
    let m := (unhex mask).foldl (fun a b => a * 256 + b) 0
    let list := symbolList ((List.range 48).filter fun i => m.testBit i)
    if plan == "noplan" then
      -- the optimiser found no plan: `ok_or(TooMuchOrIllegalData)`, after the two early exits
      if list.isEmpty then some "err:SymbolListEmpty" else some "err:TooMuchOrIllegalData"
    else
      match Enc.run list (unhex pre) (unhex body) (parseEPlan plan) with
      | .ok (cw, sym) => some s!"ok:{sym}:{hex cw}"
      | .error .tooMuch => some "err:TooMuchOrIllegalData"
      | .error .listEmpty => some "err:SymbolListEmpty"
      | .error (.panic _) => some "panic"
      | .error .fuel => some "fuel"
  | ["planok", body, plan] =>
    -- the decidable side condition of the coupling theorems (`DM/Props/C18Couple.lean`), evaluated on the
    -- plan the implementation used: no switch out of C40/Text scheduled for the last two characters when
    -- these are digits, except the switch to ASCII exactly in front of them
    some (if DM.Model.PlanSide.planOK (unhex body) (parseEPlan plan) then "true" else "false")
  | _ => none

end DM.Drv
