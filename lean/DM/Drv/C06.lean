import DM.Drv.Util
import DM.Model.RSEnc
import DM.Spec.GF256
namespace DM.Drv
open DM.Model DM.Spec

/-- oracle: all syndromes of all blocks of `data ++ ecc` (de-interleaved by the standard's
rule) vanish, in the specification's arithmetic; the count is the catalogue's. -/
def rsOracle (s : Sym) (data ecc : List Nat) : String :=
  let r := row s
  if ecc.length ≠ r.blocks * r.eccPer then s!"fail:ecc-length {ecc.length}"
  else
    let bad := (List.range r.blocks).filter fun b =>
      !isCodeword (strided data b r.blocks ++ strided ecc b r.blocks) r.eccPer
    match bad with
    | [] => "ok"
    | b :: _ =>
      let syn := syndromes (strided data b r.blocks ++ strided ecc b r.blocks) r.eccPer
      s!"fail:block {b} syndromes {syn}"

def c06 (args : List String) : Option String :=
  match args with
  | ["ecc", s, d] =>
    match encodeError s.toNat! (unhex d) with
    | .ok e => some (hex e)
    | .error _ => some "panic"
  | ["rs", s, d, e] =>
    if e == "panic" then some "fail:panic" else some (rsOracle s.toNat! (unhex d) (unhex e))
  | _ => none

end DM.Drv
