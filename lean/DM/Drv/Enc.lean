import DM.Drv.Util
import DM.Drv.C06
import DM.Spec.Stream
import DM.Model.Symbol
import DM.Spec.Opt
import DM.Model.EncPrefix
/-
Oracles evaluated on the implementation's encoder output (properties C02, C13, C16, C18,
C19, C11). One request describes a whole encoding; `flags` selects the checks.
-/
namespace DM.Drv
open DM.Model DM.Spec DM.Spec.Stream

structure EncCase where
  modes : Nat                -- bit set, the crate's own values (Ascii=1,C40=2,Text=4,X12=8,Edifact=16,Base256=32)
  mask : Nat                 -- allowed sizes, bit i = SYMBOL_SIZES[i]
  macros : Bool
  fnc1 : Bool
  eci : Option Nat
  input : List Nat

structure EncOk where
  size : Nat
  ndata : Nat
  cw : List Nat
  plan : List (Nat × Char)
  steps : Nat
  maxLive : Nat
  cost12 : Nat

def modeBit : Mode → Nat
  | .ascii => 1 | .c40 => 2 | .text => 4 | .x12 => 8 | .edifact => 16 | .base256 => 32

def charBit (c : Char) : Nat :=
  match c with
  | 'A' => 1 | 'C' => 2 | 'T' => 4 | 'X' => 8 | 'E' => 16 | 'B' => 32 | _ => 0

def enabled (modes : Nat) (bit : Nat) : Bool := modes / bit % 2 == 1

def maskList (mask : Nat) : List Nat := (List.range 48).filter fun i => mask.testBit i

def parsePlan (s : String) : List (Nat × Char) :=
  if s == "-" then [] else
  (s.splitOn ",").filterMap fun t =>
    match t.toList.reverse with
    | c :: rest => some ((String.ofList rest.reverse).toNat!, c)
    | [] => none

def parseResp (s : String) : Except String (Option EncOk) :=
  match s.splitOn ":" with
  | ["ok", size, ndata, cw, plan, steps, live, cost] =>
    .ok (some { size := size.toNat!, ndata := ndata.toNat!, cw := unhex cw, plan := parsePlan plan,
                steps := steps.toNat!, maxLive := live.toNat!, cost12 := cost.toNat! })
  | "err" :: _ => .ok none
  | _ => .error s

def macroHeadOf (input : List Nat) : Nat :=
  if input.length ≥ 9 ∧ input.take 7 = macroHead 5 ∧ input.drop (input.length - 2) = macroTrail then 5
  else if input.length ≥ 9 ∧ input.take 7 = macroHead 6 ∧ input.drop (input.length - 2) = macroTrail then 6
  else 0

/-- number of codewords written before the planner starts (FNC1 / macro / ECI designator) -/
def prefixLen (c : EncCase) (d : Decoded) : Nat :=
  (if d.fnc1 then 1 else 0) + (if d.macro ≠ 0 then 1 else 0) +
  (match c.eci with
   | none => 0
   | some e => if e ≤ 126 then 2 else if e ≤ 16382 then 3 else 4)

def checkR (c : EncCase) (r : EncOk) (d : Decoded) : Option String :=
  let list := symbolList (maskList c.mask)
  if !(list.contains r.size) then some "size-not-in-list"
  else if r.ndata ≠ dataCw r.size then some s!"data-length {r.ndata} != {dataCw r.size}"
  else if r.cw.length ≠ totalCw r.size then some s!"total-length {r.cw.length}"
  else if d.bytes ≠ c.input then some s!"spec-decode-differs {hex d.bytes}"
  else if d.fnc1 ≠ c.fnc1 then some "fnc1-flag"
  else if d.ecis ≠ (match c.eci with | none => [] | some e => [(0, e)]) then some s!"eci {d.ecis}"
  else
    let o := rsOracle r.size (r.cw.take r.ndata) (r.cw.drop r.ndata)
    if o ≠ "ok" then some ("rs-" ++ o) else none

/-- C13: no latch into a disabled mode; every byte carried by an enabled mode, except an
end-of-data ASCII fallback of at most 4 characters after some latch -/
def checkM (c : EncCase) (d : Decoded) : Option String :=
  match d.latches.find? (fun l => !enabled c.modes (modeBit l.2)) with
  | some l => some s!"latch-to-disabled-mode {l.2.char} at {l.1}"
  | none =>
    match d.trace.find? (fun m => m != .ascii && !enabled c.modes (modeBit m)) with
    | some m => some s!"byte-carried-by-disabled {m.char}"
    | none =>
      if enabled c.modes 1 then none
      else
        -- ASCII disabled: ASCII-carried bytes must be a short suffix after a latch
        let tr := d.trace
        let suffix := (tr.reverse.takeWhile (· == .ascii)).length
        let asciiTotal := (tr.filter (· == .ascii)).length
        if asciiTotal ≠ suffix then some "ascii-used-in-the-middle-while-disabled"
        else if suffix > 4 then some s!"ascii-fallback-too-long {suffix}"
        else if suffix > 0 ∧ d.latches.isEmpty then some "ascii-used-without-any-latch-while-disabled"
        else none

/-- C16: macro codeword exactly when enabled, no FNC1 start, envelope present; FNC1 first -/
def checkA (c : EncCase) (r : EncOk) (d : Decoded) : Option String :=
  let want := if c.macros ∧ !c.fnc1 then macroHeadOf c.input else 0
  if d.macro ≠ want then some s!"macro {d.macro} expected {want}"
  else if c.fnc1 ∧ r.cw.head? ≠ some 232 then some "fnc1-not-first"
  else if !c.fnc1 ∧ want = 0 ∧ (r.cw.head? = some 236 ∨ r.cw.head? = some 237 ∨ r.cw.head? = some 232) then
    some "spurious-header-codeword"
  else none

/-- C18: plan well formed, latches = planned non-ASCII modes with >= 1 character, size as predicted -/
def checkP (c : EncCase) (r : EncOk) (d : Decoded) : Option String :=
  let n := d.body.length
  let plan := r.plan
  if plan.isEmpty then some "no-plan" else
  match plan.find? (fun p => !enabled c.modes (charBit p.2)) with
  | some p => some s!"plan-names-disabled-mode {p.2}"
  | none =>
    let pos := plan.map (·.1)
    if pos.getLast? ≠ some 0 then some "plan-does-not-end-at-0"
    else if !(pos.zip pos.tail).all (fun (a, b) => a ≥ b) then some "plan-positions-increase"
    else if (pos.head?.getD 0) > n then some "plan-starts-beyond-input"
    else
      -- characters assigned to each entry
      let nxt := pos.tail ++ [0]
      let assigned := (plan.zip nxt).filter fun (p, b) => p.1 > b ∧ p.2 ≠ 'A'
      let planned := assigned.map fun (p, _) => p.2
      -- consecutive entries of the same mode are one run
      let rec dedup : List Char → List Char
        | a :: b :: t => if a == b then dedup (b :: t) else a :: dedup (b :: t)
        | l => l
      let latched := d.latches.map fun l => l.2.char
      if dedup planned ≠ latched ∧ planned ≠ latched then
        some s!"latches {String.ofList latched} planned {String.ofList planned}"
      else
        let list := symbolList (maskList c.mask)
        let pre := prefixLen c d
        match firstBigEnough list (pre + r.cost12 / 12) with
        | none => some s!"planner-predicted-no-fit cost {r.cost12}"
        | some ps =>
          if dataCw r.size > dataCw ps then some s!"size {r.size} larger than predicted {ps}" else none

/-- C19: instrumented step count and live plans -/
def checkK (c : EncCase) (r : EncOk) (d : Decoded) : Option String :=
  let n := d.body.length
  let _ := c
  if r.maxLive > 36 then some s!"live-plans {r.maxLive}"
  else if r.steps > 216 * (n + 1) + 5 then some s!"steps {r.steps} for n={n}"
  else none

/-- C10: no listed symbol of smaller capacity admits a legal encoding found by the search;
the witness stream is part of the message -/
def checkO (c : EncCase) (sizeCap : Option Nat) : Option String :=
  if c.eci.isSome then none else
  let list := symbolList (maskList c.mask)
  let caps := list.map dataCw
  -- the header codeword in front of the data: FNC1 start, or the Macro codeword of an enveloped message
  let mh := if c.macros ∧ !c.fnc1 then macroHeadOf c.input else 0
  let hdr := if c.fnc1 then 1 else mh
  let body := if mh ≠ 0 then (c.input.drop 7).take (c.input.length - 9) else c.input
  match DM.Spec.Opt.searchH hdr c.input body c.modes caps with
  | none => none
  | some a =>
    let wcap := caps.getD a.capIndex 0
    let cw := DM.Spec.Build.build a.script
    -- class of the witness: a C40/Text run ending with the symbol, followed by one ASCII codeword
    -- for a last character that needs more than one C40/Text value (known finding K-A)
    let cls := match a.script.items.reverse with
      | .ascii _ [b] :: .c40 text _ false :: _ =>
        if (DM.Spec.Build.c40Vals text b).length ≥ 2 then "[shifted-last-char-as-ascii-tail]" else ""
      | _ => ""
    -- class of the witness: it leaves a mode and latches straight back into the same mode to
    -- realign its groups (the planner's add_switches never re-enters the current mode)
    let kind : DM.Spec.Build.Item → Nat
      | .ascii _ _ => 0 | .c40 t _ _ => if t then 2 else 1 | .x12 _ _ => 3 | .edifact _ _ => 4 | .base256 _ _ => 5
    let ks := a.script.items.map kind
    let cls := if cls == "" ∧ (ks.zip ks.tail).any (fun (x, y) => x ≠ 0 ∧ x == y) then "[relatch-same-mode]" else cls
    match sizeCap with
    | some cap => if cap > wcap then some s!"{cls}needs-{cap}-but-{wcap}-suffices:witness:{hex cw}" else none
    | none => some s!"{cls}refused-but-{wcap}-suffices:witness:{hex cw}"

/-- greedy ASCII codeword count (digit pairs 1, bytes >= 128 two, others one), written here independently of the models -/
def plainAsciiLen : List Nat → Nat
  | a :: b :: t =>
    if 48 ≤ a ∧ a ≤ 57 ∧ 48 ≤ b ∧ b ≤ 57 then 1 + plainAsciiLen t
    else (if a ≤ 127 then 1 else 2) + plainAsciiLen (b :: t)
  | [a] => if a ≤ 127 then 1 else 2
  | [] => 0

/-- C10 / C16: a refusal is wrong when the header codewords followed by the plain ASCII (or plain Base 256)
encodation of the body fit the largest listed symbol and that mode is enabled. For C16 (`macroOnly`) only
enveloped messages are judged: there the refusal means that the message was not compacted although it should be. -/
def checkRefusal (c : EncCase) (macroOnly : Bool) : Option String :=
  let list := symbolList (maskList c.mask)
  let cap := (list.map dataCw).foldl max 0
  let mh := if c.macros ∧ !c.fnc1 then macroHeadOf c.input else 0
  if macroOnly ∧ mh = 0 then none else
  let body := if mh ≠ 0 then (c.input.drop 7).take (c.input.length - 9) else c.input
  let pre := (if c.fnc1 then 1 else 0) + (if mh ≠ 0 then 1 else 0) +
    (match c.eci with
     | none => 0
     | some e => if e ≤ 126 then 2 else if e ≤ 16382 then 3 else 4)
  let n := body.length
  if enabled c.modes 1 ∧ pre + plainAsciiLen body ≤ cap then
    some s!"refused-although-plain-ascii-needs-{pre + plainAsciiLen body}-of-{cap}"
  else if enabled c.modes 32 ∧ 0 < n ∧ n ≤ 1555 ∧ pre + 1 + (if n ≤ 249 then 1 else 2) + n ≤ cap then
    some s!"refused-although-plain-base256-needs-{pre + 1 + (if n ≤ 249 then 1 else 2) + n}-of-{cap}"
  else none

def encOracle (flags : String) (c : EncCase) (resp : String) : String :=
  match parseResp resp with
  | .error e =>
    if flags.contains 't' || flags.contains 'r' then s!"fail:{e}" else "ok"
  | .ok none =>
    if flags.contains 't' then
      let empty := c.mask = 0
      if empty ∧ resp ≠ "err:SymbolListEmpty" then "fail:empty-list-not-reported"
      else if !empty ∧ resp ≠ "err:TooMuchOrIllegalData" then s!"fail:wrong-error {resp}"
      else "ok"
    else if flags.contains 'o' ∧ c.mask ≠ 0 then
      match checkRefusal c false with
      | some m => s!"fail:o:{m}"
      | none =>
        match checkO c none with
        | some m => s!"fail:o:{m}"
        | none => "ok"
    else if flags.contains 'a' ∧ c.mask ≠ 0 then
      match checkRefusal c true with
      | some m => s!"fail:a:{m}"
      | none => "ok"
    else "ok"
  | .ok (some r) =>
    match Stream.decode (r.cw.take r.ndata) with
    | .error e => s!"fail:spec-decoder-rejects {e}"
    | .ok d =>
      let checks : List (Char × Option String) :=
        [('r', checkR c r d), ('m', checkM c d), ('a', checkA c r d), ('p', checkP c r d), ('k', checkK c r d),
         ('t', if c.mask = 0 then some "encoded-with-empty-list" else none),
         ('o', if flags.contains 'o' then checkO c (some (dataCw r.size)) else none)]
      match checks.find? (fun (f, res) => flags.contains f && res.isSome) with
      | some (f, some msg) => s!"fail:{f}:{msg}"
      | _ => "ok"

def encOp (args : List String) : Option String :=
  match args with
  | ["enc", flags, modes, mask, mac, fnc1, eci, input, resp] =>
    let c : EncCase := { modes := modes.toNat!, mask := (unhex mask).foldl (fun a b => a * 256 + b) 0,
                         macros := mac == "1", fnc1 := fnc1 == "1",
                         eci := if eci == "-" then none else some eci.toNat!, input := unhex input }
    some (encOracle flags c resp)
  | ["mprefix", m, f, d] =>
    match macroPrefix (unhex d) (m == "1") (f == "1") with
    | .ok cw body => some s!"ok:{hex cw}:{hex body}"
    | .panic => some "panic"
  | ["apad", s, a, pre] =>
    match addPadding (unhex pre) (a == "1") (dataCw s.toNat!) with
    | some v => some (hex v)
    | none => some "panic"
  | ["specdec", cw] =>
    match Stream.decode (unhex cw) with
    | .ok d => some s!"ok:{hex d.bytes}:{String.ofList (d.trace.map Mode.char)}"
    | .error e => some s!"err:{e}"
  | _ => none

end DM.Drv
