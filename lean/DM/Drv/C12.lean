import DM.Drv.Util
import DM.Model.Symbol
namespace DM.Drv
open DM.Model

def parseBound (s : String) : Bound :=
  match s.toList with
  | 'i' :: r => .included ((String.ofList r).toNat!)
  | 'e' :: r => .excluded ((String.ofList r).toNat!)
  | _ => .unbounded

def c12 (args : List String) : Option String :=
  match args with
  | ["list", l] => some (fmtNatList (symbolList (parseNatList l)))
  | ["filt", kind, lo, hi, l] =>
    let sl := symbolList (parseNatList l)
    let r := match kind with
      | "w" => enforceWidthIn (parseBound lo) (parseBound hi) sl
      | "h" => enforceHeightIn (parseBound lo) (parseBound hi) sl
      | "sq" => enforceSquare sl
      | _ => enforceRectangular sl
    some (fmtNatList r)
  | ["comp", lo1, hi1, lo2, hi2, shape, l] =>
    let sl := symbolList (parseNatList l)
    let sl := enforceHeightIn (parseBound lo2) (parseBound hi2) (enforceWidthIn (parseBound lo1) (parseBound hi1) sl)
    let sl := if shape == "1" then enforceSquare sl else if shape == "2" then enforceRectangular sl else sl
    some (fmtNatList sl)
  | ["first", l, n] => some (fmtOptNat (firstBigEnough (symbolList (parseNatList l)) n.toNat!))
  | ["upper", l, n] => some (fmtOptNat (upperLimit (symbolList (parseNatList l)) n.toNat!))
  | ["maxcap", l] => some (toString (maxCapacity (symbolList (parseNatList l))))
  | _ => none

end DM.Drv
