/- Parsing helpers of the line-protocol driver. -/
namespace DM.Drv

def hexVal (c : Char) : Nat :=
  if c.isDigit then c.toNat - 48
  else if 'a' ≤ c ∧ c ≤ 'f' then c.toNat - 87
  else c.toNat - 55

def unhex (s : String) : List Nat :=
  let rec go : List Char → List Nat
    | a :: b :: t => (hexVal a * 16 + hexVal b) :: go t
    | _ => []
  if s == "-" then [] else go s.toList

def hexDigit (n : Nat) : Char :=
  if n < 10 then Char.ofNat (48 + n) else Char.ofNat (87 + n)

def hex (l : List Nat) : String :=
  if l.isEmpty then "-" else
  String.ofList (l.flatMap fun b => [hexDigit (b / 16 % 16), hexDigit (b % 16)])

def parseNatList (s : String) : List Nat :=
  if s == "-" then [] else (s.splitOn ",").filterMap (·.toNat?)

def fmtNatList (l : List Nat) : String :=
  if l.isEmpty then "-" else ",".intercalate (l.map toString)

def fmtOptNat : Option Nat → String
  | some n => toString n
  | none => "none"

end DM.Drv

namespace DM.Drv

/-- bits packed as "<n>:<hex>", four bits per hex digit, most significant first -/
def unpackBits (s : String) : List Bool :=
  match s.splitOn ":" with
  | [n, h] =>
    let n := n.toNat!
    let all := h.toList.flatMap fun c =>
      let v := hexVal c
      [v / 8 % 2 == 1, v / 4 % 2 == 1, v / 2 % 2 == 1, v % 2 == 1]
    all.take n
  | _ => []

end DM.Drv
