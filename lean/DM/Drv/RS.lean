import DM.Drv.Util
import DM.Drv.C06
import DM.Model.RSDec
namespace DM.Drv
open DM.Model DM.Model.RS

def rerrStr : RErr → String
  | .tooManyErrors => "err:TooManyErrors"
  | .errorsOutsideRange => "err:ErrorsOutsideRange"
  | .malfunction => "err:Malfunction"
  | .panic _ => "panic"

def rsOp (args : List String) : Option String :=
  match args with
  | ["rsdec", s, w] =>
    match RS.decode s.toNat! (unhex w) with
    | .ok v => some s!"ok:{hex v}"
    | .error e => some (rerrStr e)
  | ["rscw", s, w] =>
    let s := s.toNat!
    let w := unhex w
    some (rsOracle s (w.take (dataCw s)) (w.drop (dataCw s)))
  | _ => none

end DM.Drv
