import DM.Drv.C12
import DM.Drv.C06
import DM.Drv.C07
import DM.Drv.C08
import DM.Drv.Enc
import DM.Drv.Dec
import DM.Drv.C17
import DM.Drv.RS
import DM.Spec.Build
import DM.Drv.Api
import DM.Drv.Prune
import DM.Drv.EncRun
import DM.Drv.Plan
import DM.Drv.OptDiff
import DM.Props.C04
open DM.Drv

def dispatch (args : List String) : String :=
  match c12 args with
  | some r => r
  | none =>
  match c06 args with
  | some r => r
  | none =>
  match c07 args with
  | some r => r
  | none =>
  match c08 args with
  | some r => r
  | none =>
  match encOp args with
  | some r => r
  | none =>
  match decOp args with
  | some r => r
  | none =>
  match c17 args with
  | some r => r
  | none =>
  match rsOp args with
  | some r => r
  | none =>
  match apiOp args with
  | some r => r
  | none =>
  match pruneOp args with
  | some r => r
  | none =>
  match encRunOp args with
  | some r => r
  | none =>
  match optimizeOp args with
  | some r => r
  | none =>
  match optDiffOp args with
  | some r => r
  | none => "bad-op"

partial def loop (hin : IO.FS.Stream) (hout : IO.FS.Stream) : IO Unit := do
  let line ← hin.getLine
  if line.isEmpty then return ()
  let args := (line.trimAscii.toString.splitOn " ").filter (· ≠ "")
  hout.putStrLn (dispatch args)
  loop hin hout

def main (args : List String) : IO Unit := do
  let hout ← IO.getStdout
  match args with
  | ["gen-c04", seed, n] =>
    -- generator mode: legal streams from the reference builder, self-checked with the reference decoder
    -- fourth field: does the script satisfy the hypothesis of `decoder_complete` (C04)?
    for s in DM.Spec.Build.genScripts seed.toNat! n.toNat! do
      let cw := DM.Spec.Build.build s
      let bytes := DM.Spec.Build.meaning s
      let self := match DM.Spec.Stream.decode cw with
        | .ok d => if d.bytes == bytes then "ok" else "spec-disagrees"
        | .error e => "spec-rejects:" ++ e.replace " " "_"
      let wf := if decide (DM.Props.C04.WFScript s) then "wf" else "nwf"
      hout.putStrLn s!"{hex cw} {hex bytes} {self} {wf}"
  | _ =>
    let hin ← IO.getStdin
    loop hin hout
