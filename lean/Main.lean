import DM.Drv.C12
import DM.Drv.C06
import DM.Drv.C07
import DM.Drv.C08
import DM.Drv.Enc
import DM.Drv.Dec
import DM.Drv.C17
import DM.Drv.RS
import DM.Spec.Build
import DM.Drv.Api
import DM.Drv.Prune
import DM.Drv.EncRun
import DM.Drv.Plan
open DM.Drv

def dispatch (args : List String) : String :=
  match c12 args with
  | some r => r
  | none =>
  match c06 args with
  | some r => r
  | none =>
  match c07 args with
  | some r => r
  | none =>
  match c08 args with
  | some r => r
  | none =>
  match encOp args with
  | some r => r
  | none =>
  match decOp args with
  | some r => r
  | none =>
  match c17 args with
  | some r => r
  | none =>
  match rsOp args with
  | some r => r
  | none =>
  match apiOp args with
  | some r => r
  | none =>
  match pruneOp args with
  | some r => r
  | none =>
  match encRunOp args with
  | some r => r
  | none =>
  match optimizeOp args with
  | some r => r
  | none => "bad-op"

partial def loop (hin : IO.FS.Stream) (hout : IO.FS.Stream) : IO Unit := do
  let line ← hin.getLine
  if line.isEmpty then return ()
  let args := (line.trimAscii.toString.splitOn " ").filter (· ≠ "")
  hout.putStrLn (dispatch args)
  loop hin hout

def main (args : List String) : IO Unit := do
  let hout ← IO.getStdout
  match args with
  | ["gen-c04", seed, n] =>
    -- generator mode: legal streams from the reference builder, self-checked with the reference decoder
    for (cw, bytes) in DM.Spec.Build.genStreams seed.toNat! n.toNat! do
      let self := match DM.Spec.Stream.decode cw with
        | .ok d => if d.bytes == bytes then "ok" else "spec-disagrees"
        | .error e => "spec-rejects:" ++ e.replace " " "_"
      hout.putStrLn s!"{hex cw} {hex bytes} {self}"
  | _ =>
    let hin ← IO.getStdin
    loop hin hout
