import DM.Drv.C12
import DM.Drv.C06
import DM.Drv.C07
import DM.Drv.C08
import DM.Drv.Enc
import DM.Drv.Dec
import DM.Drv.C17
import DM.Drv.RS
open DM.Drv

def dispatch (args : List String) : String :=
  match c12 args with
  | some r => r
  | none =>
  match c06 args with
  | some r => r
  | none =>
  match c07 args with
  | some r => r
  | none =>
  match c08 args with
  | some r => r
  | none =>
  match encOp args with
  | some r => r
  | none =>
  match decOp args with
  | some r => r
  | none =>
  match c17 args with
  | some r => r
  | none =>
  match rsOp args with
  | some r => r
  | none => "bad-op"

partial def loop (hin : IO.FS.Stream) (hout : IO.FS.Stream) : IO Unit := do
  let line ← hin.getLine
  if line.isEmpty then return ()
  let args := (line.trimAscii.toString.splitOn " ").filter (· ≠ "")
  hout.putStrLn (dispatch args)
  loop hin hout

def main : IO Unit := do
  let hin ← IO.getStdin
  let hout ← IO.getStdout
  loop hin hout
